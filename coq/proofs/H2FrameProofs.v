(* Proofs about the HTTP/2 frame codec model (C32). *)
From Coq Require Import List ZArith Bool Lia ZifyBool.
From Bfe Require Import lib.Val lib.ValProofs model.H2Frame run.RunC32.
Import ListNotations.
Open Scope Z_scope.

Lemma blen_cons x l : blen (x :: l) = blen l + 1.
Proof. unfold blen. cbn [length]. lia. Qed.
Lemma blen_nil : blen [] = 0.
Proof. reflexivity. Qed.
Lemma blen_app a b : blen (a ++ b) = blen a + blen b.
Proof. unfold blen. rewrite app_length. lia. Qed.
Lemma blen_nonneg l : 0 <= blen l.
Proof. unfold blen. lia. Qed.

Lemma dropZ_le0 n l : n <= 0 -> dropZ n l = l.
Proof. intro H. destruct l; simpl; [reflexivity|]. destruct (Z.leb_spec n 0); [reflexivity|lia]. Qed.
Lemma takeZ_le0 n l : n <= 0 -> takeZ n l = [].
Proof. intro H. destruct l; simpl; [reflexivity|]. destruct (Z.leb_spec n 0); [reflexivity|lia]. Qed.
Lemma dropZ_cons n x l : 0 < n -> dropZ n (x :: l) = dropZ (n - 1) l.
Proof. intro H. simpl. destruct (Z.leb_spec n 0); [lia|reflexivity]. Qed.
Lemma takeZ_cons n x l : 0 < n -> takeZ n (x :: l) = x :: takeZ (n - 1) l.
Proof. intro H. simpl. destruct (Z.leb_spec n 0); [lia|reflexivity]. Qed.

Lemma dropZ_app a b : dropZ (blen a) (a ++ b) = b.
Proof.
  induction a as [|x a IH]; [apply dropZ_le0; reflexivity|].
  cbn [app]. rewrite dropZ_cons by (rewrite blen_cons; pose proof (blen_nonneg a); lia).
  rewrite blen_cons. replace (blen a + 1 - 1) with (blen a) by lia. exact IH.
Qed.
Lemma takeZ_app a b : takeZ (blen a) (a ++ b) = a.
Proof.
  induction a as [|x a IH]; [apply takeZ_le0; reflexivity|].
  cbn [app]. rewrite takeZ_cons by (rewrite blen_cons; pose proof (blen_nonneg a); lia).
  rewrite blen_cons. replace (blen a + 1 - 1) with (blen a) by lia. rewrite IH. reflexivity.
Qed.
Lemma takeZ_all a : takeZ (blen a) a = a.
Proof. rewrite <- (app_nil_r a) at 2. apply takeZ_app. Qed.
Lemma blen_dropZ l : forall n, 0 <= n <= blen l -> blen (dropZ n l) = blen l - n.
Proof.
  induction l as [|x l IH]; intros n H.
  - simpl. rewrite blen_nil in *. lia.
  - destruct (Z.eq_dec n 0) as [->|Hn]; [rewrite dropZ_le0 by lia; lia|].
    rewrite dropZ_cons by lia. rewrite blen_cons in *. rewrite IH by lia. lia.
Qed.

(* ---------- rules: whatever the model's ReadFrame accepts violates no frame-level rule ---------- *)
Ltac split_ifs H :=
  repeat match type of H with context [if ?c then _ else _] => destruct c eqn:? end.

Ltac fin_ty H1 H2 :=
  cbn in H1, H2 |- *; split_ifs H1; try discriminate; split_ifs H2; try discriminate; lia.

Lemma rules_sound maxread lhs h p b lhs' :
  h_len h = blen p -> h_len h <= maxread ->
  parse_body h p = POk b -> check_order lhs h = Some lhs' ->
  must_reject maxread lhs h p = false.
Proof.
  destruct h as [ty fl sid len]. unfold must_reject, parse_body, check_order. cbn [h_ty h_fl h_sid h_len].
  intros -> Hmax.
  generalize (hasf fl 8) (hasf fl 32) (hasf fl 1) (hasf fl 4). intros f8 f32 f1 f4.
  generalize (dec32 p mod P31). intro inc.
  generalize (settings_value (length p) p 4). intro sv.
  generalize (blen p mod 6). intro m6.
  assert (Htl : blen p = 0 \/ blen (tl p) = blen p - 1).
  { destruct p; [left; reflexivity|right]. cbn [tl]. rewrite blen_cons. lia. }
  pose proof (blen_nonneg p) as Hp0. pose proof (blen_nonneg (tl p)) as Ht0.
  pose proof (blen_dropZ p 5) as Hd5p. pose proof (blen_dropZ (tl p) 5) as Hd5t.
  pose proof (blen_dropZ p 4) as Hd4p. pose proof (blen_dropZ (tl p) 4) as Hd4t.
  destruct f8, f32; cbv beta iota zeta;
  revert Hd5p Hd5t Hd4p Hd4t Htl Hmax Hp0 Ht0;
  generalize (blen (dropZ 5 p)) (blen (dropZ 5 (tl p))) (blen (dropZ 4 p)) (blen (dropZ 4 (tl p))) (blen (tl p)) (hd 0 p) (blen p);
  intros n5 n5t n4 n4t nt h0 n Hd5p Hd5t Hd4p Hd4t Htl Hmax Hp0 Ht0;
  intros H1 H2.
  all: destruct (Z.eqb_spec ty 0) as [->|N0]; [fin_ty H1 H2|].
  all: destruct (Z.eqb_spec ty 1) as [->|N1]; [fin_ty H1 H2|].
  all: destruct (Z.eqb_spec ty 2) as [->|N2]; [fin_ty H1 H2|].
  all: destruct (Z.eqb_spec ty 3) as [->|N3]; [fin_ty H1 H2|].
  all: destruct (Z.eqb_spec ty 4) as [->|N4]; [destruct sv; fin_ty H1 H2|].
  all: destruct (Z.eqb_spec ty 5) as [->|N5]; [fin_ty H1 H2|].
  all: destruct (Z.eqb_spec ty 6) as [->|N6]; [fin_ty H1 H2|].
  all: destruct (Z.eqb_spec ty 7) as [->|N7]; [fin_ty H1 H2|].
  all: destruct (Z.eqb_spec ty 8) as [->|N8]; [fin_ty H1 H2|].
  all: destruct (Z.eqb_spec ty 9) as [->|N9]; [fin_ty H1 H2|].
  all: fin_ty H1 H2.
Qed.

(* ---------- round trip ---------- *)
Ltac Zify.zify_post_hook ::= Z.div_mod_to_equations.

Lemma dec24_eq n : 0 <= n < 16777216 ->
  (n / 65536 mod 256 * 256 + n / 256 mod 256) * 256 + n mod 256 = n.
Proof. intro H. lia. Qed.
Lemma dec32_eq v : 0 <= v < 4294967296 ->
  ((v / 16777216 mod 256 * 256 + v / 65536 mod 256) * 256 + v / 256 mod 256) * 256 + v mod 256 = v.
Proof. intro H. lia. Qed.
Lemma dec32_enc32 v r : 0 <= v < 4294967296 -> dec32 (enc32 v ++ r) = v.
Proof. intro H. unfold enc32, dec32. cbn [app]. apply dec32_eq. exact H. Qed.
Lemma dec16_enc16 v r : 0 <= v < 65536 -> dec16 (enc16 v ++ r) = v.
Proof. intro H. unfold enc16, dec16. cbn [app]. lia. Qed.
Lemma blen_enc32 v : blen (enc32 v) = 4.
Proof. reflexivity. Qed.
Lemma blen_repeat n : 0 <= n -> blen (repeat 0 (Z.to_nat n)) = n.
Proof. intro H. unfold blen. rewrite repeat_length. lia. Qed.

Lemma read_frame_hdr maxread lhs a0 a1 a2 ty fl s0 s1 s2 s3 tail :
  read_frame maxread lhs (a0 :: a1 :: a2 :: ty :: fl :: s0 :: s1 :: s2 :: s3 :: tail) =
  let h := mkh ty fl ((((s0 * 256 + s1) * 256 + s2) * 256 + s3) mod P31) ((a0 * 256 + a1) * 256 + a2) in
  if h_len h >? maxread then (RTooLarge, lhs, tail)
  else if (h_len h >? 0) && (blen tail =? 0) then (REOF, lhs, [])
  else if blen tail <? h_len h then (RUnexpEOF, lhs, [])
  else match parse_body h (takeZ (h_len h) tail) with
       | PErr e => (e, lhs, dropZ (h_len h) tail)
       | POk b => match check_order lhs h with
                  | None => (RConn 1, lhs, dropZ (h_len h) tail)
                  | Some lhs' => (ROk h b, lhs', dropZ (h_len h) tail)
                  end
       end.
Proof.
  unfold read_frame.
  assert (E : blen (a0 :: a1 :: a2 :: ty :: fl :: s0 :: s1 :: s2 :: s3 :: tail) <? 9 = false).
  { rewrite !blen_cons. pose proof (blen_nonneg tail). lia. }
  rewrite E. unfold parse_hdr.
  assert (D9 : dropZ 9 (a0 :: a1 :: a2 :: ty :: fl :: s0 :: s1 :: s2 :: s3 :: tail) = tail).
  { rewrite !dropZ_cons by lia. apply dropZ_le0. lia. }
  assert (D5 : dropZ 5 (a0 :: a1 :: a2 :: ty :: fl :: s0 :: s1 :: s2 :: s3 :: tail) = s0 :: s1 :: s2 :: s3 :: tail).
  { do 5 (rewrite dropZ_cons by lia). apply dropZ_le0. lia. }
  rewrite D9, D5. reflexivity.
Qed.

Lemma read_written maxread lhs ty fl sid p rest b lhs' :
  0 <= sid < P31 -> blen p < 16777216 -> blen p <= maxread ->
  parse_body (mkh ty fl sid (blen p)) p = POk b ->
  check_order lhs (mkh ty fl sid (blen p)) = Some lhs' ->
  read_frame maxread lhs (frame_bytes ty fl sid p ++ rest) = (ROk (mkh ty fl sid (blen p)) b, lhs', rest).
Proof.
  intros Hs Hl Hm Hp Ho. unfold frame_bytes, enc24, enc32. rewrite <- !app_assoc. cbn [app].
  rewrite read_frame_hdr. cbv zeta.
  pose proof (blen_nonneg p) as Hp0. pose proof (blen_nonneg rest) as Hr0.
  rewrite (dec24_eq (blen p)) by lia. unfold P31 in *. rewrite (dec32_eq sid) by lia.
  rewrite (Z.mod_small sid) by lia. cbn [h_len].
  destruct (Z.gtb_spec (blen p) maxread); [lia|].
  rewrite blen_app.
  destruct ((blen p >? 0) && (blen p + blen rest =? 0)) eqn:E1; [lia|].
  destruct (Z.ltb_spec (blen p + blen rest) (blen p)); [lia|].
  rewrite takeZ_app, dropZ_app, Hp, Ho. reflexivity.
Qed.

Definition rt_ok (c : wcmd) : Prop :=
  forall bytes h b maxread lhs lhs' rest,
    wf_cmd c = true -> empty_headers c = false ->
    write_cmd c = Some bytes -> expected c = Some (h, b) ->
    blen bytes < 16777216 -> h_len h <= maxread -> check_order lhs h = Some lhs' ->
    read_frame maxread lhs (bytes ++ rest) = (ROk h b, lhs', rest).

Lemma blen_frame_bytes ty fl sid p : blen (frame_bytes ty fl sid p) = 9 + blen p.
Proof. unfold frame_bytes. rewrite !blen_app. change (blen (enc24 (blen p))) with 3. change (blen [ty; fl]) with 2. change (blen (enc32 sid)) with 4. lia. Qed.

(* common tail of every case: the payload p parses to body b under the expected header *)
Lemma rt_finish ty fl sid p b bytes h b' maxread lhs lhs' rest :
  0 <= sid < P31 ->
  Some (frame_bytes ty fl sid p) = Some bytes -> Some (mkh ty fl sid (blen p), b) = Some (h, b') ->
  blen bytes < 16777216 -> h_len h <= maxread -> check_order lhs h = Some lhs' ->
  parse_body (mkh ty fl sid (blen p)) p = POk b ->
  read_frame maxread lhs (bytes ++ rest) = (ROk h b', lhs', rest).
Proof.
  intros Hs Hb He Hl Hm Ho Hp. inversion Hb; subst bytes. inversion He; subst h b'. clear Hb He.
  rewrite blen_frame_bytes in Hl. pose proof (blen_nonneg p). cbn [h_len] in Hm.
  apply read_written; auto; lia.
Qed.

Lemma rt_rst sid code : rt_ok (WRst sid code).
Proof.
  intros bytes h b maxread lhs lhs' rest Hwf _ Hw He Hl Hm Ho.
  cbn in Hwf, Hw, He. unfold validStreamID, sid_ok, u32_ok, P31 in *.
  destruct (negb (sid =? 0) && (sid <? 2147483648)) eqn:Ev; [|lia]. cbn in Hw.
  eapply rt_finish with (p := enc32 code); unfold P31; eauto; try lia.
  unfold parse_body. cbn [h_ty h_sid h_fl h_len]. cbn -[enc32 dec32].
  destruct (Z.eqb_spec sid 0); [lia|]. cbn.
  rewrite <- (app_nil_r (enc32 code)), dec32_enc32 by lia. reflexivity.
Qed.
