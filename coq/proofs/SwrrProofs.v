(* C01 proofs: exact shares of smooth weighted round robin (lifted from DESIGN.md Appendix F.4), the code's
   first-maximum pick as an instance of the choice function, embedding into the backend list, and the
   stale-credit refutation. *)
From Coq Require Import List ZArith Lia Bool Arith.
From Bfe Require Import lib.Val model.Swrr run.RunC01.
Import ListNotations.
Open Scope Z_scope.

(* --- basic facts about upd --- *)
Lemma sumw_map s : sumw (map (fun p => (fst p, snd p + fst p)) s) = sumw s.
Proof. induction s as [|[w c] r IH]; simpl; lia. Qed.
Lemma sumc_map s : sumc (map (fun p => (fst p, snd p + fst p)) s) = sumc s + sumw s.
Proof. induction s as [|[w c] r IH]; simpl; lia. Qed.
Lemma sumw_upd s i t : sumw (upd s i t) = sumw s.
Proof. revert i; induction s as [|[w c] r IH]; intros [|i]; simpl; rewrite ?sumw_map, ?IH; lia. Qed.
Lemma sumc_upd s i t : (i < length s)%nat -> sumc (upd s i t) = sumc s + sumw s - t.
Proof.
  revert i; induction s as [|[w c] r IH]; intros [|i] H; simpl in *; try lia.
  - rewrite sumc_map. lia.
  - rewrite IH by lia. lia.
Qed.
Lemma map_fst_map (s : st) : map fst (map (fun p => (fst p, snd p + fst p)) s) = map fst s.
Proof. induction s as [|[w c] r IH]; simpl; congruence. Qed.
Lemma map_fst_upd s i t : map fst (upd s i t) = map fst s.
Proof. revert i; induction s as [|[w c] r IH]; intros [|i]; simpl; rewrite ?map_fst_map, ?IH; reflexivity. Qed.

(* current of index j after upd *)
Lemma nth_map_add (s : st) j w c :
  nth_error s j = Some (w, c) -> nth_error (map (fun p => (fst p, snd p + fst p)) s) j = Some (w, c + w).
Proof. intros H. rewrite nth_error_map, H. reflexivity. Qed.

Lemma nth_upd s i t j w c :
  nth_error s j = Some (w, c) ->
  nth_error (upd s i t) j = Some (w, if Nat.eqb j i then c + w - t else c + w).
Proof.
  revert i j; induction s as [|[w0 c0] r IH]; intros i j H; [destruct j; discriminate|].
  destruct i as [|i], j as [|j]; simpl in *.
  - inversion H; subst. reflexivity.
  - apply nth_map_add. exact H.
  - inversion H; subst. reflexivity.
  - rewrite (IH i j H). reflexivity.
Qed.

(* --- the maximal current is positive when the total is positive --- *)
Lemma sumc_le_max (s : st) c : (forall j w' c', nth_error s j = Some (w', c') -> c' <= c) ->
  sumc s <= Z.of_nat (length s) * c.
Proof.
  induction s as [|[w0 c0] r IH]; intros H; simpl sumc; simpl length; [lia|].
  assert (c0 <= c) by (apply (H 0%nat w0 c0); reflexivity).
  assert (sumc r <= Z.of_nat (length r) * c) by (apply IH; intros j w' c' Hj; apply (H (S j) w' c'); exact Hj).
  rewrite Nat2Z.inj_succ. nia.
Qed.

Lemma max_pos s i w c : ok s i -> nth_error s i = Some (w, c) -> 0 < sumc s -> 0 < c.
Proof.
  intros [w1 [c1 [Hn Hmax]]] Hi Hs. rewrite Hi in Hn. inversion Hn; subst.
  pose proof (sumc_le_max s c1 Hmax). destruct (Z_lt_le_dec 0 c1); [assumption|].
  assert (Z.of_nat (length s) * c1 <= 0) by nia. lia.
Qed.

Lemma nth_error_ext' {X} (l1 l2 : list X) : (forall i, nth_error l1 i = nth_error l2 i) -> l1 = l2.
Proof.
  revert l2; induction l1 as [|x r IH]; intros [|y r2] H; try reflexivity;
    try (specialize (H 0%nat); simpl in H; discriminate).
  f_equal; [specialize (H 0%nat); simpl in H; congruence|]. apply IH. intros i. apply (H (S i)).
Qed.

(* --- executions: a choice function that always returns a maximal index --- *)
Section Exec.
Variable choose : st -> nat.
Variable ws : list Z.
Hypothesis Hpos : Forall (fun w => 0 < w) ws.
Hypothesis Hne : ws <> [].
Definition W := fold_right Z.add 0 ws.
Local Notation state := (Swrr.state choose ws).
Local Notation pick := (Swrr.pick choose ws).
Local Notation cnt := (Swrr.cnt choose ws).
Local Notation cntw := (Swrr.cntw choose ws).


Hypothesis Hok : forall n, ok (state n) (pick n).

Lemma sumw_fresh l : sumw (fresh l) = fold_right Z.add 0 l.
Proof. induction l as [|w r IH]; simpl; [reflexivity|]. rewrite IH. reflexivity. Qed.
Lemma sumc_fresh l : sumc (fresh l) = fold_right Z.add 0 l.
Proof. induction l as [|w r IH]; simpl; [reflexivity|]. rewrite IH. reflexivity. Qed.
Lemma map_fst_fresh l : map fst (fresh l) = l.
Proof. induction l as [|w r IH]; simpl; congruence. Qed.

Lemma W_pos : 0 < W.
Proof.
  unfold W. destruct ws as [|w r]; [congruence|]. inversion Hpos; subst. simpl.
  assert (0 <= fold_right Z.add 0 r).
  { clear - H2. induction r as [|x r IH]; simpl; [lia|]. inversion H2; subst. specialize (IH H3). lia. }
  lia.
Qed.

Lemma pick_lt n : (pick n < length (state n))%nat.
Proof.
  destruct (Hok n) as [w [c [Hn _]]]. apply nth_error_Some. rewrite Hn. discriminate.
Qed.

Lemma inv_sums n : sumw (state n) = W /\ sumc (state n) = W /\ map fst (state n) = ws.
Proof.
  induction n as [|n [IHw [IHc IHf]]]; simpl.
  - rewrite sumw_fresh, sumc_fresh, map_fst_fresh. auto.
  - unfold step. rewrite sumw_upd, sumc_upd, map_fst_upd by apply pick_lt. repeat split; try assumption; lia.
Qed.

(* closed form of every credit *)
Lemma closed_form n i w : nth_error ws i = Some w ->
  nth_error (state n) i = Some (w, w + Z.of_nat n * w - cnt i n * W).
Proof.
  intros Hw. induction n as [|n IH].
  - simpl. unfold fresh. rewrite nth_error_map, Hw. simpl. f_equal. f_equal. lia.
  - simpl state. unfold step. rewrite (nth_upd _ _ _ _ _ _ IH).
    destruct (inv_sums n) as [_ [Hc _]]. rewrite Hc. simpl cnt. fold (pick n).
    destruct (Nat.eqb i (pick n)); f_equal; f_equal; rewrite Nat2Z.inj_succ; nia.
Qed.

(* lower bound: every credit stays above w - W *)
Lemma lower n i w c : nth_error (state n) i = Some (w, c) -> w - W < c.
Proof.
  revert i w c. induction n as [|n IH]; intros i w c H.
  - simpl in H. unfold fresh in H. rewrite nth_error_map in H.
    destruct (nth_error ws i) eqn:E; simpl in H; [|discriminate]. inversion H; subst. pose proof W_pos. lia.
  - simpl in H. unfold step in H.
    assert (Hi : exists c0, nth_error (state n) i = Some (w, c0)).
    { assert (Hl : (i < length (upd (state n) (choose (state n)) (sumc (state n))))%nat)
        by (apply nth_error_Some; rewrite H; discriminate).
      assert (Hl2 : (i < length (state n))%nat).
      { rewrite <- (map_length fst) in Hl |- *. rewrite map_fst_upd in Hl. exact Hl. }
      destruct (nth_error (state n) i) as [[w0 c0]|] eqn:E; [|apply nth_error_None in E; lia].
      rewrite (nth_upd _ _ _ _ _ _ E) in H. inversion H; subst. eauto. }
    destruct Hi as [c0 Hc0]. rewrite (nth_upd _ _ _ _ _ _ Hc0) in H. inversion H; subst; clear H.
    pose proof (IH i w c0 Hc0) as Hlow.
    assert (Hwpos : 0 < w).
    { destruct (inv_sums n) as [_ [_ Hf]].
      assert (In w ws). { rewrite <- Hf. apply in_map_iff. exists (w, c0). split; [reflexivity|]. eapply nth_error_In; eauto. }
      rewrite Forall_forall in Hpos. auto. }
    destruct (Nat.eqb_spec i (choose (state n))) as [E|E].
    + (* picked: its credit was positive *)
      destruct (inv_sums n) as [_ [Hc _]]. rewrite Hc.
      assert (0 < c0). { eapply max_pos; [apply (Hok n)| subst i; exact Hc0 | rewrite Hc; apply W_pos]. }
      lia.
    + lia.
Qed.

(* counts sum to n *)
Lemma cnt_le n i : 0 <= cnt i n <= Z.of_nat n.
Proof. induction n as [|n IH]; simpl cnt; [lia|]. destruct (Nat.eqb i (pick n)); lia. Qed.


(* sum of the counts over all indices equals the number of picks *)
Definition idxs := seq 0 (length ws).
Definition sumcnt (n : nat) : Z := fold_right (fun i acc => cnt i n + acc) 0 idxs.

Lemma sum_indicator (l : list nat) (j : nat) : NoDup l -> In j l ->
  fold_right (fun i acc => (if Nat.eqb i j then 1 else 0) + acc) 0 l = 1.
Proof.
  induction l as [|x r IH]; intros Hnd Hin; [contradiction|].
  inversion Hnd; subst. simpl. destruct (Nat.eqb_spec x j) as [E|E].
  - subst. assert (fold_right (fun i acc => (if Nat.eqb i j then 1 else 0) + acc) 0 r = 0).
    { clear - H1. induction r as [|y r IH]; simpl; [reflexivity|].
      destruct (Nat.eqb_spec y j); [subst; exfalso; apply H1; left; reflexivity|].
      rewrite IH; [reflexivity|]. intro; apply H1; right; assumption. }
    lia.
  - destruct Hin as [Hx|Hx]; [congruence|]. rewrite IH; auto.
Qed.

Lemma sum_split (f g : nat -> Z) l :
  fold_right (fun i acc => (f i + g i) + acc) 0 l =
  fold_right (fun i acc => f i + acc) 0 l + fold_right (fun i acc => g i + acc) 0 l.
Proof. induction l as [|x r IH]; simpl; lia. Qed.

Lemma len_state n : length (state n) = length ws.
Proof. destruct (inv_sums n) as [_ [_ Hf]]. rewrite <- (map_length fst), Hf. reflexivity. Qed.

Lemma sumcnt_n n : sumcnt n = Z.of_nat n.
Proof.
  induction n as [|n IH]; unfold sumcnt in *.
  - simpl. induction idxs; simpl; lia.
  - simpl cnt. rewrite (sum_split (fun i => cnt i n) (fun i => if Nat.eqb i (pick n) then 1 else 0)).
    rewrite IH, sum_indicator; [lia| apply seq_NoDup |].
    apply in_seq. pose proof (pick_lt n). rewrite len_state in H. lia.
Qed.

(* pointwise <= with equal sums gives pointwise = *)
Lemma pointwise_eq (f g : nat -> Z) l :
  (forall i, In i l -> f i <= g i) ->
  fold_right (fun i acc => f i + acc) 0 l = fold_right (fun i acc => g i + acc) 0 l ->
  forall i, In i l -> f i = g i.
Proof.
  induction l as [|x r IH]; intros Hle Hs i Hi; [contradiction|]. simpl in Hs.
  assert (Hr : fold_right (fun i acc => f i + acc) 0 r <= fold_right (fun i acc => g i + acc) 0 r).
  { clear - Hle. induction r as [|y r IH]; simpl; [lia|].
    assert (f y <= g y) by (apply Hle; right; left; reflexivity).
    assert (fold_right (fun i acc => f i + acc) 0 r <= fold_right (fun i acc => g i + acc) 0 r).
    { apply IH. intros i [Hi|Hi]; apply Hle; [left|right;right]; assumption. }
    lia. }
  assert (f x <= g x) by (apply Hle; left; reflexivity).
  destruct Hi as [Hi|Hi].
  - subst. lia.
  - apply IH; auto; [intros j Hj; apply Hle; right; assumption | lia].
Qed.

(* ---- the weights are d * a_i; A = sum a ---- *)
Variable d : Z.
Variable a : list Z.
Hypothesis Hd : 0 < d.
Hypothesis Ha : Forall (fun x => 0 < x) a.
Hypothesis Hws : ws = map (Z.mul d) a.
Local Notation Asum := (Swrr.Asum a).
Definition A := Z.to_nat Asum.

Lemma W_dA : W = d * Asum.
Proof. unfold W, Asum. rewrite Hws. clear. induction a as [|x r IH]; simpl; [lia|]. rewrite IH. lia. Qed.

Lemma Asum_pos : 0 < Asum.
Proof. pose proof W_pos. rewrite W_dA in H. nia. Qed.

Local Notation ai := (Swrr.ai a).

Lemma nth_ws i : (i < length ws)%nat -> nth_error ws i = Some (d * ai i).
Proof.
  intros H. rewrite Hws in *. rewrite map_length in H. rewrite nth_error_map.
  unfold ai. rewrite (nth_error_nth' a 0 H). reflexivity.
Qed.

Lemma sum_ai : fold_right (fun i acc => ai i + acc) 0 idxs = Asum.
Proof.
  unfold idxs, Asum, ai. rewrite Hws, map_length. clear.
  induction a as [|x r IH]; simpl; [reflexivity|].
  rewrite <- seq_shift. rewrite <- IH. f_equal.
  clear. generalize (seq 0 (length r)). induction l; simpl; [reflexivity|]. rewrite IHl. reflexivity.
Qed.

(* one full period: every backend i is picked exactly a_i times *)
Theorem period_counts : forall i, (i < length ws)%nat -> cnt i A = ai i.
Proof.
  assert (HA : Z.of_nat A = Asum) by (unfold A; pose proof Asum_pos; lia).
  intros i0 Hi0. apply (pointwise_eq (fun i => cnt i A) ai idxs); [| | unfold idxs; apply in_seq; lia].
  - intros i Hi. apply in_seq in Hi. destruct Hi as [_ Hi]. simpl in Hi.
    pose proof (closed_form A i _ (nth_ws i Hi)) as Hc.
    pose proof (lower A i _ _ Hc) as Hl. rewrite HA, W_dA in Hl.
    pose proof Asum_pos. 
    assert (d * Asum * (ai i - cnt i A) > - (d * Asum)) by nia.
    assert (0 < d * Asum) by nia. nia.
  - fold (sumcnt A). rewrite sumcnt_n, sum_ai. exact HA.
Qed.

(* ... and the state is fresh again *)
Theorem period_state : state A = fresh ws.
Proof.
  assert (HA : Z.of_nat A = Asum) by (unfold A; pose proof Asum_pos; lia).
  apply nth_error_ext'. intros i.
  destruct (lt_dec i (length ws)) as [Hi|Hi].
  - rewrite (closed_form A i _ (nth_ws i Hi)), (period_counts i Hi), HA, W_dA.
    unfold fresh. rewrite nth_error_map, (nth_ws i Hi). simpl. f_equal. f_equal. nia.
  - assert (nth_error (state A) i = None) by (apply nth_error_None; rewrite len_state; lia).
    assert (nth_error (fresh ws) i = None) by (apply nth_error_None; unfold fresh; rewrite map_length; lia).
    congruence.
Qed.


(* periodicity: because the next state is a function of the current one *)
Lemma state_periodic n : state (n + A) = state n.
Proof.
  induction n as [|n IH]; [apply period_state|].
  simpl. rewrite IH. reflexivity.
Qed.
Lemma pick_periodic n : pick (n + A) = pick n.
Proof. unfold pick. rewrite state_periodic. reflexivity. Qed.

(* picks k .. k+len-1 *)

Theorem window_exact : forall k i, (i < length ws)%nat -> cntw i k A = ai i.
Proof.
  intros k i Hi. unfold cntw. induction k as [|k IH].
  - simpl. rewrite period_counts by assumption. lia.
  - replace (S k + A)%nat with (S (k + A)) by lia. simpl cnt.
    rewrite pick_periodic. lia.
Qed.

End Exec.

(* ------------------------------------------------------------------------------------------- *)
(* The code's pick (first strictly greater current wins) returns a maximal index.               *)
Lemma scan_spec : forall (s pre : st) (best : option (nat * Z)),
  (match best with
   | None => pre = []
   | Some (b, m) => (exists w, nth_error pre b = Some (w, m)) /\
                    forall j w' c', nth_error pre j = Some (w', c') -> c' <= m
   end) ->
  match scan s (length pre) best with
  | None => pre ++ s = []
  | Some (b, m) => (exists w, nth_error (pre ++ s) b = Some (w, m)) /\
                   forall j w' c', nth_error (pre ++ s) j = Some (w', c') -> c' <= m
  end.
Proof.
  induction s as [|[w c] r IH]; intros pre best Hb.
  - simpl. rewrite app_nil_r. exact Hb.
  - simpl scan.
    replace (pre ++ (w, c) :: r) with ((pre ++ [(w, c)]) ++ r) by (rewrite <- app_assoc; reflexivity).
    replace (S (length pre)) with (length (pre ++ [(w, c)])) by (rewrite app_length; simpl; lia).
    apply IH.
    assert (Hlast : nth_error (pre ++ [(w, c)]) (length pre) = Some (w, c)).
    { rewrite nth_error_app2 by lia. rewrite Nat.sub_diag. reflexivity. }
    assert (Hsplit : forall j w' c', nth_error (pre ++ [(w, c)]) j = Some (w', c') ->
                       nth_error pre j = Some (w', c') \/ c' = c).
    { intros j w' c' Hj. destruct (lt_dec j (length pre)) as [Hl|Hl].
      - rewrite nth_error_app1 in Hj by exact Hl. left. exact Hj.
      - rewrite nth_error_app2 in Hj by lia. destruct (j - length pre)%nat as [|q]; simpl in Hj.
        + inversion Hj. right. reflexivity.
        + destruct q; discriminate. }
    destruct best as [[b m]|].
    + destruct Hb as [[w0 Hb1] Hb2].
      destruct (Z.gtb_spec c m) as [Hgt|Hle].
      * split; [exists w; exact Hlast|].
        intros j w' c' Hj. destruct (Hsplit j w' c' Hj) as [Hp|Hp]; [specialize (Hb2 j w' c' Hp); lia|lia].
      * split.
        -- exists w0. rewrite nth_error_app1; [exact Hb1|]. apply nth_error_Some. rewrite Hb1. discriminate.
        -- intros j w' c' Hj. destruct (Hsplit j w' c' Hj) as [Hp|Hp]; [exact (Hb2 j w' c' Hp)|lia].
    + subst pre. simpl in *. split; [exists w; reflexivity|].
      intros j w' c' Hj. destruct (Hsplit j w' c' Hj) as [Hp|Hp]; [destruct j; discriminate|lia].
Qed.

Lemma swrr_pick_ok (s : st) : s <> [] -> ok s (swrr_pick s).
Proof.
  intros Hne. unfold swrr_pick, ok.
  pose proof (scan_spec s [] None eq_refl) as H. simpl in H.
  destruct (scan s 0%nat None) as [[b m]|]; [|contradiction].
  destruct H as [[w Hw] Hmax]. exists w, m. split; assumption.
Qed.

Lemma okb_ok (s : st) (i : nat) : okb s i = true -> ok s i.
Proof.
  unfold okb, ok. destruct (nth_error s i) as [[w c]|] eqn:E; [|discriminate].
  intros H. exists w, c. split; [reflexivity|].
  intros j w' c' Hj. rewrite forallb_forall in H. apply nth_error_In in Hj. apply H in Hj. simpl in Hj. lia.
Qed.

Lemma length_map_add (s : st) : length (map (fun p : Z * Z => (fst p, snd p + fst p)) s) = length s.
Proof. apply map_length. Qed.
Lemma length_upd (s : st) i t : length (upd s i t) = length s.
Proof. revert i; induction s as [|[w c] r IH]; intros [|i]; simpl; rewrite ?map_length, ?IH; reflexivity. Qed.
Lemma length_state choose ws n : length (state choose ws n) = length ws.
Proof.
  induction n as [|n IH]; simpl; [unfold fresh; apply map_length|].
  unfold step. rewrite length_upd. exact IH.
Qed.

(* every function that picks a maximal index on non-empty states is a legal `choose` *)
Lemma choose_ok_run (choose : st -> nat) (ws : list Z) :
  ws <> [] -> (forall s, s <> [] -> ok s (choose s)) -> forall n, ok (state choose ws n) (pick choose ws n).
Proof.
  intros Hne Hch n. unfold pick. apply Hch. intro E.
  pose proof (length_state choose ws n) as Hl. rewrite E in Hl. destruct ws; [congruence|discriminate].
Qed.

(* ---- C01 headline statements -------------------------------------------------------------- *)
Theorem swrr_window_exact_any :
  forall (choose : st -> nat) (d : Z) (a : list Z),
    0 < d -> a <> [] -> Forall (fun x => 0 < x) a ->
    (forall n, ok (state choose (map (Z.mul d) a) n) (pick choose (map (Z.mul d) a) n)) ->
    forall k i, (i < length a)%nat ->
      cntw choose (map (Z.mul d) a) i k (Z.to_nat (Asum a)) = ai a i.
Proof.
  intros choose d a Hd Hne Ha Hok k i Hi.
  assert (Hpos : Forall (fun w => 0 < w) (map (Z.mul d) a)).
  { rewrite Forall_forall in *. intros w Hw. apply in_map_iff in Hw. destruct Hw as [x [Hx Hin]]. subst w.
    specialize (Ha x Hin). nia. }
  assert (Hne' : map (Z.mul d) a <> []) by (destruct a; [congruence|discriminate]).
  apply (window_exact choose (map (Z.mul d) a) Hpos Hne' Hok d a Hd eq_refl k i).
  rewrite map_length. exact Hi.
Qed.

Theorem swrr_period_any :
  forall (choose : st -> nat) (d : Z) (a : list Z),
    0 < d -> a <> [] -> Forall (fun x => 0 < x) a ->
    (forall n, ok (state choose (map (Z.mul d) a) n) (pick choose (map (Z.mul d) a) n)) ->
    forall n, state choose (map (Z.mul d) a) (n + Z.to_nat (Asum a)) = state choose (map (Z.mul d) a) n.
Proof.
  intros choose d a Hd Hne Ha Hok n.
  assert (Hpos : Forall (fun w => 0 < w) (map (Z.mul d) a)).
  { rewrite Forall_forall in *. intros w Hw. apply in_map_iff in Hw. destruct Hw as [x [Hx Hin]]. subst w.
    specialize (Ha x Hin). nia. }
  assert (Hne' : map (Z.mul d) a <> []) by (destruct a; [congruence|discriminate]).
  exact (state_periodic choose (map (Z.mul d) a) Hpos Hne' Hok d a Hd eq_refl n).
Qed.

(* the same for the code's own pick: no hypothesis about the choice is left *)
Theorem swrr_window_exact_code :
  forall (a : list Z), a <> [] -> Forall (fun x => 0 < x) a ->
    forall k i, (i < length a)%nat ->
      cntw swrr_pick (map (Z.mul 100) a) i k (Z.to_nat (Asum a)) = ai a i.
Proof.
  intros a Hne Ha k i Hi. apply swrr_window_exact_any; try assumption; [lia|].
  apply choose_ok_run; [destruct a; [congruence|discriminate]|]. apply swrr_pick_ok.
Qed.
Theorem swrr_period_code :
  forall (a : list Z), a <> [] -> Forall (fun x => 0 < x) a ->
    forall n, pick swrr_pick (map (Z.mul 100) a) (n + Z.to_nat (Asum a)) = pick swrr_pick (map (Z.mul 100) a) n.
Proof.
  intros a Hne Ha n. unfold pick. rewrite swrr_period_any; try assumption; [reflexivity|lia|].
  apply choose_ok_run; [destruct a; [congruence|discriminate]|]. apply swrr_pick_ok.
Qed.

(* ---- carried-over credits: the property fails after a weight-changing reload ---------------- *)
Definition reload_in : val :=
  VL [VL [VL [VZ 0; VZ 5]; VL [VZ 1; VZ 1]; VL [VZ 2; VZ 1]];
      VL [VL [VZ 0; VZ 3]; VL [VZ 1; VL [VL [VZ 0; VZ 1]; VL [VZ 1; VZ 1]; VL [VZ 2; VZ 3]]]; VL [VZ 0; VZ 10]]].
Lemma reload_refuted : prop_C01 reload_in (run_C01 reload_in) = false /\ kf_C01 reload_in = 1.
Proof. vm_compute. split; reflexivity. Qed.
(* a backend returning from unavailability carries its old credit as well *)
Definition avail_in : val :=
  VL [VL [VL [VZ 0; VZ 3]; VL [VZ 1; VZ 1]];
      VL [VL [VZ 0; VZ 2]; VL [VZ 2; VZ 1; VZ 0]; VL [VZ 0; VZ 2]; VL [VZ 2; VZ 1; VZ 1]; VL [VZ 0; VZ 8]]].
Lemma avail_refuted : prop_C01 avail_in (run_C01 avail_in) = false /\ kf_C01 avail_in = 1.
Proof. vm_compute. split; reflexivity. Qed.

(* ------------------------------------------------------------------------------------------- *)
(* smoothBalance on the backend list: the pick is an eligible backend, only credits change.      *)
Definition bcfg (b : backend) : Z * Z * bool := (b_id b, b_w b, b_av b).

Lemma elig_set_c b c : elig (set_c b c) = elig b.
Proof. destruct b as [[[i w] c0] a]. reflexivity. Qed.
Lemma bcfg_set_c b c : bcfg (set_c b c) = bcfg b.
Proof. destruct b as [[[i w] c0] a]. reflexivity. Qed.

Lemma writeback_bcfg : forall bs s, map bcfg (writeback bs s) = map bcfg bs.
Proof.
  induction bs as [|b r IH]; intros s; simpl; [reflexivity|].
  destruct (elig b).
  - destruct s as [|[w c] s']; simpl; [reflexivity|]. rewrite bcfg_set_c, IH. reflexivity.
  - simpl. rewrite IH. reflexivity.
Qed.

Lemma swrr_pick_lt (s : st) : s <> [] -> (swrr_pick s < length s)%nat.
Proof.
  intros H. destruct (swrr_pick_ok s H) as [w [c [Hn _]]]. apply nth_error_Some. rewrite Hn. discriminate.
Qed.

Lemma view_length bs : length (view bs) = length (elig_ids bs).
Proof. unfold view, elig_ids. rewrite !map_length. reflexivity. Qed.

Lemma elig_ids_in bs p : In p (elig_ids bs) <-> exists b, In b bs /\ elig b = true /\ b_id b = p.
Proof.
  unfold elig_ids. rewrite in_map_iff. split.
  - intros [b [E Hb]]. apply filter_In in Hb. exists b. tauto.
  - intros [b [Hb [He E]]]. exists b. split; [exact E|]. apply filter_In. tauto.
Qed.

Theorem smooth_some bs p bs' : smooth bs = Some (p, bs') ->
  (exists b, In b bs /\ elig b = true /\ b_id b = p) /\ map bcfg bs' = map bcfg bs.
Proof.
  unfold smooth, smooth_by. destruct (view bs) as [|x s] eqn:Ev; [discriminate|].
  intros H. inversion H; subst; clear H. split; [|apply writeback_bcfg].
  apply elig_ids_in. apply nth_In. rewrite <- view_length, Ev. apply swrr_pick_lt. discriminate.
Qed.
Theorem smooth_none bs : smooth bs = None <-> filter elig bs = [].
Proof.
  unfold smooth, smooth_by, view. destruct (filter elig bs) as [|b r]; simpl; split; intros H; try reflexivity; discriminate.
Qed.
