(* C01 proofs: exact shares of smooth weighted round robin (lifted from DESIGN.md Appendix F.4), the code's
   first-maximum pick as an instance of the choice function, embedding into the backend list, and the
   stale-credit refutation. *)
From Coq Require Import List ZArith Lia Bool Arith.
From Bfe Require Import lib.Val model.Swrr run.RunC01.
Import ListNotations.
Open Scope Z_scope.

(* --- basic facts about upd --- *)
Lemma sumw_map s : sumw (map (fun p => (fst p, snd p + fst p)) s) = sumw s.
Proof. induction s as [|[w c] r IH]; simpl; lia. Qed.
Lemma sumc_map s : sumc (map (fun p => (fst p, snd p + fst p)) s) = sumc s + sumw s.
Proof. induction s as [|[w c] r IH]; simpl; lia. Qed.
Lemma sumw_upd s i t : sumw (upd s i t) = sumw s.
Proof. revert i; induction s as [|[w c] r IH]; intros [|i]; simpl; rewrite ?sumw_map, ?IH; lia. Qed.
Lemma sumc_upd s i t : (i < length s)%nat -> sumc (upd s i t) = sumc s + sumw s - t.
Proof.
  revert i; induction s as [|[w c] r IH]; intros [|i] H; simpl in *; try lia.
  - rewrite sumc_map. lia.
  - rewrite IH by lia. lia.
Qed.
Lemma map_fst_map (s : st) : map fst (map (fun p => (fst p, snd p + fst p)) s) = map fst s.
Proof. induction s as [|[w c] r IH]; simpl; congruence. Qed.
Lemma map_fst_upd s i t : map fst (upd s i t) = map fst s.
Proof. revert i; induction s as [|[w c] r IH]; intros [|i]; simpl; rewrite ?map_fst_map, ?IH; reflexivity. Qed.

(* current of index j after upd *)
Lemma nth_map_add (s : st) j w c :
  nth_error s j = Some (w, c) -> nth_error (map (fun p => (fst p, snd p + fst p)) s) j = Some (w, c + w).
Proof. intros H. rewrite nth_error_map, H. reflexivity. Qed.

Lemma nth_upd s i t j w c :
  nth_error s j = Some (w, c) ->
  nth_error (upd s i t) j = Some (w, if Nat.eqb j i then c + w - t else c + w).
Proof.
  revert i j; induction s as [|[w0 c0] r IH]; intros i j H; [destruct j; discriminate|].
  destruct i as [|i], j as [|j]; simpl in *.
  - inversion H; subst. reflexivity.
  - apply nth_map_add. exact H.
  - inversion H; subst. reflexivity.
  - rewrite (IH i j H). reflexivity.
Qed.

(* --- the maximal current is positive when the total is positive --- *)
Lemma sumc_le_max (s : st) c : (forall j w' c', nth_error s j = Some (w', c') -> c' <= c) ->
  sumc s <= Z.of_nat (length s) * c.
Proof.
  induction s as [|[w0 c0] r IH]; intros H; simpl sumc; simpl length; [lia|].
  assert (c0 <= c) by (apply (H 0%nat w0 c0); reflexivity).
  assert (sumc r <= Z.of_nat (length r) * c) by (apply IH; intros j w' c' Hj; apply (H (S j) w' c'); exact Hj).
  rewrite Nat2Z.inj_succ. nia.
Qed.

Lemma max_pos s i w c : ok s i -> nth_error s i = Some (w, c) -> 0 < sumc s -> 0 < c.
Proof.
  intros [w1 [c1 [Hn Hmax]]] Hi Hs. rewrite Hi in Hn. inversion Hn; subst.
  pose proof (sumc_le_max s c1 Hmax). destruct (Z_lt_le_dec 0 c1); [assumption|].
  assert (Z.of_nat (length s) * c1 <= 0) by nia. lia.
Qed.

Lemma nth_error_ext' {X} (l1 l2 : list X) : (forall i, nth_error l1 i = nth_error l2 i) -> l1 = l2.
Proof.
  revert l2; induction l1 as [|x r IH]; intros [|y r2] H; try reflexivity;
    try (specialize (H 0%nat); simpl in H; discriminate).
  f_equal; [specialize (H 0%nat); simpl in H; congruence|]. apply IH. intros i. apply (H (S i)).
Qed.

(* --- executions: a choice function that always returns a maximal index --- *)
Section Exec.
Variable choose : st -> nat.
Variable ws : list Z.
Hypothesis Hpos : Forall (fun w => 0 < w) ws.
Hypothesis Hne : ws <> [].
Definition W := fold_right Z.add 0 ws.
Local Notation state := (Swrr.state choose ws).
Local Notation pick := (Swrr.pick choose ws).
Local Notation cnt := (Swrr.cnt choose ws).
Local Notation cntw := (Swrr.cntw choose ws).


Hypothesis Hok : forall n, ok (state n) (pick n).

Lemma sumw_fresh l : sumw (fresh l) = fold_right Z.add 0 l.
Proof. induction l as [|w r IH]; simpl; [reflexivity|]. rewrite IH. reflexivity. Qed.
Lemma sumc_fresh l : sumc (fresh l) = fold_right Z.add 0 l.
Proof. induction l as [|w r IH]; simpl; [reflexivity|]. rewrite IH. reflexivity. Qed.
Lemma map_fst_fresh l : map fst (fresh l) = l.
Proof. induction l as [|w r IH]; simpl; congruence. Qed.

Lemma W_pos : 0 < W.
Proof.
  unfold W. destruct ws as [|w r]; [congruence|]. inversion Hpos; subst. simpl.
  assert (0 <= fold_right Z.add 0 r).
  { clear - H2. induction r as [|x r IH]; simpl; [lia|]. inversion H2; subst. specialize (IH H3). lia. }
  lia.
Qed.

Lemma pick_lt n : (pick n < length (state n))%nat.
Proof.
  destruct (Hok n) as [w [c [Hn _]]]. apply nth_error_Some. rewrite Hn. discriminate.
Qed.

Lemma inv_sums n : sumw (state n) = W /\ sumc (state n) = W /\ map fst (state n) = ws.
Proof.
  induction n as [|n [IHw [IHc IHf]]]; simpl.
  - rewrite sumw_fresh, sumc_fresh, map_fst_fresh. auto.
  - unfold step. rewrite sumw_upd, sumc_upd, map_fst_upd by apply pick_lt. repeat split; try assumption; lia.
Qed.

(* closed form of every credit *)
Lemma closed_form n i w : nth_error ws i = Some w ->
  nth_error (state n) i = Some (w, w + Z.of_nat n * w - cnt i n * W).
Proof.
  intros Hw. induction n as [|n IH].
  - simpl. unfold fresh. rewrite nth_error_map, Hw. simpl. f_equal. f_equal. lia.
  - simpl state. unfold step. rewrite (nth_upd _ _ _ _ _ _ IH).
    destruct (inv_sums n) as [_ [Hc _]]. rewrite Hc. simpl cnt. fold (pick n).
    destruct (Nat.eqb i (pick n)); f_equal; f_equal; rewrite Nat2Z.inj_succ; nia.
Qed.

(* lower bound: every credit stays above w - W *)
Lemma lower n i w c : nth_error (state n) i = Some (w, c) -> w - W < c.
Proof.
  revert i w c. induction n as [|n IH]; intros i w c H.
  - simpl in H. unfold fresh in H. rewrite nth_error_map in H.
    destruct (nth_error ws i) eqn:E; simpl in H; [|discriminate]. inversion H; subst. pose proof W_pos. lia.
  - simpl in H. unfold step in H.
    assert (Hi : exists c0, nth_error (state n) i = Some (w, c0)).
    { assert (Hl : (i < length (upd (state n) (choose (state n)) (sumc (state n))))%nat)
        by (apply nth_error_Some; rewrite H; discriminate).
      assert (Hl2 : (i < length (state n))%nat).
      { rewrite <- (map_length fst) in Hl |- *. rewrite map_fst_upd in Hl. exact Hl. }
      destruct (nth_error (state n) i) as [[w0 c0]|] eqn:E; [|apply nth_error_None in E; lia].
      rewrite (nth_upd _ _ _ _ _ _ E) in H. inversion H; subst. eauto. }
    destruct Hi as [c0 Hc0]. rewrite (nth_upd _ _ _ _ _ _ Hc0) in H. inversion H; subst; clear H.
    pose proof (IH i w c0 Hc0) as Hlow.
    assert (Hwpos : 0 < w).
    { destruct (inv_sums n) as [_ [_ Hf]].
      assert (In w ws). { rewrite <- Hf. apply in_map_iff. exists (w, c0). split; [reflexivity|]. eapply nth_error_In; eauto. }
      rewrite Forall_forall in Hpos. auto. }
    destruct (Nat.eqb_spec i (choose (state n))) as [E|E].
    + (* picked: its credit was positive *)
      destruct (inv_sums n) as [_ [Hc _]]. rewrite Hc.
      assert (0 < c0). { eapply max_pos; [apply (Hok n)| subst i; exact Hc0 | rewrite Hc; apply W_pos]. }
      lia.
    + lia.
Qed.

(* counts sum to n *)
Lemma cnt_le n i : 0 <= cnt i n <= Z.of_nat n.
Proof. induction n as [|n IH]; simpl cnt; [lia|]. destruct (Nat.eqb i (pick n)); lia. Qed.


(* sum of the counts over all indices equals the number of picks *)
Definition idxs := seq 0 (length ws).
Definition sumcnt (n : nat) : Z := fold_right (fun i acc => cnt i n + acc) 0 idxs.

Lemma sum_indicator (l : list nat) (j : nat) : NoDup l -> In j l ->
  fold_right (fun i acc => (if Nat.eqb i j then 1 else 0) + acc) 0 l = 1.
Proof.
  induction l as [|x r IH]; intros Hnd Hin; [contradiction|].
  inversion Hnd; subst. simpl. destruct (Nat.eqb_spec x j) as [E|E].
  - subst. assert (fold_right (fun i acc => (if Nat.eqb i j then 1 else 0) + acc) 0 r = 0).
    { clear - H1. induction r as [|y r IH]; simpl; [reflexivity|].
      destruct (Nat.eqb_spec y j); [subst; exfalso; apply H1; left; reflexivity|].
      rewrite IH; [reflexivity|]. intro; apply H1; right; assumption. }
    lia.
  - destruct Hin as [Hx|Hx]; [congruence|]. rewrite IH; auto.
Qed.

Lemma sum_split (f g : nat -> Z) l :
  fold_right (fun i acc => (f i + g i) + acc) 0 l =
  fold_right (fun i acc => f i + acc) 0 l + fold_right (fun i acc => g i + acc) 0 l.
Proof. induction l as [|x r IH]; simpl; lia. Qed.

Lemma len_state n : length (state n) = length ws.
Proof. destruct (inv_sums n) as [_ [_ Hf]]. rewrite <- (map_length fst), Hf. reflexivity. Qed.

Lemma sumcnt_n n : sumcnt n = Z.of_nat n.
Proof.
  induction n as [|n IH]; unfold sumcnt in *.
  - simpl. induction idxs; simpl; lia.
  - simpl cnt. rewrite (sum_split (fun i => cnt i n) (fun i => if Nat.eqb i (pick n) then 1 else 0)).
    rewrite IH, sum_indicator; [lia| apply seq_NoDup |].
    apply in_seq. pose proof (pick_lt n). rewrite len_state in H. lia.
Qed.

(* pointwise <= with equal sums gives pointwise = *)
Lemma pointwise_eq (f g : nat -> Z) l :
  (forall i, In i l -> f i <= g i) ->
  fold_right (fun i acc => f i + acc) 0 l = fold_right (fun i acc => g i + acc) 0 l ->
  forall i, In i l -> f i = g i.
Proof.
  induction l as [|x r IH]; intros Hle Hs i Hi; [contradiction|]. simpl in Hs.
  assert (Hr : fold_right (fun i acc => f i + acc) 0 r <= fold_right (fun i acc => g i + acc) 0 r).
  { clear - Hle. induction r as [|y r IH]; simpl; [lia|].
    assert (f y <= g y) by (apply Hle; right; left; reflexivity).
    assert (fold_right (fun i acc => f i + acc) 0 r <= fold_right (fun i acc => g i + acc) 0 r).
    { apply IH. intros i [Hi|Hi]; apply Hle; [left|right;right]; assumption. }
    lia. }
  assert (f x <= g x) by (apply Hle; left; reflexivity).
  destruct Hi as [Hi|Hi].
  - subst. lia.
  - apply IH; auto; [intros j Hj; apply Hle; right; assumption | lia].
Qed.

(* ---- the weights are d * a_i; A = sum a ---- *)
Variable d : Z.
Variable a : list Z.
Hypothesis Hd : 0 < d.
Hypothesis Ha : Forall (fun x => 0 < x) a.
Hypothesis Hws : ws = map (Z.mul d) a.
Local Notation Asum := (Swrr.Asum a).
Definition A := Z.to_nat Asum.

Lemma W_dA : W = d * Asum.
Proof. unfold W, Asum. rewrite Hws. clear. induction a as [|x r IH]; simpl; [lia|]. rewrite IH. lia. Qed.

Lemma Asum_pos : 0 < Asum.
Proof. pose proof W_pos. rewrite W_dA in H. nia. Qed.

Local Notation ai := (Swrr.ai a).

Lemma nth_ws i : (i < length ws)%nat -> nth_error ws i = Some (d * ai i).
Proof.
  intros H. rewrite Hws in *. rewrite map_length in H. rewrite nth_error_map.
  unfold ai. rewrite (nth_error_nth' a 0 H). reflexivity.
Qed.

Lemma sum_ai : fold_right (fun i acc => ai i + acc) 0 idxs = Asum.
Proof.
  unfold idxs, Asum, ai. rewrite Hws, map_length. clear.
  induction a as [|x r IH]; simpl; [reflexivity|].
  rewrite <- seq_shift. rewrite <- IH. f_equal.
  clear. generalize (seq 0 (length r)). induction l; simpl; [reflexivity|]. rewrite IHl. reflexivity.
Qed.

(* one full period: every backend i is picked exactly a_i times *)
Theorem period_counts : forall i, (i < length ws)%nat -> cnt i A = ai i.
Proof.
  assert (HA : Z.of_nat A = Asum) by (unfold A; pose proof Asum_pos; lia).
  intros i0 Hi0. apply (pointwise_eq (fun i => cnt i A) ai idxs); [| | unfold idxs; apply in_seq; lia].
  - intros i Hi. apply in_seq in Hi. destruct Hi as [_ Hi]. simpl in Hi.
    pose proof (closed_form A i _ (nth_ws i Hi)) as Hc.
    pose proof (lower A i _ _ Hc) as Hl. rewrite HA, W_dA in Hl.
    pose proof Asum_pos. 
    assert (d * Asum * (ai i - cnt i A) > - (d * Asum)) by nia.
    assert (0 < d * Asum) by nia. nia.
  - fold (sumcnt A). rewrite sumcnt_n, sum_ai. exact HA.
Qed.

(* ... and the state is fresh again *)
Theorem period_state : state A = fresh ws.
Proof.
  assert (HA : Z.of_nat A = Asum) by (unfold A; pose proof Asum_pos; lia).
  apply nth_error_ext'. intros i.
  destruct (lt_dec i (length ws)) as [Hi|Hi].
  - rewrite (closed_form A i _ (nth_ws i Hi)), (period_counts i Hi), HA, W_dA.
    unfold fresh. rewrite nth_error_map, (nth_ws i Hi). simpl. f_equal. f_equal. nia.
  - assert (nth_error (state A) i = None) by (apply nth_error_None; rewrite len_state; lia).
    assert (nth_error (fresh ws) i = None) by (apply nth_error_None; unfold fresh; rewrite map_length; lia).
    congruence.
Qed.


(* periodicity: because the next state is a function of the current one *)
Lemma state_periodic n : state (n + A) = state n.
Proof.
  induction n as [|n IH]; [apply period_state|].
  simpl. rewrite IH. reflexivity.
Qed.
Lemma pick_periodic n : pick (n + A) = pick n.
Proof. unfold pick. rewrite state_periodic. reflexivity. Qed.

(* picks k .. k+len-1 *)

Theorem window_exact : forall k i, (i < length ws)%nat -> cntw i k A = ai i.
Proof.
  intros k i Hi. unfold cntw. induction k as [|k IH].
  - simpl. rewrite period_counts by assumption. lia.
  - replace (S k + A)%nat with (S (k + A)) by lia. simpl cnt.
    rewrite pick_periodic. lia.
Qed.

End Exec.

(* ------------------------------------------------------------------------------------------- *)
(* The code's pick (first strictly greater current wins) returns a maximal index.               *)
Lemma scan_spec : forall (s pre : st) (best : option (nat * Z)),
  (match best with
   | None => pre = []
   | Some (b, m) => (exists w, nth_error pre b = Some (w, m)) /\
                    forall j w' c', nth_error pre j = Some (w', c') -> c' <= m
   end) ->
  match scan s (length pre) best with
  | None => pre ++ s = []
  | Some (b, m) => (exists w, nth_error (pre ++ s) b = Some (w, m)) /\
                   forall j w' c', nth_error (pre ++ s) j = Some (w', c') -> c' <= m
  end.
Proof.
  induction s as [|[w c] r IH]; intros pre best Hb.
  - simpl. rewrite app_nil_r. exact Hb.
  - simpl scan.
    replace (pre ++ (w, c) :: r) with ((pre ++ [(w, c)]) ++ r) by (rewrite <- app_assoc; reflexivity).
    replace (S (length pre)) with (length (pre ++ [(w, c)])) by (rewrite app_length; simpl; lia).
    apply IH.
    assert (Hlast : nth_error (pre ++ [(w, c)]) (length pre) = Some (w, c)).
    { rewrite nth_error_app2 by lia. rewrite Nat.sub_diag. reflexivity. }
    assert (Hsplit : forall j w' c', nth_error (pre ++ [(w, c)]) j = Some (w', c') ->
                       nth_error pre j = Some (w', c') \/ c' = c).
    { intros j w' c' Hj. destruct (lt_dec j (length pre)) as [Hl|Hl].
      - rewrite nth_error_app1 in Hj by exact Hl. left. exact Hj.
      - rewrite nth_error_app2 in Hj by lia. destruct (j - length pre)%nat as [|q]; simpl in Hj.
        + inversion Hj. right. reflexivity.
        + destruct q; discriminate. }
    destruct best as [[b m]|].
    + destruct Hb as [[w0 Hb1] Hb2].
      destruct (Z.gtb_spec c m) as [Hgt|Hle].
      * split; [exists w; exact Hlast|].
        intros j w' c' Hj. destruct (Hsplit j w' c' Hj) as [Hp|Hp]; [specialize (Hb2 j w' c' Hp); lia|lia].
      * split.
        -- exists w0. rewrite nth_error_app1; [exact Hb1|]. apply nth_error_Some. rewrite Hb1. discriminate.
        -- intros j w' c' Hj. destruct (Hsplit j w' c' Hj) as [Hp|Hp]; [exact (Hb2 j w' c' Hp)|lia].
    + subst pre. simpl in *. split; [exists w; reflexivity|].
      intros j w' c' Hj. destruct (Hsplit j w' c' Hj) as [Hp|Hp]; [destruct j; discriminate|lia].
Qed.

Lemma swrr_pick_ok (s : st) : s <> [] -> ok s (swrr_pick s).
Proof.
  intros Hne. unfold swrr_pick, ok.
  pose proof (scan_spec s [] None eq_refl) as H. simpl in H.
  destruct (scan s 0%nat None) as [[b m]|]; [|contradiction].
  destruct H as [[w Hw] Hmax]. exists w, m. split; assumption.
Qed.

Lemma okb_ok (s : st) (i : nat) : okb s i = true -> ok s i.
Proof.
  unfold okb, ok. destruct (nth_error s i) as [[w c]|] eqn:E; [|discriminate].
  intros H. exists w, c. split; [reflexivity|].
  intros j w' c' Hj. rewrite forallb_forall in H. apply nth_error_In in Hj. apply H in Hj. simpl in Hj. lia.
Qed.

Lemma length_map_add (s : st) : length (map (fun p : Z * Z => (fst p, snd p + fst p)) s) = length s.
Proof. apply map_length. Qed.
Lemma length_upd (s : st) i t : length (upd s i t) = length s.
Proof. revert i; induction s as [|[w c] r IH]; intros [|i]; simpl; rewrite ?map_length, ?IH; reflexivity. Qed.
Lemma length_state choose ws n : length (state choose ws n) = length ws.
Proof.
  induction n as [|n IH]; simpl; [unfold fresh; apply map_length|].
  unfold step. rewrite length_upd. exact IH.
Qed.

(* every function that picks a maximal index on non-empty states is a legal `choose` *)
Lemma choose_ok_run (choose : st -> nat) (ws : list Z) :
  ws <> [] -> (forall s, s <> [] -> ok s (choose s)) -> forall n, ok (state choose ws n) (pick choose ws n).
Proof.
  intros Hne Hch n. unfold pick. apply Hch. intro E.
  pose proof (length_state choose ws n) as Hl. rewrite E in Hl. destruct ws; [congruence|discriminate].
Qed.

(* ---- C01 headline statements -------------------------------------------------------------- *)
Theorem swrr_window_exact_any :
  forall (choose : st -> nat) (d : Z) (a : list Z),
    0 < d -> a <> [] -> Forall (fun x => 0 < x) a ->
    (forall n, ok (state choose (map (Z.mul d) a) n) (pick choose (map (Z.mul d) a) n)) ->
    forall k i, (i < length a)%nat ->
      cntw choose (map (Z.mul d) a) i k (Z.to_nat (Asum a)) = ai a i.
Proof.
  intros choose d a Hd Hne Ha Hok k i Hi.
  assert (Hpos : Forall (fun w => 0 < w) (map (Z.mul d) a)).
  { rewrite Forall_forall in *. intros w Hw. apply in_map_iff in Hw. destruct Hw as [x [Hx Hin]]. subst w.
    specialize (Ha x Hin). nia. }
  assert (Hne' : map (Z.mul d) a <> []) by (destruct a; [congruence|discriminate]).
  apply (window_exact choose (map (Z.mul d) a) Hpos Hne' Hok d a Hd eq_refl k i).
  rewrite map_length. exact Hi.
Qed.

Theorem swrr_period_any :
  forall (choose : st -> nat) (d : Z) (a : list Z),
    0 < d -> a <> [] -> Forall (fun x => 0 < x) a ->
    (forall n, ok (state choose (map (Z.mul d) a) n) (pick choose (map (Z.mul d) a) n)) ->
    forall n, state choose (map (Z.mul d) a) (n + Z.to_nat (Asum a)) = state choose (map (Z.mul d) a) n.
Proof.
  intros choose d a Hd Hne Ha Hok n.
  assert (Hpos : Forall (fun w => 0 < w) (map (Z.mul d) a)).
  { rewrite Forall_forall in *. intros w Hw. apply in_map_iff in Hw. destruct Hw as [x [Hx Hin]]. subst w.
    specialize (Ha x Hin). nia. }
  assert (Hne' : map (Z.mul d) a <> []) by (destruct a; [congruence|discriminate]).
  exact (state_periodic choose (map (Z.mul d) a) Hpos Hne' Hok d a Hd eq_refl n).
Qed.

(* the same for the code's own pick: no hypothesis about the choice is left *)
Theorem swrr_window_exact_code :
  forall (a : list Z), a <> [] -> Forall (fun x => 0 < x) a ->
    forall k i, (i < length a)%nat ->
      cntw swrr_pick (map (Z.mul 100) a) i k (Z.to_nat (Asum a)) = ai a i.
Proof.
  intros a Hne Ha k i Hi. apply swrr_window_exact_any; try assumption; [lia|].
  apply choose_ok_run; [destruct a; [congruence|discriminate]|]. apply swrr_pick_ok.
Qed.
Theorem swrr_period_code :
  forall (a : list Z), a <> [] -> Forall (fun x => 0 < x) a ->
    forall n, pick swrr_pick (map (Z.mul 100) a) (n + Z.to_nat (Asum a)) = pick swrr_pick (map (Z.mul 100) a) n.
Proof.
  intros a Hne Ha n. unfold pick. rewrite swrr_period_any; try assumption; [reflexivity|lia|].
  apply choose_ok_run; [destruct a; [congruence|discriminate]|]. apply swrr_pick_ok.
Qed.

(* ---- carried-over credits: the property fails after a weight-changing reload ---------------- *)
Definition reload_in : val :=
  VL [VL [VL [VZ 0; VZ 5]; VL [VZ 1; VZ 1]; VL [VZ 2; VZ 1]];
      VL [VL [VZ 0; VZ 3]; VL [VZ 1; VL [VL [VZ 0; VZ 1]; VL [VZ 1; VZ 1]; VL [VZ 2; VZ 3]]]; VL [VZ 0; VZ 10]]].
Lemma reload_refuted : prop_C01 reload_in (run_C01 reload_in) = false /\ kf_C01 reload_in = 1.
Proof. vm_compute. split; reflexivity. Qed.
(* a backend returning from unavailability carries its old credit as well *)
Definition avail_in : val :=
  VL [VL [VL [VZ 0; VZ 3]; VL [VZ 1; VZ 1]];
      VL [VL [VZ 0; VZ 2]; VL [VZ 2; VZ 1; VZ 0]; VL [VZ 0; VZ 2]; VL [VZ 2; VZ 1; VZ 1]; VL [VZ 0; VZ 8]]].
Lemma avail_refuted : prop_C01 avail_in (run_C01 avail_in) = false /\ kf_C01 avail_in = 1.
Proof. vm_compute. split; reflexivity. Qed.

(* ------------------------------------------------------------------------------------------- *)
(* smoothBalance on the backend list: the pick is an eligible backend, only credits change.      *)
Definition bcfg (b : backend) : Z * Z * bool := (b_id b, b_w b, b_av b).

Lemma elig_set_c b c : elig (set_c b c) = elig b.
Proof. destruct b as [[[i w] c0] a]. reflexivity. Qed.
Lemma bcfg_set_c b c : bcfg (set_c b c) = bcfg b.
Proof. destruct b as [[[i w] c0] a]. reflexivity. Qed.

Lemma writeback_bcfg : forall bs s, map bcfg (writeback bs s) = map bcfg bs.
Proof.
  induction bs as [|b r IH]; intros s; simpl; [reflexivity|].
  destruct (elig b).
  - destruct s as [|[w c] s']; simpl; [reflexivity|]. rewrite bcfg_set_c, IH. reflexivity.
  - simpl. rewrite IH. reflexivity.
Qed.

Lemma swrr_pick_lt (s : st) : s <> [] -> (swrr_pick s < length s)%nat.
Proof.
  intros H. destruct (swrr_pick_ok s H) as [w [c [Hn _]]]. apply nth_error_Some. rewrite Hn. discriminate.
Qed.

Lemma view_length bs : length (view bs) = length (elig_ids bs).
Proof. unfold view, elig_ids. rewrite !map_length. reflexivity. Qed.

Lemma elig_ids_in bs p : In p (elig_ids bs) <-> exists b, In b bs /\ elig b = true /\ b_id b = p.
Proof.
  unfold elig_ids. rewrite in_map_iff. split.
  - intros [b [E Hb]]. apply filter_In in Hb. exists b. tauto.
  - intros [b [Hb [He E]]]. exists b. split; [exact E|]. apply filter_In. tauto.
Qed.

Theorem smooth_some bs p bs' : smooth bs = Some (p, bs') ->
  (exists b, In b bs /\ elig b = true /\ b_id b = p) /\ map bcfg bs' = map bcfg bs.
Proof.
  unfold smooth, smooth_by. destruct (view bs) as [|x s] eqn:Ev; [discriminate|].
  intros H. inversion H; subst; clear H. split; [|apply writeback_bcfg].
  apply elig_ids_in. apply nth_In. rewrite <- view_length, Ev. apply swrr_pick_lt. discriminate.
Qed.
Theorem smooth_none bs : smooth bs = None <-> filter elig bs = [].
Proof.
  unfold smooth, smooth_by, view. destruct (filter elig bs) as [|b r]; simpl; split; intros H; try reflexivity; discriminate.
Qed.

(* ------------------------------------------------------------------------------------------- *)
(* The model run from a freshly initialised BalanceRR satisfies the executable property.          *)
Lemma view_cons b r : view (b :: r) = if elig b then (b_w b, b_c b) :: view r else view r.
Proof. unfold view. simpl. destruct (elig b); reflexivity. Qed.
Lemma elig_ids_cons b r : elig_ids (b :: r) = if elig b then b_id b :: elig_ids r else elig_ids r.
Proof. unfold elig_ids. simpl. destruct (elig b); reflexivity. Qed.
Lemma set_c_fields b c : b_w (set_c b c) = b_w b /\ b_c (set_c b c) = c /\ b_id (set_c b c) = b_id b.
Proof. destruct b as [[[i w] c0] a]. simpl. auto. Qed.

Lemma view_writeback : forall bs s, map fst s = map fst (view bs) -> view (writeback bs s) = s.
Proof.
  induction bs as [|b r IH]; intros s H.
  - simpl in *. destruct s; [reflexivity|discriminate].
  - simpl writeback. rewrite view_cons in H. destruct (elig b) eqn:E.
    + destruct s as [|[w c] s']; [discriminate|]. simpl in H. inversion H as [[Hw Hs]].
      rewrite view_cons, elig_set_c, E. destruct (set_c_fields b c) as [F1 [F2 _]]. rewrite F1, F2.
      f_equal. apply IH. exact Hs.
    + rewrite view_cons, E. apply IH. exact H.
Qed.
Lemma elig_ids_writeback : forall bs s, elig_ids (writeback bs s) = elig_ids bs.
Proof.
  induction bs as [|b r IH]; intros s; [reflexivity|]. simpl writeback. destruct (elig b) eqn:E.
  - destruct s as [|[w c] s']; [reflexivity|]. rewrite !elig_ids_cons, elig_set_c, E.
    destruct (set_c_fields b c) as [_ [_ F3]]. rewrite F3, IH. reflexivity.
  - rewrite !elig_ids_cons, E. apply IH.
Qed.

Lemma state_nonempty ws n : ws <> [] -> state swrr_pick ws n <> [].
Proof. intros H E. pose proof (length_state swrr_pick ws n) as L. rewrite E in L. destruct ws; [congruence|discriminate]. Qed.

Lemma picks_run ws : ws <> [] -> forall k n bs, view bs = state swrr_pick ws n ->
  fst (picks_by swrr_pick bs k) = map (fun j => nth (pick swrr_pick ws j) (elig_ids bs) (-1)) (seq n k).
Proof.
  intros Hne. induction k as [|k IH]; intros n bs Hv; [reflexivity|].
  simpl picks_by. unfold smooth_by. rewrite Hv.
  destruct (state swrr_pick ws n) as [|x s] eqn:Es; [exfalso; exact (state_nonempty ws n Hne Es)|]. rewrite <- Es.
  set (bs1 := writeback bs (step (state swrr_pick ws n) (swrr_pick (state swrr_pick ws n)))).
  assert (Hv1 : view bs1 = state swrr_pick ws (S n)).
  { unfold bs1. apply view_writeback.
    change (state swrr_pick ws (S n)) with (step (state swrr_pick ws n) (swrr_pick (state swrr_pick ws n))).
    unfold step. rewrite map_fst_upd, Hv, Es. reflexivity. }
  assert (Hid : elig_ids bs1 = elig_ids bs) by apply elig_ids_writeback.
  specialize (IH (S n) bs1 Hv1). destruct (picks_by swrr_pick bs1 k) as [l bs'] eqn:Ep. simpl in IH. simpl.
  rewrite IH, Hid. reflexivity.
Qed.
Lemma picks_none ch : forall k bs, view bs = [] -> fst (picks_by ch bs k) = repeat (-1) k.
Proof.
  induction k as [|k IH]; intros bs Hv; [reflexivity|]. simpl. unfold smooth_by. rewrite Hv.
  specialize (IH bs Hv). destruct (picks_by ch bs k) as [l bs']. simpl in *. rewrite IH. reflexivity.
Qed.

Lemma skipn_seq' : forall k s K, skipn k (seq s K) = seq (s + k) (K - k).
Proof.
  induction k as [|k IH]; intros s K; simpl.
  - rewrite Nat.add_0_r, Nat.sub_0_r. reflexivity.
  - destruct K as [|K]; [reflexivity|]. simpl. rewrite IH. f_equal. lia.
Qed.
Lemma firstn_seq' : forall m s K, (m <= K)%nat -> firstn m (seq s K) = seq s m.
Proof.
  induction m as [|m IH]; intros s K H; [reflexivity|]. destruct K as [|K]; [lia|]. simpl. f_equal. apply IH. lia.
Qed.

Lemma cntw_step ch ws i k len : cntw ch ws i k (S len) = (if Nat.eqb i (pick ch ws k) then 1 else 0) + cntw ch ws i (S k) len.
Proof. unfold cntw. replace (k + S len)%nat with (S k + len)%nat by lia. simpl cnt. lia. Qed.

Lemma count_picks ws ids i : NoDup ids -> (i < length ids)%nat ->
  (forall j, (pick swrr_pick ws j < length ids)%nat) ->
  forall len k, count (nth i ids (-1)) (map (fun j => nth (pick swrr_pick ws j) ids (-1)) (seq k len))
                = cntw swrr_pick ws i k len.
Proof.
  intros Hnd Hi Hp. induction len as [|len IH]; intros k.
  - unfold cntw. rewrite Nat.add_0_r. simpl. lia.
  - rewrite cntw_step. simpl. rewrite IH. f_equal.
    destruct (Nat.eqb_spec i (pick swrr_pick ws k)) as [E|E].
    + rewrite <- E. rewrite Z.eqb_refl. reflexivity.
    + destruct (Z.eqb_spec (nth i ids (-1)) (nth (pick swrr_pick ws k) ids (-1))) as [E2|E2]; [|reflexivity].
      exfalso. apply E. apply (proj1 (NoDup_nth ids (-1)) Hnd); auto.
Qed.

Definition posw (e : Z * Z) : bool := 0 <? snd e.
Lemma elig_init e : elig (init_backend e) = posw e.
Proof.
  destruct e as [i w]. unfold elig, init_backend, posw, b_av, b_w. cbn [fst snd andb].
  destruct (Z.ltb_spec 0 (100 * w)), (Z.ltb_spec 0 w); try reflexivity; lia.
Qed.
Lemma view_init conf : view (init conf) = fresh (map (Z.mul 100) (map snd (filter posw conf))).
Proof.
  induction conf as [|e r IH]; [reflexivity|]. unfold init in *. simpl map at 1. rewrite view_cons, elig_init. simpl filter.
  destruct (posw e); [|exact IH]. simpl. rewrite IH. reflexivity.
Qed.
Lemma elig_ids_init conf : elig_ids (init conf) = map fst (filter posw conf).
Proof.
  induction conf as [|e r IH]; [reflexivity|]. unfold init in *. simpl map at 1. rewrite elig_ids_cons, elig_init. simpl filter.
  destruct (posw e); [|exact IH]. simpl. rewrite IH. reflexivity.
Qed.
Lemma cfg_elig_init conf : cfg_elig (cfg_init conf) = filter posw conf.
Proof.
  unfold cfg_elig, cfg_init. induction conf as [|[i w] r IH]; [reflexivity|]. simpl. unfold posw at 1. simpl.
  destruct (0 <? w); simpl; rewrite IH; reflexivity.
Qed.
Lemma NoDup_filter_fst (conf : list (Z * Z)) f : NoDup (map fst conf) -> NoDup (map fst (filter f conf)).
Proof.
  induction conf as [|e r IH]; simpl; intros H; [constructor|]. inversion H; subst.
  destruct (f e); [|apply IH; assumption]. simpl. constructor; [|apply IH; assumption].
  intro Hin. apply H2. apply in_map_iff in Hin. destruct Hin as [x [E Hx]]. apply filter_In in Hx.
  apply in_map_iff. exists x. tauto.
Qed.

Theorem fresh_run_segment_ok conf k : NoDup (map fst conf) ->
  segment_ok (cfg_elig (cfg_init conf)) (fst (picks_by swrr_pick (init conf) k)) = true.
Proof.
  intros Hnd. rewrite cfg_elig_init.
  remember (filter posw conf) as pc eqn:Epc.
  assert (Hv : view (init conf) = fresh (map (Z.mul 100) (map snd pc))) by (subst pc; apply view_init).
  assert (Hids : elig_ids (init conf) = map fst pc) by (subst pc; apply elig_ids_init).
  assert (Hndi : NoDup (map fst pc)) by (subst pc; apply NoDup_filter_fst; exact Hnd).
  assert (Hpos : Forall (fun x => 0 < x) (map snd pc)).
  { subst pc. apply Forall_forall. intros x Hx. apply in_map_iff in Hx. destruct Hx as [e [E He]].
    apply filter_In in He. destruct He as [_ He]. unfold posw in He. apply Z.ltb_lt in He. subst x. exact He. }
  clear Epc Hnd.
  destruct pc as [|e0 pr].
  - simpl. rewrite picks_none by (rewrite Hv; reflexivity).
    apply forallb_forall. intros x Hx. apply repeat_spec in Hx. subst x. reflexivity.
  - unfold segment_ok. cbv iota.
    set (pc := e0 :: pr) in *. set (a := map snd pc) in *. set (ids := map fst pc) in *.
    set (ws := map (Z.mul 100) a) in *.
    assert (Hane : a <> []) by (unfold a, pc; discriminate).
    assert (Hwne : ws <> []) by (unfold ws, a, pc; discriminate).
    assert (Hlen : length ids = length ws) by (unfold ws, a, ids; rewrite !map_length; reflexivity).
    assert (Hp : forall j, (pick swrr_pick ws j < length ids)%nat).
    { intros j. unfold pick. rewrite Hlen, <- (length_state swrr_pick ws j). apply swrr_pick_lt. apply state_nonempty. exact Hwne. }
    rewrite (picks_run ws Hwne k 0%nat (init conf) Hv). rewrite Hids. fold ids.
    set (f := fun j : nat => nth (pick swrr_pick ws j) ids (-1)).
    apply andb_true_iff. split.
    + apply forallb_forall. intros x Hx. apply in_map_iff in Hx. destruct Hx as [j [E _]]. subst x.
      apply existsb_exists. exists (f j). split; [apply nth_In; apply Hp|apply Z.eqb_refl].
    + rewrite map_length, seq_length. apply forallb_forall. intros k0 Hk0. apply in_seq in Hk0.
      set (AA := Z.to_nat (Asum a)) in *.
      assert (Hwin : firstn AA (skipn k0 (map f (seq 0 k))) = map f (seq k0 AA)).
      { rewrite skipn_map, firstn_map, skipn_seq', firstn_seq' by lia. reflexivity. }
      rewrite Hwin. unfold window_ok. apply forallb_forall. intros e He.
      destruct (In_nth pc e (-1, 0) He) as [i [Hi En]].
      assert (E1 : fst e = nth i ids (-1)).
      { unfold ids. rewrite <- En. symmetry. exact (map_nth fst pc (-1, 0) i). }
      assert (E2 : snd e = ai a i).
      { unfold ai, a. rewrite <- En. symmetry. exact (map_nth snd pc (-1, 0) i). }
      rewrite E1, E2. unfold f. rewrite (count_picks ws ids i Hndi); [| unfold ids; rewrite map_length; exact Hi | exact Hp].
      unfold ws, AA. rewrite (swrr_window_exact_code a Hane Hpos k0 i); [apply Z.eqb_refl|].
      unfold a. rewrite map_length. exact Hi.
Qed.

(* wire level: a freshly initialised balancer (distinct backend ids) and one run of k calls *)
Theorem prop_of_model_fresh : forall conf k,
  NoDup (map fst conf) -> Z.of_nat k <= max_k ->
  prop_C01 (VL [VL (map (fun e => VL [VZ (fst e); VZ (snd e)]) conf); VL [VL [VZ 0; VZ (Z.of_nat k)]]])
           (run_C01 (VL [VL (map (fun e => VL [VZ (fst e); VZ (snd e)]) conf); VL [VL [VZ 0; VZ (Z.of_nat k)]]])) = true.
Proof.
  intros conf k Hnd Hk.
  assert (Hc : dec_conf (VL (map (fun e : Z * Z => VL [VZ (fst e); VZ (snd e)]) conf)) = Some conf).
  { unfold dec_conf. rewrite map_map. simpl. induction conf as [|[i w] r IH]; [reflexivity|].
    inversion Hnd; subst. simpl. rewrite (IH H2). reflexivity. }
  unfold prop_C01, run_C01, dec_in. rewrite Hc. simpl map. unfold dec_op.
  destruct (Z.leb_spec 0 (Z.of_nat k)); [|lia]. destruct (Z.leb_spec (Z.of_nat k) max_k); [|lia]. simpl andb. cbv iota.
  simpl all_some. cbn [existsb is_ss_op orb]. cbv iota. rewrite Nat2Z.id. simpl run_ops.
  destruct (picks_by swrr_pick (init conf) k) as [l bs'] eqn:Ep. simpl map.
  assert (Hl : length l = k).
  { assert (G : forall k bs, length (fst (picks_by swrr_pick bs k)) = k).
    { clear. induction k as [|k IH]; intros bs; [reflexivity|]. simpl. destruct (smooth_by swrr_pick bs) as [[p b1]|].
      - specialize (IH b1). destruct (picks_by swrr_pick b1 k). simpl in *. lia.
      - specialize (IH bs). destruct (picks_by swrr_pick bs k). simpl in *. lia. }
    specialize (G k (init conf)). rewrite Ep in G. exact G. }
  unfold dec_out. simpl map. 
  assert (Hz : as_LZ (vLZ l) = Some l).
  { unfold as_LZ, vLZ. rewrite map_map. simpl. clear. induction l as [|x r IH]; [reflexivity|]. simpl. rewrite IH. reflexivity. }
  unfold as_LZ, vLZ in Hz. rewrite Hz. simpl all_some. simpl spec_ops. cbv iota. rewrite Hl, Nat.eqb_refl. simpl andb.
  pose proof (fresh_run_segment_ok conf k Hnd) as Hs. rewrite Ep in Hs. exact Hs.
Qed.

(* ================================================================ slow start *)
Definition ss_wf (x : sb) : Prop := 0 <= ss_el (snd x) /\ 0 <= ss_T (snd x).
(* outside a ramp the effective weight is the target weight (= 100 x configured weight) *)
Definition ss_inv (x : sb) : Prop := ss_in (snd x) = false -> b_w (fst x) = ss_final (snd x).
(* a backend whose target weight is not positive never has a positive effective weight *)
Definition ss_inv3 (x : sb) : Prop := ss_final (snd x) <= 0 -> b_w (fst x) <= 0.

Definition ramp (fin e sT : Z) : Z := if sT =? 0 then fin else Z.quot (fin * e) (1000 * sT).
Definition ss_active (x : sb) : bool := ss_rs (snd x) || ss_in (snd x).
Definition ss_e1 (x : sb) : Z := if ss_rs (snd x) then 0 else ss_el (snd x).
Definition ss_T1 (T : Z) (x : sb) : Z := if ss_rs (snd x) then T else ss_T (snd x).

Lemma check_one_w T x : b_w (fst (check_one T x)) =
  if ss_active x then (let wt := ramp (ss_final (snd x)) (ss_e1 x) (ss_T1 T x) in if wt >=? ss_final (snd x) then ss_final (snd x) else wt)
  else b_w (fst x).
Proof.
  destruct x as [[[[id w] c] av] [[[[fin inss] e] rs] sT]]. unfold check_one, ss_active, ss_e1, ss_T1, ramp. simpl.
  destruct rs; simpl; [|destruct inss; simpl; [|reflexivity]];
    match goal with |- context [if ?a >=? fin then _ else _] => destruct (a >=? fin) end; reflexivity.
Qed.
Lemma check_one_in T x : ss_in (snd (check_one T x)) =
  if ss_active x then negb (ramp (ss_final (snd x)) (ss_e1 x) (ss_T1 T x) >=? ss_final (snd x)) else false.
Proof.
  destruct x as [[[[id w] c] av] [[[[fin inss] e] rs] sT]]. unfold check_one, ss_active, ss_e1, ss_T1, ramp. simpl.
  destruct rs; simpl; [|destruct inss; simpl; [|reflexivity]];
    match goal with |- context [if ?a >=? fin then _ else _] => destruct (a >=? fin) end; reflexivity.
Qed.
Lemma check_one_rest T x :
  ss_final (snd (check_one T x)) = ss_final (snd x) /\ ss_el (snd (check_one T x)) = ss_e1 x /\
  ss_T (snd (check_one T x)) = ss_T1 T x /\ ss_rs (snd (check_one T x)) = false /\
  b_id (fst (check_one T x)) = b_id (fst x) /\ b_av (fst (check_one T x)) = b_av (fst x).
Proof.
  destruct x as [[[[id w] c] av] [[[[fin inss] e] rs] sT]]. unfold check_one, ss_e1, ss_T1. simpl.
  destruct rs; simpl; [|destruct inss; simpl; [|repeat split]];
    match goal with |- context [if ?a >=? fin then _ else _] => destruct (a >=? fin) end; repeat split.
Qed.

(* when a ramp ends (inSlowStart becomes false) the weight is exactly the target weight *)
Lemma check_one_finished T x :
  ss_active x = true -> ss_in (snd (check_one T x)) = false ->
  b_w (fst (check_one T x)) = ss_final (snd (check_one T x)).
Proof.
  intros Ha Hf. rewrite check_one_in, Ha in Hf. destruct (check_one_rest T x) as [F _]. rewrite F, check_one_w, Ha.
  cbv zeta. destruct (_ >=? ss_final (snd x)); [reflexivity|discriminate].
Qed.
Lemma check_one_inv T x : ss_inv x -> ss_inv (check_one T x).
Proof.
  intros Hinv Hf. destruct (ss_active x) eqn:Ea; [apply check_one_finished; assumption|].
  destruct (check_one_rest T x) as [F _]. rewrite F, check_one_w, Ea. apply Hinv.
  unfold ss_active in Ea. apply orb_false_iff in Ea. tauto.
Qed.

Lemma ramp_bounds fin e sT : 0 < fin -> 0 <= e -> 0 <= sT -> 0 <= ramp fin e sT.
Proof.
  intros. unfold ramp. destruct (Z.eqb_spec sT 0); [lia|]. apply Z.quot_pos; nia.
Qed.
(* during a ramp with a positive target the weight stays within [0, target] *)
Lemma check_one_ramp_bounds T x : 0 <= T -> ss_wf x -> 0 < ss_final (snd x) -> ss_active x = true ->
  0 <= b_w (fst (check_one T x)) <= ss_final (snd x).
Proof.
  intros HT [He Hs] Hf Ha. rewrite check_one_w, Ha. cbv zeta.
  assert (0 <= ramp (ss_final (snd x)) (ss_e1 x) (ss_T1 T x)).
  { apply ramp_bounds; [exact Hf| |]; unfold ss_e1, ss_T1; destruct (ss_rs (snd x)); lia. }
  destruct (Z.geb_spec (ramp (ss_final (snd x)) (ss_e1 x) (ss_T1 T x)) (ss_final (snd x))); lia.
Qed.
(* target <= 0: the effective weight never becomes positive *)
Lemma check_one_inv3 T x : ss_inv3 x -> ss_inv3 (check_one T x).
Proof.
  intros Hinv. unfold ss_inv3. destruct (check_one_rest T x) as [F _]. rewrite F, check_one_w. intros Hf.
  destruct (ss_active x); [|apply Hinv; exact Hf]. cbv zeta.
  destruct (Z.geb_spec (ramp (ss_final (snd x)) (ss_e1 x) (ss_T1 T x)) (ss_final (snd x))); lia.
Qed.
Lemma check_one_wf T x : 0 <= T -> ss_wf x -> ss_wf (check_one T x).
Proof.
  intros HT [He Hs]. unfold ss_wf. destruct (check_one_rest T x) as [_ [F1 [F2 _]]]. rewrite F1, F2.
  unfold ss_e1, ss_T1. destruct (ss_rs (snd x)); lia.
Qed.

(* ---- the invariant along histories *)
Definition ss_good (x : sb) : Prop := ss_wf x /\ ss_inv x /\ ss_inv3 x.
Lemma check_ss_good T l : 0 <= T -> Forall ss_good l -> Forall ss_good (check_ss T l).
Proof.
  intros HT H. unfold check_ss. destruct (0 <? T); [|exact H]. apply Forall_forall. intros y Hy.
  apply in_map_iff in Hy. destruct Hy as [x [E Hx]]. subst y. rewrite Forall_forall in H. destruct (H x Hx) as [A [B C]].
  split; [apply check_one_wf; assumption|]. split; [apply check_one_inv; assumption|apply check_one_inv3; assumption].
Qed.
Lemma init2_good conf : Forall ss_good (init2 conf).
Proof.
  apply Forall_forall. intros y Hy. apply in_map_iff in Hy. destruct Hy as [[i w] [E _]]. subst y.
  unfold ss_good, ss_wf, ss_inv, ss_inv3. simpl. repeat split; try lia.
Qed.
Lemma update2_good l conf : Forall ss_good l -> Forall ss_good (update2 l conf).
Proof.
  intros H. unfold update2. apply Forall_app. split.
  - apply Forall_forall. intros y Hy. apply in_flat_map in Hy. destruct Hy as [x [Hx Hy]].
    destruct (lookup (b_id (fst x)) conf) as [w|]; [|contradiction]. destruct Hy as [Hy|[]]. subst y.
    rewrite Forall_forall in H. destruct (H x Hx) as [[A1 A2] _].
    destruct x as [[[[id w0] c] av] [[[[fin inss] e] rs] sT]]. unfold ss_good, ss_wf, ss_inv, ss_inv3. simpl in *.
    repeat split; try lia.
  - apply Forall_forall. intros y Hy. apply in_map_iff in Hy. destruct Hy as [[i w] [E _]]. subst y.
    unfold ss_good, ss_wf, ss_inv, ss_inv3. simpl. repeat split; try lia.
Qed.
Lemma on_id_good id f l : (forall x, ss_good x -> ss_good (f x)) -> Forall ss_good l -> Forall ss_good (on_id id f l).
Proof.
  intros Hf H. unfold on_id. apply Forall_forall. intros y Hy. apply in_map_iff in Hy. destruct Hy as [x [E Hx]]. subst y.
  rewrite Forall_forall in H. destruct (b_id (fst x) =? id); [apply Hf|]; apply H; exact Hx.
Qed.
Lemma apply_op2_good T l o : 0 <= T -> Forall ss_good l ->
  (match o with OSetSS t => 0 <= t | OElapsed _ e => 0 <= e | _ => True end) ->
  0 <= fst (apply_op2 (T, l) o) /\ Forall ss_good (snd (apply_op2 (T, l) o)).
Proof.
  intros HT H Ho. destruct o as [k|conf|id a|t|id e|id|id n]; simpl; split; try assumption.
  - apply update2_good; exact H.
  - apply on_id_good; [|exact H]. intros [[[[i w] c] av] s] G. exact G.
  - apply on_id_good; [|exact H]. intros [b [[[[fin inss] e0] rs] sT]] [[A1 A2] [B C]].
    unfold ss_good, ss_wf, ss_inv, ss_inv3 in *. simpl in *. repeat split; try assumption.
  - apply on_id_good; [|exact H]. intros [b [[[[fin inss] e0] rs] sT]] G. exact G.
Qed.

(* a balance algorithm that returns an eligible backend of its list and only changes credits *)
Definition bal_ok (bal : list backend -> option (Z * list backend)) : Prop :=
  (forall bs p upd, bal bs = Some (p, upd) ->
     (exists b, In b bs /\ elig b = true /\ b_id b = p) /\ map bcfg upd = map bcfg bs) /\
  (forall bs, bal bs = None <-> filter elig bs = []).
Lemma smooth_bal_ok : bal_ok smooth.
Proof. split; [exact smooth_some|exact smooth_none]. Qed.

Lemma combine_good : forall (l1 : list sb) upd, map bcfg upd = map bcfg (map fst l1) -> Forall ss_good l1 ->
  Forall ss_good (combine upd (map snd l1)).
Proof.
  induction l1 as [|[b s] r IH]; intros [|u upd] H G; simpl in *; try discriminate; try constructor.
  - assert (H1 : bcfg u = bcfg b) by congruence. inversion G as [|? ? G1 G2]; subst.
    unfold bcfg in H1. inversion H1 as [[Hi Hw Ha]].
    destruct G1 as [A [B C]]. unfold ss_good, ss_wf, ss_inv, ss_inv3 in *. simpl in *. rewrite Hw. tauto.
  - inversion G; subst. apply IH; [congruence|assumption].
Qed.

(* One Balance call with slow start in any reachable state: the state stays good; -1 is returned iff no backend is
   eligible after checkSlowStart; otherwise the pick is an available backend whose effective AND target (configured)
   weights are positive. *)
Theorem pick2_spec bal T l p l' : bal_ok bal -> 0 <= T -> Forall ss_good l -> pick2 bal T l = (p, l') ->
  Forall ss_good l' /\
  ((p = -1 /\ filter elig (map fst (check_ss T l)) = []) \/
   (exists x, In x (check_ss T l) /\ b_id (fst x) = p /\ sb_ok x = true)).
Proof.
  intros [Hs Hn] HT G. unfold pick2. pose proof (check_ss_good T l HT G) as G1.
  destruct (bal (map fst (check_ss T l))) as [[q upd]|] eqn:E; intros H; inversion H; subst; clear H.
  - destruct (Hs _ _ _ E) as [[b [Hb [He Hid]]] Hc]. split; [apply combine_good; assumption|]. right.
    apply in_map_iff in Hb. destruct Hb as [x [Ex Hx]]. subst b. exists x. split; [exact Hx|]. split; [exact Hid|].
    unfold sb_ok. rewrite He. simpl. rewrite Forall_forall in G1. destruct (G1 x Hx) as [_ [_ C]].
    apply Z.ltb_lt. destruct (Z_lt_le_dec 0 (ss_final (snd x))) as [Hp|Hp]; [exact Hp|]. specialize (C Hp).
    unfold elig in He. apply andb_true_iff in He. destruct He as [_ He]. apply Z.ltb_lt in He. lia.
  - split; [exact G1|]. left. split; [reflexivity|]. apply Hn. exact E.
Qed.

(* ---------------------------------------------------------------- Update with an unchanged configuration *)
(* conf names exactly the backends of bs, each with its current weight (a weight <= 0 entry already has credit 0) *)
Definition same_conf (bs : list backend) (conf : list (Z * Z)) : Prop :=
  (forall b, In b bs -> exists w, lookup (b_id b) conf = Some w /\ b_w b = 100 * w /\ (w <= 0 -> b_c b = 0)) /\
  (forall e, In e conf -> In (fst e) (map b_id bs)).

Lemma filter_none_s {X} (f : X -> bool) l : (forall x, In x l -> f x = false) -> filter f l = [].
Proof.
  induction l as [|x r IH]; simpl; intros H; [reflexivity|]. rewrite (H x (or_introl eq_refl)). apply IH.
  intros y Hy. apply H. right. exact Hy.
Qed.

Theorem update_identity bs conf : same_conf bs conf -> update bs conf = bs.
Proof.
  intros [Hk Hn]. unfold update.
  assert (E2 : filter (fun e : Z * Z => negb (existsb (Z.eqb (fst e)) (map b_id bs))) conf = []).
  { apply filter_none_s. intros e He. apply negb_false_iff. apply existsb_exists. exists (fst e).
    split; [apply Hn; exact He|apply Z.eqb_refl]. }
  rewrite E2. simpl. rewrite app_nil_r.
  clear Hn E2. induction bs as [|b r IH]; [reflexivity|]. simpl.
  destruct (Hk b (or_introl eq_refl)) as [w [Hl [Hw Hc]]]. rewrite Hl. simpl. f_equal.
  - destruct b as [[[i w0] c] a]. simpl in *. subst w0. destruct (Z.leb_spec w 0); [rewrite (Hc H)|]; reflexivity.
  - apply IH. intros b' Hb'. apply Hk. right. exact Hb'.
Qed.
