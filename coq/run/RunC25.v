(* C25 wire functions.  input: [1 stream] (HTTP/1) | [2 [[name value]...]] (HTTP/2 fields) | [3 [[name value]...]] (SPDY pairs)
   output: [code bytes]: 0 = written bytes; 1 = rejected by the frontend; 2 = Request.Write failed (body unreadable) *)
From Coq Require Import List ZArith Bool.
From Bfe Require Import lib.Val lib.Bytes model.Http1Req model.Http1Write.
Import ListNotations.
Open Scope Z_scope.

Definition dec_pair (v : val) : option (bytes * bytes) :=
  match v with VL [VB k; VB x] => Some (k, x) | _ => None end.
(* the accepted request (frontend model); inl 0 = malformed input value *)
Definition accepted (i : val) : Z + wreq :=
  match i with
  | VL [VZ 1; VB s] => front_http1 s
  | VL [VZ 2; VL ps] => match all_some (map dec_pair ps) with Some fs => front_h2 fs | None => inl 0 end
  | VL [VZ 3; VL ps] => match all_some (map dec_pair ps) with Some fs => front_spdy fs | None => inl 0 end
  | _ => inl 0
  end.
Definition run_C25 (i : val) : val :=
  match accepted i with
  | inr r => VL [VZ 0; VB (write_request r)]
  | inl 0 => VErr 0
  | inl c => VL [VZ c; VB []]
  end.
(* inputs outside the modelled request-target classes (code 98) are not compared *)
Definition agree_C25 (i o : val) : bool :=
  match accepted i with
  | inl 98 => true
  | _ => val_eqb (run_C25 i) o
  end.
(* THE PROPERTY: whatever was written parses, with the strict reference parser, as exactly one request,
   and that request is the accepted one (method, target, Host, forwarded fields with sanitised values, body). *)
Definition prop_C25 (i o : val) : bool :=
  match o with
  | VL [VZ 0; VB out] =>
    match accepted i with
    | inr r => match strict_parse out with Some q => sreq_eqb q (normalize r) | None => false end
    | inl 98 => true
    | inl _ => false
    end
  | VL [VZ 1; VB []] => true
  | VL [VZ 2; VB []] => true
  | _ => false
  end.
(* known-finding classes: frontend * 10 + unsafe component (1 method, 2 target, 3 host, 4 field name) *)
Definition kf_C25 (i : val) : Z :=
  match i, accepted i with
  | VL (VZ f :: _), inr r => let c := unsafe_component r in if c =? 0 then 0 else f * 10 + c
  | _, _ => 0
  end.
