(* C25 wire functions.  input: [1 stream] (HTTP/1) | [2 [[name value]...]] (HTTP/2 fields, END_STREAM) | [3 [[name value]...]] (SPDY pairs, FIN)
   | [2 fields body] | [3 pairs body] (request with a body)
   output: [code bytes]: 0 = written bytes; 1 = rejected by the frontend; 2 = Request.Write failed (body unreadable) *)
From Coq Require Import List ZArith Bool.
From Bfe Require Import lib.Val lib.Bytes model.Http1Req model.Http1Write.
Import ListNotations.
Open Scope Z_scope.

Definition dec_pair (v : val) : option (bytes * bytes) :=
  match v with VL [VB k; VB x] => Some (k, x) | _ => None end.
(* the accepted request (frontend model); inl 0 = malformed input value *)
Definition accepted (i : val) : Z + wreq :=
  match i with
  | VL [VZ 1; VB s] => front_http1 s
  | VL [VZ 2; VL ps] => match all_some (map dec_pair ps) with Some fs => front_h2b fs None | None => inl 0 end
  | VL [VZ 3; VL ps] => match all_some (map dec_pair ps) with Some fs => front_spdyb fs None | None => inl 0 end
  | VL [VZ 2; VL ps; VB b] => match all_some (map dec_pair ps) with Some fs => front_h2b fs (Some b) | None => inl 0 end
  | VL [VZ 3; VL ps; VB b] => match all_some (map dec_pair ps) with Some fs => front_spdyb fs (Some b) | None => inl 0 end
  | _ => inl 0
  end.
(* Request.write (after fixes c496926 505d2ce 4b75bc7 d4ea2c7, see known_findings/C25.txt) writes nothing and returns an error when
   the method is not a token, the request-target has SP/CTL, Host has CR/LF or a header name is not a token *)
(* transport-level input: [4 [[method path declared delivered early respclose bodyerr] ...]] ; output: [stream ...] *)
Definition dec_step (v : val) : option tstep :=
  match v with
  | VL [VB m; VB p; VZ n; VB d; VZ e; VZ c; VZ x] =>
    if (n <? 0) || ((n =? 0) && negb (match d with [] => true | _ => false end)) then None
    else Some {| t_method := m; t_path := p; t_declared := n; t_delivered := d;
                 t_early := negb (e =? 0); t_respclose := negb (c =? 0); t_bodyerr := negb (x =? 0) |}
  | _ => None
  end.
Definition dec_scenario (i : val) : option (list tstep) :=
  match i with
  | VL [VZ t; VL steps] => if t =? 4 then all_some (map dec_step steps) else None
  | _ => None
  end.
Definition run_scenario (i : val) : val :=
  match dec_scenario i with
  | Some steps => VL (map VB (run_transport steps [] false))
  | None => VErr 0
  end.
Definition run_C25 (i : val) : val :=
  match accepted i with
  | inr r => if safe_request r then VL [VZ 0; VB (write_request r)] else VL [VZ 2; VB []]
  | inl c => if c =? 0 then run_scenario i
             else if c =? 98 then VL [VZ 98; VB []]
             else if c =? 2 then VL [VZ 2; VB []] else VL [VZ 1; VB []]
  end.
Definition not_modelled (i : val) : bool :=
  match accepted i with inl c => c =? 98 | inr _ => false end.
(* inputs outside the modelled request-target classes (code 98) are not compared *)
Definition agree_C25 (i o : val) : bool := not_modelled i || val_eqb (run_C25 i) o.
(* THE PROPERTY: either nothing was written (frontend rejected the request, or Request.Write refused / failed
   before or while writing: codes 1, 2), or what was written parses, with the strict reference parser, as
   exactly one request, and that request is the accepted one (method, target, Host, forwarded fields with
   sanitised values, body). *)
Definition is_scenario (i : val) : bool :=
  match accepted i with
  | inl c => (c =? 0) && match dec_scenario i with Some _ => true | None => false end
  | inr _ => false
  end.
(* transport level: every backend connection received a sequence of complete well-formed requests,
   possibly ending in one request that was cut short *)
Definition prop_scenario (o : val) : bool :=
  match as_LB o with
  | Some streams => forallb (fun s => seq_ok (S (length s)) s) streams
  | None => false
  end.
Definition prop_C25 (i o : val) : bool :=
  if is_scenario i then prop_scenario o else
  not_modelled i ||
  match o with
  | VL [VZ c; VB out] =>
    if c =? 0 then
      match accepted i with
      | inr r => match strict_parse out with Some q => sreq_eqb q (normalize r) | None => false end
      | inl _ => false
      end
    else ((c =? 1) || (c =? 2)) && match out with [] => true | _ => false end
  | _ => false
  end.
(* all former known-finding classes are repaired *)
Definition kf_C25 (i : val) : Z := 0.
(* well-formed inputs: a well-shaped value whose accepted request (if any) has a body the model can frame:
   none, Content-Length n with n bytes (0 < n < 10^80), or chunks shorter than 16^16 bytes *)
Definition body_wf (b : wbody) : bool :=
  match b with
  | WNone => true
  | WLen n d => (0 <? n) && (n <? 10 ^ 80) && (blen d =? n)
  | WChunked cs => forallb (fun d => blen d <? 16 ^ 16) cs
  end.
Definition wf_C25 (i : val) : bool :=
  match accepted i with
  | inr r => body_wf (w_body r)
  | inl c => negb (c =? 0)
  end.
