From Coq Require Import List ZArith Bool.
From Bfe Require Import lib.Val model.Prison.
Import ListNotations.
Open Scope Z_scope.

(* input : [VZ period; VZ stay; VZ threshold; VZ accessDictSize; VZ prisonDictSize; VL [[VZ key; VZ time] ...]]
           times non-decreasing; key -1 = unsignable request; key -2 = rule reload, second field = payload (see reload_l / rl_cfg in model/Prison.v)
   output: VL of 0/1 verdicts of recordAndCheck, one per op (0 for a reload) *)
Definition dec_op (v : val) : option (Z * Z) :=
  match v with VL [VZ k; VZ t] => Some (k, t) | _ => None end.
Record inp := { in_cfg : cfg; in_acap : Z; in_pcap : Z; in_ops : list (Z * Z) }.
Definition dec_C53 (v : val) : option inp :=
  match v with
  | VL [VZ p; VZ s; VZ th; VZ ac; VZ pc; VL ops] =>
    match all_some (map dec_op ops) with
    | Some ops' => Some {| in_cfg := {| c_period := p; c_stay := s; c_threshold := th |}; in_acap := ac; in_pcap := pc; in_ops := ops' |}
    | None => None
    end
  | _ => None
  end.
(* distinct request keys *)
Fixpoint distinct_keys (ops : list (Z * Z)) (seen : list Z) : list Z :=
  match ops with
  | [] => seen
  | (k, _) :: r => if (k <? 0) || existsb (Z.eqb k) seen then distinct_keys r seen else distinct_keys r (k :: seen)
  end.
(* no dictionary can ever overflow: the number of distinct keys does not exceed either (initial) capacity *)
Definition no_evict (x : inp) : bool :=
  let n := Z.of_nat (length (distinct_keys (in_ops x) [])) in (n <=? in_acap x) && (n <=? in_pcap x).
(* The model: without possible eviction and without configuration changes the dictionaries are maps (run_ops);
   otherwise the LRU lists with the configuration as part of the state (run_lru). *)
(* no reload changes period / stay / threshold *)
Definition stable (ops : list (Z * Z)) : bool :=
  forallb (fun o => negb (fst o =? -2) || (snd o / 1000000 <=? 0)) ops.
Definition run_inp (x : inp) : list bool :=
  if no_evict x && stable (in_ops x) then run_ops (in_cfg x) empty_state (in_ops x)
  else run_lru (in_cfg x) {| l_acc := []; l_pr := []; l_acap := in_acap x; l_pcap := in_pcap x |} (in_ops x).
(* second input shape (several overlapping rules, unbounded dictionaries):
     [VZ (-7); VL [[period stay threshold cond_matches cmd] ...] (global rules); VL [...] (product rules); VL [[key time] ...]]
   output: VL [[return code; AllChecked increment; AllPrison increment] per request] *)
Definition dec_mrule (v : val) : option mrule :=
  match v with
  | VL [VZ p; VZ s; VZ th; VZ m; VZ cmd] =>
    Some {| m_cfg := {| c_period := p; c_stay := s; c_threshold := th |}; m_match := negb (m =? 0); m_cmd := cmd |}
  | _ => None
  end.
Record minp := { mi_g : list mrule; mi_p : list mrule; mi_ops : list (Z * Z) }.
Definition dec_multi (v : val) : option minp :=
  match v with
  | VL [VZ (-7); VL g; VL p; VL ops] =>
    match all_some (map dec_mrule g), all_some (map dec_mrule p), all_some (map dec_op ops) with
    | Some g', Some p', Some ops' => Some {| mi_g := g'; mi_p := p'; mi_ops := ops' |}
    | _, _, _ => None
    end
  | _ => None
  end.
Definition enc_multi (l : list (Z * Z * Z)) : val :=
  VL (map (fun o => match o with (ret, c, p) => VL [VZ ret; VZ c; VZ p] end) l).
Definition with_state {S} (s0 : S) (rs : list mrule) : list (mrule * S) := map (fun r => (r, s0)) rs.
Definition run_minp (x : minp) : list (Z * Z * Z) :=
  run_multi state record_and_check (with_state empty_state (mi_g x)) (with_state empty_state (mi_p x)) (mi_ops x).
Definition run_C53 (v : val) : val :=
  match dec_C53 v with
  | Some x => VL (map vbool (run_inp x))
  | None => match dec_multi v with Some x => enc_multi (run_minp x) | None => VErr 0 end
  end.
Definition agree_C53 (i o : val) : bool := val_eqb (run_C53 i) o.

(* ---- the property, from the statement, as a check of an observed verdict list against the timed history. *)
(* Reference automaton written from the statement (per key): a window opens at the first counted request,
   holds for period; the (threshold+1)-th request in the window jails the key until window start + period + stay;
   requests while jailed are denied and not counted; the first request at or after the free time is admitted
   and opens a new window. *)
Record kstate := { k_open : bool; k_start : Z; k_count : Z; k_jailed : bool; k_free : Z }.
Definition k0 : kstate := {| k_open := false; k_start := 0; k_count := 0; k_jailed := false; k_free := 0 |}.
Definition spec_step (c : cfg) (s : kstate) (t : Z) : kstate * bool :=
  if k_jailed s && (t <? k_free s) then (s, true)
  else
    (* a window continues iff one is open and has not yet lasted longer than period *)
    let cont := k_open s && negb (k_jailed s) && (t <=? k_start s + c_period c) in
    let start := if cont then k_start s else t in
    let count := (if cont then k_count s else 0) + 1 in
    if c_threshold c <? count then
      let free := start + c_period c + c_stay c in
      if t <? free then ({| k_open := false; k_start := 0; k_count := 0; k_jailed := true; k_free := free |}, true)
      else (k0, false)            (* zero-length sentence: nothing to serve *)
    else ({| k_open := true; k_start := start; k_count := count; k_jailed := false; k_free := 0 |}, false).
Fixpoint spec_run (c : cfg) (m : Z -> kstate) (ops : list (Z * Z)) : list bool :=
  match ops with
  | [] => []
  | (k, t) :: r =>
    if k <? 0 then false :: spec_run c m r
    else let '(s', d) := spec_step c (m k) t in
         d :: spec_run c (fun k' => if k' =? k then s' else m k') r
  end.
Fixpoint sorted_ops (ops : list (Z * Z)) : bool :=
  match ops with
  | (_, t1) :: (((_, t2) :: _) as r) => (t1 <=? t2) && sorted_ops r
  | _ => true
  end.
Definition bools_of (v : val) : option (list bool) :=
  match v with VL l => all_some (map (fun x => match x with VZ 0 => Some false | VZ 1 => Some true | _ => None end) l) | _ => None end.
Fixpoint list_bool_eqb (a b : list bool) : bool :=
  match a, b with
  | [], [] => true
  | x :: a', y :: b' => Bool.eqb x y && list_bool_eqb a' b'
  | _, _ => false
  end.
(* With possible evictions a key may be forgotten; what must still hold is that nobody is denied without cause:
   every denied request (key k, time t) is preceded by a window [s, s+period], s a request time of k, that already
   holds more than threshold requests of k (this one included), and t is before s + period + stay. *)
Fixpoint count_key (k a b : Z) (ops : list (Z * Z)) : Z :=
  match ops with
  | [] => 0
  | (k', t) :: r => (if (k' =? k) && (a <=? t) && (t <=? b) then 1 else 0) + count_key k a b r
  end.
Definition denial_justified (c : cfg) (sofar : list (Z * Z)) (k t : Z) : bool :=
  existsb (fun o => (fst o =? k) && (c_threshold c <? count_key k (snd o) (snd o + c_period c) sofar)
                    && (t <? snd o + c_period c + c_stay c)) sofar.
Fixpoint all_justified (c : cfg) (past : list (Z * Z)) (ops : list (Z * Z)) (ds : list bool) : bool :=
  match ops, ds with
  | [], [] => true
  | (k, t) :: r, d :: ds' =>
    let sofar := past ++ [(k, t)] in
    (if d then (0 <=? k) && denial_justified c sofar k t else true) && all_justified c sofar r ds'
  | _, _ => false
  end.
(* several rules: every matching rule judges the request by its own reference automaton (spec_step), in order, and a
   rule that admits never hides the request from the later rules *)
Definition spec_rac (c : cfg) (m : Z -> kstate) (k t : Z) : (Z -> kstate) * bool :=
  if k <? 0 then (m, false)
  else let '(s', d) := spec_step c (m k) t in (fun k' => if k' =? k then s' else m k', d).
Definition spec_minp (x : minp) : list (Z * Z * Z) :=
  run_multi (Z -> kstate) spec_rac (with_state (fun _ => k0) (mi_g x)) (with_state (fun _ => k0) (mi_p x)) (mi_ops x).
Definition prop_C53 (i o : val) : bool :=
  match dec_C53 i, bools_of o with
  | Some x, Some ds =>
    if negb (stable (in_ops x)) then true     (* rule parameters change on reload: correspondence with run_lru only *)
    else if no_evict x then list_bool_eqb (spec_run (in_cfg x) (fun _ => k0) (in_ops x)) ds
    else all_justified (in_cfg x) [] (in_ops x) ds
  | Some _, None => false
  | None, _ => match dec_multi i with Some x => val_eqb (enc_multi (spec_minp x)) o | None => false end
  end.
Definition kf_C53 (i : val) : Z := 0.
