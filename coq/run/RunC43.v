From Coq Require Import List ZArith Bool.
From Bfe Require Import lib.Val model.CbcPad.
Import ListNotations.
Open Scope Z_scope.

(* input: VB payload ; output: VL [VB out; VZ good] *)
Definition run_C43 (v : val) : val :=
  match v with
  | VB pl => let '(out, good) := remove_padding pl in VL [VB out; VZ good]
  | VL [VZ 2; VZ vers; VZ clen; VB full] => vbool (cbc_record_ok vers clen 20 full)
  | VL [VZ 3; VB pl] => let '(out, good) := remove_padding_ssl30 pl in VL [VB out; VZ good]
  | _ => VErr 0
  end.
Definition agree_C43 (i o : val) : bool := val_eqb (run_C43 i) o.
(* the property itself, evaluated on the implementation's observation *)
Definition prop_C43 (i o : val) : bool :=
  match i with
  | VB pl => let '(out, good) := spec_remove pl in val_eqb o (VL [VB out; VZ good])
  | VL [VZ 2; VZ vers; VZ clen; VB full] => val_eqb o (vbool (spec_record_ok vers clen 20 full))
  | VL [VZ 3; VB pl] => let '(out, good) := spec_remove_ssl30 pl in val_eqb o (VL [VB out; VZ good])
  | _ => false
  end.
Definition kf_C43 (i : val) : Z := 0.
