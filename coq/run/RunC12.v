From Coq Require Import List ZArith Bool.
From Bfe Require Import lib.Val lib.Bytes model.BasicRoute model.ClusterLookup run.RunC11.
Import ListNotations.
Open Scope Z_scope.

(* input : [ basic adv [VB host; VB path; VB method] ]
     basic = [] (product has no basic table) | [rules]   with rules as in C11
     adv   = [] (product has no advanced table) | [[ [VZ kind; VL args; VB cluster] ... ]]
             kind 0 = default_t(), 1 = req_method_in(args joined by |), 2 = req_path_prefix_in(args joined by |, false)
   output: [VB cluster; VZ err]   err 0 ok, 1 ErrNoProductRule, 2 ErrNoMatchRule;  VErr 1 = configuration rejected *)
Definition dec_adv_rule (v : val) : option (cond * bytes) :=
  match v with
  | VL [VZ k; args; VB cl] =>
    match as_LB args with
    | Some a => if k =? 0 then Some (CDefault, cl) else if k =? 1 then Some (CMethodIn a, cl)
                else if k =? 2 then Some (CPathPrefixIn a, cl) else None
    | None => None
    end
  | _ => None
  end.
Definition dec_opt {A} (f : val -> option A) (v : val) : option (option A) :=
  match v with
  | VL [] => Some None
  | VL [x] => match f x with Some a => Some (Some a) | None => None end
  | _ => None
  end.
Definition dec_req (v : val) : option request :=
  match v with VL [VB h; VB p; VB m] => Some (mkReq h p m) | _ => None end.
Definition dec_C12 (i : val) : option (option (list rule) * option (list (cond * bytes)) * request) :=
  match i with
  | VL [b; a; q] =>
    match dec_opt (dec_list dec_rule) b, dec_opt (dec_list dec_adv_rule) a, dec_req q with
    | Some ob, Some oa, Some req => Some (ob, oa, req)
    | _, _, _ => None
    end
  | _ => None
  end.
Definition enc_cresult (r : cresult) : val :=
  match r with
  | COk cl => VL [VB cl; VZ 0]
  | CErrNoProductRule => VL [VB []; VZ 1]
  | CErrNoMatchRule => VL [VB []; VZ 2]
  end.
(* load the basic table: None = rejected *)
Definition load_opt (ob : option (list rule)) : option (option htrees) :=
  match ob with
  | None => Some None
  | Some rules => match load_rules rules with Some t => Some (Some t) | None => None end
  end.
Definition run_C12 (i : val) : val :=
  match dec_C12 i with
  | Some (ob, oa, req) =>
    match load_opt ob with
    | Some basic => enc_cresult (lookup_cluster cond_holds basic oa req)
    | None => VErr 1
    end
  | None => VErr 0
  end.
Definition agree_C12 (i o : val) : bool := val_eqb (run_C12 i) o.
(* the property, from the documentation: the documented basic choice (doc_route on the port-less host) when it
   names a real cluster, otherwise the first advanced rule in order whose condition holds, otherwise an error *)
Definition prop_C12 (i o : val) : bool :=
  match dec_C12 i with
  | Some (ob, oa, req) =>
    match o with
    | VL [VZ (-1); VZ _] => true
    | _ =>
      let doc_basic := match ob with
                       | Some rules => doc_route rules (strip_port (q_host req)) (q_path req)
                       | None => None
                       end in
      val_eqb o (enc_cresult (spec_cluster cond_holds doc_basic oa req))
    end
  | None => false
  end.
Definition kf_C12 (i : val) : Z := 0.
