From Coq Require Import List ZArith Bool.
From Bfe Require Import lib.Val lib.Bytes model.BasicRoute model.ClusterLookup run.RunC11.
Import ListNotations.
Open Scope Z_scope.

(* input : [ stage ... ]   the stages are applied to the SAME HostTable object in order: RouteConfLoad(stage file),
           HostTable.Update, then the stage's requests (act -> reload -> act)
     stage    = [ products requests ]
     products = [[VB name; basic; adv] ...]   (distinct names; this is the route table file: product => rules)
       basic = [] (product has no basic table) | [rules]   with rules as in C11
       adv   = [] (product has no advanced table) | [[ [VZ kind; VL args; VB cluster] ... ]]
               kind 0 = default_t(), 1 = req_method_in(args joined by |), 2 = req_path_prefix_in(args joined by |, false)
     requests = [[VB product; VB host; VB path; VB method; VZ url] ...]   (req.Route.Product, Host, URL.Path, Method;
                url = 0: req.HttpRequest.URL is nil)
   output: one value per stage: [[VB cluster; VZ err] ...]  err 0 ok, 1 ErrNoProductRule, 2 ErrNoMatchRule;
           VErr 1 = the loader rejects the stage's file (no Update, requests skipped) *)
Definition dec_adv_rule (v : val) : option (cond * bytes) :=
  match v with
  | VL [VZ k; args; VB cl] =>
    match as_LB args with
    | Some a => if k =? 0 then Some (CDefault, cl) else if k =? 1 then Some (CMethodIn a, cl)
                else if k =? 2 then Some (CPathPrefixIn a, cl) else None
    | None => None
    end
  | _ => None
  end.
Definition dec_opt {A} (f : val -> option A) (v : val) : option (option A) :=
  match v with
  | VL [] => Some None
  | VL [x] => match f x with Some a => Some (Some a) | None => None end
  | _ => None
  end.
(* a product as written in the file: its own basic rule list and its own advanced rule list *)
Definition product_rules := (bytes * (option (list rule) * option (list (cond * bytes))))%type.
Definition dec_product (v : val) : option product_rules :=
  match v with
  | VL [VB n; b; a] =>
    match dec_opt (dec_list dec_rule) b, dec_opt (dec_list dec_adv_rule) a with
    | Some ob, Some oa => Some (n, (ob, oa))
    | _, _ => None
    end
  | _ => None
  end.
Definition dec_req (v : val) : option (bytes * request) :=
  match v with VL [VB p; VB h; VB pa; VB m; VZ u] => Some (p, mkReq h pa m (negb (u =? 0))) | _ => None end.
Definition stage := (list product_rules * list (bytes * request))%type.
Definition dec_stage (v : val) : option stage :=
  match v with
  | VL [ps; qs] =>
    match dec_list dec_product ps, dec_list dec_req qs with
    | Some prods, Some reqs => Some (prods, reqs)
    | _, _ => None
    end
  | _ => None
  end.
Definition dec_C12 (i : val) : option (list stage) := dec_list dec_stage i.
Definition wf_C12 (i : val) : bool := match dec_C12 i with Some _ => true | None => false end.
Definition enc_cresult (r : cresult) : val :=
  match r with
  | COk cl => VL [VB cl; VZ 0]
  | CErrNoProductRule => VL [VB []; VZ 1]
  | CErrNoMatchRule => VL [VB []; VZ 2]
  end.
(* convertBasicRule for every product: None = some product's rules are rejected (the whole file is) *)
Definition load_opt (ob : option (list rule)) : option (option htrees) :=
  match ob with
  | None => Some None
  | Some rules => match load_rules rules with Some t => Some (Some t) | None => None end
  end.
Fixpoint load_table (prods : list product_rules) : option (list (product_entry cond)) :=
  match prods with
  | [] => Some []
  | (n, (ob, oa)) :: r =>
    match load_opt ob, load_table r with
    | Some b, Some t => Some ((n, (b, oa)) :: t)
    | _, _ => None
    end
  end.
(* one stage; `answer prods tbl q` is the per-request answer (model: from the loaded table; spec: from the rule lists) *)
Definition stage_out (answer : list product_rules -> list (product_entry cond) -> bytes * request -> cresult)
           (st : stage) : val :=
  match load_table (fst st) with
  | Some tbl => VL (map (fun q => enc_cresult (answer (fst st) tbl q)) (snd st))
  | None => VErr 1
  end.
Definition model_answer (prods : list product_rules) (tbl : list (product_entry cond)) (q : bytes * request) : cresult :=
  lookup_table cond_holds tbl (fst q) (snd q).
Definition run_C12 (i : val) : val :=
  match dec_C12 i with
  | Some stages => VL (map (stage_out model_answer) stages)
  | None => VErr 0
  end.
Definition agree_C12 (i o : val) : bool := val_eqb (run_C12 i) o.
(* the property, from the documentation, PER PRODUCT and PER STAGE: only the rules written under the request's own
   product in the CURRENT file count: the documented basic choice (doc_route of C11 on the port-less host) when it
   names a real cluster, otherwise the first of the product's advanced rules in order whose condition holds,
   otherwise an error *)
Definition spec_request (prods : list product_rules) (q : bytes * request) : cresult :=
  let req := snd q in
  match find_product (fst q) prods with
  | Some (ob, oa) =>
    let doc_basic := match ob with
                     | Some rules => doc_route rules (strip_port (q_host req)) (eff_path req)
                     | None => None
                     end in
    spec_cluster cond_holds doc_basic oa req
  | None => CErrNoProductRule
  end.
Definition spec_answer (prods : list product_rules) (tbl : list (product_entry cond)) (q : bytes * request) : cresult :=
  spec_request prods q.
Definition prop_C12 (i o : val) : bool :=
  match dec_C12 i with
  | Some stages => val_eqb (VL (map (stage_out spec_answer) stages)) o
  | None => false
  end.
Definition kf_C12 (i : val) : Z := 0.
