(* C18 wire functions.
   input : VL [VB name; args; request; oracle]
     args    : VL [VL [VZ kind; VB literal] ...]        kind 1 = STRING, 2 = BOOL ("true"/"false")
     request : see CondPrim.dec_request;  oracle : see CondPrim.dec_ext (results of the external library calls)
   or    : VL [VZ 9; VB name; args; request; oracle; VZ shape]   the same call evaluated on an INCOMPLETE request object:
           shape 1 = session-only request (HttpRequest == nil; what mod_key_log / TLS-phase callbacks build),
           shape 2 = request without Session.  Only the session part of `request` is used.
   output: VZ 0/1 = condition.Build(name(args)).Match(request); VErr 1 = Build returned an error *)
From Coq Require Import List ZArith Bool.
From Bfe Require Import lib.Val lib.Bytes model.CondParse model.CondPrim.
Import ListNotations.
Open Scope Z_scope.
Local Open Scope list_scope.

Definition decode_C18 (i : val) : option (bytes * list arg * request * ext) :=
  match i with
  | VL [VB name; args; rq; orc] =>
    match dec_args args, dec_request rq, dec_ext orc with
    | Some a, Some r, Some x => Some (name, a, r, x)
    | _, _, _ => None
    end
  | _ => None
  end.

Definition model_C18 (x : ext) (name : bytes) (args : list arg) (r : request) : val :=
  match build_call x name args with
  | Some c => vbool (cond_match x c r)
  | None => VErr 1
  end.

(* incomplete request objects: PrimitiveCond.Match answers false without fetching; DefaultTrueCond matches everything;
   ClientAuthMatcher / TrustedCIpMatcher / SecureProtoMatcher only look at the session; the remaining combinations
   dereference a nil pointer in the Go code and are not generated (VErr 2) *)
Definition decode_shape (i : val) : option (bytes * list arg * request * ext * Z) :=
  match i with
  | VL [VZ 9; VB name; args; rq; orc; VZ shape] =>
    match dec_args args, dec_request rq, dec_ext orc with
    | Some a, Some r, Some x => if (shape =? 1) || (shape =? 2) then Some (name, a, r, x, shape) else None
    | _, _, _ => None
    end
  | _ => None
  end.
Definition shape_verdict (x : ext) (name : bytes) (args : list arg) (r : request) (shape : Z) : val :=
  match build_call x name args with
  | None => VErr 1
  | Some (CPrim _ _ _) => VZ 0
  | Some (CDirect ty) =>
    if bytes_eqb ty n_DefaultTrueCond then VZ 1
    else if bytes_eqb ty n_ClientAuthMatcher then (if shape =? 1 then vbool (direct_match ty r) else VZ 0)
    else if (bytes_eqb ty n_TrustedCIpMatcher || bytes_eqb ty n_SecureProtoMatcher) && (shape =? 1)
         then vbool (direct_match ty r)
    else VErr 2
  end.

Definition run_C18 (i : val) : val :=
  match decode_C18 i with
  | Some (name, a, r, x) => model_C18 x name a r
  | None =>
    match decode_shape i with
    | Some (name, a, r, x, sh) => shape_verdict x name a r sh
    | None => VErr 0
    end
  end.
Definition agree_C18 (i o : val) : bool := val_eqb (run_C18 i) o.

(* known finding 1: a header / query value primitive (and req_ua_regmatch) on a request WITHOUT that header / query
   key fetches "" instead of failing, so it is true whenever the documented test accepts the empty string. *)
Definition fetched_as_empty (a : attr) (r : request) : bool :=
  match a with
  | AQuery _ | AHeader _ | AUA => true
  | AResHeader _ => match r_resp r with Some _ => true | None => false end
  | _ => false
  end.
Definition kf1 (x : ext) (name : bytes) (args : list arg) (r : request) : bool :=
  match lookup name string_specs with
  | Some (SS a pi t fs) =>
    match attr_val (attr_of a args) r with
    | None => fetched_as_empty (attr_of a args) r && spec_test x (test_of t fs args) (arg_str (nth_arg args pi)) []
    | Some _ => false
    end
  | None => false
  end.
(* known finding 2: req_header_key_in / res_header_key_in treat a listed header that is present with an empty
   first value as absent (Header.Get(key) != "") *)
Definition header_key_present (keys : bytes) (h : alist (list bytes)) : bool :=
  existsb (fun k => match aget (canon_key k) h with Some (_ :: _) => true | _ => false end) (split_bar keys).
Definition kf2 (name : bytes) (args : list arg) (r : request) : bool :=
  let keys := arg_str (nth_arg args 0) in
  if bytes_eqb name ((* "req_header_key_in" *) [114;101;113;95;104;101;97;100;101;114;95;107;101;121;95;105;110]) then header_key_present keys (r_headers r) && negb (header_key_in keys (r_headers r))
  else if bytes_eqb name ((* "res_header_key_in" *) [114;101;115;95;104;101;97;100;101;114;95;107;101;121;95;105;110]) then
    match r_resp r with Some (_, h) => header_key_present keys h && negb (header_key_in keys h) | None => false end
  else false.

(* the documented verdict; for the two key_in primitives "present" means present (possibly with an empty value) *)
Definition doc_match (x : ext) (name : bytes) (args : list arg) (r : request) : option bool :=
  let keys := arg_str (nth_arg args 0) in
  if bytes_eqb name ((* "req_header_key_in" *) [114;101;113;95;104;101;97;100;101;114;95;107;101;121;95;105;110]) then Some (header_key_present keys (r_headers r))
  else if bytes_eqb name ((* "res_header_key_in" *) [114;101;115;95;104;101;97;100;101;114;95;107;101;121;95;105;110]) then
    Some (match r_resp r with Some (_, h) => header_key_present keys h | None => false end)
  else spec_match x name args r.

(* the property: on a call that Build accepts, Match returns the documented verdict.
   (Build errors are C17's subject: nothing to check here.) *)
Definition prop_C18 (i o : val) : bool :=
  match decode_C18 i with
  | Some (name, a, r, x) =>
    match o with
    | VZ b => match doc_match x name a r with
              | Some d => Bool.eqb (negb (b =? 0)) d && ((b =? 0) || (b =? 1))
              | None => false                        (* a primitive without documented meaning was built *)
              end
    | _ => val_eqb o (VErr 1)
    end
  | None =>
    match decode_shape i with
    | Some (name, a, r, x, sh) => val_eqb o (shape_verdict x name a r sh)   (* incomplete request: see shape_verdict *)
    | None => true
    end
  end.
Definition kf_C18 (i : val) : Z :=
  match decode_C18 i with
  | Some (name, a, r, x) => if kf1 x name a r then 1 else if kf2 name a r then 2 else 0
  | None => 0
  end.
