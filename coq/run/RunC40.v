(* C40 wire functions.  input  [maxStreams [ev ...]]  with events
     [1 id fin cl bad] SYN_STREAM   [2 id n fin] DATA   [3 id delta] WINDOW_UPDATE   [4 id status] RST_STREAM
     [5 id k] handler reads k body bytes   [6 v] SETTINGS initial window   [7 id n fin] handler writes n bytes
     [8 id] handler closes the request body   [9 id] PING
   output [[step ...] buffered]   step = [alive [frame ...] x]  (x = bytes the handler read), [-2] = panic;
   frames: [3 id status] RST_STREAM  [7 last status] GOAWAY  [9 id delta] WINDOW_UPDATE  [2 id] SYN_REPLY
           [0 id len fin] DATA  [6 id] PING;    buffered = unread body bytes of live streams at the end *)
From Coq Require Import List ZArith Bool.
From Bfe Require Import lib.Val model.SpdyServer.
Import ListNotations.
Open Scope Z_scope.

Definition run_C40 (i : val) : val :=
  match i with
  | VL [VZ maxs; VL evs] =>
    match run_events (init_conn maxs) evs with
    | Some (os, cf) =>
      if existsb (val_eqb Bug) os then VL [VL os; VZ (-1)] else VL [VL os; VZ (total_buf cf)]
    | None => VErr 0
    end
  | _ => VErr 0
  end.
Definition agree_C40 (i o : val) : bool := val_eqb (run_C40 i) o.

(* ---------- the property, from the client's point of view ---------- *)
Record cstream := { c_id : Z; c_win : Z; c_open : bool; c_owin : Z }.
Record cview := {
  v_strs : list cstream;
  v_conn : Z;          (* what the client may still send on the session: 65536 - sent + WINDOW_UPDATE(0) *)
  v_oconn : Z;         (* what the server may still send on the session *)
  v_initwin : Z;       (* SETTINGS_INITIAL_WINDOW_SIZE last sent by the client *)
  v_maxsyn : Z;
  v_goaway : bool; v_alive : bool;
  v_compliant : bool;  (* the client never exceeded a window it was given *)
  v_track_out : bool;  (* outbound accounting still meaningful (no out-of-range delta seen) *)
  v_sent : Z; v_wu0 : Z
}.
Definition cv0 : cview :=
  {| v_strs := []; v_conn := 65536; v_oconn := 65536; v_initwin := 65536; v_maxsyn := 0; v_goaway := false;
     v_alive := true; v_compliant := true; v_track_out := true; v_sent := 0; v_wu0 := 0 |}.
Fixpoint cfind (id : Z) (l : list cstream) : option cstream :=
  match l with [] => None | s :: r => if c_id s =? id then Some s else cfind id r end.
Fixpoint cupd (s' : cstream) (l : list cstream) : list cstream :=
  match l with [] => [] | s :: r => if c_id s =? c_id s' then s' :: r else s :: cupd s' r end.
Definition with_strs (v : cview) (l : list cstream) : cview :=
  {| v_strs := l; v_conn := v_conn v; v_oconn := v_oconn v; v_initwin := v_initwin v; v_maxsyn := v_maxsyn v;
     v_goaway := v_goaway v; v_alive := v_alive v; v_compliant := v_compliant v; v_track_out := v_track_out v;
     v_sent := v_sent v; v_wu0 := v_wu0 v |}.

Definition has_rst (id : Z) (fs : list val) : bool :=
  existsb (fun f => match f with VL [VZ 3; VZ i; VZ _] => i =? id | _ => false end) fs.
Definition has_rst_code (id code : Z) (fs : list val) : bool :=
  existsb (fun f => match f with VL [VZ 3; VZ i; VZ c] => (i =? id) && (c =? code) | _ => false end) fs.
Definition has_goaway (code : Z) (fs : list val) : bool :=
  existsb (fun f => match f with VL [VZ 7; VZ _; VZ c] => c =? code | _ => false end) fs.
Definition any_goaway (fs : list val) : bool :=
  existsb (fun f => match f with VL [VZ 7; VZ _; VZ _] => true | _ => false end) fs.

(* apply the frames the server sent in this step to the client's view; false = the server broke a rule *)
Fixpoint absorb (v : cview) (fs : list val) : cview * bool :=
  match fs with
  | [] => (v, true)
  | f :: r =>
    match f with
    | VL [VZ 9; VZ id; VZ d] =>
      if id =? 0 then
        absorb {| v_strs := v_strs v; v_conn := v_conn v + d; v_oconn := v_oconn v; v_initwin := v_initwin v;
                  v_maxsyn := v_maxsyn v; v_goaway := v_goaway v; v_alive := v_alive v; v_compliant := v_compliant v;
                  v_track_out := v_track_out v; v_sent := v_sent v; v_wu0 := v_wu0 v + d |} r
      else match cfind id (v_strs v) with
           | Some s => absorb (with_strs v (cupd {| c_id := id; c_win := c_win s + d; c_open := c_open s; c_owin := c_owin s |} (v_strs v))) r
           | None => absorb v r
           end
    | VL [VZ 3; VZ id; VZ _] =>
      match cfind id (v_strs v) with
      | Some s => absorb (with_strs v (cupd {| c_id := id; c_win := c_win s; c_open := false; c_owin := c_owin s |} (v_strs v))) r
      | None => absorb v r
      end
    | VL [VZ 7; VZ _; VZ _] =>
      absorb {| v_strs := v_strs v; v_conn := v_conn v; v_oconn := v_oconn v; v_initwin := v_initwin v;
                v_maxsyn := v_maxsyn v; v_goaway := true; v_alive := v_alive v; v_compliant := v_compliant v;
                v_track_out := v_track_out v; v_sent := v_sent v; v_wu0 := v_wu0 v |} r
    | VL [VZ 0; VZ id; VZ n; VZ _] =>
      (* outbound DATA must fit the windows the client granted *)
      match cfind id (v_strs v) with
      | Some s =>
        let ok := negb (v_track_out v) || ((n <=? c_owin s) && (n <=? v_oconn v)) || (n =? 0) in
        let v' := {| v_strs := cupd {| c_id := id; c_win := c_win s; c_open := c_open s; c_owin := c_owin s - n |} (v_strs v);
                     v_conn := v_conn v; v_oconn := v_oconn v - n; v_initwin := v_initwin v; v_maxsyn := v_maxsyn v;
                     v_goaway := v_goaway v; v_alive := v_alive v; v_compliant := v_compliant v;
                     v_track_out := v_track_out v; v_sent := v_sent v; v_wu0 := v_wu0 v |} in
        let '(v'', ok') := absorb v' r in (v'', ok && ok')
      | None => (v, false)                       (* DATA on a stream the client never opened *)
      end
    | _ => absorb v r
    end
  end.

(* one event as the client sees it: requirement on this step's frames, then the updated view *)
Definition cstep (v : cview) (ev : val) (fs : list val) (alive : bool) : cview * bool :=
  let quiet := v_goaway v || negb (v_alive v) in       (* after GOAWAY / close nothing is required any more *)
  let '(v1, req) :=
    match ev with
    | VL [VZ 1; VZ id; VZ fin; VZ _; VZ _] =>
      if quiet then (v, true)
      else if negb (id mod 2 =? 1) || (id <? v_maxsyn v) then (v, has_goaway 1 fs)      (* invalid_ids_rejected *)
      else if id =? v_maxsyn v then
        (match cfind id (v_strs v) with
         | Some s => with_strs v (cupd {| c_id := id; c_win := c_win s; c_open := false; c_owin := c_owin s |} (v_strs v))
         | None => v end, has_rst_code id 1 fs)
      else
        let s := {| c_id := id; c_win := 65536; c_open := fin =? 0; c_owin := v_initwin v |} in
        ({| v_strs := v_strs v ++ [s]; v_conn := v_conn v; v_oconn := v_oconn v; v_initwin := v_initwin v;
            v_maxsyn := id; v_goaway := v_goaway v; v_alive := v_alive v; v_compliant := v_compliant v;
            v_track_out := v_track_out v; v_sent := v_sent v; v_wu0 := v_wu0 v |}, true)
    | VL [VZ 2; VZ id; VZ n; VZ fin] =>
      let s_open := match cfind id (v_strs v) with Some s => c_open s | None => false end in
      let s_win := match cfind id (v_strs v) with Some s => c_win s | None => 0 end in
      let over := (0 <? n) && ((v_conn v <? n) || (s_open && (s_win <? n))) in
      let req := if quiet then true
                 else if negb s_open then has_rst id fs              (* closed_stream_frames_rejected *)
                 else if (0 <? n) && (s_win <? n) then has_rst id fs (* inbound_within_window, stream *)
                 else if (0 <? n) && (v_conn v <? n) && v_compliant v then has_rst id fs   (* ... session *)
                 else true in
      let strs' := match cfind id (v_strs v) with
                   | Some s => cupd {| c_id := id; c_win := c_win s - n; c_open := c_open s && (fin =? 0); c_owin := c_owin s |} (v_strs v)
                   | None => v_strs v end in
      ({| v_strs := strs'; v_conn := v_conn v - n; v_oconn := v_oconn v; v_initwin := v_initwin v; v_maxsyn := v_maxsyn v;
          v_goaway := v_goaway v; v_alive := v_alive v; v_compliant := v_compliant v && negb over;
          v_track_out := v_track_out v; v_sent := v_sent v + n; v_wu0 := v_wu0 v |}, req)
    | VL [VZ 3; VZ id; VZ d] =>
      if 2^31 <=? d then
        ({| v_strs := v_strs v; v_conn := v_conn v; v_oconn := v_oconn v; v_initwin := v_initwin v; v_maxsyn := v_maxsyn v;
            v_goaway := v_goaway v; v_alive := v_alive v; v_compliant := v_compliant v; v_track_out := false;
            v_sent := v_sent v; v_wu0 := v_wu0 v |}, true)
      else if id =? 0 then
        ({| v_strs := v_strs v; v_conn := v_conn v; v_oconn := v_oconn v + d; v_initwin := v_initwin v; v_maxsyn := v_maxsyn v;
            v_goaway := v_goaway v; v_alive := v_alive v; v_compliant := v_compliant v; v_track_out := v_track_out v;
            v_sent := v_sent v; v_wu0 := v_wu0 v |},
         quiet || negb (v_track_out v) || (v_oconn v + d <? 2^31) || has_goaway 7 fs)
      else match cfind id (v_strs v) with
           | Some s => (with_strs v (cupd {| c_id := id; c_win := c_win s; c_open := c_open s; c_owin := c_owin s + d |} (v_strs v)), true)
           | None => (v, true)
           end
    | VL [VZ 4; VZ id; VZ _] =>
      match cfind id (v_strs v) with
      | Some s => (with_strs v (cupd {| c_id := id; c_win := c_win s; c_open := false; c_owin := c_owin s |} (v_strs v)), true)
      | None => (v, true)
      end
    | VL [VZ 6; VZ x] =>
      if 2^31 <=? x then
        ({| v_strs := v_strs v; v_conn := v_conn v; v_oconn := v_oconn v; v_initwin := v_initwin v; v_maxsyn := v_maxsyn v;
            v_goaway := v_goaway v; v_alive := v_alive v; v_compliant := v_compliant v; v_track_out := false;
            v_sent := v_sent v; v_wu0 := v_wu0 v |}, true)
      else
      ({| v_strs := map (fun s => {| c_id := c_id s; c_win := c_win s; c_open := c_open s; c_owin := c_owin s + (x - v_initwin v) |}) (v_strs v);
          v_conn := v_conn v; v_oconn := v_oconn v; v_initwin := x; v_maxsyn := v_maxsyn v;
          v_goaway := v_goaway v; v_alive := v_alive v; v_compliant := v_compliant v; v_track_out := v_track_out v;
          v_sent := v_sent v; v_wu0 := v_wu0 v |}, true)
    | _ => (v, true)
    end in
  let '(v2, ok) := absorb v1 fs in
  ({| v_strs := v_strs v2; v_conn := v_conn v2; v_oconn := v_oconn v2; v_initwin := v_initwin v2; v_maxsyn := v_maxsyn v2;
      v_goaway := v_goaway v2; v_alive := v_alive v2 && alive; v_compliant := v_compliant v2;
      v_track_out := v_track_out v2; v_sent := v_sent v2; v_wu0 := v_wu0 v2 |}, req && ok).

Fixpoint cwalk (v : cview) (evs os : list val) : option cview :=
  match evs, os with
  | [], [] => Some v
  | ev :: er, VL [VZ al; VL fs; VZ _] :: orr =>
    let '(v', ok) := cstep v ev fs (negb (al =? 0)) in
    if ok then cwalk v' er orr else None
  | _, _ => None
  end.

Definition prop_C40 (i o : val) : bool :=
  match i, o with
  | VL [VZ _; VL evs], VL [VL os; VZ buffered] =>
    negb (existsb (val_eqb Bug) os) &&                                   (* no_bug_reachable *)
    match cwalk cv0 evs os with
    | Some v =>
      (* replenish_by_consumed: every byte a well-behaved client sent is either still buffered for a
         handler or has been given back at session level *)
      if v_compliant v && v_alive v && negb (v_goaway v) then v_sent v - v_wu0 v =? buffered else true
    | None => false
    end
  | _, _ => false
  end.

(* ---------- known finding 1: unread buffered bytes of a stream that is closed or reset are never
   returned at session level (dropped DATA frames are refunded since the /repo fix) ---------- *)
Fixpoint kf_scan (c : conn) (evs : list val) : bool :=
  match evs with
  | [] => false
  | ev :: r =>
    match step c ev with
    | Some (c', fs, _) =>
      negb (INITWIN - cinflow c' =? total_buf c') || kf_scan c' r   (* a stream closed with unread bytes *)
    | None => false
    end
  end.
(* ---------- known finding 2: a stream's WINDOW_UPDATE waits behind that stream's flow-blocked response DATA,
   while the server already counts the window as given ---------- *)
Definition pending_wu (c : conn) : bool :=
  negb (muted c) &&
  existsb (fun s => existsb (fun t : Z * Z * bool => let '(k, _, _) := t in k =? 9) (outq s)) (strs c).
Fixpoint kf_scan2 (c : conn) (evs : list val) : bool :=
  match evs with
  | [] => false
  | ev :: r =>
    match step c ev with
    | Some (c', _, _) => pending_wu c' || kf_scan2 c' r
    | None => false
    end
  end.
Definition kf_C40 (i : val) : Z :=
  match i with
  | VL [VZ maxs; VL evs] =>
    if kf_scan (init_conn maxs) evs then 1 else if kf_scan2 (init_conn maxs) evs then 2 else 0
  | _ => 0
  end.
