(* C39 wire functions.  Operations (first list element):
   [1 hdrs]                 writeHeaderValueBlock into a plain buffer, then parseHeaderValueBlock of those bytes
                            obs [n  VB bytes  parse-result]
   [2 sid VB block]         parseHeaderValueBlock on arbitrary plain bytes;  obs parse-result
   [3 frames]               Framer.WriteFrame* (real zlib) then Framer.ReadFrame* ; obs list of results
   [4 VB wire chunks]       Framer.ReadFrame* on an arbitrary wire; chunks = inflate oracle [[idx off size VB plain]..]
                            obs list of [result offset-after]
   [5 sid flags len fill]   compact DATA round trip: WriteFrame(DataFrame{sid, flags, len x fill}) then PING(7), read back;
                            obs [[werr VB header8] [[result offset] ..]], DATA results as [0 sid flags len first last]
   [6 kind flags sid vlen]  SYN_REPLY(2)/HEADERS(8) with one header of vlen incompressible bytes; obs [VB first12 framelen]
   [7 flags n]              SETTINGS with n entries (0,4,100) then PING(7); obs [VB first12 framelen [[result offset] ..]]
                            (read back only when n <= 1100; SETTINGS results as [4 ver flags len count])
   [8 VB wire chunks]       like 4, with the allocation verdict of the whole read: obs [over [[result offset] ..]]
   [9 sid VB block]         like 2, with the allocation verdict of the parse call: obs [over parse-result]
                            over = 1 iff the Go heap allocated more than 1 MB + 8 x (bytes supplied) during the call
   hdrs = [[VB name [VB value ..]] ..]     parse-result = [code hlen headers consumed maxrequest]            *)
From Coq Require Import List ZArith Bool.
From Bfe Require Import lib.Val lib.Bytes model.SpdyFrame.
Import ListNotations.
Open Scope Z_scope.

(* ---- decoding ---- *)
Definition dec_hdr (v : val) : option (bytes * list bytes) :=
  match v with VL [VB n; vs] => match as_LB vs with Some l => Some (n, l) | None => None end | _ => None end.
Definition dec_hdrs (v : val) : option (list (bytes * list bytes)) :=
  match v with VL l => all_some (map dec_hdr l) | _ => None end.
(* attach Go's ToLower(name); None if a name has a rune outside the tabulated ToLower *)
Definition to_went (h : bytes * list bytes) : option went :=
  match go_lower (fst h) with Some low => Some (fst h, low, snd h) | None => None end.
Definition to_wents (hs : list (bytes * list bytes)) : option (list went) := all_some (map to_went hs).

Definition dec_setting (v : val) : option (Z * Z * Z) :=
  match v with VL [VZ f; VZ i; VZ x] => Some (f, i, x) | _ => None end.
(* inl = malformed, inr None = unsupported name *)
Definition dec_frame (v : val) : option (option frame) :=
  let with_h (hv : val) (k : list went -> frame) : option (option frame) :=
    match dec_hdrs hv with
    | Some hs => Some (option_map k (to_wents hs))
    | None => None
    end in
  match v with
  | VL [VZ 1; VZ fl; VZ sid; VZ a; VZ p; VZ s; hv] => with_h hv (FSyn fl sid a p s)
  | VL [VZ 2; VZ fl; VZ sid; hv] => with_h hv (FReply fl sid)
  | VL [VZ 3; VZ sid; VZ st] => Some (Some (FRst sid st))
  | VL [VZ 4; VZ fl; VL l] => match all_some (map dec_setting l) with Some l' => Some (Some (FSettings fl l')) | None => None end
  | VL [VZ 6; VZ id] => Some (Some (FPing id))
  | VL [VZ 7; VZ last; VZ st] => Some (Some (FGoAway last st))
  | VL [VZ 8; VZ fl; VZ sid; hv] => with_h hv (FHeaders fl sid)
  | VL [VZ 9; VZ sid; VZ d] => Some (Some (FWindow sid d))
  | VL [VZ 0; VZ sid; VZ fl; VB d] => Some (Some (FData sid fl d))
  | _ => None
  end.
Definition dec_chunk (v : val) : option chunk :=
  match v with
  | VL [VZ i; VZ o; VZ c; VB p] => Some {| c_idx := i; c_off := o; c_size := c; c_plain := p |}
  | _ => None
  end.

(* ---- encoding of a plain-buffer parse ---- *)
Definition v_pres (total : Z) (r : pres bytes) : val :=
  match r with
  | PIo c s mx => VL [VZ c; VZ 0; VL []; VZ (total - blen s); VZ mx]
  | PDone h hl e s mx =>
    if e =? 0 then VL [VZ 0; VZ hl; v_headers h; VZ (total - blen s); VZ mx]
    else VL [VZ e; VZ 0; VL []; VZ (total - blen s); VZ mx]
  | PUnsup => v_unsup
  | PDesync => v_desync
  end.
Definition parse_plain (b : bytes) : val := v_pres (blen b) (parse_block rd_plain b).
Definition run_write_read (es : list went) : val :=
  let b := write_block es in VL [VZ (write_block_n es); VB b; parse_plain b].
Definition strip_off (v : val) : val := match v with VL [r; _] => r | _ => v end.
Definition run_frames (fs : list frame) : val :=
  let '(w, cs) := write_stream fs 0 0 in
  VL (map strip_off (read_stream 64 (init_state w cs))).


(* ---- compact ops: lengths at the field boundaries without 16 MB values ---- *)
Definition ping7 : bytes := fst (write_frame (FPing 7)).
Definition at_off (w : bytes) (o : Z) : fstate := set_wire (init_state w []) w o.
Definition run_data_compact (sid flags len fill : Z) : val :=
  match data_header sid flags len with
  | inl code => VL [VL [VZ code; VB []]; VL (read_stream 8 (at_off ping7 0))]
  | inr h =>
    let first := dec32 (firstn 4 h) in
    let second := dec32 (skipn 4 h) in
    let fb := if 0 <? len then fill else -1 in
    (* the payload is len copies of fill: the reader's DATA frame covers exactly the payload iff the
       length field says len *)
    if (first <? 2^31) && (second mod 2^24 =? len) then
      let r := if first =? 0 then v_serr 17 0 else VL [VZ 0; VZ first; VZ (second / 2^24); VZ len; VZ fb; VZ fb] in
      VL [VL [VZ 0; VB h]; VL (VL [r; VZ (8 + len)] :: read_stream 8 (at_off ping7 (8 + len)))]
    else VL [VL [VZ 0; VB h]; VL [VL [v_desync; VZ 0]]]
  end.
Definition compact_settings (v : val) : val :=
  match v with
  | VL [VL [VZ 4; ver; fl; ln; VL l]; o] => VL [VL [VZ 4; ver; fl; ln; VZ (Z.of_nat (length l))]; o]
  | _ => v
  end.
Definition settings_head (flags n : Z) : bytes := cf_header 4 flags (u32 (n * 8 + 4)) ++ be32 (u32 n).
Definition run_settings_compact (flags n : Z) : val :=
  if 1024 <? n then VL [VB []; VZ 0; VL (if n <=? 1100 then read_stream 8 (at_off ping7 0) else [])] else
  let rb := if n <=? 1100 then
              let w := fst (write_frame (FSettings flags (repeat (0, 4, 100) (Z.to_nat n)))) ++ ping7 in
              map compact_settings (read_stream 8 (at_off w 0))
            else [] in
  VL [VB (settings_head flags n); VZ (12 + 8 * n); VL rb].
(* header-bearing frame whose compressed block has c bytes (c is only known from the implementation) *)
Definition hdr_head (kind flags sid c : Z) : bytes := cf_header kind flags (u32 (c + 4)) ++ be32 sid.

Definition run_C39 (i : val) : val :=
  match i with
  | VL [VZ 1; hv] =>
    match dec_hdrs hv with
    | Some hs => match to_wents hs with Some es => run_write_read es | None => v_unsup end
    | None => VErr 0
    end
  | VL [VZ 2; VZ _; VB b] => parse_plain b
  | VL [VZ 3; VL fl] =>
    match all_some (map dec_frame fl) with
    | Some ofs => match all_some ofs with Some fs => run_frames fs | None => v_unsup end
    | None => VErr 0
    end
  | VL [VZ 4; VB w; VL cl] =>
    match all_some (map dec_chunk cl) with
    | Some cs => VL (read_stream 64 (init_state w cs))
    | None => VErr 0
    end
  | VL [VZ 5; VZ sid; VZ fl; VZ len; VZ fill] => run_data_compact sid fl len fill
  | VL [VZ 6; VZ _; VZ _; VZ _; VZ _] => v_desync        (* depends on the real compressed size: see agree *)
  | VL [VZ 7; VZ fl; VZ n] => run_settings_compact fl n
  (* allocation verdict: the model's parser never asks for more than one 4096-byte chunk at a time
     (C39_alloc_bounded) and keeps only what it has received, so the verdict is always 0 *)
  | VL [VZ 8; VB w; VL cl] =>
    match all_some (map dec_chunk cl) with
    | Some cs => VL [VZ 0; VL (read_stream 64 (init_state w cs))]
    | None => VErr 0
    end
  | VL [VZ 9; VZ _; VB b] => VL [VZ 0; parse_plain b]
  | _ => VErr 0
  end.

(* the length field of a control frame (position 3) depends on the real compressor: wildcarded in op 3 *)
Definition wild_len (v : val) : val :=
  match v with
  | VL (VZ k :: ver :: fl :: _ :: rest) => if 0 <? k then VL (VZ k :: ver :: fl :: VZ 0 :: rest) else v
  | _ => v
  end.

(* ---- agreement: exact, except where the model says "outside" ([-8] unsupported rune, [-9] zlib desync) ---- *)
Definition is_outside (v : val) : bool :=
  match v with VL [VZ t] => (t =? -8) || (t =? -9) | _ => false end.
(* result lists: compare up to the first outside marker of the model *)
Fixpoint list_agree (off : bool) (m o : list val) : bool :=
  match m, o with
  | [], [] => true
  | a :: m', b :: o' =>
    if is_outside (if off then strip_off a else a) then true
    else (if off then val_eqb a b else val_eqb (wild_len a) (wild_len b)) && list_agree off m' o'
  | _, _ => false
  end.
Definition agree_wr (m o : val) : bool :=
  match m, o with
  | VL [mn; mb; mp], VL [on; ob; op] => val_eqb mn on && val_eqb mb ob && (is_outside mp || val_eqb mp op)
  | _, _ => false
  end.
Definition agree_C39 (i o : val) : bool :=
  match i with
  | VL [VZ 1; hv] =>
    match dec_hdrs hv with
    | Some hs =>
      match to_wents hs with
      | Some es =>
        (* Go map iteration order is unspecified: some permutation of the entries must explain the bytes *)
        if (length es <=? 4)%nat then existsb (fun p => agree_wr (run_write_read p) o) (perms es)
        else agree_wr (run_write_read es) o
      | None => true
      end
    | None => false
    end
  | VL [VZ 2; _; _] => let m := run_C39 i in is_outside m || val_eqb m o
  | VL [VZ 3; _] =>
    let m := run_C39 i in
    if is_outside m then true
    else match m, o with
         | VL ml, VL ol => list_agree false ml ol
         | _, _ => false
         end
  | VL [VZ 4; _; _] =>
    match run_C39 i, o with
    | VL ml, VL ol => list_agree true ml ol
    | _, _ => false
    end
  | VL [VZ 5; _; _; _; _] => val_eqb (run_C39 i) o
  | VL [VZ 6; VZ kind; VZ fl; VZ sid; VZ _] =>
    match o with
    | VL [VB h; VZ w] => if w =? 0 then bytes_eqb h [] else bytes_eqb h (hdr_head kind fl sid (w - 12)) && (w - 8 <=? 2^24 - 1)
    | _ => false
    end
  | VL [VZ 7; _; _] => val_eqb (run_C39 i) o
  | VL [VZ 8; _; _] =>
    match run_C39 i, o with
    | VL [mo; VL ml], VL [oo; VL ol] => val_eqb mo oo && list_agree true ml ol
    | _, _ => false
    end
  | VL [VZ 9; _; _] =>
    match run_C39 i, o with
    | VL [mo; mp], VL [oo; op] => val_eqb mo oo && (is_outside mp || val_eqb mp op)
    | _, _ => false
    end
  | _ => false
  end.

(* ---- the property, from the specification ---- *)
(* what a header set must read back as: canonical MIME key of the lower-cased name, values as given
   (NUL is the value separator of the format, so values are taken through join/split) *)
Definition norm_headers (hs : list (bytes * list bytes)) : option hmap :=
  fold_left (fun (acc : option hmap) (h : bytes * list bytes) =>
               match acc, go_lower (fst h) with
               | Some m, Some low => Some (fold_left (fun m v => hadd low v m) (split_byte 0 (join_byte 0 (snd h))) m)
               | _, _ => None
               end) hs (Some []).
Definition keys_distinct (m : hmap) (hs : list (bytes * list bytes)) : bool := (length m =? length hs)%nat.

Definition in31 (z : Z) : bool := (0 <? z) && (z <? 2^31).
Definition byte_ok (z : Z) : bool := (0 <=? z) && (z <? 256).
Definition hdrs_ok (kind sid : Z) (hs : list (bytes * list bytes)) : option hmap :=
  match norm_headers hs with
  | Some m =>
    let inv := if kind =? 1 then invalid_req else if kind =? 2 then invalid_resp
               else if sid mod 2 =? 0 then invalid_req else invalid_resp in
    if keys_distinct m hs && negb (has_invalid inv m) && negb (url_too_long m) then Some m else None
  | None => None
  end.
(* expected read-back of a frame the codec is specified for; None = frame outside the codec's domain.
   The length field (position 3) is the codec's business and is wildcarded (0). *)
Definition spec_frame (v : val) : option val :=
  match v with
  | VL [VZ 1; VZ fl; VZ sid; VZ a; VZ p; VZ s; hv] =>
    match dec_hdrs hv with
    | Some hs =>
      if in31 sid && (0 <=? a) && (a <? 2^31) && (0 <=? p) && (p <? 8) && byte_ok s && byte_ok fl then
        match hdrs_ok 1 sid hs with
        | Some m => Some (VL [VZ 1; VZ 3; VZ fl; VZ 0; VZ sid; VZ a; VZ p; VZ s; v_headers m])
        | None => None end
      else None
    | None => None
    end
  | VL [VZ 0; VZ sid; VZ fl; VB d] =>
    if in31 sid && byte_ok fl then Some (VL [VZ 0; VZ sid; VZ fl; VB d]) else None
  | VL [VZ k; VZ fl; VZ sid; hv] =>
    match dec_hdrs hv with
    | Some hs =>
      if ((k =? 2) || (k =? 8)) && in31 sid && byte_ok fl then
        match hdrs_ok k sid hs with
        | Some m => Some (VL [VZ k; VZ 3; VZ fl; VZ 0; VZ sid; v_headers m])
        | None => None end
      else None
    | None => None
    end
  | VL [VZ 3; VZ sid; VZ st] =>
    if in31 sid && (0 <? st) && (st <? 2^32) then Some (VL [VZ 3; VZ 3; VZ 0; VZ 0; VZ sid; VZ st]) else None
  | VL [VZ 4; VZ fl; VL l] =>
    match all_some (map dec_setting l) with
    | Some l' =>
      if byte_ok fl && (length l' <=? 1024)%nat &&
         forallb (fun t : Z * Z * Z => let '(f, i, x) := t in byte_ok f && (0 <=? i) && (i <? 2^24) && (0 <=? x) && (x <? 2^32)) l'
      then Some (VL [VZ 4; VZ 3; VZ fl; VZ 0; VL l]) else None
    | None => None
    end
  | VL [VZ 6; VZ id] => if (0 <? id) && (id <? 2^32) then Some (VL [VZ 6; VZ 3; VZ 0; VZ 0; VZ id]) else None
  | VL [VZ 7; VZ last; VZ st] =>
    if (0 <=? last) && (last <? 2^31) && (0 <=? st) && (st <? 2^32) then Some (VL [VZ 7; VZ 3; VZ 0; VZ 0; VZ last; VZ st]) else None
  | VL [VZ 9; VZ sid; VZ d] =>
    if (0 <=? sid) && (sid <? 2^31) && (0 <=? d) && (d <? 2^31) then Some (VL [VZ 9; VZ 3; VZ 0; VZ 0; VZ sid; VZ d]) else None
  | _ => None
  end.

(* frame boundaries: every returned frame consumed exactly 8 + length bytes
   (or everything, when the input ends inside the frame) *)
Definition hdr_len (w : bytes) (start : Z) : option Z :=
  if (0 <=? start) && (start + 8 <=? blen w) then
    let n := Z.to_nat start in
    Some (nth (n + 5) w 0 * 65536 + nth (n + 6) w 0 * 256 + nth (n + 7) w 0)
  else None.
Fixpoint bounds_ok (w : bytes) (start : Z) (es : list val) {struct es} : bool :=
  match es with
  | [] => true
  | VL [r; VZ o] :: rest =>
    match r with
    | VL (VZ t :: _) =>
      if t <? 0 then true                      (* an error ends the session: nothing is read after it *)
      else match hdr_len w start with
           | Some l => ((o =? start + 8 + l) || ((blen w <? start + 8 + l) && (o =? blen w))) && bounds_ok w o rest
           | None => false
           end
    | _ => false
    end
  | _ => false
  end.

Definition prop_C39 (i o : val) : bool :=
  match i with
  | VL [VZ 1; hv] =>
    match dec_hdrs hv, o with
    | Some hs, VL [_; VB b; pr] =>
      match norm_headers hs with
      | Some m =>
        if keys_distinct m hs then
          match pr with
          | VL [VZ c; _; h; VZ consumed; _] => (c =? 0) && val_eqb h (v_headers m) && (consumed =? blen b)
          | _ => false
          end
        else true
      | None => true
      end
    | _, _ => false
    end
  | VL [VZ 2; _; VB b] =>
    match o with
    | VL [VZ _; VZ _; _; VZ _; VZ mx] => mx <=? 4096        (* never asks for more than one 4096-byte chunk at a time *)
    | _ => false
    end
  | VL [VZ 3; VL fl] =>
    match all_some (map spec_frame fl) with
    | Some exp =>
      match o with
      | VL ol => val_eqb (VL (map wild_len ol)) (VL (exp ++ [v_io 1]))
      | _ => false
      end
    | None => match o with VL _ => true | _ => false end      (* a frame outside the codec's domain *)
    end
  | VL [VZ 4; VB w; _] => match o with VL ol => bounds_ok w 0 ol | _ => false end
  | VL [VZ 5; VZ sid; VZ fl; VZ len; VZ fill] =>
    let ping := VL [VZ 6; VZ 3; VZ 0; VZ 4; VZ 7] in
    if in31 sid && byte_ok fl && (0 <=? len) && (len <=? 2^24 - 1) then
      (* accepted: header = stream id, flags, length (no wrap); read back as written; boundary kept *)
      let fb := if 0 <? len then fill else -1 in
      match o with
      | VL [VL [VZ 0; VB h]; VL es] =>
        (dec32 (firstn 4 h) =? sid) && (dec32 (skipn 4 h) / 2^24 =? fl) && (dec32 (skipn 4 h) mod 2^24 =? len) &&
        val_eqb (VL es) (VL [VL [VL [VZ 0; VZ sid; VZ fl; VZ len; VZ fb; VZ fb]; VZ (8 + len)];
                             VL [ping; VZ (8 + len + 12)]; VL [v_io 1; VZ (8 + len + 12)]])
      | _ => false
      end
    else
      (* the writer must refuse and write nothing *)
      match o with
      | VL [VL [VZ c; VB []]; VL es] => negb (c =? 0) && val_eqb (VL es) (VL [VL [ping; VZ 12]; VL [v_io 1; VZ 12]])
      | _ => false
      end
  | VL [VZ 6; VZ kind; VZ fl; VZ sid; VZ _] =>
    (* the length field is the payload length and the flags are the caller's *)
    match o, i with
    | VL [VB h; VZ w], VL [_; _; _; _; VZ vlen] =>
      if w =? 0 then 2^24 - 20000 <? vlen            (* refused: only legitimate for a block that cannot fit 24 bits *)
      else let second := dec32 (firstn 4 (skipn 4 h)) in
           (second / 2^24 =? fl) && (second mod 2^24 =? w - 8) && (vlen <? 2^24 - 17)
    | _, _ => false
    end
  | VL [VZ 8; VB w; _] =>
    (* no allocation beyond 1 MB + 8 x wire length, and the frame boundaries as in operation 4 *)
    match o with VL [VZ over; VL ol] => (over =? 0) && bounds_ok w 0 ol | _ => false end
  | VL [VZ 9; _; VB b] =>
    match o with
    | VL [VZ over; VL [VZ _; VZ _; _; VZ _; VZ mx]] => (over =? 0) && (mx <=? 4096)
    | _ => false
    end
  | VL [VZ 7; VZ fl; VZ n] =>
    match o with
    | VL [VB h; VZ w; VL es] =>
      if 1024 <? n then w =? 0                      (* more than MaxNumSettings entries: refused, nothing written *)
      else
      let second := dec32 (firstn 4 (skipn 4 h)) in
      (second / 2^24 =? fl) && (second mod 2^24 =? w - 8) && (w =? 12 + 8 * n) &&
      match es with
      | VL [VL [VZ 4; VZ 3; VZ f'; VZ l'; VZ cnt]; VZ o1] :: _ => (f' =? fl) && (cnt =? n) && (o1 =? w)
      | _ => false
      end
    | _ => false
    end
  | _ => false
  end.

(* ---- known-finding classes (functions of the input only) ---- *)
Definition len_changing (hs : list (bytes * list bytes)) : bool :=
  existsb (fun h : bytes * list bytes =>
             match go_lower (fst h) with Some low => negb (blen low =? blen (fst h)) | None => false end) hs.
Definition frame_hdrs (v : val) : list (bytes * list bytes) :=
  match v with
  | VL [VZ 1; _; _; _; _; _; hv] | VL [VZ 2; _; _; hv] | VL [VZ 8; _; _; hv] =>
    match dec_hdrs hv with Some hs => hs | None => [] end
  | _ => []
  end.
Fixpoint last_start (es : list val) (prev : Z) : Z * bool :=    (* start offset of the last entry, is it a desync *)
  match es with
  | [] => (prev, false)
  | [VL [r; _]] => (prev, match r with VL [VZ t] => t =? -9 | _ => false end)
  | VL [_; VZ o] :: rest => last_start rest o
  | _ :: rest => last_start rest prev
  end.
Definition underflow_at (w : bytes) (start : Z) : bool :=
  match hdr_len w start with
  | Some l =>
    let n := Z.to_nat start in
    let ctl := 128 <=? nth n w 0 in
    let typ := nth (n + 2) w 0 * 256 + nth (n + 3) w 0 in
    ctl && (((typ =? 1) && (l <? 10)) || (((typ =? 2) || (typ =? 8)) && (l <? 4)))
  | None => false
  end.
(* all four finding classes of C39 are repaired in /repo: no known-finding class is left *)
Definition kf_C39 (i : val) : Z := 0.
