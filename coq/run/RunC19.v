From Coq Require Import List ZArith Bool.
From Bfe Require Import lib.Val model.IpDict.
Import ListNotations.
Open Scope Z_scope.

(* input : [ [ [xS xE] ... ]  [ xSingle ... ]  [ xProbe ... ]  maxSingle  noUpdate ]
            (addresses: 4- or 16-byte strings, other lengths are invalid net.IPs; maxSingle = first argument of
             NewIPItems; noUpdate <> 0: IPTable.Update is not called, the table stays empty)
   output: [ pairErrs singleErrs s1 s2 final results length ]
            pairErrs/singleErrs : 0/1 per InsertPair / InsertSingle call (1 = error)
            s1    : the pair array after the first sort.Sort     (entries [xStart16 xEnd16])
            s2    : the pair array after mergeItems (merged items first, zero-address lines last)
            final : the pair array after IPItems.Sort() (real method)
            results : IPTable.Search(probe) 0/1 per probe
            length  : IPItems.Length() after Sort *)

Definition dec_pair (v : val) : option (list Z * list Z) :=
  match v with VL [VB s; VB e] => Some (s, e) | _ => None end.
Record input := { in_pairs : list (list Z * list Z); in_singles : list (list Z); in_probes : list (list Z);
                  in_maxsingle : Z; in_noupd : bool }.
Definition dec_input (v : val) : option input :=
  match v with
  | VL [VL ps; ss; qs; VZ ms; VZ nu] =>
    match all_some (map dec_pair ps), as_LB ss, as_LB qs with
    | Some p, Some s, Some q =>
      Some {| in_pairs := p; in_singles := s; in_probes := q; in_maxsingle := ms; in_noupd := negb (nu =? 0) |}
    | _, _, _ => None
    end
  | _ => None
  end.

Fixpoint keep_some {A} (l : list (option A)) : list A :=
  match l with [] => [] | Some x :: r => x :: keep_some r | None :: r => keep_some r end.
Definition err_flag {A} (o : option A) : val := match o with Some _ => VZ 0 | None => VZ 1 end.

Definition loaded_items (i : input) : list rng := keep_some (map (fun p => insert_pair (fst p) (snd p)) (in_pairs i)).
(* InsertSingle: To16() == nil -> error; else hash_set.Add on a set of capacity maxSingle+1: Full() is tested
   first (error even for a member), a member is not added twice.  State: members, error flags (reversed) *)
Definition insert_single (cp : Z) (st : list Z * list val) (s : list Z) : list Z * list val :=
  let '(set, errs) := st in
  match to16 s with
  | None => (set, VZ 1 :: errs)
  | Some a =>
    if cp <=? Z.of_nat (length set) then (set, VZ 1 :: errs)
    else if existsb (Z.eqb a) set then (set, VZ 0 :: errs)
    else (a :: set, VZ 0 :: errs)
  end.
Definition singles_run (i : input) : list Z * list val :=
  fold_left (insert_single (in_maxsingle i + 1)) (in_singles i) ([], []).
Definition loaded_singles (i : input) : list Z := fst (singles_run i).
Definition pair_errs (i : input) : val := VL (map (fun p => err_flag (insert_pair (fst p) (snd p))) (in_pairs i)).
Definition single_errs (i : input) : val := VL (rev (snd (singles_run i))).

(* 16-byte big-endian form of an address (decimal text of 128-bit numbers is slow on the wire) *)
Fixpoint bytes_be (n : nat) (z : Z) (acc : list Z) : list Z :=
  match n with O => acc | S n' => bytes_be n' (Z.shiftr z 8) (Z.land z 255 :: acc) end.
Definition enc_addr (z : Z) : val := VB (bytes_be 16 z []).
Definition enc_rng (r : rng) : val := VL [enc_addr (fst r); enc_addr (snd r)].
Definition enc_rngs (l : list rng) : val := VL (map enc_rng l).
Definition dec_rng (v : val) : option rng :=
  match v with
  | VL [VB s; VB e] => if (length s =? 16)%nat && (length e =? 16)%nat then Some (be s, be e) else None
  | _ => None
  end.
Definition dec_rngs (v : val) : option (list rng) :=
  match v with VL l => all_some (map dec_rng l) | _ => None end.

Definition probe_result (singles : list Z) (final : list rng) (q : list Z) : bool :=
  match to16 q with Some ip => table_search singles final ip | None => false end.

Definition final_of (n : nat) (cnt : Z) (s2 : list rng) : list rng :=
  firstn (Z.to_nat (Z.of_nat n - cnt)) s2.

Definition run_C19 (v : val) : val :=
  match dec_input v with
  | None => VErr 0
  | Some i =>
    let its := loaded_items i in
    let s1 := go_insertion_sort its in
    let '(m, cnt) := merge_items s1 in
    let fin := final_of (length its) cnt m in
    let sg := loaded_singles i in
    let tsg := if in_noupd i then [] else sg in
    let tfin := if in_noupd i then [] else fin in
    VL [pair_errs i; single_errs i; enc_rngs s1; enc_rngs m; enc_rngs fin;
        VL (map (fun q => vbool (probe_result tsg tfin q)) (in_probes i));
        VZ (Z.of_nat (length fin) + Z.of_nat (length sg))]
  end.

(* Trace validation: sort.Sort is only constrained to return a sorted permutation, so the sorted array
   reported by the implementation is validated (not recomputed); everything else (the array after
   mergeItems, the resliced array, every Search answer) is recomputed from it by the model and compared exactly. *)
Definition agree_C19 (v o : val) : bool :=
  match dec_input v, o with
  | Some i, VL [pe; se; vs1; vm; vfin; vres; vlen] =>
    match dec_rngs vs1 with
    | Some s1 =>
      let its := loaded_items i in
      let '(m, cnt) := merge_items s1 in
      let fin := final_of (length its) cnt m in
      let sg := loaded_singles i in
      let tsg := if in_noupd i then [] else sg in
      let tfin := if in_noupd i then [] else fin in
      val_eqb pe (pair_errs i) && val_eqb se (single_errs i)
      && sorter_outcome_ok its s1
      && val_eqb vm (enc_rngs m)
      && val_eqb vfin (enc_rngs fin)
      && val_eqb vres (VL (map (fun q => vbool (probe_result tsg tfin q)) (in_probes i)))
      && val_eqb vlen (VZ (Z.of_nat (length fin) + Z.of_nat (length sg)))
    | None => false
    end
  | None, _ => val_eqb o (VErr 0)
  | _, _ => false
  end.

(* THE PROPERTY: every probe is reported exactly when it equals a loaded single address or lies inside a
   loaded range (bounds included); probes that are not IP addresses are never contained. *)
Definition spec_result (sg : list Z) (its : list rng) (q : list Z) : bool :=
  match to16 q with Some ip => spec sg its ip | None => false end.
Definition prop_C19 (v o : val) : bool :=
  match dec_input v, o with
  | Some i, VL [_; _; _; _; _; vres; _] =>
    (* a table that was never updated contains nothing *)
    let sg := if in_noupd i then [] else loaded_singles i in
    let its := if in_noupd i then [] else loaded_items i in
    val_eqb vres (VL (map (fun q => vbool (spec_result sg its q)) (in_probes i)))
  | _, _ => false
  end.

(* no known-finding class is left after the repair of mergeItems/Sort *)
Definition kf_C19 (v : val) : Z := 0.
