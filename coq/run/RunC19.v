From Coq Require Import List ZArith Bool.
From Bfe Require Import lib.Val model.IpDict.
Import ListNotations.
Open Scope Z_scope.

(* input : [ [ [xS xE] ... ]  [ xSingle ... ]  [ xProbe ... ]  maxSingle  mode ]            (mode 0, 1)
           [ pairs singles probes maxSingle 2 pairs2 singles2 ]                               (mode 2: reload)
            (addresses: 4- or 16-byte strings, other lengths are invalid net.IPs; maxSingle = first argument of
             NewIPItems; mode 1: IPTable.Update is not called, the table stays empty; mode 2: a second dictionary
             version is loaded and swapped in by IPTable.Update)
   output: [ pairErrs singleErrs s1 s2 final results length ]   ++ in mode 2
           [ pairErrs2 singleErrs2 s1' s2' final' resultsMid resultsAfter ]
            resultsMid   : Search(probe) started on version 1 while Update(version 2) lands between the snapshot
                           and the two lookup steps (forced through the hash function of the single-address set)
            resultsAfter : Search(probe) after the Update
            pairErrs/singleErrs : 0/1 per InsertPair / InsertSingle call (1 = error)
            s1    : the pair array after the first sort.Sort     (entries [xStart16 xEnd16])
            s2    : the pair array after mergeItems (merged items first, zero-address lines last)
            final : the pair array after IPItems.Sort() (real method)
            results : IPTable.Search(probe) 0/1 per probe
            length  : IPItems.Length() after Sort *)

Definition dec_pair (v : val) : option (list Z * list Z) :=
  match v with VL [VB s; VB e] => Some (s, e) | _ => None end.
Record input := { in_pairs : list (list Z * list Z); in_singles : list (list Z); in_probes : list (list Z);
                  in_maxsingle : Z; in_mode : Z;
                  in_pairs2 : list (list Z * list Z); in_singles2 : list (list Z) }.
Definition in_noupd (i : input) : bool := in_mode i =? 1.
Definition dec_input (v : val) : option input :=
  match v with
  | VL [VL ps; ss; qs; VZ ms; VZ md] =>
    match all_some (map dec_pair ps), as_LB ss, as_LB qs with
    | Some p, Some s, Some q =>
      if (md =? 0) || (md =? 1) then
        Some {| in_pairs := p; in_singles := s; in_probes := q; in_maxsingle := ms; in_mode := md;
                in_pairs2 := []; in_singles2 := [] |}
      else None
    | _, _, _ => None
    end
  | VL [VL ps; ss; qs; VZ ms; VZ 2; VL ps2; ss2] =>
    match all_some (map dec_pair ps), as_LB ss, as_LB qs, all_some (map dec_pair ps2), as_LB ss2 with
    | Some p, Some s, Some q, Some p2, Some s2 =>
      Some {| in_pairs := p; in_singles := s; in_probes := q; in_maxsingle := ms; in_mode := 2;
              in_pairs2 := p2; in_singles2 := s2 |}
    | _, _, _, _, _ => None
    end
  | _ => None
  end.
(* the second dictionary version as an input of its own *)
Definition second (i : input) : input :=
  {| in_pairs := in_pairs2 i; in_singles := in_singles2 i; in_probes := in_probes i;
     in_maxsingle := in_maxsingle i; in_mode := 0; in_pairs2 := []; in_singles2 := [] |}.

Fixpoint keep_some {A} (l : list (option A)) : list A :=
  match l with [] => [] | Some x :: r => x :: keep_some r | None :: r => keep_some r end.
Definition err_flag {A} (o : option A) : val := match o with Some _ => VZ 0 | None => VZ 1 end.

Definition loaded_items (i : input) : list rng := keep_some (map (fun p => insert_pair (fst p) (snd p)) (in_pairs i)).
(* InsertSingle: To16() == nil -> error; else hash_set.Add on a set of capacity maxSingle+1: Full() is tested
   first (error even for a member), a member is not added twice.  State: members, error flags (reversed) *)
Definition insert_single (cp : Z) (st : list Z * list val) (s : list Z) : list Z * list val :=
  let '(set, errs) := st in
  match to16 s with
  | None => (set, VZ 1 :: errs)
  | Some a =>
    if cp <=? Z.of_nat (length set) then (set, VZ 1 :: errs)
    else if existsb (Z.eqb a) set then (set, VZ 0 :: errs)
    else (a :: set, VZ 0 :: errs)
  end.
Definition singles_run (i : input) : list Z * list val :=
  fold_left (insert_single (in_maxsingle i + 1)) (in_singles i) ([], []).
Definition loaded_singles (i : input) : list Z := fst (singles_run i).
Definition pair_errs (i : input) : val := VL (map (fun p => err_flag (insert_pair (fst p) (snd p))) (in_pairs i)).
Definition single_errs (i : input) : val := VL (rev (snd (singles_run i))).

(* 16-byte big-endian form of an address (decimal text of 128-bit numbers is slow on the wire) *)
Fixpoint bytes_be (n : nat) (z : Z) (acc : list Z) : list Z :=
  match n with O => acc | S n' => bytes_be n' (Z.shiftr z 8) (Z.land z 255 :: acc) end.
Definition enc_addr (z : Z) : val := VB (bytes_be 16 z []).
Definition enc_rng (r : rng) : val := VL [enc_addr (fst r); enc_addr (snd r)].
Definition enc_rngs (l : list rng) : val := VL (map enc_rng l).
Definition dec_rng (v : val) : option rng :=
  match v with
  | VL [VB s; VB e] => if (length s =? 16)%nat && (length e =? 16)%nat then Some (be s, be e) else None
  | _ => None
  end.
Definition dec_rngs (v : val) : option (list rng) :=
  match v with VL l => all_some (map dec_rng l) | _ => None end.

Definition probe_result (singles : list Z) (final : list rng) (q : list Z) : bool :=
  match to16 q with Some ip => table_search singles final ip | None => false end.

Definition final_of (n : nat) (cnt : Z) (s2 : list rng) : list rng :=
  firstn (Z.to_nat (Z.of_nat n - cnt)) s2.

(* the seven observations of one dictionary version, given its sorted array *)
Definition version_obs (i : input) (s1 : list rng) : list val :=
  let its := loaded_items i in
  let '(m, cnt) := merge_items s1 in
  let fin := final_of (length its) cnt m in
  let sg := loaded_singles i in
  let tsg := if in_noupd i then [] else sg in
  let tfin := if in_noupd i then [] else fin in
  [pair_errs i; single_errs i; enc_rngs s1; enc_rngs m; enc_rngs fin;
   VL (map (fun q => vbool (probe_result tsg tfin q)) (in_probes i));
   VZ (Z.of_nat (length fin) + Z.of_nat (length sg))].
Definition results_of (o : list val) : val := nth 5 o (VL []).

Definition run_C19 (v : val) : val :=
  match dec_input v with
  | None => VErr 0
  | Some i =>
    let o1 := version_obs i (go_insertion_sort (loaded_items i)) in
    if in_mode i =? 2 then
      let j := second i in
      let o2 := version_obs j (go_insertion_sort (loaded_items j)) in
      (* a Search overlapped by the Update answers from its snapshot = version 1; afterwards version 2 *)
      VL (o1 ++ firstn 5 o2 ++ [results_of o1; results_of o2])
    else VL o1
  end.

(* Trace validation: sort.Sort is only constrained to return a sorted permutation, so the sorted array
   reported by the implementation is validated (not recomputed); everything else (the array after
   mergeItems, the resliced array, Length, every Search answer) is recomputed from it by the model and
   compared exactly. *)
Fixpoint vals_eqb (a b : list val) : bool :=
  match a, b with
  | [], [] => true
  | x :: a', y :: b' => val_eqb x y && vals_eqb a' b'
  | _, _ => false
  end.
Definition agree_version (i : input) (o : list val) : bool :=
  match dec_rngs (nth 2 o (VZ 0)) with
  | Some s1 => sorter_outcome_ok (loaded_items i) s1 && vals_eqb (version_obs i s1) o
  | None => false
  end.
Definition agree_C19 (v o : val) : bool :=
  match dec_input v, o with
  | Some i, VL l =>
    if in_mode i =? 2 then
      let o1 := firstn 7 l in
      match skipn 7 l with
      | [pe2; se2; vs12; vm2; vfin2; vmid; vafter] =>
        let j := second i in
        match dec_rngs vs12 with
        | Some s12 =>
          let o2 := version_obs j s12 in
          agree_version i o1 && sorter_outcome_ok (loaded_items j) s12
          && vals_eqb (firstn 5 o2) [pe2; se2; vs12; vm2; vfin2]
          && val_eqb vmid (results_of o1) && val_eqb vafter (results_of o2)
        | None => false
        end
      | _ => false
      end
    else agree_version i l
  | None, _ => val_eqb o (VErr 0)
  | _, _ => false
  end.

(* THE PROPERTY: every probe is reported exactly when it equals a loaded single address or lies inside a
   loaded range (bounds included); probes that are not IP addresses are never contained.  In reload mode this
   holds for each dictionary version, and a Search that overlaps the Update answers according to one of the
   two versions (so an address contained in both is always reported). *)
Definition spec_result (sg : list Z) (its : list rng) (q : list Z) : bool :=
  match to16 q with Some ip => spec sg its ip | None => false end.
Definition spec_results (i : input) : list val :=
  let sg := if in_noupd i then [] else loaded_singles i in
  let its := if in_noupd i then [] else loaded_items i in
  map (fun q => vbool (spec_result sg its q)) (in_probes i).
Fixpoint one_of (a b c : list val) : bool :=          (* c pointwise equal to a or to b *)
  match a, b, c with
  | [], [], [] => true
  | x :: a', y :: b', z :: c' => (val_eqb z x || val_eqb z y) && one_of a' b' c'
  | _, _, _ => false
  end.
Definition prop_C19 (v o : val) : bool :=
  match dec_input v, o with
  | Some i, VL l =>
    val_eqb (nth 5 l (VZ 0)) (VL (spec_results i)) &&
    (if in_mode i =? 2 then
       match nth 12 l (VZ 0), nth 13 l (VZ 0) with
       | VL mid, vafter =>
         val_eqb vafter (VL (spec_results (second i))) && one_of (spec_results i) (spec_results (second i)) mid
       | _, _ => false
       end
     else true)
  | _, _ => false
  end.

(* no known-finding class is left after the repair of mergeItems/Sort *)
Definition kf_C19 (v : val) : Z := 0.
