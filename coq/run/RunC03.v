(* C03 wire functions.
   input : [ [mode rmax cross] subs ops ]
           mode 0 WRR (WrrSmooth), 1 WLC (WlcSmooth), 2 SessionSticky (WrrSticky)
           subs = [[name w [[id w] ...]] ...]        (backend AddrInfo order = id order)
           ops  = [0 retry hash key]  one BalanceGslb.Balance with req.RetryTime = retry; hash = murmur3(key)
                                      -> observation [code sub bid retry' cross ecode]
                | [1 sub id b]        SetAvail(b) on backend id of sub-cluster sub     -> observation []
                | [2 sub id n]        connNum := n                                      -> observation []
                | [3 [[name w] ...]]  BalanceGslb.Reload(gslb conf)                     -> observation []
                | [4 sub [[id w] ...]] BalanceGslb.BackendReload for that sub-cluster    -> observation []
   output: list of observations
         | [9 wlc conf ops]   ONE BalanceRR with slow start: Init(conf), conf = [[id w] ...], Balance(WrrSmooth) (wlc = 0) or
           Balance(WlcSmooth) (wlc = 1); ops as in RunC01.v ([0 k] picks, [1 conf] Update, [2 id b] SetAvail,
           [3 t] SetSlowStart, [4 id e] clock seam, [5 id] SetRestart(true)); output: per-op lists of picked ids (-1 = error) *)
From Coq Require Import List ZArith Bool.
From Bfe Require Import lib.Val model.Swrr model.Wlc model.Sticky model.Gslb.
From Bfe Require run.RunC01.
Import ListNotations.
Open Scope Z_scope.

Definition dec_pair (v : val) : option (Z * Z) :=
  match v with VL [VZ a; VZ b] => Some (a, b) | _ => None end.
Definition dec_sub (v : val) : option (key * Z * list (Z * Z)) :=
  match v with
  | VL [VB n; VZ w; VL bs] => match all_some (map dec_pair bs) with Some l => Some (n, w, l) | None => None end
  | _ => None
  end.
Definition dec_params (v : val) : option params :=
  match v with
  | VL [VZ m; VZ rmax; VZ cross] =>
    if m =? 0 then Some (MWrr, rmax, cross) else if m =? 1 then Some (MWlc, rmax, cross)
    else if m =? 2 then Some (MSticky, rmax, cross) else None
  | _ => None
  end.
Definition dec_gop (v : val) : option gop :=
  match v with
  | VL [VZ 0; VZ retry; VZ h; VB _] => if (0 <=? h) && (h <? 2^64) then Some (GBalance retry h) else None
  | VL [VZ 1; VB s; VZ id; VZ b] => Some (GAvail s id (negb (b =? 0)))
  | VL [VZ 2; VB s; VZ id; VZ n] => Some (GConn s id n)
  | VL [VZ 3; VL l] => match all_some (map (fun v => match v with VL [VB n; VZ w] => Some (n, w) | _ => None end) l) with
                       | Some conf => Some (GReload conf)
                       | None => None
                       end
  | VL [VZ 4; VB s; VL l] => match all_some (map dec_pair l) with Some conf => Some (GBackends s conf) | None => None end
  | _ => None
  end.
Definition dec_in (v : val) : option (params * list (key * Z * list (Z * Z)) * list gop) :=
  match v with
  | VL [p; VL ss; VL ops] =>
    match dec_params p, all_some (map dec_sub ss), all_some (map dec_gop ops) with
    | Some pa, Some conf, Some os => Some (pa, conf, os)
    | _, _, _ => None
    end
  | _ => None
  end.
Definition enc_obs (o : option obs) : val :=
  match o with
  | None => VL []
  | Some o => VL [VZ (o_code o); VB (o_sub o); VZ (o_bid o); VZ (o_retry o); VZ (o_cross o); VZ (o_ecode o)]
  end.
Definition dec_obs (v : val) : option (option obs) :=
  match v with
  | VL [] => Some None
  | VL [VZ c; VB s; VZ b; VZ r; VZ x; VZ e] => Some (Some (mkObs c s b r x e))
  | _ => None
  end.
Definition dec_out (v : val) : option (list (option obs)) :=
  match v with VL l => all_some (map dec_obs l) | _ => None end.

Definition dec9 (v : val) : option (bool * list (Z * Z) * list op) :=
  match v with
  | VL [VZ 9; VZ m; c; VL ops] =>
    match RunC01.dec_conf c, all_some (map RunC01.dec_op ops) with
    | Some conf, Some os => Some (negb (m =? 0), conf, os)
    | _, _ => None
    end
  | _ => None
  end.
Definition dec_out9 (v : val) : option (list (list Z)) :=
  match v with VL l => all_some (map as_LZ l) | _ => None end.

Definition run_C03 (i : val) : val :=
  match dec_in i with
  | Some (p, conf, ops) => VL (map enc_obs (grun p (g_init conf) ops))
  | None => match dec9 i with
            | Some (wlc, conf, ops) => VL (map vLZ (run2 (bal_of wlc) (0, init2 conf) ops))
            | None => VErr 0
            end
  end.
(* membership / trace validation: each observation is the model's result for SOME random index of
   randomSelectExclude; the model state continues from that choice *)
Definition agree_C03 (i o : val) : bool :=
  match dec_in i, dec_out o with
  | Some (p, conf, ops), Some os => gcheck p (g_init conf) ops os
  | Some _, None => false
  | None, _ => match dec9 i, dec_out9 o with
               | Some (wlc, conf, ops), Some obs => check2 (fol_of wlc) (0, init2 conf) ops obs
               | _, _ => false
               end
  end.
(* the property: only eligible backends of non-blackhole sub-clusters are returned, the first choice has positive
   weight, blackhole is rejected, and the error/no-error outcome is exactly the one determined by the existence of
   eligible targets in the phase (in-cluster / cross-cluster) the retry count selects *)
Definition prop_C03 (i o : val) : bool :=
  match dec_in i, dec_out o with
  | Some (p, conf, ops), Some os => gspec p (p_init conf) ops os
  | Some _, None => false
  (* kind 9: every pick is an available backend with positive effective and configured weight; error iff none *)
  | None, _ => match dec9 i, dec_out9 o with
               | Some (wlc, conf, ops), Some obs => spec3 (0, init2 conf) ops obs
               | _, _ => false
               end
  end.
Definition kf_C03 (i : val) : Z := 0.
