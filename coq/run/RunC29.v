(* C29 wire functions.
   input : VL [VZ op; VL table; VL [VB ip16; VB ipText; VZ port]; VL hdrs; VL oracle]
             table  entries VL [VB beginText; VB endText; VB begin16; VB end16]
             hdrs   entries VL [VB name; VB value]
             oracle entries VL [VB text; VB ip16; VB canonText]   (net.ParseIP / IP.String of the candidate texts)
           op 1 = whole server: the four fields are read off the request the backend received, i.e. after the
           hop-by-hop stage of the reverse proxy (model: HopByHop.to_backend); op 2 = callback level: read off the
           request after the HandleAfterLocation list.
   output: VL [VZ trusted; caddr; VL xff; VL xrip; VL xrport; VL xfport; VL xfhost; VL xbfeip]   caddr = VL [] | VL [VB ip16; VZ port] *)
From Coq Require Import List ZArith Bool.
From Bfe Require Import lib.Val lib.Bytes model.HopByHop model.ClientAddr.
Import ListNotations.
Open Scope Z_scope.

Definition dec_range (v : val) : option range :=
  match v with VL [VB _; VB _; VB b; VB e] => Some (b, e) | _ => None end.
Definition dec_hdr (v : val) : option (bytes * bytes) :=
  match v with VL [VB n; VB x] => Some (n, x) | _ => None end.
Definition dec_orc (v : val) : option (bytes * (ip16 * bytes)) :=
  match v with VL [VB t; VB ip; VB c] => Some (t, (ip, c)) | _ => None end.

Fixpoint lookup (tbl : list (bytes * (ip16 * bytes))) (t : bytes) : option (ip16 * bytes) :=
  match tbl with
  | [] => None
  | (k, v) :: r => if bytes_eqb t k then Some v else lookup r t
  end.

Record input := mk_input { i_op : Z; i_table : list range; i_peer : addr; i_hdrs : list (bytes * bytes);
                           i_orc : list (bytes * (ip16 * bytes)) }.

Definition dec_C29 (i : val) : option input :=
  match i with
  | VL [VZ op; VL tb; VL [VB ip; VB text; VZ port]; VL hs; VL oc] =>
    match all_some (map dec_range tb), all_some (map dec_hdr hs), all_some (map dec_orc oc) with
    | Some t, Some h, Some o => Some (mk_input op t (mk_addr ip text port) h o)
    | _, _, _ => None
    end
  | _ => None
  end.

Definition enc_addr (a : option addr) : val :=
  match a with Some x => VL [VB (a_ip x); VZ (a_port x)] | None => VL [] end.

Definition host_C29 : bytes := [101;120;97;109;112;108;101;46;111;114;103].            (* example.org *)
(* local address of the client connection: the server listens on 127.0.0.1 (op 1); the fake connection of op 2 *)
Definition local_C29 (op : Z) : bytes :=
  if op =? 1 then [49;50;55;46;48;46;48;46;49] else [49;48;46;57;46;56;46;55].    (* 127.0.0.1 / 10.9.8.7 *)

Definition run_C29 (i : val) : val :=
  match dec_C29 i with
  | None => VErr 0
  | Some x =>
    let r := process (lookup (i_orc x)) host_C29 (local_C29 (i_op x)) (i_table x) (i_peer x) (i_hdrs x) in
    (* op 1 observes the fields at the backend: after hopByHopHeaderRemove and the write-exclude filter (C26 model) *)
    let h := if i_op x =? 1 then to_backend (r_headers r) else r_headers r in
    VL [vbool (r_trusted r); enc_addr (r_caddr r); vLB (values_of s_xff h); vLB (values_of s_xrip h);
        vLB (values_of s_xrport h); vLB (values_of s_xfp h); vLB (values_of s_xfh h); vLB (values_of s_xbfeip h)]
  end.
Definition agree_C29 (i o : val) : bool := val_eqb (run_C29 i) o.

(* ---- the property, evaluated on the implementation's observation ----
   Always: X-Forwarded-For sent upstream is one field whose last element is the peer's ip.
   Untrusted peer: ClientAddr = peer address, X-Real-Ip = [peer ip], X-Real-Port = [peer port], whatever the headers.
   Trusted peer: the documented headers are honoured - the address text is the first X-Real-Ip value if that is not
   empty, otherwise the first element of X-Forwarded-For; when it is a valid address, ClientAddr.IP is that address and
   X-Real-Ip upstream is its text; the port comes from X-Real-Port resp. the first element of X-Forwarded-Port when
   that is a number (an unparsable port is not constrained by the property). *)
Definition spec_candidate (m : hmap) : bytes * bytes :=
  match hfirst s_xrip m with
  | [] => (first_split s_xff m, first_split s_xfp m)
  | ip => (ip, hfirst s_xrport m)
  end.

Definition prop_C29 (i o : val) : bool :=
  match dec_C29 i with
  | None => false
  | Some x =>
    let peer := i_peer x in
    let t := trusted (i_table x) (a_ip peer) in
    match o with
    | VL [VZ tr; ca; xff; xrip; xrport; _; _; _] =>
      (tr =? (if t then 1 else 0)) &&
      match as_LB xff with
      | Some [v] => bytes_eqb (last_elem v) (a_text peer)
      | _ => false
      end &&
      (if negb t then
         val_eqb ca (VL [VB (a_ip peer); VZ (a_port peer)]) &&
         val_eqb xrip (vLB [a_text peer]) && val_eqb xrport (vLB [dec_of_Z (a_port peer)])
       else
         let m := hdel s_host (parse_headers (i_hdrs x)) in
         let '(cip, cport) := spec_candidate m in
         match cip with
         | [] => true
         | _ => match lookup (i_orc x) cip with
                | None => true
                | Some (ip, text) =>
                  val_eqb xrip (vLB [text]) &&
                  match ca with
                  | VL [VB ip'; VZ p'] =>
                    bytes_eqb ip' ip &&
                    val_eqb xrport (vLB [dec_of_Z p']) &&
                    match atoi cport with Some p => p' =? p | None => true end
                  | _ => false
                  end
                end
         end)
    | _ => false
    end
  end.

Definition kf_C29 (i : val) : Z := 0.
