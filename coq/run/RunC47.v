(* C47 wire functions.
   input : [tunnel ...]  (1..4 tunnels, run concurrently and independently through one real BFE server)
     tunnel = [kind cearly bearly [event ...] closer mode]
       kind    0 = WebSocket upgrade over the HTTP listener, 1 = TLS "stream" proxy over the HTTPS listener,
               2 = TLS "stream" proxy on a server whose TLS rules enable DynamicRecord (record size grows after 1 MB
                   sent, shrinks after 1 s of silence); BLOCK-SCALED: every list element of cearly / bearly / event bytes
                   stands for a 4096-byte block filled with that value; the harness expands on sending and collapses
                   what each end received (a block that is not uniform, or a partial block, collapses to 255), so that
                   megabytes go through the tunnel while the wire values stay small; the model is the same
               3 = WebSocket upgrade over the HTTPS listener (wss) of that DynamicRecord server
               4, 5, 6 = TLS "stream" proxy (normal server) where the client negotiates TLS 1.0, 1.1, 1.2 with a CBC suite
                   (AES128-SHA; TLS 1.0 + CBC makes the server split every write into a 1-byte and an (n-1)-byte record);
                   kind 1 negotiates TLS 1.2 with an AEAD suite
               7 = wss where the client negotiates TLS 1.0 with a CBC suite
       cearly  bytes the client sends in the SAME write as its upgrade request (kind 1: first application data, written
               immediately after the TLS handshake)
       bearly  bytes the backend sends in the SAME write as its 101 response (kind 1: written as soon as the backend accepts)
       event   [side bytes sync]: side 0 = the client, 1 = the backend writes `bytes` in one Write call; sync = 1: the next
               event waits until the other end has received everything sent so far in that direction;
               [2 x 0] = both ends stay IDLE for more than 1.5 x the server's ClientReadTimeout (such tunnels run on a
               server configured with ClientReadTimeout = 1 s): an idle step moves no byte - for the model it is an
               empty client chunk - and the tunnel must carry the later events as if nothing had happened
       closer  0 = the client, 1 = the backend closes first, after both directions were delivered completely
       mode    0 = Close, 1 = CloseWrite (half-close) and keep reading until EOF
   output: per tunnel [bgot cgot beof ceof]: the bytes the backend received after the upgrade request head (kind 1: all
           bytes), the bytes the client received after the 101 response head, and whether each end's reader terminated
           (EOF / connection closed) before the deadline.
   malformed -> VErr 0. *)
From Coq Require Import List ZArith Bool.
From Bfe Require Import lib.Val model.Tunnel.
Import ListNotations.
Open Scope Z_scope.

Record tunnel := mkTunnel { t_kind : Z; t_cearly : list Z; t_bearly : list Z; t_events : list (which * list Z); t_closer : which }.

Definition bytes_ok (b : list Z) : bool := forallb (fun x => (0 <=? x) && (x <? 256)) b.

Definition decode_event (v : val) : option (which * list Z) :=
  match v with
  | VL [VZ side; VB b; VZ sync] =>
    if bytes_ok b && ((sync =? 0) || (sync =? 1)) then
      match side with
      | 0 => Some (CB, b) | 1 => Some (BC, b)
      | 2 => match b with [] => if sync =? 0 then Some (CB, []) else None | _ => None end
      | _ => None
      end
    else None
  | _ => None
  end.

Definition decode_tunnel (v : val) : option tunnel :=
  match v with
  | VL [VZ kind; VB ce; VB be; VL evs; VZ closer; VZ mode] =>
    match all_some (map decode_event evs) with
    | Some es =>
      if ((0 <=? kind) && (kind <=? 7)) && bytes_ok ce && bytes_ok be && ((mode =? 0) || (mode =? 1)) && (length es <=? 12)%nat then
        match closer with
        | 0 => Some (mkTunnel kind ce be es CB)
        | 1 => Some (mkTunnel kind ce be es BC)
        | _ => None
        end
      else None
    | None => None
    end
  | _ => None
  end.

Definition decode_C47 (v : val) : option (list tunnel) :=
  match v with
  | VL ts => if (1 <=? length ts)%nat && (length ts <=? 4)%nat then all_some (map decode_tunnel ts) else None
  | _ => None
  end.

Definition payload (d : which) (es : list (which * list Z)) : list Z :=
  flat_map (fun e => match fst e, d with CB, CB => snd e | BC, BC => snd e | _, _ => [] end) es.

Definition tunnel_sched (t : tunnel) : list label :=
  [LFlushC; LFlushB; LRecv CB (length (t_cearly t)); LRecv BC (length (t_bearly t))]
  ++ chunk_sched (map (fun e => (fst e, length (snd e))) (t_events t))
  ++ [LClose (t_closer t); LEof (t_closer t); LShutdown; LRecvEof CB; LRecvEof BC].

Definition run_tunnel (t : tunnel) : val :=
  let s := exec (init (t_cearly t) (payload CB (t_events t)) (t_bearly t) (payload BC (t_events t))) (tunnel_sched t) in
  VL [VB (recv (cb s)); VB (recv (bc s)); vbool (dst_eof (cb s)); vbool (dst_eof (bc s))].

Definition run_C47 (i : val) : val :=
  match decode_C47 i with
  | Some ts => VL (map run_tunnel ts)
  | None => VErr 0
  end.

Definition agree_C47 (i o : val) : bool := val_eqb (run_C47 i) o.

(* THE PROPERTY on the implementation's observation: each end received exactly the bytes the other end sent - the early
   bytes first, then every chunk, in order, nothing lost, duplicated or altered - and when one side closed, the other
   side's connection was closed too. *)
Definition prop_tunnel (t : tunnel) (o : val) : bool :=
  val_eqb o (VL [VB (t_cearly t ++ payload CB (t_events t)); VB (t_bearly t ++ payload BC (t_events t)); VZ 1; VZ 1]).

Fixpoint prop_all (ts : list tunnel) (os : list val) {struct ts} : bool :=
  match ts, os with
  | [], [] => true
  | t :: tr, o :: or => prop_tunnel t o && prop_all tr or
  | _, _ => false
  end.

Definition prop_C47 (i o : val) : bool :=
  match decode_C47 i with
  | Some ts => match o with VL os => prop_all ts os | _ => false end
  | None => val_eqb o (VErr 0)
  end.

Definition kf_C47 (i : val) : Z := 0.
