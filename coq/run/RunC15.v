(* C15 wire functions.
   The harness (harness/cmd/c15) runs a REAL in-process BFE server (package e2e).  Configuration version v (1..3) maps
   host example.org -> product p<v> -> cluster c<v>, and its cluster_conf contains ONLY c<v>; file versions are "<v>".
   The gslb/cluster-table generation g (1..2) maps every cluster c<v> to the fake backend bk_<v>_<g>.
   input : [op ...]   (at most 14 ops), executed strictly one after the other:
     [1 v]        ServerDataConfReload of version v                     -> [0 cur]   cur = version of srv.GetServerConf() afterwards
     [6 v]        ServerDataConfReload from a directory whose route file is broken -> [1 cur]  (reload fails, nothing installed)
     [2 g]        GslbDataConfReload of generation g                    -> [0]
     [3 rid hp]   start request rid (0..2, not active) on a new connection and let it run to hold point hp
                  (1 = HandleBeforeLocation: snapshot taken, no lookup yet; 2 = HandleFoundProduct: product looked up;
                   3 = HandleAfterLocation: cluster name + cluster conf looked up; 4 = HandleForward: balancer looked up and
                   backend chosen; 0 = run to completion)               -> view
     [4 rid hp]   let the held request rid continue to hold point hp (greater than its current one, or 0 = completion) -> view
     [8 g]        GslbDataConfReload from a directory whose gslb.data is broken (BalTableConfLoad fails: nothing is
                  touched; later requests still get generation-unchanged backends)     -> [1]
     [7]          one more request on the case's PERSISTENT keep-alive client connection (opened at first use), run to
                  completion: every request takes its own snapshot, also on a connection accepted under an older one -> view
     [5 seed nreq nrel vf gf]  concurrent burst: 4 client goroutines x nreq requests, while nrel server-data reloads cycle
                  through the versions and gslb reloads alternate; afterwards version vf and generation gf are installed
                  sequentially                                          -> [ok]  ok = 1 iff every response of the burst was 200 and
                  carried one single version in snapshot, product, cluster, cluster conf and backend
   view = [snap p c cc b g st]: version of the request's snapshot object (file version of req.SvrDataConf), of the product,
          cluster name, cluster conf entry and backend cluster seen so far (0 = not yet), backend generation, status (0 = in flight).
   Any malformed input or illegal op order -> VErr 0.
   A second kind of input, [100 [op ...]], exercises the hot reload of the TLS tables (certificates, TLS rules): see
   model/SnapshotTlsWire.v. *)
From Coq Require Import List ZArith Bool.
From Bfe Require Import lib.Val model.Snapshot model.SnapshotTls model.SnapshotTlsWire.
Import ListNotations.
Open Scope Z_scope.

Definition NV : Z := 3.
Definition NG : Z := 2.

Inductive hop :=
| HReload (v : Z) | HBadReload (v : Z) | HGslb (g : Z)
| HStart (rid : nat) (hp : Z) | HCont (rid : nat) (hp : Z) | HKeep | HBadGslb (g : Z)
| HBurst (seed nreq nrel vf gf : Z).

Definition in_range (lo hi x : Z) : bool := (lo <=? x) && (x <=? hi).

Definition decode_op (v : val) : option hop :=
  match v with
  | VL [VZ 1; VZ x] => if in_range 1 NV x then Some (HReload x) else None
  | VL [VZ 6; VZ x] => if in_range 1 NV x then Some (HBadReload x) else None
  | VL [VZ 2; VZ g] => if in_range 1 NG g then Some (HGslb g) else None
  | VL [VZ 3; VZ rid; VZ hp] => if in_range 0 2 rid && in_range 0 4 hp then Some (HStart (Z.to_nat rid) hp) else None
  | VL [VZ 4; VZ rid; VZ hp] => if in_range 0 2 rid && in_range 0 4 hp then Some (HCont (Z.to_nat rid) hp) else None
  | VL [VZ 7] => Some HKeep
  | VL [VZ 8; VZ g] => if in_range 1 NG g then Some (HBadGslb g) else None
  | VL [VZ 5; VZ seed; VZ nreq; VZ nrel; VZ vf; VZ gf] =>
    if in_range 0 1000000 seed && in_range 1 6 nreq && in_range 0 3 nrel && in_range 1 NV vf && in_range 1 NG gf
    then Some (HBurst seed nreq nrel vf gf) else None
  | _ => None
  end.

Definition decode_C15 (v : val) : option (list hop) :=
  match v with
  | VL ops => if (length ops <=? 14)%nat then all_some (map decode_op ops) else None
  | _ => None
  end.

(* ---- running the model ---- *)
Fixpoint run_thread (fuel : nat) (st : state) (i : nat) {struct fuel} : state :=
  match fuel with O => st | S f => run_thread f (step st i) i end.

Definition add_thread (st : state) (t : thread) : state * nat :=
  (mkState (sh st) (threads st ++ [t]), length (threads st)).

Definition target_pc (hp : Z) : nat :=
  match hp with 1 => 1%nat | 2 => 2%nat | 3 => 4%nat | 4 => 5%nat | _ => 6%nat end.

Definition req_at (st : state) (i : nat) : option request :=
  match nth_error (threads st) i with Some (TReq q) => Some q | _ => None end.

(* run request thread i until its pc reaches the target (never blocked in a sequential run) *)
Fixpoint run_req_to (fuel : nat) (st : state) (i : nat) (target : nat) {struct fuel} : state :=
  match fuel with
  | O => st
  | S f => match req_at st i with
           | Some q => if (target <=? rq_pc q)%nat then st else run_req_to f (step st i) i target
           | None => st
           end
  end.

Definition view_of (q : request) : val :=
  let cc := nth 2 (rq_seen q) 0 in
  VL [VZ (lookup_in (rq_snap q)); VZ (nth 0 (rq_seen q) 0); VZ (nth 1 (rq_seen q) 0); VZ cc;
      VZ (match rq_bal q with Some _ => cc | None => 0 end);
      VZ (match rq_bal q with Some g => g | None => 0 end);
      VZ (if (6 <=? rq_pc q)%nat then 200 else 0)].

(* schedule of the burst: a linear congruential sequence of thread indices *)
Fixpoint lcg_sched (n : nat) (x base cnt : Z) {struct n} : list nat :=
  match n with
  | O => []
  | S n' => let x' := (x * 1103515245 + 12345) mod 2147483648 in
            Z.to_nat (base + (x' / 65536) mod cnt) :: lcg_sched n' x' base cnt
  end.

Fixpoint add_threads (st : state) (ts : list thread) : state :=
  match ts with [] => st | t :: r => add_threads (fst (add_thread st t)) r end.

Fixpoint finish_all (st : state) (idx : list nat) : state :=
  match idx with [] => st | i :: r => finish_all (run_thread 10 st i) r end.

Definition burst (st : state) (seed nreq nrel vf gf : Z) : state * bool :=
  let base := length (threads st) in
  let rels := map (fun k => new_reload (1 + (seed + Z.of_nat k) mod NV) true) (seq 0 (Z.to_nat nrel)) in
  let ts := rels ++ [new_greload (1 + seed mod NG)] ++ repeat new_request (Z.to_nat nreq) in
  let st1 := add_threads st ts in
  let cnt := length ts in
  let st2 := exec st1 (lcg_sched (16 * cnt) seed (Z.of_nat base) (Z.of_nat cnt)) in
  let idx := seq base cnt in
  let st3 := finish_all (finish_all st2 idx) idx in
  let ok := forallb thread_consistent (skipn base (threads st3)) in
  let '(st4, i) := add_thread st3 (new_reload vf true) in
  let st5 := run_thread 10 st4 i in
  let '(st6, j) := add_thread st5 (new_greload gf) in
  (run_thread 10 st6 j, ok).

Record hstate := mkH { h_st : state; h_slot : nat -> option nat; h_hp : nat -> Z }.
Definition upd {A} (f : nat -> A) (k : nat) (x : A) : nat -> A := fun n => if Nat.eqb n k then x else f n.
Definition h_init : hstate := mkH (mkState (init_shared 1 1) []) (fun _ => None) (fun _ => 0).

Definition advance (h : hstate) (rid i : nat) (hp : Z) : option (hstate * val) :=
  let st' := run_req_to 8 (h_st h) i (target_pc hp) in
  match req_at st' i with
  | Some q =>
    if negb (Nat.eqb (rq_pc q) (target_pc hp)) then None else
    let slot' := if hp =? 0 then upd (h_slot h) rid None else upd (h_slot h) rid (Some i) in
    Some (mkH st' slot' (upd (h_hp h) rid hp), view_of q)
  | None => None
  end.

Definition exec_op (h : hstate) (o : hop) : option (hstate * val) :=
  match o with
  | HReload v =>
    let '(st, i) := add_thread (h_st h) (new_reload v true) in
    let st' := run_thread 10 st i in
    Some (mkH st' (h_slot h) (h_hp h), VL [VZ 0; VZ (conf (sh st'))])
  | HBadReload v =>
    let '(st, i) := add_thread (h_st h) (new_reload v false) in
    let st' := run_thread 10 st i in
    Some (mkH st' (h_slot h) (h_hp h), VL [VZ 1; VZ (conf (sh st'))])
  | HGslb g =>
    let '(st, i) := add_thread (h_st h) (new_greload g) in
    Some (mkH (run_thread 10 st i) (h_slot h) (h_hp h), VL [VZ 0])
  | HStart rid hp =>
    match h_slot h rid with
    | Some _ => None
    | None => let '(st, i) := add_thread (h_st h) new_request in
              advance (mkH st (h_slot h) (h_hp h)) rid i hp
    end
  | HCont rid hp =>
    match h_slot h rid with
    | None => None
    | Some i => if (hp =? 0) || (h_hp h rid <? hp) then advance h rid i hp else None
    end
  | HKeep =>
    let '(st, i) := add_thread (h_st h) new_request in
    let st' := run_req_to 8 st i 6 in
    match req_at st' i with
    | Some q => if negb (Nat.eqb (rq_pc q) 6) then None else Some (mkH st' (h_slot h) (h_hp h), view_of q)
    | None => None
    end
  | HBadGslb g =>
    (* BalTableConfLoad fails and gslbDataConfReload returns: a gslb-reload thread that ends right after its load step *)
    let '(st, i) := add_thread (h_st h) (TGslb (mkGReload g 8 0)) in
    Some (mkH st (h_slot h) (h_hp h), VL [VZ 1])
  | HBurst seed nreq nrel vf gf =>
    let '(st', ok) := burst (h_st h) seed nreq nrel vf gf in
    Some (mkH st' (h_slot h) (h_hp h), VL [vbool ok])
  end.

Fixpoint exec_ops (h : hstate) (ops : list hop) {struct ops} : option (list val) :=
  match ops with
  | [] => Some []
  | o :: r => match exec_op h o with
              | Some (h', v) => match exec_ops h' r with Some l => Some (v :: l) | None => None end
              | None => None
              end
  end.

Definition run_C15 (i : val) : val :=
  match decode_tls i with Some tops => run_tls tops | None =>
  match decode_C15 i with
  | Some ops => match exec_ops h_init ops with Some l => VL l | None => VErr 0 end
  | None => VErr 0
  end end.

Definition agree_C15 (i o : val) : bool := val_eqb (run_C15 i) o.

(* ------------------------------------------------------------------------------------------------------------
   THE PROPERTY, evaluated on the implementation's observation (written from the specification; it does not run
   the transition system):
   - a reload that succeeds installs its version, one that fails leaves the installed version unchanged;
   - every view of a request shows ONE version in all the fields filled so far (snapshot object, product, cluster
     name, cluster conf, backend cluster), and that version is the one that was installed when the request STARTED,
     no matter how many reloads completed while it was held (in-flight requests keep their snapshot);
   - the fields required by the hold point are filled; a completed request has status 200;
   - the balancer generation, once obtained, is one that exists and is the one current at that moment, and never changes;
   - every response of a concurrent burst was consistent. *)
Record pstate := mkP { p_cur : Z; p_gen : Z; p_exp : nat -> option Z (* expected version of active request *);
                       p_g : nat -> Z (* generation already seen by active request, 0 = none *); p_php : nat -> Z }.
Definition p_init : pstate := mkP 1 1 (fun _ => None) (fun _ => 0) (fun _ => 0).

Definition check_view (exp curg gprev hp : Z) (v : val) : option Z (* new g *) :=
  match v with
  | VL [VZ snap; VZ p; VZ c; VZ cc; VZ b; VZ g; VZ st] =>
    let need := if hp =? 0 then 5 else hp in
    let okf (lvl x : Z) := if lvl <=? need then x =? exp else x =? 0 in
    if okf 1 snap && okf 2 p && okf 3 c && okf 3 cc && okf 4 b
       && (if 4 <=? need then (if gprev =? 0 then g =? curg else g =? gprev) else g =? 0)
       && (if hp =? 0 then st =? 200 else st =? 0)
    then Some g else None
  | _ => None
  end.

Definition prop_op (p : pstate) (o : hop) (v : val) : option pstate :=
  match o with
  | HReload x => if val_eqb v (VL [VZ 0; VZ x]) then Some (mkP x (p_gen p) (p_exp p) (p_g p) (p_php p)) else None
  | HBadReload _ => if val_eqb v (VL [VZ 1; VZ (p_cur p)]) then Some p else None
  | HGslb g => if val_eqb v (VL [VZ 0]) then Some (mkP (p_cur p) g (p_exp p) (p_g p) (p_php p)) else None
  | HStart rid hp =>
    match p_exp p rid with
    | Some _ => None
    | None => match check_view (p_cur p) (p_gen p) 0 hp v with
              | Some g => Some (mkP (p_cur p) (p_gen p)
                                    (upd (p_exp p) rid (if hp =? 0 then None else Some (p_cur p)))
                                    (upd (p_g p) rid g) (upd (p_php p) rid hp))
              | None => None
              end
    end
  | HCont rid hp =>
    match p_exp p rid with
    | None => None
    | Some e => if (hp =? 0) || (p_php p rid <? hp) then
                  match check_view e (p_gen p) (p_g p rid) hp v with
                  | Some g => Some (mkP (p_cur p) (p_gen p)
                                        (upd (p_exp p) rid (if hp =? 0 then None else Some e))
                                        (upd (p_g p) rid g) (upd (p_php p) rid hp))
                  | None => None
                  end
                else None
    end
  | HKeep => match check_view (p_cur p) (p_gen p) 0 0 v with Some _ => Some p | None => None end
  | HBadGslb _ => if val_eqb v (VL [VZ 1]) then Some p else None
  | HBurst _ _ _ vf gf => if val_eqb v (VL [VZ 1]) then Some (mkP vf gf (p_exp p) (p_g p) (p_php p)) else None
  end.

Fixpoint prop_ops (p : pstate) (ops : list hop) (vs : list val) {struct ops} : bool :=
  match ops, vs with
  | [], [] => true
  | o :: r, v :: vr => match prop_op p o v with Some p' => prop_ops p' r vr | None => false end
  | _, _ => false
  end.

(* inputs that are malformed or whose op order is illegal say nothing about the property: they are answered VErr 0 *)
Definition prop_C15 (i o : val) : bool :=
  match decode_tls i with
  | Some tops => match o with VL vs => prop_tls 1 1 tops vs | _ => false end
  | None =>
  match decode_C15 i with
  | Some ops =>
    match o with
    | VL vs => prop_ops p_init ops vs
               || (val_eqb o (VErr 0) && match exec_ops h_init ops with None => true | Some _ => false end)
    | _ => false
    end
  | None => val_eqb o (VErr 0)
  end end.

Definition kf_C15 (i : val) : Z := 0.
