(* C09 wire functions.
   input : [ops]
     [1 gslb backends]   BalTable.BalTableReload
          gslb     = [[cluster [[sub weight] ...]] ...]                       (distinct cluster / sub names: Go maps)
          backends = [[cluster [[sub [[addr name weight] ...]] ...]] ...]     (distinct cluster / sub names; addr may repeat)
     [2 cluster sub addr kind v]   on that backend (if present): kind 0 SetAvail(v<>0), 1 connNum += v, 2 failNum += v
   output: per op; stops after a panic
     reload -> [err dump [orphans closed] sel] | [-2]
          sel  = [[cluster [pick ...] [errcode ...]] ...]: what BalanceGslb.Balance actually returned over every hash
                 residue and 64 picks each (cross retry off): pick = sub*100+addr, sorted sets; codes 1 no sub-cluster,
                 2 no backend, 9 panic
          dump = [[cluster [[sub weight [[addr name weight avail conn fail closed] ... sorted by addr]] ... list order]] ... sorted]
          orphans = backend objects seen in the table earlier and not in it now; closed = those whose closeChan is closed
     poke -> 0 *)
From Coq Require Import List ZArith Bool.
From Bfe Require Import lib.Val model.Reload.
Import ListNotations.
Open Scope Z_scope.

Definition dec_list {A} (f : val -> option A) (v : val) : option (list A) :=
  match v with VL l => all_some (map f l) | _ => None end.
Definition dec_g1 (v : val) : option (Z * Z) := match v with VL [VZ a; VZ b] => Some (a, b) | _ => None end.
Definition dec_gc (v : val) : option (Z * gconf) :=
  match v with VL [VZ c; g] => match dec_list dec_g1 g with Some g' => Some (c, g') | None => None end | _ => None end.
Definition dec_b1 (v : val) : option (Z * Z * Z) := match v with VL [VZ a; VZ n; VZ w] => Some (a, n, w) | _ => None end.
Definition dec_sb (v : val) : option (Z * bconf) :=
  match v with VL [VZ s; b] => match dec_list dec_b1 b with Some b' => Some (s, b') | None => None end | _ => None end.
Definition dec_cb (v : val) : option (Z * list (Z * bconf)) :=
  match v with VL [VZ c; l] => match dec_list dec_sb l with Some l' => Some (c, l') | None => None end | _ => None end.

Inductive rop :=
| OReload (gs : list (Z * gconf)) (bc : list (Z * list (Z * bconf)))
| OPoke (c s a kind v : Z).
Fixpoint distinctZ (l : list Z) : bool :=
  match l with [] => true | x :: r => negb (memZ x r) && distinctZ r end.
Definition wf_reload (gs : list (Z * gconf)) (bc : list (Z * list (Z * bconf))) : bool :=
  distinctZ (map fst gs) && forallb (fun e => distinctZ (map fst (snd e))) gs &&
  distinctZ (map fst bc) && forallb (fun e => distinctZ (map fst (snd e))) bc.
Definition dec_rop (v : val) : option rop :=
  match v with
  | VL [VZ 1; g; b] =>
    match dec_list dec_gc g, dec_list dec_cb b with
    | Some gs, Some bc => if wf_reload gs bc then Some (OReload gs bc) else None
    | _, _ => None
    end
  | VL [VZ 2; VZ c; VZ s; VZ a; VZ k; VZ x] => if (0 <=? k) && (k <=? 2) then Some (OPoke c s a k x) else None
  | _ => None
  end.

Fixpoint ins_bk (b : bk) (l : list bk) : list bk :=
  match l with
  | [] => [b]
  | x :: r => if kaddr b <? kaddr x then b :: l else x :: ins_bk b r
  end.
Definition enc_bk (b : bk) : val :=
  VL [VZ (kaddr b); VZ (kname b); VZ (kw b); vbool (kav b); VZ (kcn b); VZ (kfn b); vbool (krel b >=? 1)].
Definition enc_sub (s : sub) : val :=
  VL [VZ (sname s); VZ (sweight s); VL (map enc_bk (fold_right ins_bk [] (sbks s)))].
Definition enc_clu (c : clu) : val := VL [VZ (cname c); VL (map enc_sub (csubs c))].
Definition enc_tbl (t : tbl) : val := VL (map enc_clu (clus t)).
Definition enc_sel (t : tbl) : val :=
  VL (map (fun c => let '(p, e) := selected c in VL [VZ (cname c); vLZ p; vLZ e]) (clus t)).
Definition countb {A} (f : A -> bool) (l : list A) : Z := Z.of_nat (length (filter f l)).

(* (observation, gslb error path taken?) per op *)
Fixpoint run_rops (t : tbl) (ops : list rop) : list (val * bool) :=
  match ops with
  | [] => []
  | OPoke c s a k x :: r => (VZ 0, false) :: run_rops (poke c s a k x t) r
  | OReload gs bc :: r =>
    match table_reload gs bc t with
    | None => [(VL [VZ (-2)], gslb_err_path gs t)]
    | Some (t', gerr, err) =>
      (VL [vbool err; enc_tbl t'; VL [VZ (Z.of_nat (length (orphans t'))); VZ (countb (fun b => krel b >=? 1) (orphans t'))];
           enc_sel t'], gerr)
        :: run_rops t' r
    end
  end.
Definition dec_in (i : val) : option (list rop) :=
  match i with VL [ops] => dec_list dec_rop ops | _ => None end.
Definition run_C09 (i : val) : val :=
  match dec_in i with Some ops => VL (map fst (run_rops tbl0 ops)) | None => VErr 0 end.
Definition agree_C09 (i o : val) : bool := val_eqb (run_C09 i) o.

(* THE PROPERTY on the implementation's observations:
   no reload panics (nothing is released twice); no backend that is still reachable from the table has been
   released (released targets are never selected again); every object that left the table has been released;
   after a reload that reported no error the table lists exactly the configured sub-clusters / backends
   (new ones are selectable);
   a backend that stays in a persisting sub-cluster keeps availability and counters. *)
Definition bk_closed (v : val) : bool := match v with VL [_; _; _; _; _; _; VZ 0] => false | _ => true end.
Definition sub_bks (v : val) : list val := match v with VL [_; _; VL l] => l | _ => [] end.
Definition clu_subs (v : val) : list val := match v with VL [_; VL l] => l | _ => [] end.
Definition dump_ok (d : val) : bool :=
  match d with
  | VL cl => forallb (fun c => forallb (fun s => forallb (fun b => negb (bk_closed b)) (sub_bks s)) (clu_subs c)) cl
  | _ => false
  end.
(* state columns (avail conn fail) of backend addr in sub s of cluster c in a dump *)
Definition key_of (v : val) : Z := match v with VL (VZ k :: _) => k | _ => -1 end.
Definition find_key (k : Z) (l : list val) : option val := find (fun v => key_of v =? k) l.
Definition lookup_bk (d : val) (c s a : Z) : option val :=
  match d with
  | VL cl => match find_key c cl with
             | Some cv => match find_key s (clu_subs cv) with
                          | Some sv => find_key a (sub_bks sv)
                          | None => None
                          end
             | None => None
             end
  | _ => None
  end.
Definition bk_state (v : val) : val := match v with VL [_; _; _; av; cn; fn; _] => VL [av; cn; fn] | _ => VL [] end.
(* expected dump rows after a poke *)
Definition poke_val (kind x : Z) (v : val) : val :=
  match v with
  | VL [a; n; w; VZ av; VZ cn; VZ fn; cl] =>
    if kind =? 0 then VL [a; n; w; vbool (negb (x =? 0)); VZ cn; VZ (if x =? 0 then fn else 0); cl]
    else if kind =? 1 then VL [a; n; w; VZ av; VZ (cn + x); VZ fn; cl]
    else VL [a; n; w; VZ av; VZ cn; VZ (fn + x); cl]
  | _ => v
  end.
Definition poke_dump (c s a kind x : Z) (d : val) : val :=
  match d with
  | VL cl => VL (map (fun cv => if key_of cv =? c then
        match cv with
        | VL [cn; VL sl] => VL [cn; VL (map (fun sv => if key_of sv =? s then
              match sv with
              | VL [sn; sw; VL bl] => VL [sn; sw; VL (map (fun bv => if key_of bv =? a then poke_val kind x bv else bv) bl)]
              | _ => sv end else sv) sl)]
        | _ => cv end else cv) cl)
  | _ => d
  end.
(* kept state: every backend of the new dump whose (cluster, sub, addr) was in the previous dump keeps (avail conn fail) *)
Definition kept_ok (prev d : val) : bool :=
  match d with
  | VL cl => forallb (fun cv => forallb (fun sv => forallb (fun bv =>
       match lookup_bk prev (key_of cv) (key_of sv) (key_of bv) with
       | Some old => val_eqb (bk_state old) (bk_state bv)
       | None => true
       end) (sub_bks sv)) (clu_subs cv)) cl
  | _ => false
  end.
(* configured = present: clusters of the gslb conf, their sub-clusters, and for every (cluster, sub) with a
   backend conf exactly the configured addresses with the configured weight *)
Definition conf_ok (gs : list (Z * gconf)) (bc : list (Z * list (Z * bconf))) (d : val) : bool :=
  match d with
  | VL cl =>
    list_Z_eqb (map key_of cl) (sort_dedup (map fst gs)) &&
    forallb (fun cv =>
      match bfind (key_of cv) gs with
      | None => false
      | Some g =>
        list_Z_eqb (map key_of (clu_subs cv)) (sort_dedup (map fst g)) &&
        forallb (fun sv =>
          match bfind (key_of cv) bc with
          | None => true
          | Some cb => match bfind (key_of sv) cb with
                       | None => true
                       | Some c =>
                         list_Z_eqb (map key_of (sub_bks sv)) (sort_dedup (map (fun e => fst (fst e)) c)) &&
                         forallb (fun bv => match conf_last (key_of bv) c None, bv with
                                            | Some (_, w), VL (_ :: _ :: VZ w' :: _) => w' =? w * 100
                                            | _, _ => false end) (sub_bks sv)
                       end
          end) (clu_subs cv)
      end) cl
  | _ => false
  end.
(* selected = eligible: after a reload without error the set of (sub-cluster, backend) pairs that Balance returns is
   exactly the set of available positive-weight backends of the positive-weight sub-clusters shown in the dump
   (added targets are selectable, drained / removed / unavailable ones are not selected), and no call fails for lack
   of a sub-cluster or panics *)
Definition bk_elig_val (v : val) : bool :=
  match v with VL [_; _; VZ w; VZ av; _; _; VZ cl] => (w >? 0) && negb (av =? 0) && (cl =? 0) | _ => false end.
Definition expected_sel (cv : val) : list Z :=
  sort_dedup (flat_map (fun sv => match sv with
                                  | VL [VZ sn; VZ sw; VL bl] =>
                                    if sw >? 0 then map (fun bv => sn * 100 + key_of bv) (filter bk_elig_val bl) else []
                                  | _ => [] end) (clu_subs cv)).
Definition sel_ok (d sel : val) : bool :=
  match d, sel with
  | VL cl, VL sl =>
    (length cl =? length sl)%nat &&
    forallb (fun p => match snd p with
                      | VL [VZ c; pk; er] =>
                        (c =? key_of (fst p)) && val_eqb pk (vLZ (expected_sel (fst p))) &&
                        match as_LZ er with Some l => forallb (fun e => e =? 2) l | None => false end
                      | _ => false end) (combine cl sl)
  | _, _ => false
  end.
Fixpoint prop_ops (ops : list rop) (obs : list val) (prev : val) : bool :=
  match ops, obs with
  | [], [] => true
  | OPoke c s a k x :: r, VZ 0 :: obs' => prop_ops r obs' (poke_dump c s a k x prev)
  | OReload gs bc :: r, VL [e; d; VL [VZ n; VZ m]; sel] :: obs' =>
    dump_ok d && (n =? m) && kept_ok prev d && (negb (val_eqb e (VZ 0)) || (conf_ok gs bc d && sel_ok d sel)) &&
    prop_ops r obs' d
  | _, _ => false        (* includes a panic observation [-2] and truncated output *)
  end.
Definition prop_C09 (i o : val) : bool :=
  match dec_in i, o with
  | Some ops, VL obs => prop_ops ops obs (VL [])
  | _, _ => false
  end.

(* no finding class is left: the gslb "total weight = 0" error path (former class 1) was repaired in /repo *)
Definition kf_C09 (i : val) : Z := 0.
