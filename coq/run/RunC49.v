From Coq Require Import List ZArith Bool.
From Bfe Require Import lib.Val lib.Bytes gen.Actions model.Actions.
Import ListNotations.
Open Scope Z_scope.

(* input : [1 cmd params [host path rawquery]]   mod_rewrite rule with one action
           [2 cmd params reqhdr rsphdr vars]     mod_header action; hdr = [[key [values]] ...] sorted by key;
                                                 vars = [[name value] ...] values of the %variables the value uses
           [3 cmd params [host path rawquery]]   mod_redirect action
           [4 cmd params [host path rawquery] reqhdr]   bfe_basic/action.Action loaded from JSON and run with Do
           [5 rules [host path rawquery]]        mod_rewrite rule file; rules = [[match last [[cmd params] ...]] ...]
   output: VErr 1 (configuration rejected) | [host path rawquery cache] (cache = [] if Request.Query is nil, else
           [map] with map = [[key [values]] ...] sorted by key) | [reqhdr rsphdr] | [url] | [[host path rawquery cache] reqhdr] *)
Definition dec_url (v : val) : option url :=
  match v with VL [VB h; VB p; VB q] => Some (mkUrl h p q) | _ => None end.
Definition enc_url (u : url) : val := VL [VB (u_host u); VB (u_path u); VB (u_query u)].
Definition dec_hkv (v : val) : option (bytes * list bytes) :=
  match v with VL [VB k; vs] => match as_LB vs with Some l => Some (k, l) | None => None end | _ => None end.
Definition dec_hdr (v : val) : option header :=
  match v with VL l => all_some (map dec_hkv l) | _ => None end.
Definition enc_hdr (h : header) : val := VL (map (fun kv => VL [VB (fst kv); vLB (snd kv)]) h).

Definition dec_var (v : val) : option (bytes * bytes) :=
  match v with VL [VB n; VB x] => Some (n, x) | _ => None end.

Definition enc_cache (c : option header) : val := match c with Some m => VL [enc_hdr m] | None => VL [] end.
Definition dec_cache (v : val) : option (option header) :=
  match v with
  | VL [] => Some None
  | VL [m] => match dec_hdr m with Some m' => Some (Some m') | None => None end
  | _ => None
  end.
Definition enc_st (st : rstate) : val :=
  VL [VB (u_host (s_url st)); VB (u_path (s_url st)); VB (u_query (s_url st)); enc_cache (s_cache st)].
Definition dec_st (v : val) : option rstate :=
  match v with
  | VL [VB h; VB p; VB q; c] => match dec_cache c with Some c' => Some (mkSt (mkUrl h p q) c') | None => None end
  | _ => None
  end.
Definition dec_action (v : val) : option (bytes * list bytes) :=
  match v with VL [VB c; ps] => match as_LB ps with Some p => Some (c, p) | None => None end | _ => None end.
Definition dec_rule (v : val) : option rw_rule :=
  match v with
  | VL [VZ m; VZ l; VL acts] =>
    match all_some (map dec_action acts) with Some a => Some (negb (m =? 0), negb (l =? 0), a) | None => None end
  | _ => None
  end.

Inductive cinput :=
| IRewrite (cmd : bytes) (params : list bytes) (u : url)
| IHeader (cmd : bytes) (params : list bytes) (req rsp : header) (vars : list (bytes * bytes))
| IRedirect (cmd : bytes) (params : list bytes) (u : url)
| IDirect (cmd : bytes) (params : list bytes) (u : url) (h : header)
| IRules (rs : list rw_rule) (u : url).
Definition dec_in (v : val) : option cinput :=
  match v with
  | VL [VZ 1; VB c; ps; u] =>
    match as_LB ps, dec_url u with Some p, Some u' => Some (IRewrite c p u') | _, _ => None end
  | VL [VZ 2; VB c; ps; rq; rs; VL vs] =>
    match as_LB ps, dec_hdr rq, dec_hdr rs, all_some (map dec_var vs) with
    | Some p, Some a, Some b, Some vars => Some (IHeader c p a b vars)
    | _, _, _, _ => None
    end
  | VL [VZ 3; VB c; ps; u] =>
    match as_LB ps, dec_url u with Some p, Some u' => Some (IRedirect c p u') | _, _ => None end
  | VL [VZ 5; VL rs; u] =>
    match all_some (map dec_rule rs), dec_url u with Some r, Some u' => Some (IRules r u') | _, _ => None end
  | VL [VZ 4; VB c; ps; u; h] =>
    match as_LB ps, dec_url u, dec_hdr h with Some p, Some u', Some h' => Some (IDirect c p u' h') | _, _, _ => None end
  | _ => None
  end.

Inductive coutput :=
| ORejected
| OUrl (st : rstate)
| OHdrs (req rsp : header)
| ORedirect (target : bytes)
| ODirect (st : rstate) (h : header).
Definition model (i : cinput) : coutput :=
  match i with
  | IRewrite c p u => match rewrite_run c p u with Some st => OUrl st | None => ORejected end
  | IRules rs u => match rewrite_rules_run rs u with Some st => OUrl st | None => ORejected end
  | IHeader c p a b vars => match header_run vars c p a b with Some (a', b') => OHdrs a' b' | None => ORejected end
  | IRedirect c p u => match redirect_run c p u with Some t => ORedirect t | None => ORejected end
  | IDirect c p u h => match direct_run c p u h with Some (st, h') => ODirect st h' | None => ORejected end
  end.
Definition enc_out (o : coutput) : val :=
  match o with
  | ORejected => VErr 1
  | OUrl st => enc_st st
  | OHdrs a b => VL [enc_hdr a; enc_hdr b]
  | ORedirect t => VL [VB t]
  | ODirect st h => VL [enc_st st; enc_hdr h]
  end.
Definition dec_out (i : cinput) (v : val) : option coutput :=
  match v with
  | VL [VZ e; VZ c] => if (e =? -1) && (c =? 1) then Some ORejected else None
  | _ =>
    match i with
    | IRewrite _ _ _ | IRules _ _ => match dec_st v with Some st => Some (OUrl st) | None => None end
    | IHeader _ _ _ _ _ =>
      match v with
      | VL [a; b] => match dec_hdr a, dec_hdr b with Some a', Some b' => Some (OHdrs a' b') | _, _ => None end
      | _ => None
      end
    | IRedirect _ _ _ => match v with VL [VB t] => Some (ORedirect t) | _ => None end
    | IDirect _ _ _ _ =>
      match v with
      | VL [a; b] => match dec_st a, dec_hdr b with Some st, Some h => Some (ODirect st h) | _, _ => None end
      | _ => None
      end
    end
  end.

Definition wf_C49 (i : val) : bool := match dec_in i with Some _ => true | None => false end.
Definition run_C49 (i : val) : val :=
  match dec_in i with Some ci => enc_out (model ci) | None => VErr 0 end.
Definition agree_C49 (i o : val) : bool := val_eqb (run_C49 i) o.

(* ---------------- the property ---------------- *)
Definition hdr_eqb (a b : header) : bool := val_eqb (enc_hdr a) (enc_hdr b).
Definition url_eqb (a b : url) : bool := val_eqb (enc_url a) (enc_url b).
Definition in_keys (keys : list bytes) (kv : bytes * bytes) : bool := mem (fst kv) keys.

(* a documented command "configured with valid parameters": right number of non-empty parameters
   (the number comes from the documentation for mod_header; the rewrite and redirect documents give none, so the
   loader's own count is used); SCHEME_SET: the documented schemes http|https *)
Definition valid_rewrite_conf (cmd : bytes) (params : list bytes) : bool :=
  mem cmd doc_rewrite && forallb nonempty params
  && match assoc cmd action_check_table with Some ar => (ar =? -1) || (llen params =? ar) | None => true end.
(* ... and a value whose %names are all documented-and-known variables *)
Definition valid_header_conf (cmd : bytes) (params : list bytes) : bool :=
  match assoc cmd doc_header with
  | Some ar => (llen params =? ar) && forallb nonempty params && ((ar =? 1) || value_ok (nth 1 params []))
  | None => false
  end.
Definition valid_redirect_conf (cmd : bytes) (params : list bytes) : bool :=
  mem cmd doc_redirect && (llen params =? 1)
  && (negb (bytes_eqb cmd s_SCHEME_SET) || mem (nth 0 params []) [s_http; s_https]).

(* documented effect of a rewrite command on (Host, path, raw query) *)
Definition rw_effect (c : rwcmd) (params : list bytes) (u u' : url) : bool :=
  let p0 := nth 0 params [] in
  let p1 := nth 1 params [] in
  let same_hp := bytes_eqb (u_host u') (u_host u) && bytes_eqb (u_path u') (u_path u) in
  match c with
  | QueryDel =>
    (* no deleted key remains, in any encoding; every other parameter is still there, decoded value and order kept *)
    same_hp && negb (existsb (fun k => mem k params) (keys_of (u_query u')))
    && pairs_eqb (parse_query (u_query u')) (filter (fun kv => negb (in_keys params kv)) (parse_query (u_query u)))
  | QueryDelAllExcept =>
    same_hp && forallb (fun k => mem k params) (keys_of (u_query u'))
    && pairs_eqb (parse_query (u_query u')) (filter (in_keys params) (parse_query (u_query u)))
  | QueryAdd => same_hp && bytes_eqb (u_query u') (query_add (u_query u) p0 p1)
  | QueryRename =>
    (* nothing but the query changes; for plain names (no % + & = ;) every parameter with decoded key old now has
       key new, values and order kept, all other parameters unchanged; other names: untouched if the key is absent *)
    same_hp
    && (if plain_name p0 && plain_name p1
        then pairs_eqb (parse_query (u_query u')) (map (rename_pair p0 p1) (parse_query (u_query u)))
        else mem p0 (keys_of (u_query u)) || bytes_eqb (u_query u') (u_query u))
  | HostSet => url_eqb u' (mkUrl p0 (u_path u) (u_query u))
  | PathSet => url_eqb u' (mkUrl (u_host u) p0 (u_query u))
  | PathPrefixAdd => url_eqb u' (mkUrl (u_host u) (ensure_slash (p0 ++ trim_prefix [47] (u_path u))) (u_query u))
  | PathPrefixTrim => url_eqb u' (mkUrl (u_host u) (ensure_slash (trim_prefix p0 (u_path u))) (u_query u))
  | HostFromPath => url_eqb u' (host_from_path u)
  | HostSuffixReplace =>
    if is_suffix p0 (u_host u) then
      bytes_eqb (u_path u') (u_path u) && bytes_eqb (u_query u') (u_query u)
      && is_suffix p1 (u_host u') && bytes_eqb (u_host u) (firstn (length (u_host u') - length p1) (u_host u') ++ p0)
    else url_eqb u' u
  end.
(* the parsed query cached on the request: after a deleting action it holds no deleted key either *)
Definition cache_effect (c : rwcmd) (params : list bytes) (cache : option header) : bool :=
  match c, cache with
  | QueryDel, Some m => forallb (fun k => negb (has_key k m)) params
  | QueryDelAllExcept, Some m => forallb (fun kv => mem (fst kv) params) m
  | QueryDel, None | QueryDelAllExcept, None => false
  | _, _ => true
  end.
Definition rewrite_effect_st (cmd : bytes) (params : list bytes) (u : url) (st' : rstate) : bool :=
  match rw_cmd_of cmd with
  | Some c => rw_effect c params u (s_url st') && cache_effect c params (s_cache st')
  | None => true
  end.
Definition rewrite_effect (cmd : bytes) (params : list bytes) (u u' : url) : bool :=
  match rw_cmd_of cmd with Some c => rw_effect c params u u' | None => true end.

(* effect of a header command c with (file) parameters params on the header h it addresses *)
Definition hdr_effect (c : hcmd) (params : list bytes) (h h' : header) : bool :=
  let k := canonical_key (nth 0 params []) in
  let v := nth 1 params [] in
  match c with
  | HSet | HAdd | HDel =>
    hdr_eqb (hdr_del k h') (hdr_del k h)                                             (* other fields untouched *)
    && val_eqb (vLB (hdr_get k h'))
               (vLB (match c with HSet => [v] | HAdd => hdr_get k h ++ [v] | _ => [] end))
  | HRename | HModScheme => true             (* undocumented commands: modelled and tied, nothing claimed *)
  end.
(* SET / ADD write the value template with each %name replaced by that variable's value, "%%" by "%" *)
Definition header_effect (vars : list (bytes * bytes)) (cmd : bytes) (params : list bytes) (req rsp req' rsp' : header) : bool :=
  match header_cmd cmd with
  | Some (is_req, c) =>
    hdr_eqb (if is_req then rsp' else req') (if is_req then rsp else req)            (* the other side is untouched *)
    && hdr_effect c (header_params vars c params) (if is_req then req else rsp) (if is_req then req' else rsp')
  | None => true
  end.
(* bfe_basic/action run directly: header commands touch only the request header, all others only the URL *)
Definition direct_effect (cmd : bytes) (params : list bytes) (u : url) (h : header) (st' : rstate) (h' : header) : bool :=
  let u' := s_url st' in
  match header_cmd cmd with
  | Some (true, HSet) => url_eqb u' u && hdr_effect HSet params h h'
  | Some (true, HAdd) => url_eqb u' u && hdr_effect HAdd params h h'
  | Some (true, HDel) => url_eqb u' u && hdr_effect HDel params h h'
  | _ => hdr_eqb h' h && rewrite_effect_st cmd params u st'
  end.

Definition redirect_effect (cmd : bytes) (params : list bytes) (u : url) (t : bytes) : bool :=
  let p0 := nth 0 params [] in
  match rd_cmd_of cmd with
  | Some UrlSet => bytes_eqb t p0
  | Some UrlFromQuery => bytes_eqb t (query_get p0 (parse_query (u_query u)))       (* first decoded value, "" if none *)
  | Some UrlPrefixAdd => bytes_eqb t (p0 ++ request_uri u)
  | Some SchemeSet => bytes_eqb t (to_lower p0 ++ s_css ++ u_host u ++ request_uri u)
  | None => true
  end.

Definition spec (i : cinput) (o : coutput) : bool :=
  match i, o with
  | IRewrite c p u, ORejected => negb (valid_rewrite_conf c p)
  | IRewrite c p u, OUrl st' => rewrite_effect_st (to_upper c) p u st'
  | IRules rs u, ORejected => negb (forallb (fun r => forallb (fun a => valid_rewrite_conf (fst a) (snd a)) (snd r)) rs)
  | IRules rs u, OUrl _ => true        (* action sequences: tied by correspondence, effects claimed per single action *)
  | IHeader c p a b vars, ORejected => negb (valid_header_conf c p)
  | IHeader c p a b vars, OHdrs a' b' => header_effect vars c p a b a' b'
  | IRedirect c p u, ORejected => negb (valid_redirect_conf c p)
  | IRedirect c p u, ORedirect t => redirect_effect c p u t
  | IDirect c p u h, ORejected => negb (valid_rewrite_conf c p)
  | IDirect c p u h, ODirect st' h' => direct_effect (to_upper c) p u h st' h'
  | _, _ => false
  end.
Definition prop_C49 (i o : val) : bool :=
  match dec_in i with
  | Some ci => match dec_out ci o with Some co => spec ci co | None => false end
  | None => false
  end.
Definition kf_C49 (i : val) : Z := 0.
