From Coq Require Import List ZArith Bool.
From Bfe Require Import lib.Val lib.Bytes gen.Actions model.Actions.
Import ListNotations.
Open Scope Z_scope.

(* input : [1 cmd params [host path rawquery]]   mod_rewrite rule with one action
           [2 cmd params reqhdr rsphdr vars]     mod_header action; hdr = [[key [values]] ...] sorted by key;
                                                 vars = [[name value] ...] values of the %variables the value uses
           [3 cmd params [host path rawquery]]   mod_redirect action
           [4 cmd params [host path rawquery] reqhdr]   bfe_basic/action.Action loaded from JSON and run with Do
           [6 ops]                               mod_rewrite reload history on one module instance (empty table first):
                                                 op = [0 [[product rules] ...]] reload through loadConfData
                                                    | [1 product [host path rawquery]] request through rewriteHandler;
                                                 output: one observation per op ([1] | VErr 1 | [host path rawquery cache])
           [8 ops vars]                          mod_header reload history: op = [0 [[product rules] ...]] (rules as in 5)
                                                 | [1 product reqhdr rsphdr]; output per op: [1] | VErr 1 | [reqhdr rsphdr]
           [7 ops]                               mod_redirect reload history: op = [0 [[product rules] ...]] with
                                                 rule = [match [[cmd params] ...] status] | [1 product [host path rawquery]];
                                                 output per op: [1] | VErr 1 | [0] no redirect | [1 location status]
           [5 rules [host path rawquery]]        mod_rewrite rule file; rules = [[match last [[cmd params] ...]] ...]
   output: VErr 1 (configuration rejected) | [host path rawquery cache] (cache = [] if Request.Query is nil, else
           [map] with map = [[key [values]] ...] sorted by key) | [reqhdr rsphdr] | [url] | [[host path rawquery cache] reqhdr] *)
Definition dec_url (v : val) : option url :=
  match v with VL [VB h; VB p; VB q] => Some (mkUrl h p q) | _ => None end.
Definition enc_url (u : url) : val := VL [VB (u_host u); VB (u_path u); VB (u_query u)].
Definition dec_hkv (v : val) : option (bytes * list bytes) :=
  match v with VL [VB k; vs] => match as_LB vs with Some l => Some (k, l) | None => None end | _ => None end.
Definition dec_hdr (v : val) : option header :=
  match v with VL l => all_some (map dec_hkv l) | _ => None end.
Definition enc_hdr (h : header) : val := VL (map (fun kv => VL [VB (fst kv); vLB (snd kv)]) h).

Definition dec_var (v : val) : option (bytes * bytes) :=
  match v with VL [VB n; VB x] => Some (n, x) | _ => None end.

Definition enc_cache (c : option header) : val := match c with Some m => VL [enc_hdr m] | None => VL [] end.
Definition dec_cache (v : val) : option (option header) :=
  match v with
  | VL [] => Some None
  | VL [m] => match dec_hdr m with Some m' => Some (Some m') | None => None end
  | _ => None
  end.
Definition enc_st (st : rstate) : val :=
  VL [VB (u_host (s_url st)); VB (u_path (s_url st)); VB (u_query (s_url st)); enc_cache (s_cache st)].
Definition dec_st (v : val) : option rstate :=
  match v with
  | VL [VB h; VB p; VB q; c] => match dec_cache c with Some c' => Some (mkSt (mkUrl h p q) c') | None => None end
  | _ => None
  end.
Definition dec_action (v : val) : option (bytes * list bytes) :=
  match v with VL [VB c; ps] => match as_LB ps with Some p => Some (c, p) | None => None end | _ => None end.
Definition dec_rule (v : val) : option rw_rule :=
  match v with
  | VL [VZ m; VZ l; VL acts] =>
    match all_some (map dec_action acts) with Some a => Some (negb (m =? 0), negb (l =? 0), a) | None => None end
  | _ => None
  end.

Inductive rwop := RLoad (c : rw_conf) | RReq (product : bytes) (u : url).
Definition dec_prules (v : val) : option (bytes * list rw_rule) :=
  match v with
  | VL [VB p; VL rs] => match all_some (map dec_rule rs) with Some r => Some (p, r) | None => None end
  | _ => None
  end.
Definition dec_rwop (v : val) : option rwop :=
  match v with
  | VL [VZ 0; VL c] => match all_some (map dec_prules c) with Some c' => Some (RLoad c') | None => None end
  | VL [VZ 1; VB p; u] => match dec_url u with Some u' => Some (RReq p u') | None => None end
  | _ => None
  end.

Inductive rdop := DLoad (c : rd_conf) | DReq (product : bytes) (u : url).
Definition dec_rdrule (v : val) : option rd_rule :=
  match v with
  | VL [VZ m; VL acts; VZ st] =>
    match all_some (map dec_action acts) with Some a => Some (negb (m =? 0), a, st) | None => None end
  | _ => None
  end.
Definition dec_rdprules (v : val) : option (bytes * list rd_rule) :=
  match v with
  | VL [VB p; VL rs] => match all_some (map dec_rdrule rs) with Some r => Some (p, r) | None => None end
  | _ => None
  end.
Definition dec_rdop (v : val) : option rdop :=
  match v with
  | VL [VZ 0; VL c] => match all_some (map dec_rdprules c) with Some c' => Some (DLoad c') | None => None end
  | VL [VZ 1; VB p; u] => match dec_url u with Some u' => Some (DReq p u') | None => None end
  | _ => None
  end.
Definition enc_rd (r : option (bytes * Z)) : val :=
  match r with Some (loc, st) => VL [VZ 1; VB loc; VZ st] | None => VL [VZ 0] end.

Inductive hdop := HLoad (c : hd_conf) | HReq (product : bytes) (req rsp : header).
Definition dec_hdop (v : val) : option hdop :=
  match v with
  | VL [VZ 0; VL c] => match all_some (map dec_prules c) with Some c' => Some (HLoad c') | None => None end
  | VL [VZ 1; VB p; a; b] =>
    match dec_hdr a, dec_hdr b with Some a', Some b' => Some (HReq p a' b') | _, _ => None end
  | _ => None
  end.

Inductive cinput :=
| IRewrite (cmd : bytes) (params : list bytes) (u : url)
| IHeader (cmd : bytes) (params : list bytes) (req rsp : header) (vars : list (bytes * bytes))
| IRedirect (cmd : bytes) (params : list bytes) (u : url)
| IDirect (cmd : bytes) (params : list bytes) (u : url) (h : header)
| IRules (rs : list rw_rule) (u : url)
| IRwHist (ops : list rwop)
| IRdHist (ops : list rdop)
| IHdHist (ops : list hdop) (vars : list (bytes * bytes)).
Definition dec_in (v : val) : option cinput :=
  match v with
  | VL [VZ 1; VB c; ps; u] =>
    match as_LB ps, dec_url u with Some p, Some u' => Some (IRewrite c p u') | _, _ => None end
  | VL [VZ 2; VB c; ps; rq; rs; VL vs] =>
    match as_LB ps, dec_hdr rq, dec_hdr rs, all_some (map dec_var vs) with
    | Some p, Some a, Some b, Some vars => Some (IHeader c p a b vars)
    | _, _, _, _ => None
    end
  | VL [VZ 3; VB c; ps; u] =>
    match as_LB ps, dec_url u with Some p, Some u' => Some (IRedirect c p u') | _, _ => None end
  | VL [VZ 8; VL ops; VL vs] =>
    match all_some (map dec_hdop ops), all_some (map dec_var vs) with
    | Some o, Some vars => Some (IHdHist o vars)
    | _, _ => None
    end
  | VL [VZ 7; VL ops] =>
    match all_some (map dec_rdop ops) with Some o => Some (IRdHist o) | None => None end
  | VL [VZ 6; VL ops] =>
    match all_some (map dec_rwop ops) with Some o => Some (IRwHist o) | None => None end
  | VL [VZ 5; VL rs; u] =>
    match all_some (map dec_rule rs), dec_url u with Some r, Some u' => Some (IRules r u') | _, _ => None end
  | VL [VZ 4; VB c; ps; u; h] =>
    match as_LB ps, dec_url u, dec_hdr h with Some p, Some u', Some h' => Some (IDirect c p u' h') | _, _, _ => None end
  | _ => None
  end.

Inductive coutput :=
| ORejected
| OUrl (st : rstate)
| OHdrs (req rsp : header)
| ORedirect (target : bytes)
| ODirect (st : rstate) (h : header)
| OHist (obs : list val).
Fixpoint run_rw_ops (t : rw_conf) (ops : list rwop) : list val :=
  match ops with
  | [] => []
  | RLoad c :: rest => (if rw_conf_ok c then VL [VZ 1] else VErr 1) :: run_rw_ops (rw_table_load t c) rest
  | RReq p u :: rest => enc_st (rw_request t p u) :: run_rw_ops t rest
  end.
Fixpoint run_rd_ops (t : rd_conf) (ops : list rdop) : list val :=
  match ops with
  | [] => []
  | DLoad c :: rest => (if rd_conf_ok c then VL [VZ 1] else VErr 1) :: run_rd_ops (rd_table_load t c) rest
  | DReq p u :: rest => enc_rd (rd_request t p u) :: run_rd_ops t rest
  end.
Fixpoint run_hd_ops (vars : list (bytes * bytes)) (t : hd_conf) (ops : list hdop) : list val :=
  match ops with
  | [] => []
  | HLoad c :: rest => (if hd_conf_ok c then VL [VZ 1] else VErr 1) :: run_hd_ops vars (hd_table_load t c) rest
  | HReq p a b :: rest =>
    (let '(a', b') := hd_request t vars p a b in VL [enc_hdr a'; enc_hdr b']) :: run_hd_ops vars t rest
  end.
Definition model (i : cinput) : coutput :=
  match i with
  | IRewrite c p u => match rewrite_run c p u with Some st => OUrl st | None => ORejected end
  | IRules rs u => match rewrite_rules_run rs u with Some st => OUrl st | None => ORejected end
  | IRwHist ops => OHist (run_rw_ops [] ops)
  | IRdHist ops => OHist (run_rd_ops [] ops)
  | IHdHist ops vars => OHist (run_hd_ops vars [] ops)
  | IHeader c p a b vars => match header_run vars c p a b with Some (a', b') => OHdrs a' b' | None => ORejected end
  | IRedirect c p u => match redirect_run c p u with Some t => ORedirect t | None => ORejected end
  | IDirect c p u h => match direct_run c p u h with Some (st, h') => ODirect st h' | None => ORejected end
  end.
Definition enc_out (o : coutput) : val :=
  match o with
  | ORejected => VErr 1
  | OUrl st => enc_st st
  | OHdrs a b => VL [enc_hdr a; enc_hdr b]
  | ORedirect t => VL [VB t]
  | ODirect st h => VL [enc_st st; enc_hdr h]
  | OHist obs => VL obs
  end.
Definition dec_out (i : cinput) (v : val) : option coutput :=
  match i with IRwHist _ | IRdHist _ | IHdHist _ _ => match v with VL obs => Some (OHist obs) | _ => None end | _ =>
  match v with
  | VL [VZ e; VZ c] => if (e =? -1) && (c =? 1) then Some ORejected else None
  | _ =>
    match i with
    | IRewrite _ _ _ | IRules _ _ => match dec_st v with Some st => Some (OUrl st) | None => None end
    | IHeader _ _ _ _ _ =>
      match v with
      | VL [a; b] => match dec_hdr a, dec_hdr b with Some a', Some b' => Some (OHdrs a' b') | _, _ => None end
      | _ => None
      end
    | IRedirect _ _ _ => match v with VL [VB t] => Some (ORedirect t) | _ => None end
    | IRwHist _ | IRdHist _ | IHdHist _ _ => None
    | IDirect _ _ _ _ =>
      match v with
      | VL [a; b] => match dec_st a, dec_hdr b with Some st, Some h => Some (ODirect st h) | _, _ => None end
      | _ => None
      end
    end
  end end.

Definition wf_C49 (i : val) : bool := match dec_in i with Some _ => true | None => false end.
Definition run_C49 (i : val) : val :=
  match dec_in i with Some ci => enc_out (model ci) | None => VErr 0 end.
Definition agree_C49 (i o : val) : bool := val_eqb (run_C49 i) o.

(* ---------------- the property ---------------- *)
Definition hdr_eqb (a b : header) : bool := val_eqb (enc_hdr a) (enc_hdr b).
Definition url_eqb (a b : url) : bool := val_eqb (enc_url a) (enc_url b).
Definition in_keys (keys : list bytes) (kv : bytes * bytes) : bool := mem (fst kv) keys.

(* a documented command "configured with valid parameters": right number of non-empty parameters
   (the number comes from the documentation for mod_header; the rewrite and redirect documents give none, so the
   loader's own count is used); SCHEME_SET: the documented schemes http|https *)
Definition valid_rewrite_conf (cmd : bytes) (params : list bytes) : bool :=
  mem cmd doc_rewrite && forallb nonempty params
  && match assoc cmd action_check_table with Some ar => (ar =? -1) || (llen params =? ar) | None => true end.
(* ... and a value whose %names are all documented-and-known variables *)
Definition valid_header_conf (cmd : bytes) (params : list bytes) : bool :=
  match assoc cmd doc_header with
  | Some ar => (llen params =? ar) && forallb nonempty params && ((ar =? 1) || value_ok (nth 1 params []))
  | None => false
  end.
Definition valid_redirect_conf (cmd : bytes) (params : list bytes) : bool :=
  mem cmd doc_redirect && (llen params =? 1)
  && (negb (bytes_eqb cmd s_SCHEME_SET) || mem (nth 0 params []) [s_http; s_https]).

(* documented effect of a rewrite command on (Host, path, raw query) *)
Definition rw_effect (c : rwcmd) (params : list bytes) (u u' : url) : bool :=
  let p0 := nth 0 params [] in
  let p1 := nth 1 params [] in
  let same_hp := bytes_eqb (u_host u') (u_host u) && bytes_eqb (u_path u') (u_path u) in
  match c with
  | QueryDel =>
    (* no deleted key remains, in any encoding; every other parameter is still there, decoded value and order kept *)
    same_hp && negb (existsb (fun k => mem k params) (keys_of (u_query u')))
    && pairs_eqb (parse_query (u_query u')) (filter (fun kv => negb (in_keys params kv)) (parse_query (u_query u)))
  | QueryDelAllExcept =>
    same_hp && forallb (fun k => mem k params) (keys_of (u_query u'))
    && pairs_eqb (parse_query (u_query u')) (filter (in_keys params) (parse_query (u_query u)))
  | QueryAdd => same_hp && bytes_eqb (u_query u') (query_add (u_query u) p0 p1)
  | QueryRename =>
    (* nothing but the query changes; for plain names (no % + & = ;) every parameter with decoded key old now has
       key new, values and order kept, all other parameters unchanged; other names: untouched if the key is absent *)
    same_hp
    && (if plain_name p0 && plain_name p1
        then pairs_eqb (parse_query (u_query u')) (map (rename_pair p0 p1) (parse_query (u_query u)))
        else mem p0 (keys_of (u_query u)) || bytes_eqb (u_query u') (u_query u))
  | HostSet => url_eqb u' (mkUrl p0 (u_path u) (u_query u))
  | PathSet => url_eqb u' (mkUrl (u_host u) p0 (u_query u))
  | PathPrefixAdd => url_eqb u' (mkUrl (u_host u) (ensure_slash (p0 ++ trim_prefix [47] (u_path u))) (u_query u))
  | PathPrefixTrim => url_eqb u' (mkUrl (u_host u) (ensure_slash (trim_prefix p0 (u_path u))) (u_query u))
  | HostFromPath => url_eqb u' (host_from_path u)
  | HostSuffixReplace =>
    if is_suffix p0 (u_host u) then
      bytes_eqb (u_path u') (u_path u) && bytes_eqb (u_query u') (u_query u)
      && is_suffix p1 (u_host u') && bytes_eqb (u_host u) (firstn (length (u_host u') - length p1) (u_host u') ++ p0)
    else url_eqb u' u
  end.
(* the parsed query cached on the request: after a deleting action it holds no deleted key either *)
Definition cache_effect (c : rwcmd) (params : list bytes) (cache : option header) : bool :=
  match c, cache with
  | QueryDel, Some m => forallb (fun k => negb (has_key k m)) params
  | QueryDelAllExcept, Some m => forallb (fun kv => mem (fst kv) params) m
  | QueryDel, None | QueryDelAllExcept, None => false
  | _, _ => true
  end.
Definition rewrite_effect_st (cmd : bytes) (params : list bytes) (u : url) (st' : rstate) : bool :=
  match rw_cmd_of cmd with
  | Some c => rw_effect c params u (s_url st') && cache_effect c params (s_cache st')
  | None => true
  end.
Definition rewrite_effect (cmd : bytes) (params : list bytes) (u u' : url) : bool :=
  match rw_cmd_of cmd with Some c => rw_effect c params u u' | None => true end.

(* effect of a header command c with (file) parameters params on the header h it addresses *)
Definition hdr_effect (c : hcmd) (params : list bytes) (h h' : header) : bool :=
  let k := canonical_key (nth 0 params []) in
  let v := nth 1 params [] in
  match c with
  | HSet | HAdd | HDel =>
    hdr_eqb (hdr_del k h') (hdr_del k h)                                             (* other fields untouched *)
    && val_eqb (vLB (hdr_get k h'))
               (vLB (match c with HSet => [v] | HAdd => hdr_get k h ++ [v] | _ => [] end))
  | HRename | HModScheme => true             (* undocumented commands: modelled and tied, nothing claimed *)
  end.
(* SET / ADD write the value template with each %name replaced by that variable's value, "%%" by "%" *)
Definition header_effect (vars : list (bytes * bytes)) (cmd : bytes) (params : list bytes) (req rsp req' rsp' : header) : bool :=
  match header_cmd cmd with
  | Some (is_req, c) =>
    hdr_eqb (if is_req then rsp' else req') (if is_req then rsp else req)            (* the other side is untouched *)
    && hdr_effect c (header_params vars c params) (if is_req then req else rsp) (if is_req then req' else rsp')
  | None => true
  end.
(* bfe_basic/action run directly: header commands touch only the request header, all others only the URL *)
Definition direct_effect (cmd : bytes) (params : list bytes) (u : url) (h : header) (st' : rstate) (h' : header) : bool :=
  let u' := s_url st' in
  match header_cmd cmd with
  | Some (true, HSet) => url_eqb u' u && hdr_effect HSet params h h'
  | Some (true, HAdd) => url_eqb u' u && hdr_effect HAdd params h h'
  | Some (true, HDel) => url_eqb u' u && hdr_effect HDel params h h'
  | _ => hdr_eqb h' h && rewrite_effect_st cmd params u st'
  end.

Definition redirect_effect (cmd : bytes) (params : list bytes) (u : url) (t : bytes) : bool :=
  let p0 := nth 0 params [] in
  match rd_cmd_of cmd with
  | Some UrlSet => bytes_eqb t p0
  | Some UrlFromQuery => bytes_eqb t (query_get p0 (parse_query (u_query u)))       (* first decoded value, "" if none *)
  | Some UrlPrefixAdd => bytes_eqb t (p0 ++ request_uri u)
  | Some SchemeSet => bytes_eqb t (to_lower p0 ++ s_css ++ u_host u ++ request_uri u)
  | None => true
  end.

(* reload histories: the configuration in force is the one of the last accepted reload; a file whose actions are all
   valid must be accepted; a request of a product that the configuration in force does not list is left untouched
   (also when an earlier configuration had rules for it) *)
Definition all_valid (c : rw_conf) : bool :=
  forallb (fun pr => forallb (fun r : rw_rule => forallb (fun a => valid_rewrite_conf (fst a) (snd a)) (snd r)) (snd pr)) c.
Definition is_load_ok (o : val) : bool := val_eqb o (VL [VZ 1]).
Fixpoint prop_rw_ops (t : rw_conf) (ops : list rwop) (obs : list val) : bool :=
  match ops, obs with
  | [], [] => true
  | RLoad c :: rest, o :: ro =>
    if is_load_ok o then prop_rw_ops c rest ro
    else val_eqb o (VErr 1) && negb (all_valid c) && prop_rw_ops t rest ro
  | RReq p u :: rest, o :: ro =>
    match rw_lookup p t with
    | None => val_eqb o (enc_st (mkSt u None))
    | Some _ => match dec_st o with Some _ => true | None => false end
    end && prop_rw_ops t rest ro
  | _, _ => false
  end.
(* redirect histories: configuration in force = last accepted reload; a product it does not list is never redirected;
   otherwise the FIRST matching rule decides: Location as its action says, status as configured; no matching rule: no redirect *)
Definition rd_valid (c : rd_conf) : bool :=
  forallb (fun pr => forallb (fun r : rd_rule =>
     match snd (fst r) with [(cmd, p)] => valid_redirect_conf cmd p && negb (snd r =? 0) | _ => false end) (snd pr)) c.
Definition rd_step_prop (t : rd_conf) (p : bytes) (u : url) (o : val) : bool :=
  match rd_lookup p t with
  | None => val_eqb o (VL [VZ 0])
  | Some rs =>
    match rd_first_match rs with
    | None => val_eqb o (VL [VZ 0])
    | Some (_, [(cmd, ps)], status) =>
      match o with
      | VL [VZ 1; VB loc; VZ st] => redirect_effect cmd ps u loc && (st =? status)
      | _ => false
      end
    | Some _ => true
    end
  end.
Fixpoint prop_rd_ops (t : rd_conf) (ops : list rdop) (obs : list val) : bool :=
  match ops, obs with
  | [], [] => true
  | DLoad c :: rest, o :: ro =>
    if is_load_ok o then prop_rd_ops c rest ro
    else val_eqb o (VErr 1) && negb (rd_valid c) && prop_rd_ops t rest ro
  | DReq p u :: rest, o :: ro => rd_step_prop t p u o && prop_rd_ops t rest ro
  | _, _ => false
  end.
(* header histories: configuration in force = last accepted reload; a file whose rules all have actions and only
   valid documented actions must be accepted; when neither "global" nor the request's product is listed by the
   configuration in force, both headers are left untouched *)
Definition hd_valid (c : hd_conf) : bool :=
  forallb (fun pr => forallb (fun r : hd_rule =>
     nonempty (snd r) && forallb (fun a => valid_header_conf (fst a) (snd a)) (snd r)) (snd pr)) c.
Fixpoint prop_hd_ops (t : hd_conf) (ops : list hdop) (obs : list val) : bool :=
  match ops, obs with
  | [], [] => true
  | HLoad c :: rest, o :: ro =>
    if is_load_ok o then prop_hd_ops c rest ro
    else val_eqb o (VErr 1) && negb (hd_valid c) && prop_hd_ops t rest ro
  | HReq p a b :: rest, o :: ro =>
    match hd_lookup s_global t, hd_lookup p t with
    | None, None => val_eqb o (VL [enc_hdr a; enc_hdr b])
    | _, _ => match o with VL [x; y] => match dec_hdr x, dec_hdr y with Some _, Some _ => true | _, _ => false end | _ => false end
    end && prop_hd_ops t rest ro
  | _, _ => false
  end.
(* every documented variable is known to the module, and each documented SET / ADD command whose value is that
   variable (alone, or embedded in text) is a valid configuration *)
Definition s_XA : bytes := [88; 45; 65].   (* "X-A" *)
Definition documented_variables_valid : bool :=
  forallb (fun v =>
    mem v header_variables
    && forallb (fun ca =>
         (snd ca =? 1)
         || (valid_header_conf (fst ca) [s_XA; 37 :: v]
             && valid_header_conf (fst ca) [s_XA; [105; 100; 61] ++ 37 :: v ++ [59; 32; 120]]))
       doc_header) doc_variables.
Definition spec (i : cinput) (o : coutput) : bool :=
  match i, o with
  | IRewrite c p u, ORejected => negb (valid_rewrite_conf c p)
  | IRewrite c p u, OUrl st' => rewrite_effect_st (to_upper c) p u st'
  | IRules rs u, ORejected => negb (forallb (fun r => forallb (fun a => valid_rewrite_conf (fst a) (snd a)) (snd r)) rs)
  | IRwHist ops, OHist obs => prop_rw_ops [] ops obs
  | IRdHist ops, OHist obs => prop_rd_ops [] ops obs
  | IHdHist ops vars, OHist obs => prop_hd_ops [] ops obs
  | IRules rs u, OUrl _ => true        (* action sequences: tied by correspondence, effects claimed per single action *)
  | IHeader c p a b vars, ORejected => negb (valid_header_conf c p)
  | IHeader c p a b vars, OHdrs a' b' => header_effect vars c p a b a' b'
  | IRedirect c p u, ORejected => negb (valid_redirect_conf c p)
  | IRedirect c p u, ORedirect t => redirect_effect c p u t
  | IDirect c p u h, ORejected => negb (valid_rewrite_conf c p)
  | IDirect c p u h, ODirect st' h' => direct_effect (to_upper c) p u h st' h'
  | _, _ => false
  end.
Definition prop_C49 (i o : val) : bool :=
  match dec_in i with
  | Some ci => match dec_out ci o with Some co => spec ci co | None => false end
  | None => false
  end.
Definition kf_C49 (i : val) : Z := 0.
