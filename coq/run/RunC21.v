(* C21 wire functions.
   input : [cap mode [op ...]]   cap 0..4096; mode bit0/bit1 only tell the harness whether to run a final
                                 blocking read for real / which constructor to use (the model ignores them);
                                 mode bit2 (with cap >= 1) = CONCURRENT TRANSFER: a writer goroutine writes the
                                 data of all Write ops in order (retrying the unaccepted rest) and then closes
                                 with io.EOF, while a reader goroutine reads (buffer sizes taken from the Read
                                 ops) until it gets an error; the output is ONE read observation
                                 [2 len xALLDATA err 0] summarising everything the reader received
     op  : [1 xDATA] Write | [2 n] Read (buffer of n bytes) | [3 e] CloseWithError | [4 e] BreakWithError
           | [5] Err | [6] Release | [7] Done-closed? | [8 e] CloseWithErrorAndCode | [9] Peek (r,w)
           | [10] (only with mode bit3) take a new pipe from the buffer pool
           e in 0..9 : 0 = nil (panics), 1 = io.EOF, 2..9 distinct other errors
   output: [obs ...] one per op
     obs : [1 n e] Write result | [2 n xDATA e calls] Read result | [-4] Read would block | [] no result
           | [-2] panic | [5 e] Err | [7 b] Done | [9 r w] Peek *)
From Coq Require Import List ZArith Bool.
From Bfe Require Import lib.Val model.Pipe.
Import ListNotations.
Open Scope Z_scope.

Definition dec_nat (z : Z) (bound : Z) : option nat :=
  if (0 <=? z) && (z <=? bound) then Some (Z.to_nat z) else None.

Definition dec_err (z : Z) : option Z := if (0 <=? z) && (z <=? 9) then Some z else None.

Definition decode_op (v : val) : option op :=
  match v with
  | VL [VZ 1; VB d] => Some (OWrite d)
  | VL [VZ 2; VZ n] => match dec_nat n 4096 with Some k => Some (ORead k) | None => None end
  | VL [VZ 3; VZ e] => match dec_err e with Some c => Some (OClose c) | None => None end
  | VL [VZ 4; VZ e] => match dec_err e with Some c => Some (OBreak c) | None => None end
  | VL [VZ 5] => Some OErr
  | VL [VZ 6] => Some ORelease
  | VL [VZ 7] => Some ODone
  | VL [VZ 8; VZ e] => match dec_err e with Some c => Some (OCloseCode c) | None => None end
  | VL [VZ 9] => Some OPeek
  | _ => None
  end.

Definition decode_input (i : val) : option (nat * list op) :=
  match i with
  | VL [VZ cap; VZ _; VL ops] =>
      match dec_nat cap 4096, all_some (map decode_op ops) with
      | Some c, Some l => Some (c, l)
      | _, _ => None
      end
  | _ => None
  end.

Definition encode_obs (b : obs) : val :=
  match b with
  | BWrite n e => VL [VZ 1; vnat n; VZ e]
  | BRead n d e c => VL [VZ 2; vnat n; VB d; VZ e; VZ c]
  | BBlocked => VL [VZ (-4)]
  | BUnit => VL []
  | BPanic => VL [VZ (-2)]
  | BErr e => VL [VZ 5; VZ e]
  | BDone c => VL [VZ 7; vbool c]
  | BPeek r w => VL [VZ 9; VZ r; VZ w]
  end.

Definition decode_obs (v : val) : option obs :=
  match v with
  | VL [VZ 1; VZ n; VZ e] => if 0 <=? n then Some (BWrite (Z.to_nat n) e) else None
  | VL [VZ 2; VZ n; VB d; VZ e; VZ c] => if 0 <=? n then Some (BRead (Z.to_nat n) d e c) else None
  | VL [VZ (-4)] => Some BBlocked
  | VL [] => Some BUnit
  | VL [VZ (-2)] => Some BPanic
  | VL [VZ 5; VZ e] => Some (BErr e)
  | VL [VZ 7; VZ 0] => Some (BDone false)
  | VL [VZ 7; VZ 1] => Some (BDone true)
  | VL [VZ 9; VZ r; VZ w] => Some (BPeek r w)
  | _ => None
  end.

Definition decode_outs (o : val) : option (list obs) :=
  match o with VL l => all_some (map decode_obs l) | _ => None end.

(* concurrent-transfer mode? *)
Definition conc_mode (i : val) : bool :=
  match i with
  | VL [VZ cap; VZ mode; _] => Z.testbit mode 2 && (1 <=? cap)
  | _ => false
  end.

(* what a transfer must deliver, whatever the schedule: all written bytes, in order, once, then io.EOF
   (theorem C21_transfer_any_schedule: the model delivers exactly this under every schedule) *)
Definition transfer_result (ops : list op) : obs :=
  let data := concat (write_chunks ops) in BRead (length data) data E_EOF 0.

(* ---------- pooled generations (mode bit3): the op list contains separators [10] = "abandon this pipe and take a
   new one from the buffer pool" (pipe.NewPipeFromBufferPool); every pipe, including the first, comes from the
   pool; the separator's observation is [] ---------- *)
Definition pool_mode (i : val) : bool :=
  match i with
  | VL [VZ cap; VZ mode; _] => Z.testbit mode 3
  | _ => false
  end.
Definition is_sep (v : val) : bool := match v with VL [VZ 10] => true | _ => false end.
Fixpoint split_gens (ops : list val) : list (list val) :=
  match ops with
  | [] => [[]]
  | v :: r =>
      if is_sep v then [] :: split_gens r
      else match split_gens r with g :: gs => (v :: g) :: gs | [] => [[v]] end
  end.
Definition decode_gens (i : val) : option (nat * list (list op)) :=
  match i with
  | VL [VZ cap; VZ _; VL ops] =>
      match dec_nat cap 4096, all_some (map (fun g => all_some (map decode_op g)) (split_gens ops)) with
      | Some c, Some gs => Some (c, gs)
      | _, _ => None
      end
  | _ => None
  end.
Fixpoint join_gens (outs : list (list obs)) : list val :=
  match outs with
  | [] => []
  | [o] => map encode_obs o
  | o :: r => map encode_obs o ++ VL [] :: join_gens r
  end.
(* every generation, on its own, must be a history of a FRESH FIFO specification of the same capacity: a recycled
   buffer must behave exactly like a new one *)
Fixpoint check_gens (cap : nat) (gens : list (list op)) (l : list val) : bool :=
  match gens with
  | [] => match l with [] => true | _ => false end
  | g :: rest =>
      match all_some (map decode_obs (firstn (length g) l)) with
      | Some outs =>
          spec_ok cap g outs &&
          match rest, skipn (length g) l with
          | [], [] => true
          | _ :: _, VL [] :: l' => check_gens cap rest l'
          | _, _ => false
          end
      | None => false
      end
  end.

Definition run_C21 (i : val) : val :=
  if pool_mode i then
    match decode_gens i with
    | Some (cap, gens) => VL (join_gens (run_gens cap [] gens))
    | None => VErr 0
    end
  else
  match decode_input i with
  | Some (cap, ops) =>
      if conc_mode i then VL [encode_obs (transfer_result ops)]
      else VL (map encode_obs (snd (run_pipe cap ops)))
  | None => VErr 0
  end.

Definition agree_C21 (i o : val) : bool := val_eqb (run_C21 i) o.

(* THE PROPERTY, evaluated on the implementation's observations: the observed history is a history of
   the FIFO specification [spec_step] (Pipe.v): reads deliver exactly the oldest pending bytes, writes
   accept min(len, free) bytes and report an error iff truncated or closed, a close error is
   reported only when nothing is pending, a break error immediately, Blocked only when nothing is
   pending and no error is set. *)
Definition prop_C21 (i o : val) : bool :=
  if pool_mode i then
    match decode_gens i, o with
    | Some (cap, gens), VL l => check_gens cap gens l
    | Some _, _ => false
    | None, _ => val_eqb o (VErr 0)
    end
  else
  match decode_input i, decode_outs o with
  | Some (cap, ops), Some outs =>
      if conc_mode i
      then match outs with
           | [BRead n data e _] => Nat.eqb n (length data) && lz_eqb data (concat (write_chunks ops)) && (e =? E_EOF)
           | _ => false
           end
      else spec_ok cap ops outs
  | Some _, None => false
  | None, _ => val_eqb o (VErr 0)          (* malformed script: nothing is run *)
  end.

Definition kf_C21 (i : val) : Z := 0.

Definition wf_C21 (i : val) : bool :=
  if pool_mode i then match decode_gens i with Some _ => true | None => false end
  else match decode_input i with Some _ => true | None => false end.
