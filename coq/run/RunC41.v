(* C41 wire functions.
   input  : [cfg hello]
     cfg   = [minV maxV preferServer suitesOpt priority protos curves poodle ticketsDisabled clientAuth
              ecdsaKey ruleOpt rules certs cacheMode reloads]
              suitesOpt = [] | [[ids]]     ruleOpt = [] | [rule]     rule = [grade protos chacha clientAuth]
              rules = [[sni rule] ...]   certs = [[name ecdsaKey] ...]   cacheMode 0 nil / 1 on / 2 disabled
     hello = [vers suites comp curves points alpn npn sni sessionId ticket cacheEntry]
              ticket, cacheEntry = [0] none | [1] undecryptable/undecodable | [2 vers suite ncerts] a session
   output : [R D]   R = [0 alert] | [1 resume vers suite alpn npn protos]
            D = names of the bfe_tls.Config fields (ticket key excluded) that differ between the configured
                Config and the listener's live Config after `reloads` UpdateSessionTicketKey calls *)
From Coq Require Import List ZArith Bool.
From Bfe Require Import lib.Val lib.Bytes gen.TlsSuites model.TlsNego.
Import ListNotations.
Open Scope Z_scope.

Definition zb (z : Z) : bool := negb (z =? 0).

Definition rule1_of (v : val) : option rule :=
  match v with
  | VL [VB g; ps; VZ ch; VZ ca] =>
    match as_LB ps with
    | Some ps' => Some {| r_grade := g; r_protos := ps'; r_chacha := zb ch; r_client_auth := zb ca |}
    | None => None
    end
  | _ => None
  end.
Definition rule_of (v : val) : option (option rule) :=
  match v with
  | VL [] => Some None
  | VL [r] => match rule1_of r with Some r' => Some (Some r') | None => None end
  | _ => None
  end.
Definition rules_of (v : val) : option (list (bytes * rule)) :=
  match v with
  | VL l => all_some (map (fun e => match e with
                                    | VL [VB n; r] => match rule1_of r with Some r' => Some (n, r') | None => None end
                                    | _ => None end) l)
  | _ => None
  end.
Definition certs_of (v : val) : option (list (bytes * bool)) :=
  match v with
  | VL l => all_some (map (fun e => match e with VL [VB n; VZ e'] => Some (n, zb e') | _ => None end) l)
  | _ => None
  end.
Definition suites_opt (v : val) : option (option (list Z)) :=
  match v with
  | VL [] => Some None
  | VL [l] => match as_LZ l with Some l' => Some (Some l') | None => None end
  | _ => None
  end.

Definition cfg_of (v : val) : option config :=
  match v with
  | VL [VZ mn; VZ mx; VZ pf; so; pr; ps; cu; VZ po; VZ td; VZ ca; VZ ec; ro; rs; ce; VZ cm; VZ rl] =>
    match suites_opt so, as_LZ pr, as_LB ps, as_LZ cu, rule_of ro with
    | Some so', Some pr', Some ps', Some cu', Some ro' =>
      match rules_of rs, certs_of ce with
      | Some rs', Some ce' =>
        Some {| c_min := mn; c_max := mx; c_prefer_server := zb pf; c_suites := so'; c_priority := pr';
                c_protos := ps'; c_curves := cu'; c_poodle := zb po; c_tickets_disabled := zb td;
                c_client_auth := ca; c_ecdsa := zb ec; c_rule := ro'; c_rules := rs'; c_certs := ce';
                c_cache := cm; c_reloads := rl |}
      | _, _ => None
      end
    | _, _, _, _, _ => None
    end
  | _ => None
  end.

Definition ticket_of (v : val) : option ticket :=
  match v with
  | VL [VZ 0] => Some NoTicket
  | VL [VZ 1] => Some BadTicket
  | VL [VZ 2; VZ sv; VZ ss; VZ nc] => Some (GoodTicket sv ss nc)
  | _ => None
  end.
Definition hello_of (v : val) : option hello :=
  match v with
  | VL [VZ vers; su; VB comp; cu; VB points; al; VZ npn; VB sni; VB sid; tk; ck] =>
    match as_LZ su, as_LZ cu, as_LB al, ticket_of tk, ticket_of ck with
    | Some su', Some cu', Some al', Some tk', Some ck' =>
      Some {| h_vers := vers; h_suites := su'; h_comp := comp; h_curves := cu'; h_points := points;
              h_alpn := al'; h_npn := zb npn; h_sni := sni; h_sid := sid; h_ticket := tk'; h_cache := ck' |}
    | _, _, _, _, _ => None
    end
  | _ => None
  end.

Definition enc_outcome (o : outcome) : val :=
  match o with
  | Alert a => VL [VZ 0; VZ a]
  | Done r v s al n ps => VL [VZ 1; vbool r; VZ v; VZ s; VB al; vbool n; vLB ps]
  end.

Definition decode (i : val) : option (config * hello) :=
  match i with
  | VL [c; h] =>
    match cfg_of c, hello_of h with
    | Some c', Some h' => Some (c', h')
    | _, _ => None
    end
  | _ => None
  end.

Definition run_C41 (i : val) : val :=
  match decode i with
  | Some (c, h) => VL [enc_outcome (fst (serve c h)); vLB (snd (serve c h))]
  | None => VErr 0
  end.
Definition agree_C41 (i o : val) : bool := val_eqb (run_C41 i) o.

(* ---------------- the property, written from the specification ---------------- *)
(* version: inside the configured range (defaults when unset), not above the client's, and inside
   the grade's range (A: no SSLv3; A+: TLS 1.2 only) *)
Definition spec_version_ok (c : config) (h : hello) (v : Z) : bool :=
  (min_version c <=? v) && (v <=? max_version c) && (v <=? h_vers h) &&
  negb (bytes_eqb (grade_of c) grade_a && (v <? version_tls10)) &&
  negb (bytes_eqb (grade_of c) grade_aplus && (v <? version_tls12)).

(* documented grade policy for RC4 (common.go): A+/A never; B: TLS>=1.0 never, SSLv3 only RC4;
   C: SSLv3 only RC4 when Ssl3PoodleProofed *)
Definition spec_rc4_ok (c : config) (v : Z) (is_rc4 : bool) : bool :=
  let g := grade_of c in
  if bytes_eqb g grade_aplus || bytes_eqb g grade_a then negb is_rc4
  else if bytes_eqb g grade_b then (if version_tls10 <=? v then negb is_rc4 else is_rc4)
  else if bytes_eqb g grade_c then (if c_poodle c && (v =? version_ssl30) then is_rc4 else true)
  else true.

(* suite: offered by the client, in the server's configured list, implemented, and enabled for the
   connection's rule (ChaCha20 only when the rule enables it, RC4 per grade, TLS1.2-only suites only
   at TLS 1.2, ECDSA suites iff the certificate key is ECDSA) *)
Definition spec_suite_ok (c : config) (h : hello) (v s : Z) : bool :=
  mem s (h_suites h) && mem s (cfg_suites c) &&
  match suite_flags s with
  | None => false
  | Some fl =>
    (negb (has fl fl_chacha20) || chacha_ok c) &&
    spec_rc4_ok c v (has fl fl_rc4) &&
    negb (has fl fl_tls12 && (v <? version_tls12)) &&
    Bool.eqb (has fl fl_ecdsa) (c_ecdsa c)
  end.

Definition spec_alpn_ok (c : config) (h : hello) (alpn : bytes) : bool :=
  match alpn with
  | [] => true
  | _ => memb alpn (h_alpn h) && memb alpn (server_protos c)
  end.

Definition spec_scsv_must_refuse (c : config) (h : hello) : bool :=
  mem tls_fallback_scsv (h_suites h) &&
  (h_vers h <? (if c_max c =? 0 then version_tls12 else c_max c)).

Definition prop_C41 (i o : val) : bool :=
  match decode i with
  | Some (c0, h) =>
    let c := eff c0 h in     (* the rule and certificate selected for this connection's server name *)
    match o with
    (* whatever reloads happened, the live Config equals the configured one outside the ticket key *)
    | VL [VL [VZ 0; VZ _]; VL []] => true                       (* refused: nothing was negotiated *)
    | VL [VL [VZ 1; VZ _; VZ v; VZ s; VB alpn; VZ npn; ps]; VL []] =>
      spec_version_ok c h v && spec_suite_ok c h v s && spec_alpn_ok c h alpn &&
      negb (spec_scsv_must_refuse c h) &&
      match as_LB ps with
      | Some ps' => (negb (zb npn) || h_npn h) && forallb (fun p => memb p (server_protos c)) ps'
      | None => false
      end
    | _ => false
    end
  | None => false
  end.

(* known-finding class 3 (known_findings/C41.txt): validateHttp2Accepted replaced the selected "h2" by
   "http/1.1" although the client or the server did not list "http/1.1".  (Classes 1 and 2, the
   fallback-SCSV defects, are fixed in /repo and no longer occur.) *)
Definition kf_C41 (i : val) : Z :=
  match decode i with
  | Some (c, h) =>
    match negotiate (live c) h with
    | Done _ _ _ alpn _ _ => if spec_alpn_ok (eff c h) h alpn then 0 else 3
    | Alert _ => 0
    end
  | None => 0
  end.

(* well-formed harness inputs: decodable, non-empty configured version range *)
Definition wf_C41 (i : val) : bool :=
  match decode i with
  | Some (c, h) => min_version c <=? max_version c
  | None => false
  end.
