(* C37 wire functions.
   input : [limit stall ops]
           limit = Server.maxQueuedControlFrames() read from the implementation; stall = where the client stops reading
           (0: never reads; k>0: after k-1 PING round trips) -- the flood always starts in the state "writer blocked in
           flush, nothing queued", which the harness waits for and reports as the first sample.
           ops (sent by a client that does not read): [1 n] n PINGs  [2 n] n PING acks  [3 n] n SETTINGS
           [4 n sid] n DATA frames (1 byte) on the never-opened stream sid  [5 sid] request on new stream sid whose
           handler writes its response HEADERS and blocks  [6 sid] RST_STREAM for sid
           [9] graceful shutdown: the server's CloseNotifyCh is closed -> goAway(NO_ERROR); later requests are ignored,
               control frames keep being queued and counted
           [8 sid] WINDOW_UPDATE(sid, 2^31-1): overflows the window of an open stream (server resets it), ignored otherwise
           [7] (last) the client starts reading again, sends a marker PING and reports the control frames it receives
               (skipped when closed or when `limit` frames are queued: the marker itself would cross the limit);
               it waits until the blocked handlers' HEADERS frames have arrived too and is followed by one more sample
   output: first sample, then per op a sample [queued zeroLen streamFrames closed] taken on the serve goroutine after a
           SETTINGS barrier (streamFrames = -1 once closed), or for [7]: [7 [tag ...]] (PING ack = id, RST_STREAM = -sid,
           small connection WINDOW_UPDATE = 0, GOAWAY = -2000000000, marker = 999999999; SETTINGS acks are not reported: whether the ack
           of the client's very first SETTINGS is written before the writer blocks is a race). *)
From Coq Require Import List ZArith Bool.
From Bfe Require Import lib.Val model.H2Ctl.
Import ListNotations.
Open Scope Z_scope.

Definition MARKER : Z := 999999999.

Definition sample (c : conn) : val :=
  vLZ [queued c; Z.of_nat (length (zero c)); if closed c then -1 else sq_total (sq c); if closed c then 1 else 0].

(* n times the same kind of event; PING ids are consecutive *)
Definition rep_events (limit : Z) (n : Z) (mk : Z -> event) (st : conn * Z) : conn * Z :=
  Z.iter n (fun s => (iteration limit (fst s) (mk (snd s)), snd s + 1)) st.

Definition barrier (limit : Z) (c : conn) : conn := iteration limit c ESettings.

(* the client reads again: marker PING, then the writer completes frame after frame *)
Definition drain (limit : Z) (c : conn) : conn :=
  let c1 := iteration limit c (EPing MARKER) in
  let c0 := mkC (zero c1) (sq c1) (queued c1) (writing c1) (needs_flush c1) (need_ack c1) (closed c1) [] (in_goaway c1) (need_goaway c1) (max_sid c1) in
  fold_left (fun s _ => iteration limit s EWrote)
            (repeat tt (length (zero c0) + Z.to_nat (sq_total (sq c0)) + 6)) c0.

(* decoded client operations *)
Inductive cop :=
| CFlood (kind n sid : Z)     (* kind 1 PING, 2 PING ack, 3 SETTINGS, 4 DATA on unknown stream sid *)
| COpen (sid : Z) | CRst (sid : Z) | COverflow (sid : Z) | CGoAway | CDrain.

Definition dec_cop (v : val) : option cop :=
  match v with
  | VL [VZ 1; VZ n] => Some (CFlood 1 n 0)
  | VL [VZ 2; VZ n] => Some (CFlood 2 n 0)
  | VL [VZ 3; VZ n] => Some (CFlood 3 n 0)
  | VL [VZ 4; VZ n; VZ sid] => Some (CFlood 4 n sid)
  | VL [VZ 5; VZ sid] => Some (COpen sid)
  | VL [VZ 6; VZ sid] => Some (CRst sid)
  | VL [VZ 8; VZ sid] => Some (COverflow sid)
  | VL [VZ 9] => Some CGoAway
  | VL [VZ 7] => Some CDrain
  | _ => None
  end.

Definition flood_event (kind sid : Z) (id : Z) : event :=
  if kind =? 1 then EPing id else if kind =? 2 then EPingAck else if kind =? 3 then ESettings else EDataUnknown sid.

Definition apply_cop (limit : Z) (o : cop) (st : conn * Z) : conn * Z :=
  match o with
  | CFlood kind n sid => rep_events limit n (flood_event kind sid) st
  | COpen sid =>                                  (* processHeaders ignores new streams once inGoAway *)
    if in_goaway (fst st) then (iteration limit (fst st) (EHeaders sid), snd st)
    else (iteration limit (iteration limit (fst st) (EHeaders sid)) (EHandlerFrame sid 1), snd st)
  | CGoAway => (iteration limit (fst st) EGoAway, snd st)
  | CRst sid => (iteration limit (fst st) (ERstStream sid), snd st)
  | COverflow sid => (iteration limit (fst st) (EWindowOverflow sid), snd st)
  | CDrain => st
  end.

Definition drain_out (limit : Z) (c : conn) : val :=
  if closed c || (limit <=? queued c) then VL [VZ 7; VL []]
  else VL [VZ 7; VL (map VZ (filter (fun t => negb (t =? TAG_ACK)) (rev (started (drain limit c)))))].

(* the state after [7]: drained (all queues written) unless the drain is skipped *)
Definition drain_state (limit : Z) (c : conn) : conn :=
  if closed c || (limit <=? queued c) then c else drain limit c.

Fixpoint run_ops (limit : Z) (ops : list cop) (st : conn * Z) {struct ops} : option (list val) :=
  match ops with
  | [] => Some []
  | CDrain :: r =>
    match r with
    | [] => Some [drain_out limit (fst st); sample (barrier limit (drain_state limit (fst st)))]
    | _ => None
    end
  | o :: r =>
    let st' := apply_cop limit o st in
    let c' := barrier limit (fst st') in
    match run_ops limit r (c', snd st') with
    | Some out => Some (sample c' :: out)
    | None => None
    end
  end.

Definition run_C37 (i : val) : val :=
  match i with
  | VL [VZ limit; VZ stall; VL ops] =>
    if (0 <=? limit) && (0 <=? stall) then
      match all_some (map dec_cop ops) with
      | Some cops =>
        match run_ops limit cops (conn_blocked, 1) with
        | Some out => VL (sample conn_blocked :: out)
        | None => VErr 0
        end
      | None => VErr 0
      end
    else VErr 0
  | _ => VErr 0
  end.

(* executable well-formedness of an input: shape, non-negative numbers, decodable operations, [7] only as last one *)
Fixpoint drain_last (l : list cop) : bool :=
  match l with
  | [] => true
  | CDrain :: r => match r with [] => true | _ => false end
  | _ :: r => drain_last r
  end.
Definition wf_C37 (i : val) : bool :=
  match i with
  | VL [VZ limit; VZ stall; VL ops] =>
    (0 <=? limit) && (0 <=? stall) &&
    match all_some (map dec_cop ops) with Some cops => drain_last cops | None => false end
  | _ => false
  end.

Definition agree_C37 (i o : val) : bool := val_eqb (run_C37 i) o.

(* The property on the implementation's samples: the counter is the number of pending control frames; an open
   connection never holds more than `limit` of them after a serve-loop iteration; nothing ever exceeds
   limit + per_iteration_max; once closed, closed for good. *)
Fixpoint samples_ok (limit : Z) (was_closed : bool) (l : list val) {struct l} : bool :=
  match l with
  | [] => true
  | VL [VZ q; VZ z; VZ s; VZ cl] :: r =>
    (q =? z) && (0 <=? z) && (z <=? limit + per_iteration_max)
    && ((cl =? 1) || ((cl =? 0) && (z <=? limit)))
    && (negb was_closed || (cl =? 1))
    && samples_ok limit (cl =? 1) r
  | VL [VZ t; VL _] :: r => (t =? 7) && samples_ok limit was_closed r
  | _ => false
  end.

Definition prop_C37 (i o : val) : bool :=
  match i, o with
  | VL [VZ limit; VZ _; VL _], VL samples => match samples with [] => false | _ => samples_ok limit false samples end
  | _, _ => false
  end.

Definition kf_C37 (i : val) : Z := 0.
