(* C38 wire functions.
   input : [method bufsz hop script] or [method bufsz hop script [w g]] (flow-control script: the client's initial stream
           window w and the grant g it sends whenever its window reaches 0; without it the windows never bind)   method 0 GET / 1 HEAD / 2 GET whose request has no END_STREAM (the response is
           then followed by RST_STREAM NO_ERROR, reported as a trailing frame [3 0]); bufsz = handlerChunkWriteSize; hop = keys of HopHeaders;
           script ops: [1 k v] Set  [2 k v] Add  [3 code] WriteHeader  [4 bytes rep] Write(bytes x rep)  [5] Flush
                       [6 k v] raw map append Header()[k] = append(Header()[k], v) (key not canonicalised)
   output: [frames results] (model) / [frames results blocks] (implementation; blocks = per header block its fragments
           [length END_HEADERS], see agree_C38)  frames: [1 end [[name value]..]] HEADERS | [2 end bytes] DATA ; results: 0/1 per Write.
   The values of `date` and `content-type` are projected to the empty string (clock / sniffing not modelled). *)
From Coq Require Import List ZArith Bool.
From Bfe Require Import lib.Val lib.Bytes model.H2Resp.
Import ListNotations.
Open Scope Z_scope.

Definition dec_op (v : val) : option hop_ :=
  match v with
  | VL [VZ 1; VB k; VB x] => Some (OSet k x)
  | VL [VZ 2; VB k; VB x] => Some (OAdd k x)
  | VL [VZ 3; VZ c] => Some (OWriteHeader c)
  | VL [VZ 4; VB p; VZ n] => if (0 <=? n) && (n <=? 70000) then Some (OWrite (concat (repeat p (Z.to_nat n)))) else None
  | VL [VZ 5] => Some OFlush
  | VL [VZ 6; VB k; VB x] => Some (ORaw k x)
  | _ => None
  end.

(* windows that never bind (the default when the input has no flow-control script) *)
Definition BIG : Z := 2^40.
Definition dec_flow (l : list val) : option (Z * Z) :=
  match l with
  | [] => Some (BIG, BIG)
  | [VL [VZ w; VZ g]] => if (0 <? w) && (0 <? g) then Some (w, g) else None
  | _ => None
  end.
Definition dec_input (i : val) : option (env * list hop_) :=
  match i with
  | VL (VZ m :: VZ bsz :: hopv :: VL sc :: flow) =>
    match as_LB hopv, all_some (map dec_op sc), dec_flow flow with
    | Some hop, Some ops, Some (w, g) =>
      (* method + 10: the same exchange, additionally repeated on several connections concurrently with other
         header-rich responses (the harness reports a deviating observation if any); the model ignores the flag *)
      let m' := if 10 <=? m then m - 10 else m in
      if ((m' =? 0) || (m' =? 1) || (m' =? 2)) && (0 <? bsz) then Some (mkE (m' =? 1) bsz hop (m' =? 2) 0 w g, ops) else None
    | _, _, _ => None
    end
  | _ => None
  end.

Definition project (k v : bytes) : bytes :=
  if bytes_eqb k s_date || bytes_eqb k s_content_type then [] else v.
Definition enc_frame (f : frame) : val :=
  match f with
  | FH e fl => VL [VZ 1; vbool e; VL (map (fun kv => VL [VB (fst kv); VB (project (fst kv) (snd kv))]) fl)]
  | FD e d => VL [VZ 2; vbool e; VB d]
  end.

(* wroteFrame: when the frame carrying END_STREAM has been written and the request side of the stream is still open,
   the server resets the stream with NO_ERROR (RFC 7540 8.1): reported as a trailing [3 0] *)
Definition RST_NO_ERROR : val := VL [VZ 3; VZ 0].
Definition rst_after (e : env) : list val := if e_open e then [RST_NO_ERROR] else [].

(* the observation for iteration order n of the "Trailer:"-prefixed keys *)
Definition run_perm (n : Z) (i : val) : val :=
  match dec_input i with
  | Some (e, ops) =>
    let e' := with_perm n e in
    let '(fr, res, _) := run_handler e' ops in
    VL [VL (map enc_frame (wire_frames (e_grant e') (e_win e') fr) ++ rst_after e'); vLZ res]
  | None => VErr 0
  end.
Definition run_C38 (i : val) : val := run_perm 0 i.

(* at most three "Trailer:"-prefixed keys are generated: 3! = 6 iteration orders *)
Definition perms : list Z := [0; 1; 2; 3; 4; 5].
(* The harness adds a third element to the implementation's observation: for every header block (response headers,
   trailers) the list of its HEADERS/CONTINUATION fragments [length END_HEADERS].  The HPACK size of a block is not
   modelled, so the fragmentation is validated against the model of the split applied to the observed total length. *)
Definition dec_frag (v : val) : option (Z * bool) :=
  match v with VL [VZ l; VZ e] => Some (l, negb (e =? 0)) | _ => None end.
Definition dec_block (v : val) : option (list (Z * bool)) :=
  match v with VL l => all_some (map dec_frag l) | _ => None end.
Definition frag_eqb (a b : Z * bool) : bool := (fst a =? fst b) && Bool.eqb (snd a) (snd b).
Fixpoint frags_eqb (a b : list (Z * bool)) {struct a} : bool :=
  match a, b with
  | [], [] => true
  | x :: a', y :: b' => frag_eqb x y && frags_eqb a' b'
  | _, _ => false
  end.
Definition block_valid (fr : list (Z * bool)) : bool :=
  frags_eqb fr (header_fragment_lens (fold_right (fun x a => fst x + a) 0 fr)).
Definition frags_valid (v : val) : bool :=
  match v with
  | VL bl => match all_some (map dec_block bl) with Some bs => forallb block_valid bs | None => false end
  | _ => false
  end.

Definition agree_C38 (i o : val) : bool :=
  match o with
  | VL [fv; resv; fragsv] =>
    existsb (fun n => val_eqb (run_perm n i) (VL [fv; resv])) perms && frags_valid fragsv
  | _ => existsb (fun n => val_eqb (run_perm n i) o) perms
  end.

(* ---- the property on the implementation's own frames ---- *)
Definition dec_field (v : val) : option (bytes * bytes) :=
  match v with VL [VB k; VB x] => Some (k, x) | _ => None end.
Definition dec_frame (v : val) : option frame :=
  match v with
  | VL [VZ 1; VZ e; VL fl] => match all_some (map dec_field fl) with Some l => Some (FH (negb (e =? 0)) l) | None => None end
  | VL [VZ 2; VZ e; VB d] => Some (FD (negb (e =? 0)) d)
  | _ => None
  end.

Definition write_payloads (ops : list hop_) : list bytes :=
  flat_map (fun o => match o with OWrite p => [p] | _ => [] end) ops.
(* bytes the handler wrote successfully *)
Fixpoint accepted (ws : list bytes) (res : list Z) : bytes :=
  match ws, res with
  | w :: ws', r :: res' => (if r =? 0 then w else []) ++ accepted ws' res'
  | _, _ => []
  end.

(* the expected body, from the statement: the bytes written; none for HEAD and for body-less statuses *)
Definition spec_body (e : env) (ops : list hop_) (res : list Z) : bytes :=
  if e_head e || negb (body_allowed (spec_status ops)) then [] else accepted (write_payloads ops) res.

Definition prop_frames (e : env) (ops : list hop_) (fs : list frame) (res : list Z) : bool :=
  (length res =? length (write_payloads ops))%nat
  && stream_ok (spec_status ops) (spec_body e ops res) fs.

(* a RST_STREAM(NO_ERROR) after the complete response is allowed (not required) when the request was still open *)
Definition is_rst_no_error (v : val) : bool := val_eqb v RST_NO_ERROR.
Definition strip_rst (open : bool) (fv : list val) : list val :=
  if open then match rev fv with v :: r => if is_rst_no_error v then rev r else fv | [] => fv end else fv.

(* every header block is delivered completely: at least one fragment, every fragment 1..16384 bytes, END_HEADERS on
   the last fragment and on no other *)
Fixpoint block_ok (fr : list (Z * bool)) {struct fr} : bool :=
  match fr with
  | [] => false
  | [(l, e)] => (0 <? l) && (l <=? max_hdr_frame) && e
  | (l, e) :: r => (0 <? l) && (l <=? max_hdr_frame) && negb e && block_ok r
  end.
Definition frags_ok (v : val) : bool :=
  match v with
  | VL bl => match all_some (map dec_block bl) with Some bs => forallb block_ok bs | None => false end
  | _ => false
  end.

Definition prop_stream (e : env) (ops : list hop_) (fv : list val) (resv : val) : bool :=
  match all_some (map dec_frame (strip_rst (e_open e) fv)), as_LZ resv with
  | Some fs, Some res => prop_frames e ops fs res
  | _, _ => false
  end.
Definition prop_C38 (i o : val) : bool :=
  match dec_input i, o with
  | Some (e, ops), VL [VL fv; resv] => prop_stream e ops fv resv
  | Some (e, ops), VL [VL fv; resv; fragsv] => prop_stream e ops fv resv && frags_ok fragsv
  | _, _ => false
  end.

(* executable well-formedness of an input: decodable, the hop list covers the connection-specific names (true of
   HopHeaders), WriteHeader codes are valid HTTP status codes *)
Definition hop_okb (hop : list bytes) : bool := forallb (fun c => mem_bytes (canon c) hop) conn_specific.
Definition op_ok (o : hop_) : bool :=
  match o with OWriteHeader c => (100 <=? c) && (c <=? 999) | _ => true end.
Definition wf_C38 (i : val) : bool :=
  match dec_input i with
  | Some (e, ops) => hop_okb (e_hop e) && forallb op_ok ops
  | None => false
  end.

(* no open finding class: the two defects found here were repaired in /repo (known_findings/C38.txt, fixed: lines) *)
Definition kf_C38 (i : val) : Z := 0.
