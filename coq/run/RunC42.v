From Coq Require Import List ZArith Bool.
From Bfe Require Import lib.Val lib.Bytes model.TlsRecord.
Import ListNotations.
Open Scope Z_scope.

(* input : [ [suiteId vers kind mac bs expl ovh padstyle padx]  [VB write ...]  VB final-alert-payload (x0100 = close_notify, x = none)  [op ...]  cut  netchunk  rdbuf  [bufsize ...] ]   (buffer sizes of the Read calls made AFTER the first error)
     op  : [1 i off mask] flip | [2 i j] swap | [3 i j] dup | [4 i] drop | [5 i t v n] forge | [6 i n] trunc
   output: [VB delivered  status  seq  [[n status] ...]  wstatus]   (what Conn.Read returned until its first error;
            final c.in.seq; byte count and status of every further Read; status of a Conn.Write made at the end) *)
Definition dec_op (v : val) : option op :=
  match v with
  | VL [VZ 1; VZ i; VZ off; VZ m] => Some (OFlip i off m)
  | VL [VZ 2; VZ i; VZ j] => Some (OSwap i j)
  | VL [VZ 3; VZ i; VZ j] => Some (ODup i j)
  | VL [VZ 4; VZ i] => Some (ODrop i)
  | VL [VZ 5; VZ i; VZ t; VZ vv; VZ n] => Some (OForge i t vv n)
  | VL [VZ 6; VZ i; VZ n] => Some (OTrunc i n)
  | _ => None
  end.

Record c42_in := mkIn { i_cfg : cfg; i_writes : list (list Z); i_close : list Z; i_script : list op; i_cut : Z;
                        i_more : list Z }.

Definition dec_C42 (v : val) : option c42_in :=
  match v with
  | VL [VL [VZ _; VZ vers; VZ kind; VZ mac; VZ bs; VZ expl; VZ ovh; VZ pad; VZ padx]; ws; VB close; VL ops; VZ cutn; VZ _; VZ _; more] =>
    match as_LB ws, all_some (map dec_op ops), as_LZ more with
    | Some writes, Some script, Some bufs =>
      Some (mkIn (mkCfg kind mac bs expl ovh vers pad padx) writes close script cutn bufs)
    | _, _, _ => None
    end
  | _ => None
  end.

(* the records the client produced, and what the adversary turned them into *)
Definition orig_wire (x : c42_in) : list (srec sbody) :=
  protect sbody sseal (i_cfg x) (plain_records (i_cfg x) (i_writes x) (i_close x)).
Definition tampered_wire (x : c42_in) : list (srec sbody) * Z :=
  apply_cut sbody (apply_script sbody (sbflip (i_cfg x)) (orig_wire x) (i_script x)) (i_cut x).

(* suite shapes that exist in cipher_suites.go: CBC block size 8 or 16, explicit IV = 0 or one block *)
Definition cfg_ok (c : cfg) : bool :=
  wf_cfg c && (c_mac c + c_expl c + c_ovh c <=? 1700) && (c_padx c <=? 15) &&
  (negb (c_kind c =? 1) || (((c_bs c =? 8) || (c_bs c =? 16)) && ((c_expl c =? 0) || (c_expl c =? c_bs c)))).

(* does the receiving version accept the padding the sending peer uses, on every record of the session? *)
Definition pads_ok (x : c42_in) : bool :=
  forallb (fun tp => negb (c_kind (i_cfg x) =? 1) ||
                     pad_accept (c_vers (i_cfg x)) (sender_pad (i_cfg x) (blen (snd tp))))
          (plain_records (i_cfg x) (i_writes x) (i_close x)).

Definition wf_base (x : c42_in) : bool :=
  wf_cfg (i_cfg x) && (forallb wf_bytes (i_writes x) && wf_bytes (i_close x) && (blen (i_close x) <=? 1024)) &&
  (total sbody (apply_script sbody (sbflip (i_cfg x)) (orig_wire x) (i_script x)) <? 16000).
(* does the client's final alert end the reading (close_notify, fatal or malformed alert), and how does
   Read end on the untouched stream *)
Definition terminal (fin : list Z) : bool :=
  match fin with [] => false | [lvl; a] => (a =? 0) || negb (lvl =? 1) | _ => true end.
Definition clean_status (fin : list Z) : Z :=
  match fin with
  | [] => 1
  | [lvl; a] => if a =? 0 then 1 else if lvl =? 1 then 1 else if lvl =? 2 then 300 + a else 110
  | _ => 110
  end.

(* Did the adversary change anything the receiver reads?  With a close_notify from the client nothing
   after it is read; without one the whole stream is. *)
Definition relevant (x : c42_in) : bool :=
  let '(w, trail) := tampered_wire x in
  if terminal (i_close x) then negb (srecs_prefix (orig_wire x) w)
  else negb (srecs_eqb w (orig_wire x) && (trail =? 0)).
(* finding class 1: the adversary only removed a tail of the stream at a record boundary (or left a
   partial record header there): readRecord reports io.EOF, the same result as an orderly close *)
Definition tail_dropped (x : c42_in) : bool :=
  let '(w, _) := tampered_wire x in relevant x && srecs_prefix w (orig_wire x).

(* well-formed inputs (what the generator produces): suite shape of the table, writes are bytes, stream
   below 16000 bytes, not the SSLv3-with-long-peer-padding shape of finding 2, and a script that does not change what the receiver reads is written as the empty
   script (the generator normalises no-op scripts) *)
Definition wf_C42 (x : c42_in) : bool :=
  wf_base x && cfg_ok (i_cfg x) && negb (ssl3_longpad (i_cfg x)) &&
  (relevant x || (match i_script x with [] => true | _ => false end && (i_cut x <? 0))).

Definition run_C42 (v : val) : val :=
  match dec_C42 v with
  | Some x =>
    if wf_base x then
      let '(w, trail) := tampered_wire x in
      let '(d, st, seq) := receive sbody sopen (i_cfg x) w trail in
      VL [VB d; VZ st; VZ seq; VL (map (fun r => VL [VZ (fst r); VZ (snd r)]) (reads_after st (i_more x)));
          VZ (write_after st)]
    else VErr 0
  | None => VErr 0
  end.
Definition agree_C42 (i o : val) : bool := val_eqb (run_C42 i) o.

(* THE PROPERTY on the implementation's observation: delivered bytes are a prefix of the bytes the
   client wrote; if the adversary changed anything Read must end with a hard error (not io.EOF); if
   nothing was changed and the peer's CBC padding is acceptable for the version everything is delivered
   and Read ends the way the client's final alert says (io.EOF for close_notify, a dropped warning or no
   alert; the remote error for a fatal alert; unexpected_message for a malformed one).  And for every
   number of further Read calls the total of delivered bytes stays that authenticated prefix: each of
   them returns 0 bytes and the same error. *)
Definition prop_C42 (i o : val) : bool :=
  match dec_C42 i, o with
  | Some x, VL [VB d; VZ st; VZ _; VL more; VZ _] =>
    wf_base x &&
    (* the error is sticky: every further Read returns no byte and the same error *)
    forallb (fun v => val_eqb v (VL [VZ 0; VZ st])) more &&
    is_prefix d (sent_bytes (i_writes x)) &&
    (if relevant x then negb (st =? 1)
     else if pads_ok x then (st =? clean_status (i_close x)) && bytes_eqb d (sent_bytes (i_writes x))
     else true)
  | _, _ => false
  end.
(* finding class 2: SSLv3, peer with long CBC padding, a bit flipped inside the padding: accepted *)
Definition padding_modified (x : c42_in) : bool := has_pm (fst (tampered_wire x)).
Definition kf_C42 (i : val) : Z :=
  match dec_C42 i with
  | Some x => if wf_base x && tail_dropped x then 1
              else if wf_base x && padding_modified x then 2 else 0
  | None => 0
  end.
