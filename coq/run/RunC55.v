From Coq Require Import List ZArith Bool.
From Bfe Require Import lib.Val lib.Bytes model.Fcgi.
Import ListNotations.
Open Scope Z_scope.

(* input: [[ [k v] ... ] body bodychunk resp] ; output: [written stream err]  (see harness/cmd/c55) *)
Definition dec_pair (v : val) : option (bytes * bytes) :=
  match v with VL [VB k; VB x] => Some (k, x) | _ => None end.
Definition dec_C55 (i : val) : option (list (bytes * bytes) * bytes * bytes) :=
  match i with
  | VL [VL ps; VB body; VZ _; VB resp] =>
    match all_some (map dec_pair ps) with
    | Some l => Some (l, body, resp)
    | None => None
    end
  | _ => None
  end.

(* the body delivery mode (third column): > 0 read size of an io.Reader, <= 0 a WriterTo writing -bc bytes per Write *)
Definition bc_of (i : val) : Z := match i with VL [_; _; VZ bc; _] => bc | _ => 1 end.
Definition out_C55 (bc : Z) (ps : list (bytes * bytes)) (body resp : bytes) : val :=
  let '(st, code) := client_stream resp in
  VL [VB (do_written bc ps body); VB st; VZ code].

(* ---- op 2: Transport.RoundTrip end to end ----
   input [2 method scheme host remote path query proto clen [[hname [hval ...]] ...] root [[ename eval] ...] body resp]
   output [written rterr status body bodyerr statustext] *)
Definition dec_hdr (v : val) : option (bytes * list bytes) :=
  match v with VL [VB k; vs] => match as_LB vs with Some l => Some (k, l) | None => None end | _ => None end.
Definition dec2_C55 (i : val) : option (freq * bytes * bytes) :=
  match i with
  | VL [VZ 2; VB method; VB scheme; VB host; VB remote; VB path; VB query; VB proto; VZ clen; VL hs; VB root; VL es; VB body; VB resp] =>
    match all_some (map dec_hdr hs), all_some (map dec_pair es) with
    | Some hdrs, Some env => Some (mkReq method scheme host remote path query proto clen hdrs root env, body, resp)
    | _, _ => None
    end
  | _ => None
  end.

Definition out2_C55 (ps : list (bytes * bytes)) (body resp : bytes) : val :=
  let '(st, code) := client_stream resp in
  match parse_reply st code with
  | Some (rterr, status, text, rbody) =>
    VL [VB (do_written 1 ps body); VZ rterr; VZ status; VB rbody;
        VZ (if rterr =? 0 then (if code =? 0 then 0 else 1) else 0); VB text]
  | None => VErr 7                      (* reply outside the modelled sub-language: never generated *)
  end.

(* the model's answer for the parameter order given in the input (Go iterates the map in an arbitrary order) *)
Definition run_C55 (i : val) : val :=
  match dec_C55 i with
  | Some (ps, body, resp) => out_C55 (bc_of i) ps body resp
  | None =>
    match dec2_C55 i with
    | Some (q, body, resp) => out2_C55 (meta_pairs q) body resp
    | None => VErr 0
    end
  end.

(* [-1 8]: the harness refuses inputs with duplicate names (they are not a map) *)
Definition bad_input (o : val) : bool := val_eqb o (VErr 8).

(* correspondence: the observation must be the model's output for SOME order of the parameters, namely the
   order in which their names appear in the bytes written *)
Definition agree_C55 (i o : val) : bool :=
  bad_input o ||
  match dec_C55 i, o with
  | Some (ps, body, resp), VL [VB w; VB _; VZ _] =>
    match spec_request w with
    | Some (l, _) =>
      (length l =? length ps)%nat &&
      match reorder (map fst l) ps with
      | Some ps' => val_eqb (out_C55 (bc_of i) ps' body resp) o
      | None => false
      end
    | None => false
    end
  | _, _ =>
    match dec2_C55 i, o with
    | Some (q, body, resp), VL [VB w; VZ _; VZ _; VB _; VZ _; VB _] =>
      match spec_request w with
      | Some (l, _) =>
        (length l =? length (meta_pairs q))%nat &&
        match reorder (map fst l) (meta_pairs q) with
        | Some ps' => val_eqb (out2_C55 ps' body resp) o
        | None => false
        end
      | None => false
      end
    | _, _ => false
    end
  end.

Definition has_end (resp : bytes) : bool := existsb (fun r => f_type r =? T_END) (fst (spec_records resp)).

(* THE PROPERTY on the implementation's observation:
   - the bytes written decode, with the specification's decoders, to exactly the parameters (as a map) and the body
     (decoding succeeds only if every record's content matches its 16-bit length field, i.e. <= 65535 bytes);
   - the response stream is exactly the responder's STDOUT content; after END_REQUEST the reader reports EOF;
   - no crash (a panic is observed as [-2], which has the wrong shape). *)
Definition prop_C55 (i o : val) : bool :=
  bad_input o ||
  match dec_C55 i, o with
  | Some (ps, body, resp), VL [VB w; VB st; VZ code] =>
    match spec_request w with
    | Some (l, b) => same_pairs l ps && bytes_eqb b body
    | None => false
    end
    && bytes_eqb st (spec_stdout resp)
    && (if has_end resp then code =? 0 else true)
  | _, _ =>
    match dec2_C55 i, o with
    | Some (q, body, resp), VL [VB w; VZ rterr; VZ status; VB rbody; VZ bodyerr; VB rtext] =>
      (* the request: body unchanged, every expected CGI meta-variable present with its value *)
      match spec_request w with
      | Some (l, b) => bytes_eqb b body && forallb (fun e => existsb (pair_eqb e) l) (spec_meta q) && distinct_keys l
      | None => false
      end
      (* the response (checked for complete replies): status and body come from the STDOUT stream only *)
      && (if has_end resp
          then match parse_reply (spec_stdout resp) 0 with
               | Some (e, s, t, b) => (rterr =? e) && (status =? s) && bytes_eqb rbody b && (bodyerr =? 0) && bytes_eqb rtext t
               | None => true
               end
          else true)
    | _, _ => false
    end
  end.

(* finding 1: content of non-STDOUT records (STDERR, ...) is merged into the response *)
Definition kf_C55 (i : val) : Z :=
  match dec_C55 i with
  | Some (_, _, resp) => if has_other_content resp then 1 else 0
  | None =>
    match dec2_C55 i with
    | Some (_, _, resp) => if has_other_content resp then 1 else 0
    | None => 0
    end
  end.

(* executable well-formedness: op 1: decodable, distinct names, sizes < 2^31 (always true for lists in memory, stated
   for the theorem); op 2: decodable, parameter sizes < 2^31, the reply lies in the modelled sub-language, and the
   decidable side condition meta_ok (every variable the specification expects is among the computed ones: checked
   by evaluation, it is the part of the central theorem that is not proved symbolically) *)
Definition sizes_ok (ps : list (bytes * bytes)) : bool :=
  forallb (fun kv => (blen (fst kv) <? 2^31) && (blen (snd kv) <? 2^31)) ps.
Definition meta_ok (q : freq) : bool :=
  forallb (fun e => existsb (pair_eqb e) (meta_pairs q)) (spec_meta q).
Definition wf_C55 (i : val) : bool :=
  match dec_C55 i with
  | Some (ps, _, _) => sizes_ok ps && distinct_keys ps
  | None =>
    match dec2_C55 i with
    | Some (q, _, resp) =>
      sizes_ok (meta_pairs q) && meta_ok q &&
      (let '(st, code) := client_stream resp in match parse_reply st code with Some _ => true | None => false end)
    | None => false
    end
  end.
