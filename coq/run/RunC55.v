From Coq Require Import List ZArith Bool.
From Bfe Require Import lib.Val lib.Bytes model.Fcgi.
Import ListNotations.
Open Scope Z_scope.

(* input: [[ [k v] ... ] body bodychunk resp] ; output: [written stream err]  (see harness/cmd/c55) *)
Definition dec_pair (v : val) : option (bytes * bytes) :=
  match v with VL [VB k; VB x] => Some (k, x) | _ => None end.
Definition dec_C55 (i : val) : option (list (bytes * bytes) * bytes * bytes) :=
  match i with
  | VL [VL ps; VB body; VZ _; VB resp] =>
    match all_some (map dec_pair ps) with
    | Some l => Some (l, body, resp)
    | None => None
    end
  | _ => None
  end.

Definition out_C55 (ps : list (bytes * bytes)) (body resp : bytes) : val :=
  let '(st, code) := client_stream resp in
  VL [VB (do_written ps body); VB st; VZ code].

(* the model's answer for the parameter order given in the input (Go iterates the map in an arbitrary order) *)
Definition run_C55 (i : val) : val :=
  match dec_C55 i with
  | Some (ps, body, resp) => out_C55 ps body resp
  | None => VErr 0
  end.

(* [-1 8]: the harness refuses inputs with duplicate names (they are not a map) *)
Definition bad_input (o : val) : bool := val_eqb o (VErr 8).

(* correspondence: the observation must be the model's output for SOME order of the parameters, namely the
   order in which their names appear in the bytes written *)
Definition agree_C55 (i o : val) : bool :=
  bad_input o ||
  match dec_C55 i, o with
  | Some (ps, body, resp), VL [VB w; VB _; VZ _] =>
    match spec_request w with
    | Some (l, _) =>
      (length l =? length ps)%nat &&
      match reorder (map fst l) ps with
      | Some ps' => val_eqb (out_C55 ps' body resp) o
      | None => false
      end
    | None => false
    end
  | _, _ => false
  end.

Definition has_end (resp : bytes) : bool := existsb (fun r => f_type r =? T_END) (fst (spec_records resp)).

(* THE PROPERTY on the implementation's observation:
   - the bytes written decode, with the specification's decoders, to exactly the parameters (as a map) and the body
     (decoding succeeds only if every record's content matches its 16-bit length field, i.e. <= 65535 bytes);
   - the response stream is exactly the responder's STDOUT content; after END_REQUEST the reader reports EOF;
   - no crash (a panic is observed as [-2], which has the wrong shape). *)
Definition prop_C55 (i o : val) : bool :=
  bad_input o ||
  match dec_C55 i, o with
  | Some (ps, body, resp), VL [VB w; VB st; VZ code] =>
    match spec_request w with
    | Some (l, b) => same_pairs l ps && bytes_eqb b body
    | None => false
    end
    && bytes_eqb st (spec_stdout resp)
    && (if has_end resp then code =? 0 else true)
  | _, _ => false
  end.

(* finding 1: content of non-STDOUT records (STDERR, ...) is merged into the response *)
Definition kf_C55 (i : val) : Z :=
  match dec_C55 i with
  | Some (_, _, resp) => if has_other_content resp then 1 else 0
  | None => 0
  end.
