From Coq Require Import List ZArith Bool.
From Bfe Require Import lib.Val model.HashSet.
Import ListNotations.
Open Scope Z_scope.

(* TWO MODES.  Pool mode (hashkind = -1): [elemNum size fixed -1 [pop ...] 0]  pop = [1 idx xKey] Set | [2 idx] Get |
            [3] MaxElemSize, on byte_pool.NewBytePool / NewFixedBytePool directly; output [obs ...].
   Set mode:
   input : [cap ksz fixed hashkind [op ...] haSize]   op = [1 xKey h] Add | [2 xKey h] Remove | [3 xKey h] Exist | [4] Len
            (h = hashFunc(key) as computed by the harness with the hash function named by hashkind)
   output: [-1 1] if NewHashSet fails (cap <= 0 or ksz <= 0), else
           [ [obs ...] [ [ha...] [next...] freeNode length [xSlot ...] ] ]   -- final internal arrays *)

Definition dec_op (v : val) : option op :=
  match v with
  | VL [VZ 1; VB k; VZ h] => Some (OAdd k h)
  | VL [VZ 2; VB k; VZ h] => Some (ORemove k h)
  | VL [VZ 3; VB k; VZ h] => Some (OExist k h)
  | VL [VZ 4] => Some OLen
  | _ => None
  end.
Definition dec_input (v : val) : option (cfg * list op) :=
  match v with
  | VL [VZ cp; VZ ks; VZ fx; VZ _; VL ops; VZ nbk] =>
    match all_some (map dec_op ops) with
    | Some o => Some ({| cap := cp; ksz := ks; fixed := negb (fx =? 0); nb := nbk |}, o)
    | None => None
    end
  | _ => None
  end.
Definition cfg_ok (c : cfg) : bool := (0 <? cap c) && (0 <? ksz c) && (0 <? nb c).

Definition dump (s : st) : val := VL [vLZ (ha s); vLZ (nxt s); VZ (free s); VZ (len s); vLB (slots s)].

Definition dec_pop (v : val) : option pop :=
  match v with
  | VL [VZ 1; VZ idx; VB k] => if 0 <=? idx then Some (PSet idx k) else None
  | VL [VZ 2; VZ idx] => if 0 <=? idx then Some (PGet idx) else None
  | VL [VZ 3] => Some PMax
  | _ => None
  end.
Definition is_pool (v : val) : bool :=
  match v with VL [_; _; _; VZ hk; _; _] => hk =? -1 | _ => false end.
Definition dec_pool (v : val) : option (cfg * list pop) :=
  match v with
  | VL [VZ n; VZ sz; VZ fx; VZ _; VL ops; VZ _] =>
    match all_some (map dec_pop ops) with
    | Some o => Some ({| cap := n; ksz := sz; fixed := negb (fx =? 0); nb := 1 |}, o)
    | None => None
    end
  | _ => None
  end.

(* the hash column is a function of the key: executable well-formedness of a set-mode history *)
Definition op_kh (o : op) : list (key * Z) :=
  match o with OAdd k h | ORemove k h | OExist k h => [(k, h)] | OLen => [] end.
Definition kh (ops : list op) : list (key * Z) := flat_map op_kh ops.
Definition functional_b (l : list (key * Z)) : bool :=
  forallb (fun p => forallb (fun q => negb (key_eqb (fst p) (fst q)) || (snd p =? snd q)) l) l.

Definition with_nb (c : cfg) (n : Z) : cfg := {| cap := cap c; ksz := ksz c; fixed := fixed c; nb := n |}.
Definition run_cfg (c : cfg) (ops : list op) : val :=
  if cfg_ok c then let '(s, obs) := run_ops c (init c) ops in VL [vLZ obs; dump s] else VErr 1.
Definition run_set (v : val) : val :=
  match dec_input v with
  | None => VErr 0
  | Some (c, ops) => run_cfg c ops
  end.
(* the number of buckets the implementation really uses (length of the dumped ha array); the input's haSize
   when the observation has no dump.  A different load factor is not a disagreement. *)
Definition observed_nb (c : cfg) (o : val) : Z :=
  match o with
  | VL [_; VL (VL h :: _)] => Z.of_nat (length h)
  | _ => nb c
  end.
Definition run_pool (v : val) : val :=
  match dec_pool v with
  | None => VErr 0
  | Some (c, ops) => if cfg_ok c then VL (pool_run c (pool_init c) ops) else VErr 1
  end.
Definition run_C20 (v : val) : val := if is_pool v then run_pool v else run_set v.

(* exact agreement with the array model (observations and final arrays), and the array model's run is
   certified step by step against the bucket-list model (representation invariant + abstraction) *)
Definition agree_C20 (v o : val) : bool :=
  if is_pool v then val_eqb (run_pool v) o
  else match dec_input v with
       | Some (c, ops) =>
         let c' := with_nb c (observed_nb c o) in
         val_eqb (run_cfg c' ops) o && (if cfg_ok c' then sim_check c' (init c') bl_init ops else true)
       | None => val_eqb (VErr 0) o
       end.

(* THE PROPERTY, on the implementation's observations: they are those of a bounded mathematical set.
   Tolerated: adding a key that is already a member to a full set may answer "ok" or "full". *)
Fixpoint sp_check (c : cfg) (s : list key) (ops : list op) (obs : list Z) : bool :=
  match ops, obs with
  | [], [] => true
  | o :: r, y :: ys =>
    let '(s1, x) := sp_step c s o in
    ((x =? y) ||
     match o with
     | OAdd k _ => (cap c <=? Z.of_nat (length s)) && validate c k && kmem k s && (y =? 0)
     | _ => false
     end) && sp_check c s1 r ys
  | _, _ => false
  end.
Definition prop_set (v o : val) : bool :=
  match dec_input v with
  | Some (c, ops) =>
    if cfg_ok c then
      match o with
      | VL [vobs; _] => match as_LZ vobs with Some obs => sp_check c [] ops obs | None => false end
      | _ => false
      end
    else val_eqb o (VErr 1)
  | None => false
  end.
(* pool mode: every Get returns the key of the last accepted Set on that index (initially empty / zeros), Set
   refuses an index >= elemNum and a key of the wrong length *)
Definition prop_pool (v o : val) : bool :=
  match dec_pool v with
  | Some (c, ops) => if cfg_ok c then val_eqb o (VL (psp_run c [] ops)) else val_eqb o (VErr 1)
  | None => false
  end.
Definition prop_C20 (v o : val) : bool := if is_pool v then prop_pool v o else prop_set v o.
Definition kf_C20 (v : val) : Z := 0.

(* executable well-formedness of a wire input *)
Definition wf_C20 (v : val) : bool :=
  if is_pool v then match dec_pool v with Some _ => true | None => false end
  else match dec_input v with Some (c, ops) => functional_b (kh ops) | None => false end.
