From Coq Require Import List ZArith Bool.
From Bfe Require Import lib.Val lib.Bytes model.Access.
Import ListNotations.
Open Scope Z_scope.

(* route (ops 1, 2): see `op` below.
   op 1 basic : [1; VB Authorization; VZ decoded_ok; VB decoded; VL [[VB user; VZ password_matches_hash; VB hash; VZ line style] ...]; VZ route]
                                                                                      => [accepted; status]
   op 2 jwt   : [2; VB Authorization; VZ malformed; VZ alg; VL [[kind value spelling] x3] (exp iat nbf); VZ now;
                 VL [[kty declared_alg signature_verifies] ...]; VZ route; key-set id (opaque)]   => [accepted; status]
   op 3 link  : [3; VZ has_expires_key; VB expires; VB checksum; VB md5 digest; VZ now; label; host; query value v;
                 mode (opaque; 1 = expires and now are relative to the wall clock at the time of the call)]
                                                                                      => error code 0..5
   op 5 load  : [5; VL [[VZ has_global; VL rules; VZ has_product; VL rules] ...]] one rule file per step, rule =
                 [cond; has_cmd; VB cmd; nparams; name] (see frule)            => [[loaded; request closed] per step]
   op 4 block : [4; VZ ip_in_global_table; VZ has_global_rules; VL [[match cmd] ...]; VZ has_product_rules;
                 VL [[match cmd] ...]; blocklist; client (opaque)]                    => [conn_refused; req_closed] *)
Definition b (z : Z) : bool := negb (z =? 0).
Definition dec_opt (v : val) : option claim :=
  (* [kind value spelling]: kind 0 absent, 1 JSON number (value = its integer part; spelling, opaque: N, N.0, N.5,
     exponent forms - every spelling of a NumericDate must be enforced at whole seconds), other = non-numeric JSON *)
  match v with VL [VZ p; VZ x; VZ _] => Some (if p =? 0 then CAbsent else if p =? 1 then CNum x else CBad) | _ => None end.
Definition dec_claims (v : val) : option claims :=
  match v with
  | VL [e; i; n] => match dec_opt e, dec_opt i, dec_opt n with
                    | Some e', Some i', Some n' => Some {| c_exp := e'; c_iat := i'; c_nbf := n' |}
                    | _, _, _ => None
                    end
  | _ => None
  end.
Definition dec_key (v : val) : option jkey :=
  match v with VL [VZ t; VZ a; VZ ok] => Some {| k_kty := t; k_alg := a; k_sig_ok := b ok |} | _ => None end.
Definition dec_keys (v : val) : option (list jkey) := match v with VL l => all_some (map dec_key l) | _ => None end.
Definition dec_user (v : val) : option (bytes * bool) :=
  match v with VL [VB n; VZ ok; VB _; VZ _] => Some (n, b ok) | _ => None end.   (* 3rd/4th column: stored hash and the spelling of the user-file line, opaque *)
Definition dec_users (v : val) : option (list (bytes * bool)) := match v with VL l => all_some (map dec_user l) | _ => None end.
Definition dec_rule (v : val) : option (bool * Z) := match v with VL [VZ m; VZ c] => Some (b m, c) | _ => None end.
Definition dec_rules (has : Z) (v : val) : option (option (list (bool * Z))) :=
  match v with VL l => match all_some (map dec_rule l) with Some r => Some (if b has then Some r else None) | None => None end
  | _ => None end.

Definition verdict (ok : bool) : val := VL [vbool ok; VZ (if ok then 0 else 401)].

(* typed operations; route: 0 = the request's product has rules [one whose condition is false; the rule under test],
   1 = the product has no rules, 2 = no rule's condition matches (1, 2: the request is not covered, it goes on) *)
Inductive op :=
| OBasic (auth : bytes) (decoded : option bytes) (users : list (bytes * bool)) (route : Z)
| OJwt (auth : bytes) (mal : bool) (alg : Z) (c : claims) (now : Z) (keys : list jkey) (route : Z)
| OLink (he : bool) (expires checksum digest : bytes) (now : Z)
| OBlock (inT : bool) (g p : option (list (bool * Z)))
| OBlockLoad (files : list ffile).
Definition dec_frule (v : val) : option frule :=
  match v with
  | VL [VZ cd; VZ hc; VB cmd; VZ np; VZ nm] =>
    Some {| fr_cond := cd; fr_has_cmd := b hc; fr_cmd := cmd; fr_nparams := np; fr_name := nm |}
  | _ => None
  end.
Definition dec_frules (has : Z) (v : val) : option (option (list frule)) :=
  match v with VL l => match all_some (map dec_frule l) with Some r => Some (if b has then Some r else None) | None => None end
  | _ => None end.
Definition dec_ffile (v : val) : option ffile :=
  match v with
  | VL [VZ hg; g; VZ hp; p] => match dec_frules hg g, dec_frules hp p with Some g', Some p' => Some (g', p') | _, _ => None end
  | _ => None
  end.
Definition dec_C51 (i : val) : option op :=
  match i with
  | VL [VZ 5; VL fs] => match all_some (map dec_ffile fs) with Some files => Some (OBlockLoad files) | None => None end
  | VL [VZ 1; VB auth; VZ dok; VB dec; us; VZ route] =>
    match dec_users us with
    | Some users => Some (OBasic auth (if b dok then Some dec else None) users route)
    | None => None
    end
  | VL [VZ 2; VB auth; VZ mal; VZ alg; cl; VZ now; ks; VZ route; _] =>
    match dec_claims cl, dec_keys ks with
    | Some c, Some keys => Some (OJwt auth (b mal) alg c now keys route)
    | _, _ => None
    end
  | VL [VZ 3; VZ he; VB expires; VB checksum; VB digest; VZ now; _; _; _; _] =>
    Some (OLink (b he) expires checksum digest now)
  | VL [VZ 4; VZ inT; VZ hg; g; VZ hp; p; _; _] =>
    match dec_rules hg g, dec_rules hp p with
    | Some g', Some p' => Some (OBlock (b inT) g' p')
    | _, _ => None
    end
  | _ => None
  end.
Definition covered (route : Z) : bool := route =? 0.
Definition run_op (o : op) : val :=
  match o with
  | OBasic auth decoded users route => verdict (negb (covered route) || basic_accept auth decoded users)
  | OJwt auth mal alg c now keys route => verdict (negb (covered route) || jwt_accept auth mal alg c now keys)
  | OLink he expires checksum digest now => VZ (secure_link he expires checksum digest now)
  | OBlock inT g p => VL [vbool (global_block inT); vbool (product_block g p)]
  | OBlockLoad files => VL (map (fun lc => VL [vbool (fst lc); vbool (snd lc)]) (block_steps (None, None) files))
  end.
Definition run_C51 (i : val) : val := match dec_C51 i with Some o => run_op o | None => VErr 0 end.
Definition agree_C51 (i o : val) : bool := val_eqb (run_C51 i) o.

(* ---- the property, from the statement: forwarded iff the credentials are valid under the documented scheme *)
(* JWT: "signed with a configured key using that key's algorithm and within its time claims" *)
(* time claims per RFC 7519: a present claim must be a number and must hold *)
Definition claims_valid (c : claims) (now : Z) : bool :=
  match c_exp c with CAbsent => true | CNum e => now <=? e | CBad => false end
  && match c_iat c with CAbsent => true | CNum i => i <=? now | CBad => false end
  && match c_nbf c with CAbsent => true | CNum n => n <=? now | CBad => false end.
Definition jwt_valid (auth : bytes) (mal : bool) (alg : Z) (c : claims) (now : Z) (keys : list jkey) : bool :=
  match get_token auth with
  | None => false
  | Some _ =>
    negb mal && claims_valid c now
    && existsb (fun k => ((k_alg k =? 0) || (k_alg k =? alg)) && alg_compat alg (k_kty k) && k_sig_ok k) keys
  end.
Definition link_valid (he : bool) (expires checksum digest : bytes) (now : Z) : bool :=
  (if he then match parse_int expires with Some e => now <=? e | None => false end else true)
  && negb (bytes_eqb checksum []) && bytes_eqb (b64url digest) checksum.
Definition basic_valid (auth : bytes) (decoded : option bytes) (users : list (bytes * bool)) : bool :=
  match basic_user auth decoded with
  | Some u => existsb (fun e => bytes_eqb (fst e) u && snd e) users
  | None => false
  end.
Fixpoint uniq_users (users : list (bytes * bool)) : bool :=
  match users with
  | [] => true
  | (n, _) :: r => negb (existsb (fun e => bytes_eqb (fst e) n) r) && uniq_users r
  end.
(* first rule whose condition matches and whose command is ALLOW/CLOSE *)
Definition decisive (rules : option (list (bool * Z))) : option Z :=
  match rules with
  | None => None
  | Some l => match filter (fun r => fst r && ((snd r =? 0) || (snd r =? 1))) l with
              | (_, c) :: _ => Some c
              | [] => None
              end
  end.
Definition is_verdict (o : val) (ok : bool) : bool := val_eqb o (verdict ok).

(* rule files: "a file either fails to load or every loaded rule is enforced".  What a rule means is read
   case-insensitively here: a rule whose command is some spelling of close/allow and that got loaded must act as such. *)
Definition ci_cmd (cmd : bytes) : option Z :=
  if eq_fold cmd CLOSE_ then Some 1 else if eq_fold cmd ALLOW_ then Some 0 else None.
Definition spec_rule (r : frule) : option (bool * Z) :=
  match ci_cmd (fr_cmd r) with
  | Some c => if (fr_cond r =? 0) || (fr_cond r =? 1) then Some (fr_cond r =? 1, c) else None
  | None => None
  end.
Definition spec_list (l : option (list frule)) : option (option (list (bool * Z))) :=
  match l with None => Some None | Some rs => option_map Some (all_some (map spec_rule rs)) end.
Definition spec_table (f : ffile) : option (option (list (bool * Z)) * option (list (bool * Z))) :=
  match spec_list (fst f), spec_list (snd f) with Some g, Some p => Some (g, p) | _, _ => None end.
Fixpoint prop_steps (tbl : option (list (bool * Z)) * option (list (bool * Z))) (files : list ffile) (obs : list val) : bool :=
  match files, obs with
  | [], [] => true
  | f :: r, VL [VZ loaded; VZ closed] :: obs' =>
    if b loaded then
      match spec_table f with
      | Some t => Bool.eqb (b closed) (product_block (fst t) (snd t)) && prop_steps t r obs'
      | None => false                       (* a rule that cannot be enforced was loaded *)
      end
    else Bool.eqb (b closed) (product_block (fst tbl) (snd tbl)) && prop_steps tbl r obs'
  | _, _ => false
  end.

Definition prop_op (x : op) (o : val) : bool :=
  match x with
  | OBasic auth decoded users route =>
    is_verdict o (negb (covered route) || basic_valid auth decoded users)
  | OJwt auth mal alg c now keys route =>
    is_verdict o (negb (covered route) || jwt_valid auth mal alg c now keys)
  | OLink he expires checksum digest now =>
    match o with
    | VZ code => Bool.eqb (code =? 0) (link_valid he expires checksum digest now) && (0 <=? code) && (code <=? 5)
    | _ => false
    end
  | OBlock inT g p =>
    match o with
    | VL [VZ conn; VZ req] =>
      Bool.eqb (b conn) inT
      && Bool.eqb (b req) (match decisive g with Some c => c =? 1 | None =>
                           match decisive p with Some c => c =? 1 | None => false end end)
    | _ => false
    end
  | OBlockLoad files => match o with VL obs => prop_steps (None, None) files obs | _ => false end
  end.
Definition prop_C51 (i o : val) : bool := match dec_C51 i with Some x => prop_op x o | None => false end.

(* known finding 2: a token with a time claim that is the number 0 or not a number at all (e.g. "exp":"1600000000")
   passes the time check although it is expired / malformed (jwt-go v3.2.0 MapClaims ignores such claims).
   (finding 1, the algorithm mismatch, was repaired in /repo commit dccedcf and the model follows the repaired code) *)
Definition kf_op (x : op) : Z :=
  match x with
  | OJwt auth mal alg c now keys route =>
    if covered route && jwt_accept auth mal alg c now keys && negb (jwt_valid auth mal alg c now keys) then 2 else 0
  | _ => 0
  end.
Definition kf_C51 (i : val) : Z := match dec_C51 i with Some x => kf_op x | None => 0 end.
(* well-formed: decodable, and a Basic user table has unique names (it is a Go map) *)
Definition wf_op (x : op) : bool := match x with OBasic _ _ users _ => uniq_users users | _ => true end.
Definition wf_C51 (i : val) : bool := match dec_C51 i with Some x => wf_op x | None => false end.
