(* Wire functions for C22 (bfe_bufio Reader / Writer).  See harness/cmd/c22/main.go for the formats. *)
From Coq Require Import List ZArith Bool.
From Bfe Require Import lib.Val lib.Bytes model.Bufio.
Import ListNotations.
Open Scope Z_scope.

Definition dec_chunk (v : val) : option (bytes * Z) :=
  match v with VL [VB d; VZ e] => Some (d, e) | _ => None end.
Definition dec_script (v : val) : option script :=
  match v with VL l => all_some (map dec_chunk l) | _ => None end.
Definition dec_lim (v : val) : option (Z * Z) :=
  match v with VL [VZ l; VZ e] => Some (l, e) | _ => None end.
Definition dec_sink (v : val) : option (list (Z * Z)) :=
  match v with VL l => all_some (map dec_lim l) | _ => None end.

Definition robs (ret : list val) (s : reader) : val :=
  VL [VL ret; VZ (rtotal s); VZ (rpulled s); VZ (buffered s)].
Definition wobs (ret : list val) (s : writer) : val :=
  VL [VL ret; VZ (wtotal s); VZ (blen (wout s)); VZ (blen (wbuf s))].

(* one reader op on (reader, b.lastRuneSize): None = malformed op.  wt: the underlying reader is an io.WriterTo *)
Definition rstate : Type := reader * Z.
Definition lrs_after (s s' : reader) (lrs : Z) : Z := if rtotal s' =? rtotal s then lrs else -1.
Definition reader_step (wt : bool) (op : val) (st : rstate) : option (val * rstate) :=
  let '(s, lrs) := st in
  match op with
  | VL [VZ 1; VZ n] =>
    if n <? 0 then None   (* make([]byte, n) with n < 0 does not exist *)
    else let '(d, e, s') := rd_read n s in Some (robs [VB d; VZ e] s', (s', lrs_after s s' lrs))
  | VL [VZ 2] => let '(c, e, s') := rd_byte s in Some (robs [VZ c; VZ e] s', (s', -1))
  | VL [VZ 3] => let '(e, s') := rd_unread s in Some (robs [VZ e] s', (s', -1))
  | VL [VZ 4; VZ delim] => let '(d, e, s') := rd_slice delim s in Some (robs [VB d; VZ e] s', (s', lrs_after s s' lrs))
  | VL [VZ 5] =>
    let '(d, pre, e, s') := rd_line s in
    let '(line0, _, _) := rd_slice 10 s in
    Some (robs [VB d; vbool pre; VZ e] s', (s', match line0 with [] => lrs | _ => -1 end))
  | VL [VZ 6; VZ n] => let '(d, e, s') := rd_peek n s in Some (robs [VB d; VZ e] s', (s', lrs))
  | VL [VZ 8; VZ delim] => let '(d, e, s') := rd_bytes delim s in Some (robs [VB d; VZ e] s', (s', lrs_after s s' lrs))
  | VL [VZ 9] =>
    let '(d, e, s') := if wt then rd_writeto_wt s else rd_writeto s in
    Some (robs [VB d; VZ (blen d); VZ e] s', (s', -1))
  | VL [VZ 10] => let '(r, size, e, s', lrs') := rd_rune s in Some (robs [VZ r; VZ size; VZ e] s', (s', lrs'))
  | VL [VZ 11] => let '(e, s', lrs') := rd_unread_rune s lrs in Some (robs [VZ e] s', (s', lrs'))
  | VL [VZ 12] => let '(pb, s') := rd_reset s in Some (robs [VZ pb] s', (s', -1))
  | _ => None
  end.
Fixpoint reader_run (wt : bool) (ops : list val) (st : rstate) {struct ops} : option (list val) :=
  match ops with
  | [] => Some []
  | op :: r =>
    match reader_step wt op st with
    | None => None
    | Some (o, st') => match reader_run wt r st' with Some os => Some (o :: os) | None => None end
    end
  end.

Definition writer_step (rf : bool) (op : val) (s : writer) : option (val * writer) :=
  match op with
  | VL [VZ 7; VZ r] => let '(n, e, s') := w_write_rune r s in Some (wobs [VZ n; VZ e] s', s')
  | VL [VZ 5] => let '(out, s') := w_reset s in Some (wobs [VB out] s', s')
  | VL [VZ 1; VB d] => let '(n, e, s') := w_write d s in Some (wobs [VZ n; VZ e] s', s')
  | VL [VZ 2; VZ c] => let '(e, s') := w_write_byte c s in Some (wobs [VZ e] s', s')
  | VL [VZ 3; VB d] => let '(n, e, s') := w_write_string d s in Some (wobs [VZ n; VZ e] s', s')
  | VL [VZ 4] => let '(e, s') := w_flush s in Some (wobs [VZ e] s', s')
  | VL [VZ 6; src] =>
    match dec_script src with
    | Some sc => let '(n, e, s') := if rf then w_readfrom_rf sc s else w_readfrom sc s in Some (wobs [VZ n; VZ e] s', s')
    | None => None
    end
  | _ => None
  end.
Fixpoint writer_run (rf : bool) (ops : list val) (s : writer) {struct ops} : option (list val) :=
  match ops with
  | [] => Some [VB (wout s)]
  | op :: r =>
    match writer_step rf op s with
    | None => None
    | Some (o, s') => match writer_run rf r s' with Some os => Some (o :: os) | None => None end
    end
  end.

Definition run_C22 (i : val) : val :=
  match i with
  | VL [VZ tag; VZ cap; src; VL ops] =>
    if (tag =? 1) || (tag =? 3) then      (* 3: the source is an io.WriterTo *)
      match dec_script src with
      | Some sc => match reader_run (tag =? 3) ops (new_reader cap sc, -1) with Some os => VL os | None => VErr 0 end
      | None => VErr 0
      end
    else if (tag =? 2) || (tag =? 4) then (* 4: the sink is an io.ReaderFrom *)
      match dec_sink src with
      | Some sk => match writer_run (tag =? 4) ops (new_writer cap sk) with Some os => VL os | None => VErr 0 end
      | None => VErr 0
      end
    else VErr 0
  | _ => VErr 0
  end.
Definition agree_C22 (i o : val) : bool := val_eqb (run_C22 i) o.

(* ---------------- the property, from the specification, over the implementation's observations -------- *)
(* The position in the source stream is pulled - Buffered (bytes obtained from the source minus bytes still
   buffered).  After EVERY operation: TotalRead = position; data handed out is exactly the stream at the
   position before the operation; the position moves by exactly what the operation consumed. *)
Definition slice_at (stream : bytes) (pos : Z) (d : bytes) : bool :=
  (0 <=? pos) && is_prefix d (skipn (Z.to_nat pos) stream).
Definition mem_byte (c : Z) (l : bytes) : bool := existsb (Z.eqb c) l.
Definition line_shape (delim : Z) (d : bytes) (e : Z) : bool :=
  if e =? 0 then match rev d with c :: r => (c =? delim) && negb (mem_byte delim r) | [] => false end
  else negb (mem_byte delim d).
Definition reader_op_ok (stream : bytes) (pos pos' : Z) (op : val) (ret : list val) : bool :=
  match op, ret with
  | VL [VZ 1; VZ n], [VB d; VZ e] => slice_at stream pos d && (pos' =? pos + blen d) && (blen d <=? n)
  | VL [VZ 2], [VZ c; VZ e] => if e =? 0 then slice_at stream pos [c] && (pos' =? pos + 1) else pos' =? pos
  | VL [VZ 3], [VZ e] => if e =? 0 then pos' =? pos - 1 else pos' =? pos
  | VL [VZ 4; VZ delim], [VB d; VZ e] => slice_at stream pos d && (pos' =? pos + blen d) && line_shape delim d e
  | VL [VZ 8; VZ delim], [VB d; VZ e] => slice_at stream pos d && (pos' =? pos + blen d) && line_shape delim d e
  | VL [VZ 5], [VB d; VZ pre; VZ e] =>
    slice_at stream pos d && negb (mem_byte 10 d) &&
    (let t := sub stream (pos + blen d) pos' in
     (blen t =? pos' - (pos + blen d)) &&
     if negb (pre =? 0) then bytes_eqb t [] else bytes_eqb t [] || bytes_eqb t [10] || bytes_eqb t [13; 10]) &&
    (if e =? 0 then true else bytes_eqb d [])
  | VL [VZ 6; VZ n], [VB d; VZ e] =>
    slice_at stream pos d && (pos' =? pos) && (if e =? 0 then blen d =? n else blen d <? Z.max n 1)
  | VL [VZ 9], [VB d; VZ n; VZ e] => slice_at stream pos d && (pos' =? pos + blen d) && (n =? blen d)
  | VL [VZ 10], [VZ r; VZ size; VZ e] =>
    (* ReadRune: the size bytes at the position decode to exactly (r, size) *)
    if e =? 0 then (1 <=? size) && (size <=? 4) && (pos' =? pos + size) && (pos' <=? blen stream) &&
                   (let '(r', size') := decode_rune (sub stream pos pos') in (r' =? r) && (size' =? size))
    else (pos' =? pos) && (size =? 0)
  | VL [VZ 11], [VZ e] => if e =? 0 then (1 <=? pos - pos') && (pos - pos' <=? 4) else pos' =? pos
  | _, _ => false
  end.
Definition is_reset (op : val) : bool := match op with VL [VZ 12] => true | _ => false end.
Definition is_wreset (op : val) : bool := match op with VL [VZ 5] => true | _ => false end.
Fixpoint prop_reader (stream : bytes) (pos : Z) (ops obs : list val) {struct ops} : bool :=
  match ops, obs with
  | [], [] => true
  | op :: ops', VL [VL ret; VZ total; VZ pulled; VZ buffd] :: obs' =>
    if is_reset op then
      (* Reset: everything restarts at zero on the part of the stream the source has not handed out yet *)
      match ret with
      | [VZ pb] => (total =? 0) && (pulled =? 0) && (buffd =? 0) && (pos <=? pb) && (pb <=? blen stream) &&
                   prop_reader (skipn (Z.to_nat pb) stream) 0 ops' obs'
      | _ => false
      end
    else
    let pos' := pulled - buffd in
    (total =? pos') && (0 <=? buffd) && (pulled <=? blen stream) &&
    reader_op_ok stream pos pos' op ret && prop_reader stream pos' ops' obs'
  | _, _ => false
  end.

(* Writer: A = the bytes accepted so far (first nn bytes of every write).  After EVERY operation TotalWrite =
   |A| = bytes at the sink + bytes buffered; a short count comes with an error; a successful Flush leaves
   nothing buffered; finally the sink holds exactly the first `sunk` bytes of A. *)
Definition writer_op_acc (op : val) (ret : list val) : option (bytes * Z * bool) :=   (* accepted, err, is_flush *)
  match op, ret with
  | VL [VZ 1; VB d], [VZ n; VZ e] =>
    if (0 <=? n) && (n <=? blen d) && ((n =? blen d) || negb (e =? 0)) then Some (firstn (Z.to_nat n) d, e, false) else None
  | VL [VZ 3; VB d], [VZ n; VZ e] =>
    if (0 <=? n) && (n <=? blen d) && ((n =? blen d) || negb (e =? 0)) then Some (firstn (Z.to_nat n) d, e, false) else None
  | VL [VZ 2; VZ c], [VZ e] => Some ((if e =? 0 then [c] else []), e, false)
  | VL [VZ 4], [VZ e] => Some ([], e, true)
  | VL [VZ 7; VZ r], [VZ n; VZ e] =>
    let enc := if r <? 128 then [r mod 256] else encode_rune r in
    if (0 <=? n) && (n <=? blen enc) && ((n =? blen enc) || negb (e =? 0)) then Some (firstn (Z.to_nat n) enc, e, false) else None
  | VL [VZ 6; src], [VZ n; VZ e] =>
    match dec_script src with
    | Some sc => let all := concat (map fst sc) in
                 if (0 <=? n) && (n <=? blen all) then Some (firstn (Z.to_nat n) all, e, false) else None
    | None => None
    end
  | _, _ => None
  end.
Fixpoint prop_writer (acc : bytes) (sunk : Z) (ops obs : list val) {struct ops} : bool :=
  match ops, obs with
  | [], [VB out] => (blen out =? sunk) && is_prefix out acc
  | op :: ops', VL [VL ret; VZ total; VZ sunk'; VZ buffd] :: obs' =>
    if is_wreset op then
      (* Reset: the old sink holds exactly a prefix of what was accepted; counting restarts on the new sink *)
      match ret with
      | [VB out] => (blen out =? sunk) && is_prefix out acc && (total =? 0) && (sunk' =? 0) && (buffd =? 0) &&
                    prop_writer [] 0 ops' obs'
      | _ => false
      end
    else
    match writer_op_acc op ret with
    | None => false
    | Some (a, e, is_flush) =>
      let acc' := acc ++ a in
      (total =? blen acc') && (sunk' + buffd =? total) && (sunk <=? sunk') && (0 <=? buffd) &&
      (if is_flush && (e =? 0) then buffd =? 0 else true) &&
      prop_writer acc' sunk' ops' obs'
    end
  | _, _ => false
  end.

Definition prop_C22 (i o : val) : bool :=
  match i, o with
  | VL [VZ tag; VZ cap; src; VL ops], VL obs =>
    if (tag =? 1) || (tag =? 3) then
      match dec_script src with
      | Some sc => prop_reader (concat (map fst sc)) 0 ops obs
      | None => false
      end
    else if (tag =? 2) || (tag =? 4) then prop_writer [] 0 ops obs
    else false
  | _, _ => false
  end.

(* all classes found in the original code were repaired in /repo (see known_findings/C22.txt) *)
Definition kf_C22 (i : val) : Z := 0.
