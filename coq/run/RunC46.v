From Coq Require Import List ZArith Bool.
From Bfe Require Import lib.Val lib.Bytes model.ProxyProto.
Import ListNotations.
Open Scope Z_scope.

(* input: [limit [chunk ...] ora_src ora_dst tmo] (tmo optional, 0 = stream ends with EOF, 1 = silent peer) ; output: [src dst data err closed] (see model/ProxyProto.v conn_run) *)
Definition dec_C46 (i : val) : option (bool * Z * list bytes * bytes * bytes) :=
  match i with
  | VL [VZ limit; cs; VB os; VB od] =>
    match as_LB cs with
    | Some chunks => Some (false, limit, chunks, os, od)
    | None => None
    end
  | VL [VZ limit; cs; VB os; VB od; VZ tmo] =>
    match as_LB cs with
    | Some chunks => Some (negb (tmo =? 0), limit, chunks, os, od)
    | None => None
    end
  | _ => None
  end.

Definition run_C46 (i : val) : val :=
  match dec_C46 i with
  | Some (tmo, limit, chunks, os, od) => conn_run tmo limit chunks os od
  | None => VErr 0
  end.

(* [-1 8] is the harness' answer to an input whose oracle columns do not belong to its stream (only produced
   by shrinking/replay of edited inputs): such a case says nothing *)
Definition bad_input (o : val) : bool := val_eqb o (VErr 8).

Definition agree_C46 (i o : val) : bool := bad_input o || val_eqb (run_C46 i) o.

(* THE PROPERTY, from the specification classifier, on the implementation's observation *)
Definition prop_C46 (i o : val) : bool :=
  bad_input o ||
  match dec_C46 i with
  | Some (_, limit, chunks, os, od) =>
    let s := concat chunks in
    match spec_classify limit os od s with
    | SHeader None rest => val_eqb o (VL [VL []; VL []; VB rest; VZ 0; VZ 0])
    | SHeader (Some ((sa, sp), (da, dp))) rest =>
      val_eqb o (VL [VL [VB sa; VZ sp]; VL [VB da; VZ dp; VZ 1]; VB rest; VZ 0; VZ 0])
    | SNoHeader => val_eqb o (VL [VL []; VL []; VB s; VZ 0; VZ 0])
    | SMalformed =>
      match o with
      | VL [VL []; VL []; VB []; VZ _; VZ 1] => true
      | _ => false
      end
    | SDontCare => true
    end
  | None => false
  end.

Definition kf_C46 (i : val) : Z :=
  match dec_C46 i with
  | Some (_, limit, chunks, os, od) =>
    let s := concat chunks in
    match spec_classify limit os od s with
    | SNoHeader => if short_sig_first limit s then 1 else 0
    | _ => 0
    end
  | None => 0
  end.

(* executable well-formedness of an input (what the generator produces and the proofs assume): decodable,
   stream of at most 4096 bytes, header limit 0..4000 *)
Definition wf_C46 (i : val) : bool :=
  match dec_C46 i with
  | Some (_, limit, chunks, _, _) => (blen (concat chunks) <=? 4096) && (0 <=? limit) && (limit <=? 4000)
  | None => false
  end.
(* guard of the general part of the central theorem: the specification classifies the stream as "no header" or as
   receiver's choice (conformant headers are covered by the per-encoder theorems, rejections are not proved) *)
Definition guard_C46 (i : val) : bool :=
  match dec_C46 i with
  | Some (_, limit, chunks, os, od) =>
    match spec_classify limit os od (concat chunks) with
    | SNoHeader | SDontCare => true
    | _ => false
    end
  | None => false
  end.
