From Coq Require Import List ZArith Bool.
From Bfe Require Import lib.Val lib.Bytes model.Doh.
Import ListNotations.
Open Scope Z_scope.

(* input : [method:B values:LB body:B limit:Z remote:LB client:LB oracle fail:Z]   (limit 0 = package default 8192;
            remote/client: 0 or 1 address; fail = -1 or the number of body bytes delivered before the reader fails)
     oracle = [[buf res] ...], res = [] | [canon nExtra nOpt rcode]
   output: VErr 1 rejected | VErr 2 does not pack | [nExtra nOpt canon []] (RemoteAddr nil: nothing appended) |
           [nExtra nOpt canonWithoutLastExtra [name rrtype udpsize ttl [[code family mask scope addr]]]] *)
Definition dec_entry (v : val) : option (bytes * option parsed) :=
  match v with
  | VL [VB b; VL []] => Some (b, None)
  | VL [VB b; VL [VB c; VZ ne; VZ no; VZ rc]] => Some (b, Some (mkParsed c ne no rc))
  | _ => None
  end.
Definition dec_opt_b (l : list val) : option (option bytes) :=
  match l with [] => Some None | [VB c] => Some (Some c) | _ => None end.
Definition dec_in (v : val) : option (oracle * dreq) :=
  match v with
  | VL [VB m; vs; VB body; VZ lim; VL rm; VL cl; VL orc; VZ fl] =>
    match as_LB vs, all_some (map dec_entry orc), dec_opt_b rm, dec_opt_b cl with
    | Some vals, Some o, Some remote, Some client =>
      let limit := if lim =? 0 then default_max_post else lim in
      if (limit <=? 0) || (fl <? -1) || (blen body <? fl) then None
      else Some (o, mkDreq m vals body limit (if fl =? -1 then None else Some fl) remote client)
    | _, _, _, _ => None
    end
  | _ => None
  end.
(* well-formed input: decodes, and the client address is a 4- or 16-byte IP (what net.TCPAddr holds in the server) *)
Definition valid_ip (ip : bytes) : bool := Nat.eqb (length ip) 4 || Nat.eqb (length ip) 16.
Definition wf_C56 (i : val) : bool :=
  match dec_in i with
  | Some (_, q) => match client_ip q with Some cip => valid_ip cip | None => true end
  | None => false
  end.

Definition enc_res (r : dres) : val :=
  match r with
  | Rejected => VErr 1
  | PackFails => VErr 2
  | ForwardedPlain canon ne no => VL [VZ ne; VZ no; VB canon; VL []]
  | Forwarded canon ne no udp ttl e =>
    VL [VZ ne; VZ no; VB canon;
        VL [VB [46]; VZ 41; VZ udp; VZ ttl; VL [VL [VZ 8; VZ (e_family e); VZ (e_mask e); VZ (e_scope e); VB (e_addr e)]]]]
  end.
(* observations the specification can say something about; anything else (other last record, several options,
   other option codes, non-root owner name) decodes to None; UDP size and TTL (extended rcode/version/flags) are free *)
Definition dec_res (v : val) : option dres :=
  match v with
  | VL [VZ ne; VZ no; VB canon; VL [VB [46]; VZ 41; VZ udp; VZ ttl; VL [VL [VZ 8; VZ f; VZ m; VZ s; VB a]]]] =>
    Some (Forwarded canon ne no udp ttl (mkEcs f m s a))
  | VL [VZ ne; VZ no; VB canon; VL []] => Some (ForwardedPlain canon ne no)
  | VL [VZ e; VZ c] =>
    if (e =? -1) && (c =? 1) then Some Rejected else if (e =? -1) && (c =? 2) then Some PackFails else None
  | _ => None
  end.

Definition run_C56 (i : val) : val :=
  match dec_in i with
  | Some (o, q) => enc_res (request_to_dns_msg o q)
  | None => VErr 0
  end.
Definition agree_C56 (i o : val) : bool := val_eqb (run_C56 i) o.
Definition prop_C56 (i o : val) : bool :=
  match dec_in i, dec_res o with
  | Some (orc, q), Some r => doh_spec orc q r
  | _, _ => false
  end.
Definition kf_C56 (i : val) : Z :=
  match dec_in i with
  | Some (o, q) => if kf_truncated o q then 1 else if kf_second_opt o q then 2 else 0
  | None => 0
  end.
