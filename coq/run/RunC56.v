From Coq Require Import List ZArith Bool.
From Bfe Require Import lib.Val lib.Bytes model.Doh.
Import ListNotations.
Open Scope Z_scope.

(* input : [method:B values:LB body:B limit:Z remote:LB client:LB oracle fail:Z]   (limit 0 = package default 8192;
            remote/client: 0 or 1 address; fail = -1 or the number of body bytes delivered before the reader fails)
     oracle = [[buf res] ...], res = [] | [canon nExtra nOpt rcode]
   output: VErr 1 rejected | VErr 2 does not pack | [nExtra nOpt canon []] (RemoteAddr nil: nothing appended) |
           [nExtra nOpt canonWithoutLastExtra [name rrtype udpsize ttl [[code family mask scope addr]]]] *)
Definition dec_entry (v : val) : option (bytes * option parsed) :=
  match v with
  | VL [VB b; VL []] => Some (b, None)
  | VL [VB b; VL [VB c; VZ ne; VZ no; VZ rc]] => Some (b, Some (mkParsed c ne no rc))
  | _ => None
  end.
Definition dec_opt_b (l : list val) : option (option bytes) :=
  match l with [] => Some None | [VB c] => Some (Some c) | _ => None end.
Definition dec_in (v : val) : option (oracle * dreq) :=
  match v with
  | VL [VB m; vs; VB body; VZ lim; VL rm; VL cl; VL orc; VZ fl] =>
    match as_LB vs, all_some (map dec_entry orc), dec_opt_b rm, dec_opt_b cl with
    | Some vals, Some o, Some remote, Some client =>
      let limit := if lim =? 0 then default_max_post else lim in
      if (limit <=? 0) || (fl <? -1) || (blen body <? fl) then None
      else Some (o, mkDreq m vals body limit (if fl =? -1 then None else Some fl) remote client)
    | _, _, _, _ => None
    end
  | _ => None
  end.
(* well-formed input: decodes, and the client address is a 4- or 16-byte IP (what net.TCPAddr holds in the server) *)
Definition valid_ip (ip : bytes) : bool := Nat.eqb (length ip) 4 || Nat.eqb (length ip) 16.
Definition wf_single (q : dreq) : bool := match client_ip q with Some cip => valid_ip cip | None => true end.

Definition enc_res (r : dres) : val :=
  match r with
  | Rejected => VErr 1
  | PackFails => VErr 2
  | ForwardedPlain canon ne no => VL [VZ ne; VZ no; VB canon; VL []]
  | Forwarded canon ne no udp ttl e =>
    VL [VZ ne; VZ no; VB canon;
        VL [VB [46]; VZ 41; VZ udp; VZ ttl; VL [VL [VZ 8; VZ (e_family e); VZ (e_mask e); VZ (e_scope e); VB (e_addr e)]]]]
  end.
(* observations the specification can say something about; anything else (other last record, several options,
   other option codes, non-root owner name) decodes to None; UDP size and TTL (extended rcode/version/flags) are free *)
Definition dec_res (v : val) : option dres :=
  match v with
  | VL [VZ ne; VZ no; VB canon; VL [VB [46]; VZ 41; VZ udp; VZ ttl; VL [VL [VZ 8; VZ f; VZ m; VZ s; VB a]]]] =>
    Some (Forwarded canon ne no udp ttl (mkEcs f m s a))
  | VL [VZ ne; VZ no; VB canon; VL []] => Some (ForwardedPlain canon ne no)
  | VL [VZ e; VZ c] =>
    if (e =? -1) && (c =? 1) then Some Rejected else if (e =? -1) && (c =? 2) then Some PackFails else None
  | _ => None
  end.

(* ---- further input shapes ----
   [1 retryMax timeoutMs]      NewDnsClient(conf): output [net udpSize timeoutMs singleInflight retryMax]
   [2 reqA reqB]               two concurrent Fetch calls (reqA, reqB in the single-request format, both GET/POST queries
                               for the same question from different clients) against an in-process UDP upstream that
                               answers after a delay; output [[okA replyIdA] [okB replyIdB] log], log = the messages the
                               upstream received as [id family mask scope addr], sorted by id *)
Definition msg_id (buf : bytes) : option Z :=
  match buf with a :: b :: _ => Some (a * 256 + b) | _ => None end.
Definition fwd_entry (o : oracle) (q : dreq) : option (Z * ecs) :=
  match request_to_dns_msg o q, code_buffer q with
  | Forwarded _ _ _ _ _ e, Some buf => match msg_id buf with Some id => Some (id, e) | None => None end
  | _, _ => None
  end.
Definition enc_entry (x : Z * ecs) : val :=
  VL [VZ (fst x); VZ (e_family (snd x)); VZ (e_mask (snd x)); VZ (e_scope (snd x)); VB (e_addr (snd x))].
Definition s_udp : bytes := [117; 100; 112].
Definition run_pair (o1 : oracle) (q1 : dreq) (o2 : oracle) (q2 : dreq) : val :=
  match fwd_entry o1 q1, fwd_entry o2 q2 with
  | Some a, Some b =>
    VL [VL [VZ 1; VZ (fst a)]; VL [VZ 1; VZ (fst b)];
        VL (if fst a <=? fst b then [enc_entry a; enc_entry b] else [enc_entry b; enc_entry a])]
  | _, _ => VErr 9
  end.
Definition pair_wf (o1 : oracle) (q1 : dreq) (o2 : oracle) (q2 : dreq) : bool :=
  match fwd_entry o1 q1, fwd_entry o2 q2 with
  | Some a, Some b => negb (fst a =? fst b)
  | _, _ => false
  end.
(* THE PROPERTY for concurrent queries: each client's own message (its ID) reaches the upstream with the option for
   THAT client's address, exactly two messages are sent, and each client gets the reply to its own message *)
Definition log_has (cip : bytes) (id : Z) (log : list val) : bool :=
  existsb (fun v => match v with
                    | VL [VZ i; VZ f; VZ m; VZ s; VB a] => (i =? id) && ecs_matches cip (mkEcs f m s a)
                    | _ => false end) log.
Definition prop_pair (q1 q2 : dreq) (o : val) : bool :=
  match o, client_ip q1, client_ip q2, code_buffer q1, code_buffer q2 with
  | VL [VL [VZ 1; VZ r1]; VL [VZ 1; VZ r2]; VL log], Some c1, Some c2, Some b1, Some b2 =>
    match msg_id b1, msg_id b2 with
    | Some i1, Some i2 =>
      (r1 =? i1) && (r2 =? i2) && (Z.of_nat (length log) =? 2) && log_has c1 i1 log && log_has c2 i2 log
    | _, _ => false
    end
  | _, _, _, _, _ => false
  end.
(* NewDnsClient: plain UDP without coalescing of concurrent identical questions *)
Definition prop_conf (o : val) : bool :=
  match o with
  | VL [VB net; VZ _; VZ _; VZ single; VZ _] => bytes_eqb net s_udp && (single =? 0)
  | _ => false
  end.

Inductive dinput :=
| DSingle (o : oracle) (q : dreq)
| DConf (retry timeout : Z)
| DPair (o1 : oracle) (q1 : dreq) (o2 : oracle) (q2 : dreq).
Definition dec_any (v : val) : option dinput :=
  match v with
  | VL [VZ 1; VZ r; VZ t] => Some (DConf r t)
  | VL [VZ 2; a; b] =>
    match dec_in a, dec_in b with Some (o1, q1), Some (o2, q2) => Some (DPair o1 q1 o2 q2) | _, _ => None end
  | _ => match dec_in v with Some (o, q) => Some (DSingle o q) | None => None end
  end.

Definition wf_C56 (i : val) : bool :=
  match dec_any i with
  | Some (DSingle _ q) => wf_single q
  | Some (DConf _ _) => true
  | Some (DPair o1 q1 o2 q2) => pair_wf o1 q1 o2 q2
  | None => false
  end.
Definition run_C56 (i : val) : val :=
  match dec_any i with
  | Some (DSingle o q) => enc_res (request_to_dns_msg o q)
  | Some (DConf r t) => VL [VB s_udp; VZ 65535; VZ t; VZ 0; VZ r]
  | Some (DPair o1 q1 o2 q2) => run_pair o1 q1 o2 q2
  | None => VErr 0
  end.
Definition agree_C56 (i o : val) : bool := val_eqb (run_C56 i) o.
Definition prop_C56 (i o : val) : bool :=
  match dec_any i with
  | Some (DSingle orc q) => match dec_res o with Some r => doh_spec orc q r | None => false end
  | Some (DConf _ _) => prop_conf o
  | Some (DPair _ q1 _ q2) => prop_pair q1 q2 o
  | None => false
  end.
Definition kf_C56 (i : val) : Z :=
  match dec_any i with
  | Some (DSingle o q) => if kf_truncated o q then 1 else if kf_second_opt o q then 2 else 0
  | _ => 0
  end.
