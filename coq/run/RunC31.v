(* C31 wire functions.
   input : VL [VZ mx; VZ M; VZ k; VL [VB chunk ...]]   NewDecoder(mx); SetMaxStringLength(M) (0 = unlimited);
                                                 emit budget k: SetEmitEnabled(false) after k emitted fields (-1 = never);
                                                 Write(chunk) for each chunk until an error; Close()
   output: VL [VL fields; VZ status; VZ tableSize; VZ tableMax; VZ tableEntries]  (status 0 = no error;
           ErrStringLength and ErrInvalidHuffman are one class, 4), or VL [VZ -2] when the implementation panicked *)
From Coq Require Import List ZArith Bool.
From Bfe Require Import lib.Val lib.Bytes model.Huffman model.Hpack.
Import ListNotations.
Open Scope Z_scope.

Definition decode_input (i : val) : option (Z * Z * Z * list bytes) :=
  match i with
  | VL [VZ mx; VZ M; VZ k; VL chunks] => match all_some (map as_B chunks) with Some l => Some (mx, M, k, l) | None => None end
  | _ => None
  end.
Definition observe (hd : bytes -> hres) (mx M k : Z) (chunks : list bytes) : val :=
  let '(d, fs, st) := dec_run_e hd M (new_decoder mx) k chunks [] in
  if st =? ST_PANIC then VL [VZ (-2)]
  else VL [fields_val fs; VZ st; VZ (dsize (ddt d)); VZ (dmax (ddt d)); vnat (length (ents (ddt d)))].
(* the model: Huffman strings are decoded by the RFC bit-level decoder (= the byte-trie decoder, C31_trie_equals_bitlevel) *)
Definition run_C31 (i : val) : val :=
  match decode_input i with
  | Some (mx, M, k, chunks) => observe huff_decode_spec mx M k chunks
  | None => VErr 0
  end.
(* same observation with the transcription of the byte-trie Huffman decoder *)
Definition run_C31_trie (i : val) : val :=
  match decode_input i with
  | Some (mx, M, k, chunks) => observe huff_decode mx M k chunks
  | None => VErr 0
  end.
Definition agree_C31 (i o : val) : bool := val_eqb (run_C31 i) o && val_eqb (run_C31_trie i) o.

(* THE PROPERTY: the observation is not a panic; if the RFC 7541 reference decoder accepts the concatenated
   input, the implementation reports no error, emitted exactly the reference fields and holds a table of
   the same size and entry count - or, when a string length limit M is set, it reports an error and the limit
   explains it (a reference field has a name or value longer than M, or the input itself is longer than M bytes);
   if the reference rejects the input, the implementation reported an error - except that once emitting has been
   disabled (budget k >= 0) strings of literals that are not indexed are skipped without Huffman validation
   (documented in readString), so an accepted input is tolerated there.  With a budget k only the first k
   reference fields are emitted; the table must be the reference table all the same. *)
Definition limit_explains (M : Z) (want : list field) (input : bytes) : bool :=
  negb (M =? 0) &&
  (existsb (fun f => (blen (fname f) >? M) || (blen (fvalue f) >? M)) want || (blen input >? M)).
Definition prop_C31 (i o : val) : bool :=
  match decode_input i, o with
  | Some (mx, M, k, chunks), VL [fsv; VZ st; VZ sz; VZ _; VZ n] =>
    match rfc_decode mx (concat chunks), val_fields fsv with
    | Some (t, want), Some fs =>
      ((st =? 0) && fields_eqb fs (take_b k want) && (sz =? tab_size (rents t)) && (n =? Z.of_nat (length (rents t))))
      || (negb (st =? 0) && limit_explains M want (concat chunks))
    | None, Some _ => negb (st =? 0) || (0 <=? k)
    | _, None => false
    end
  | _, _ => false
  end.
Definition kf_C31 (i : val) : Z := 0.

(* well-formed inputs covered by the central theorem: default string limit (M = 0), any emit budget.  Inputs with a
   string limit are generated and checked (agree/prop) but not covered by it. *)
Definition wf_C31 (i : val) : bool :=
  match decode_input i with
  | Some (mx, M, k, chunks) =>
    (0 <=? mx) && (M =? 0) && forallb wf_bytes chunks
  | None => false
  end.
