(* C14 wire functions.  Shapes: harness/cmd/c14/main.go.
   The observation is the sorted list of DISTINCT load summaries seen over K loads of the same files in one process. *)
From Coq Require Import List ZArith Bool.
From Bfe Require Import lib.Val lib.Bytes model.ConfLoad model.ConfLoadWire.
Import ListNotations.
Open Scope Z_scope.

Definition v_outcome (o : outcome) : val := VL [VB (oc_product o); VB (oc_tag o); VB (oc_cluster o); VZ (oc_err o)].
(* summary of one load + the probe lookups, for a given iteration order of buildHostRoute *)
Definition summary (pick : list (str * str) -> list (str * str)) (fs : files) (probes : list probe) : val :=
  match load_with pick fs with
  | None => VL [VZ 0]
  | Some t => VL [VZ 1; VL (map (fun p => v_outcome (lookup t p)) probes)]
  end.
Definition v_gslb (conf : list (str * Z)) : val :=
  match gslb_init conf with
  | None => VL [VZ 0]
  | Some (s, total, single, av) =>
      VL [VZ 1; VL (map (fun e => VL [VB (fst e); VZ (snd e)]) s); VZ total; VZ (if single then 1 else 0); VZ av]
  end.

Definition d_c14 (i : val) : option (files * list probe) :=
  match i with
  | VL [VZ 1; VZ _; VZ _; h; v; r; c; ps] =>
      do fs <- d_files h v r c; do ps' <- d_list d_probe ps; Some (fs, ps')
  | _ => None
  end.
Definition d_c14_gslb (i : val) : option (list (str * Z)) :=
  match i with
  | VL [VZ 2; VZ _; subs] => d_list (d_pair as_B as_Z) subs
  | _ => None
  end.

(* op 3: reload-history independence of the balancer.
   [3 K [sticky strategy] [A M ...] B probes] ; history A, M, ... and B = [[sub weight [[bname addr port bweight] ...]] ...] ; probes = [[key murmur64] ...] *)
Definition d_bk (v : val) : option bk :=
  match v with
  | VL [VB n; VB a; VZ p; VZ w] => Some {| b_name := n; b_addr := a; b_port := p; b_weight := w |}
  | _ => None
  end.
Definition d_sub (v : val) : option (str * Z * list bk) :=
  match v with
  | VL [VB n; VZ w; bks] => do bks' <- d_list d_bk bks; Some (n, w, bks')
  | _ => None
  end.
Record reload_case := { rc_sticky : bool; rc_hist : list (list (str * Z * list bk)); rc_b : list (str * Z * list bk); rc_hashes : list Z }.
Definition d_c14_reload (i : val) : option reload_case :=
  match i with
  | VL [VZ 3; VZ _; VL [VZ st; VZ _]; a; b; ps] =>
      do a' <- d_list (d_list d_sub) a; do b' <- d_list d_sub b;
      do ps' <- d_list (d_pair as_B as_Z) ps;
      Some {| rc_sticky := negb (st =? 0); rc_hist := a'; rc_b := b'; rc_hashes := map snd ps' |}
  | _ => None
  end.
Definition weights_of (l : list (str * Z * list bk)) : list (str * Z) := map fst l.
Definition backends_of (l : list (str * Z * list bk)) (sub : str) : list bk :=
  match assoc sub (map (fun e => (fst (fst e), snd e)) l) with Some b => b | None => [] end.
Definition v_state (st : list (str * Z) * Z * bool * Z) : val :=
  let '(s, total, single, av) := st in
  VL [VL (map (fun e => VL [VB (fst e); VZ (snd e)]) s); VZ total; VZ (if single then 1 else 0); VZ av].
(* per sub-cluster (in the balancer's order) the backend inventory *)
Definition v_inventory (st : list (str * Z) * Z * bool * Z) (b : list (str * Z * list bk)) : val :=
  let '(s, _, _, _) := st in
  VL (map (fun e => VL (map (fun x => VL [VB (fst x); VZ (snd x)]) (bk_inventory (backends_of b (fst e))))) s).
(* per key: sub-cluster chosen by subClusterBalance and, in session-sticky mode, backend chosen by stickyBalance *)
Definition v_picks (sticky : bool) (st : list (str * Z) * Z * bool * Z) (b : list (str * Z * list bk)) (hs : list Z) : val :=
  VL (map (fun h => let n := gslb_pick st h in
                    if sticky then
                      match sticky_pick (backends_of b n) h with
                      | Some k => VL [VB n; VB (b_name k); VB (addr_info k)]
                      | None => VL [VB n; VB []; VB []]
                      end
                    else VL [VB n; VB []; VB []]) hs).
Definition v_half (sticky : bool) st (b : list (str * Z * list bk)) (hs : list Z) : val :=
  VL [v_state st; v_inventory st b; v_picks sticky st b hs].
Definition v_reload (c : reload_case) : val :=
  match gslb_fresh (weights_of (rc_b c)) with
  | None => VErr 2
  | Some f =>
      match rc_hist c with
      | [] => VErr 1
      | a :: _ =>
          if pos_total (weights_of a) =? 0 then VErr 1
          else match gslb_after_history (map weights_of (rc_hist c)) (weights_of (rc_b c)) with
               | Some h => VL [v_half (rc_sticky c) f (rc_b c) (rc_hashes c); v_half (rc_sticky c) h (rc_b c) (rc_hashes c)]
               | None => VErr 2
               end
      end
  end.

(* model output: the single summary obtained with the map orders = list orders of the input *)
Definition run_C14 (i : val) : val :=
  match d_c14 i with
  | Some (fs, ps) => VL [summary (fun l => l) fs ps]
  | None => match d_c14_gslb i with
            | Some conf => VL [v_gslb conf]
            | None => match d_c14_reload i with
                      | Some c => VL [v_reload c]
                      | None => VErr 0
                      end
            end
  end.

(* ---- every iteration order of the order-sensitive maps (used only for inputs in a finding class) *)
Fixpoint insert_all {A} (x : A) (l : list A) : list (list A) :=
  match l with
  | [] => [[x]]
  | y :: r => (x :: l) :: map (cons y) (insert_all x r)
  end.
Fixpoint perms {A} (l : list A) : list (list A) :=
  match l with
  | [] => [[]]
  | x :: r => flat_map (insert_all x) (perms r)
  end.
Fixpoint fact (n : nat) : Z := match n with O => 1 | S k => Z.of_nat n * fact k end.
Definition with_orders (fs : files) hosts tags vips : files :=
  {| fs_host := {| hf_version := hf_version (fs_host fs); hf_default := hf_default (fs_host fs);
                   hf_hosts := Some hosts; hf_tags := Some tags |};
     fs_vip := {| vf_version := vf_version (fs_vip fs); vf_vips := vips |};
     fs_route := fs_route fs; fs_cluster := fs_cluster fs |}.
Definition pick_nth (n : nat) (l : list (str * str)) : list (str * str) := nth n (perms l) l.
Definition n_entries (fs : files) : nat := length (flat_hosts (olist (hf_hosts (fs_host fs)))).
Definition enumerable (fs : files) : bool :=
  match hf_hosts (fs_host fs), hf_tags (fs_host fs) with
  | Some hosts, Some tags =>
      (fact (length hosts) * fact (length tags) * fact (length (vf_vips (fs_vip fs))) * fact (n_entries fs) <=? 3000)
      && (Z.of_nat (n_entries fs) <=? 6)
  | _, _ => false
  end.
Definition all_summaries (fs : files) (probes : list probe) : list val :=
  flat_map (fun hosts =>
    flat_map (fun tags =>
      flat_map (fun vips =>
        map (fun n => summary (pick_nth n) (with_orders fs hosts tags vips) probes)
            (seq 0 (Z.to_nat (fact (n_entries fs)))))
        (perms (vf_vips (fs_vip fs))))
      (perms (olist (hf_tags (fs_host fs)))))
    (perms (olist (hf_hosts (fs_host fs)))).

Definition is_summary (v : val) : bool :=
  match v with VL [VZ 0] => true | VL [VZ 1; VL _] => true | _ => false end.

(* agreement: outside the finding classes exactly the model's summary was observed; inside a finding class every observed
   summary must be produced by SOME iteration order (enumerated when the configuration is small, as all generated
   members of the finding classes are) *)
Definition agree_C14 (i o : val) : bool :=
  match d_c14 i with
  | Some (fs, ps) =>
      if order_class fs =? 0 then val_eqb (run_C14 i) o
      else match o with
           | VL (x :: r) =>
               if enumerable fs
               then let all := all_summaries fs ps in forallb (fun y => existsb (val_eqb y) all) (x :: r)
               else forallb is_summary (x :: r)
           | _ => false
           end
  | None => val_eqb (run_C14 i) o
  end.

(* THE PROPERTY: over all loads of the same files exactly one behaviour was observed (and it is not a crash) *)
(* for op 3 additionally: state, backend inventory and every routing decision after (load A; reload B) equal those of a
   fresh load of B *)
Definition prop_C14 (i o : val) : bool :=
  match o with
  | VL [x] =>
      match x with
      | VL [VZ (-2)] => false
      | VL l =>
          match d_c14_reload i, l with
          | Some _, [VZ (-1); VZ _] => true          (* A or B is not a loadable configuration *)
          | Some _, [fresh; hist] => val_eqb fresh hist
          | Some _, _ => false
          | None, _ => true
          end
      | _ => false
      end
  | _ => false
  end.
Definition kf_C14 (i : val) : Z :=
  match d_c14 i with
  | Some (fs, _) => order_class fs
  | None => 0
  end.

(* well-formed inputs: a decodable input of one of the three operations; for op 3 the sub-cluster names of every
   configuration are distinct (they are keys of a Go map) *)
Definition wf_C14 (i : val) : bool :=
  match d_c14 i with
  | Some _ => true
  | None =>
      match d_c14_gslb i with
      | Some _ => true
      | None =>
          match d_c14_reload i with
          | Some c => forallb (fun a => nodup_str (map fst (weights_of a))) (rc_hist c)
                      && nodup_str (map fst (weights_of (rc_b c)))
          | None => false
          end
      end
  end.
