From Coq Require Import List ZArith Bool.
From Bfe Require Import lib.Val model.H2Prio.
Import ListNotations.
Open Scope Z_scope.

(* input : VL ops ; op = [1 id] new stream | [2 id] close stream | [3 id dep weight excl] adjustStreamPriority
   output: VL tables, one per step ; table = VL rows ; row = [id parent(0 = nil) weight open] in reverse creation order *)
Definition dec_op (v : val) : option pop :=
  match v with
  | VL [VZ 1; VZ id] => Some (PNew id)
  | VL [VZ 2; VZ id] => Some (PClose id)
  | VL [VZ 3; VZ id; VZ dep; VZ w; VZ e] => Some (PAdj id dep w (negb (e =? 0)))
  | _ => None
  end.
Definition dec_ops (v : val) : option (list pop) :=
  match v with
  | VL l => all_some (map dec_op l)
  | _ => None
  end.

(* encoding of typed operations (inverse of dec_op) *)
Definition enc_op (o : pop) : val :=
  match o with
  | PNew id => VL [VZ 1; VZ id]
  | PClose id => VL [VZ 2; VZ id]
  | PAdj id dep w e => VL [VZ 3; VZ id; VZ dep; VZ w; VZ (if e then 1 else 0)]
  end.
Definition enc_ops (ops : list pop) : val := VL (map enc_op ops).

Definition enc_row (r : Z * Z * Z * Z) : val :=
  let '(x, p, w, o) := r in VL [VZ x; VZ p; VZ w; VZ o].
Definition enc_table (t : list (Z * Z * Z * Z)) : val := VL (map enc_row t).
Definition enc_out (ts : list (list (Z * Z * Z * Z))) : val := VL (map enc_table ts).

(* live connection input: [7 [frame ...]] ; frame = [1 id prio dep weight excl] HEADERS opening stream id (prio = PRIORITY flag)
   | [2 id] RST_STREAM | [3 id dep weight excl] PRIORITY ; output: the table read from sc.streams after every frame *)
Definition dec_lop (v : val) : option lop :=
  match v with
  | VL [VZ 1; VZ id; VZ p; VZ dep; VZ w; VZ e] => Some (LHeaders id (negb (p =? 0)) dep w (negb (e =? 0)))
  | VL [VZ 2; VZ id] => Some (LReset id)
  | VL [VZ 3; VZ id; VZ dep; VZ w; VZ e] => Some (LPrio id dep w (negb (e =? 0)))
  | _ => None
  end.
Definition enc_lop (o : lop) : val :=
  match o with
  | LHeaders id p dep w e => VL [VZ 1; VZ id; VZ (if p then 1 else 0); VZ dep; VZ w; VZ (if e then 1 else 0)]
  | LReset id => VL [VZ 2; VZ id]
  | LPrio id dep w e => VL [VZ 3; VZ id; VZ dep; VZ w; VZ (if e then 1 else 0)]
  end.
Definition enc_live (l : list lop) : val := VL [VZ 7; VL (map enc_lop l)].
Definition dec_live (v : val) : option (list lop) :=
  match v with
  | VL [VZ 7; VL l] => all_some (map dec_lop l)
  | _ => None
  end.

Definition run_C36 (i : val) : val :=
  match dec_live i with
  | Some lops =>
    match lrun pst0 lops with
    | None => VErr 1
    | Some ts => enc_out ts
    end
  | None =>
  match dec_ops i with
  | None => VErr 0
  | Some ops =>
    match prun pst0 ops with
    | None => VErr 1                      (* an ancestor walk did not terminate within the fuel *)
    | Some ts => enc_out ts
    end
  end
  end.

Definition agree_C36 (i o : val) : bool := val_eqb (run_C36 i) o.

(* THE PROPERTY on the implementation's observation: there is one table per operation (so every call returned:
   no panic, no timeout), and in every observed table following parent ids from any stream reaches nil,
   i.e. no stream is its own ancestor. *)
Definition dec_row (v : val) : option (Z * Z) :=
  match v with
  | VL (VZ x :: VZ p :: _) => Some (x, p)
  | _ => None
  end.
Definition dec_table (v : val) : option (list (Z * Z)) :=
  match v with
  | VL rows => all_some (map dec_row rows)
  | _ => None
  end.
Definition table_ok (v : val) : bool :=
  match dec_table v with
  | Some t => table_acyclic t
  | None => false
  end.
Definition steps_of (i : val) : option nat :=
  match i with
  | VL [VZ 7; VL l] => Some (length l)          (* live script: one table per frame; a hung serve loop yields fewer *)
  | VL ops => Some (length ops)
  | _ => None
  end.
Definition prop_C36 (i o : val) : bool :=
  match steps_of i, o with
  | Some n, VL tabs => (n =? length tabs)%nat && forallb table_ok tabs
  | _, _ => false
  end.

Definition kf_C36 (i : val) : Z := 0.
