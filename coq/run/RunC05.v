(* C05 wire functions.
   input  : [ init ops ]      init = [[id confWeight] ...]   (distinct ids)
     op [1 algo key flips]  Balance(algo,key) with flips = [[ [id kind v] ...] ...] applied after successive Avail()/ConnNum() reads
                            (algo 0 WrrSimple 1 WrrSmooth 2 WrrSticky 3 WlcSimple 4 WlcSmooth)
        [2 id b]            SetAvail(b) on backend id
        [3 id d]            connNum += d
        [4 conf]            Update(conf), conf = [[id confWeight] ...] with at most one id that is not in the list
   output : one observation per op, stopping after the first Balance that does not return:
     Balance -> [h r st]   h = murmur3.Sum64(key) (supplied by the harness: external component passed as data)
                           r = [0 id] | [-1 code] | [-2] (panic) | [-3] (did not return within the probe bound / deadline)
                           st = [[[id weight current] ...] next]
     SetAvail/conn -> 0 ;  Update -> st *)
From Coq Require Import List ZArith Bool.
From Bfe Require Import lib.Val model.SimpleRR.
Import ListNotations.
Open Scope Z_scope.

Definition dec_pair (v : val) : option (Z * Z) :=
  match v with VL [VZ a; VZ b] => Some (a, b) | _ => None end.
Definition dec_conf (v : val) : option (list (Z * Z)) :=
  match v with VL l => all_some (map dec_pair l) | _ => None end.
Definition dec_flip (v : val) : option flip :=
  match v with VL [VZ a; VZ k; VZ x] => Some (a, k, x) | _ => None end.
Definition dec_flipset (v : val) : option (list flip) :=
  match v with VL l => all_some (map dec_flip l) | _ => None end.
Definition dec_script (v : val) : option script :=
  match v with VL l => all_some (map dec_flipset l) | _ => None end.

Inductive op :=
| OBal (algo : Z) (sc : script)
| OAvail (id : Z) (b : bool)
| OConn (id : Z) (d : Z)
| OUpd (conf : list (Z * Z)).
Definition dec_op (v : val) : option op :=
  match v with
  | VL [VZ 1; VZ algo; VB _; sc] =>
    (* every algorithm carries a script (the harness gates every Avail()/ConnNum() read of the real code);
       algo 5 = WrrSimple without gating, run against a wall-clock deadline *)
    match dec_script sc with
    | Some [] => Some (OBal (if algo =? 5 then 0 else algo) [])
    | Some s => if algo =? 5 then None else Some (OBal algo s)
    | None => None
    end
  | VL [VZ 2; VZ id; VZ b] => Some (OAvail id (negb (b =? 0)))
  | VL [VZ 3; VZ id; VZ d] => Some (OConn id d)
  | VL [VZ 4; c] => match dec_conf c with Some c' => Some (OUpd c') | None => None end
  | _ => None
  end.

Fixpoint distinct (l : list Z) : bool :=
  match l with [] => true | x :: r => negb (existsb (Z.eqb x) r) && distinct r end.
Definition wf_op (r : brr) (o : op) : bool :=
  match o with
  | OUpd conf => Nat.leb (length (new_ids conf (backends r))) 1
  | OBal algo _ => (0 <=? algo) && (algo <=? 4)
  | _ => true
  end.

Definition enc_res (r : res) : val :=
  match r with
  | ROk ids => VL (VZ 0 :: map VZ ids)
  | RErr c => VErr c
  | RPanic => VL [VZ (-2)]
  | RFuel => VL [VZ (-3)]
  end.
Definition enc_state (r : brr) : val :=
  VL [VL (map (fun b => VL [VZ (bid b); VZ (bw b); VZ (bcur b)]) (backends r)); VZ (nxt r)].

Definition set_dyn (id : Z) (f : be -> be) (r : brr) : brr :=
  mkBrr (map (fun b => if bid b =? id then f b else b) (backends r)) (nxt r).

(* one step: new state, observation, model result (for kf), continue? ; hs = supplied hashes of the Balance ops *)
Definition step (r : brr) (o : op) (h : Z) : brr * val * option (Z * res) :=
  match o with
  | OBal algo sc => let '(r', x) := balance algo h sc r in (r', VL [VZ h; enc_res x; enc_state r'], Some (algo, x))
  | OAvail id b => (set_dyn id (fun x => mkBe (bid x) (bw x) (bcur x) b (bcn x)) r, VZ 0, None)
  | OConn id d => (set_dyn id (fun x => mkBe (bid x) (bw x) (bcur x) (bav x) (bcn x + d)) r, VZ 0, None)
  | OUpd conf => let r' := update conf r in (r', enc_state r', None)
  end.

(* runs the ops; None = malformed input *)
Fixpoint run_ops (r : brr) (ops : list val) (hs : list Z) {struct ops} : option (list (val * option (Z * res))) :=
  match ops with
  | [] => Some []
  | v :: rest =>
    match dec_op v with
    | None => None
    | Some o =>
      if negb (wf_op r o) then None else
      let h := match o with OBal _ _ => hd 0 hs | _ => 0 end in
      let hs' := match o with OBal _ _ => tl hs | _ => hs end in
      let '(r', obs, x) := step r o h in
      match x with
      | Some (_, RFuel) => Some [(obs, x)]
      | _ => match run_ops r' rest hs' with Some l => Some ((obs, x) :: l) | None => None end
      end
    end
  end.
(* ---- gslb cases: input [[7 subs retryMax crossRetry] ops], subs = [[name weight [[id confWeight] ...]] ...]
        ops [6 algo retry key flips] BalanceGslb.Balance (algo 1 WRR, 2 sticky, 4 WLC; req.RetryTime = retry),
            [2 id b] SetAvail, [3 id d] connNum += d,
            [7 [[sub weight] ...]] BalanceGslb.Reload, [8 [[sub [[id confWeight] ...]] ...]] BackendReload,
            [9 stratPresent strategy headerKind stickyPresent sticky] a cluster conf with that GslbBasic.HashConf goes
               through the real loader (cluster_conf.ClusterConfLoad); accepted -> SetGslbBasic, observation [0]; rejected -> [1]
        observation of a Balance: [h r sub retryAfter [state of every sub-cluster ...]];
        of Reload / BackendReload: [rejected? [[sub weight state] ...]] ---- *)
Definition dec_gsub (v : val) : option gsub :=
  match v with
  | VL [VZ n; VZ w; c] => match dec_conf c with Some conf => Some (mkGsub n w (init conf)) | None => None end
  | _ => None
  end.
Inductive gop :=
| GBal (algo retry : Z) (sc : script)
| GAvail (id : Z) (b : bool)
| GConn (id d : Z)
| GReload (g : list (Z * Z))
| GBack (cb : list (Z * list (Z * Z)))
| GHash (sp strat hk stp : Z) (st : bool).
Definition dec_subconf (v : val) : option (Z * list (Z * Z)) :=
  match v with VL [VZ n; c] => match dec_conf c with Some conf => Some (n, conf) | None => None end | _ => None end.
Definition dec_gop (v : val) : option gop :=
  match v with
  | VL [VZ 6; VZ algo; VZ retry; VB _; sc] =>
    match dec_script sc with
    | Some s => if ((algo =? 1) || (algo =? 2) || (algo =? 4)) && (0 <=? retry) then Some (GBal algo retry s) else None
    | None => None
    end
  | VL [VZ 2; VZ id; VZ b] => Some (GAvail id (negb (b =? 0)))
  | VL [VZ 3; VZ id; VZ d] => Some (GConn id d)
  | VL [VZ 9; VZ sp; VZ strat; VZ hk; VZ stp; VZ st] =>
    if (0 <=? hk) && (hk <=? 5) then Some (GHash sp strat hk stp (negb (st =? 0))) else None
  | VL [VZ 7; g] => match dec_conf g with Some g' => if distinct (map fst g') then Some (GReload g') else None | None => None end
  | VL [VZ 8; VL l] => match all_some (map dec_subconf l) with
                      | Some cb => if distinct (map fst cb) then Some (GBack cb) else None
                      | None => None end
  | _ => None
  end.
Definition gmap_brr (f : brr -> brr) (c : gcluster) : gcluster :=
  mkGc (map (fun s => mkGsub (gname s) (gweight s) (f (gbrr s))) (gsubs c)) (gtotal c) (gsingle c) (gavail c) (grmax c) (gcross c).
Definition enc_gstate (c : gcluster) : val := VL (map (fun s => enc_state (gbrr s)) (gsubs c)).
(* after Reload / BackendReload: sub-cluster names, weights and lists in list order *)
Definition enc_gstate_w (c : gcluster) : val :=
  VL (map (fun s => VL [VZ (gname s); VZ (gweight s); enc_state (gbrr s)]) (gsubs c)).
(* histories stay inside the modelled fragment: at most two sub-clusters of weight >= 0 (one cross-retry candidate) and
   at most one new backend per sub-cluster and BackendReload (list order of new backends is map order in Go) *)
Definition wf_gstate (c : gcluster) : bool := Nat.leb (length (filter (fun s => gweight s >=? 0) (gsubs c))) 2.
Definition wf_gback (cb : list (Z * list (Z * Z))) (c : gcluster) : bool :=
  forallb (fun s => match sub_conf_find (gname s) cb with
                    | Some conf => Nat.leb (length (new_ids conf (backends (gbrr s)))) 1
                    | None => true end) (gsubs c).
Definition gstep (hc : hconf) (c : gcluster) (o : gop) (h : Z) : hconf * gcluster * val * option (Z * res) :=
  match o with
  | GHash sp strat hk stp st =>
    match hash_conf_check sp strat hk stp st with
    | Some hc' => (hc', c, VL [VZ 0], None)            (* accepted by the loader and installed (SetGslbBasic) *)
    | None => (hc, c, VL [VZ 1], None)                 (* rejected at load: nothing installed *)
    end
  | GBal algo retry sc =>
    let '(c', x, sub, rt) := gslb_balance_hc hc algo h retry sc c in
    (hc, c', VL [VZ h; enc_res x; VZ sub; VZ rt; enc_gstate c'], Some (algo, x))
  | GAvail id b => (hc, gmap_brr (set_dyn id (fun x => mkBe (bid x) (bw x) (bcur x) b (bcn x))) c, VZ 0, None)
  | GConn id d => (hc, gmap_brr (set_dyn id (fun x => mkBe (bid x) (bw x) (bcur x) (bav x) (bcn x + d))) c, VZ 0, None)
  | GReload g => let '(c', e) := greload g c in (hc, c', VL [vbool e; enc_gstate_w c'], None)
  | GBack cb => let c' := gbackend_reload cb c in (hc, c', VL [VZ 0; enc_gstate_w c'], None)
  end.
Fixpoint run_gops (hc : hconf) (c : gcluster) (ops : list val) (hs : list Z) {struct ops} : option (list (val * option (Z * res))) :=
  match ops with
  | [] => Some []
  | v :: rest =>
    match dec_gop v with
    | None => None
    | Some o =>
      let h := match o with GBal _ _ _ => hd 0 hs | _ => 0 end in
      let hs' := match o with GBal _ _ _ => tl hs | _ => hs end in
      if negb (match o with GBack cb => wf_gback cb c | _ => true end) then None else
      let '(hc', c', obs, x) := gstep hc c o h in
      if negb (wf_gstate c') then None else
      (* a cross retry with two candidates is a random choice in Go: the model stops there (code 99) and the rest of
         the history is not compared *)
      if (match x with Some (_, RErr c99) => c99 =? 99 | _ => false end) then Some [(obs, x)] else
      match run_gops hc' c' rest hs' with Some l => Some ((obs, x) :: l) | None => None end
    end
  end.
(* well-formed cluster: distinct names and backend ids, positive total weight, at most two sub-clusters of weight >= 0
   (so that the random cross-cluster choice has at most one candidate), small retry numbers *)
Definition wf_gcluster (subs : list gsub) (rmax cross : Z) : bool :=
  distinct (map gname subs) && distinct (flat_map (fun s => map bid (backends (gbrr s))) subs) &&
  (0 <? gtotal (ginit subs rmax cross)) &&
  Nat.leb (length (filter (fun s => gweight s >=? 0) subs)) 2 &&
  (0 <=? rmax) && (rmax <=? 3) && (0 <=? cross) && (cross <=? 2).
Definition run_with (i : val) (hs : list Z) : option (list (val * option (Z * res))) :=
  match i with
  | VL [VL [VZ 7; VL sv; VZ rmax; VZ cross]; VL ops] =>
    match all_some (map dec_gsub sv) with
    | Some subs => if wf_gcluster subs rmax cross then run_gops hc_default (ginit subs rmax cross) ops hs else None
    | None => None
    end
  | VL [c; VL ops] =>
    match dec_conf c with
    | Some conf => if distinct (map fst conf) then run_ops (init conf) ops hs else None
    | None => None
    end
  | _ => None
  end.

Definition run_C05 (i : val) : val :=
  match run_with i [] with Some l => VL (map fst l) | None => VErr 0 end.

(* hashes reported by the implementation side, in op order *)
Definition hashes_of (o : val) : list Z :=
  match o with
  | VL l => flat_map (fun v => match v with VL (VZ h :: _ :: _ :: _) => [h] | _ => [] end) l
  | _ => []
  end.
(* a model result [0 id1 id2 ..] accepts the observation [0 id] when id is one of them *)
Definition res_agree (m o : val) : bool :=
  match m, o with
  | VL (VZ 0 :: ids), VL [VZ 0; VZ x] => existsb (fun v => val_eqb v (VZ x)) ids
  | _, _ => val_eqb m o
  end.
Definition obs_agree (m o : val) : bool :=
  match m, o with
  | VL (h :: r :: st), VL (h' :: r' :: st') => val_eqb h h' && res_agree r r' && val_eqb (VL st) (VL st')
  | _, _ => val_eqb m o
  end.
Fixpoint all2 (f : val -> val -> bool) (a b : list val) : bool :=
  match a, b with
  | [], [] => true
  | x :: a', y :: b' => f x y && all2 f a' b'
  | _, _ => false
  end.
Definition is_ambig (m : val) : bool :=
  match m with VL (_ :: VL [VZ (-1); VZ 99] :: _) => true | _ => false end.
Fixpoint all2m (a b : list val) : bool :=
  match a, b with
  | [], [] => true
  | x :: a', y :: b' => if is_ambig x then true else obs_agree x y && all2m a' b'
  | _, _ => false
  end.
Definition agree_C05 (i o : val) : bool :=
  match run_with i (hashes_of o), o with
  | Some l, VL ol => all2m (map fst l) ol
  | None, _ => val_eqb o (VErr 0)
  | _, _ => false
  end.

(* THE PROPERTY on the implementation's observations: every Balance returned a backend or an error
   (no panic [-2], no non-return [-3]). *)
Definition returns (r : val) : bool :=
  match r with
  | VL (VZ 0 :: VZ _ :: _) => true       (* a backend (the model lists every admissible one) *)
  | VL [VZ (-1); VZ _] => true           (* an error *)
  | _ => false
  end.
Definition obs_ok (v : val) : bool :=
  match v with
  | VL (_ :: r :: _ :: _) => returns r
  | _ => true
  end.
Definition prop_C05 (i o : val) : bool :=
  match o with
  | VL ol => forallb obs_ok ol
  | _ => false
  end.

(* classes of non-returning calls, decided by the model alone; all three were defects of the code before /repo commit
   "fix: BalanceRR simpleBalance never spins or panics ..." and cannot occur any more (no finding is listed, so a
   non-zero class with a failing prop is reported as a violation):
   1 = WrrSimple panics   2 = WrrSimple does not return   3 = WlcSimple panics *)
Fixpoint first_bad (l : list (val * option (Z * res))) : Z :=
  match l with
  | [] => 0
  | (_, Some (algo, RPanic)) :: r => if algo =? 0 then 1 else 3
  | (_, Some (_, RFuel)) :: r => 2
  | _ :: r => first_bad r
  end.
Definition kf_C05 (i : val) : Z :=
  match run_with i [] with Some l => first_bad l | None => 0 end.
