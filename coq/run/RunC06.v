(* C06 wire functions.
   input : [ft st ops]   initial thresholds and ops
     [1 n] ReqFail (n concurrent OnFail)   [2] ReqSucc (OnSuccess)   [3] CheckOk   [4] CheckFail
     [5] Release                           [6 ft st] thresholds change (ft >= 1000000: no check conf)
     [8] the whole cluster is removed: no check conf any more and Release
   output: per op [avail failNum succNum pending restarted live]   (live = goroutines inside health_check.go:check)
     (pending = health-check requests of this backend currently outstanding at the check target) *)
From Coq Require Import List ZArith Bool.
From Bfe Require Import lib.Val model.Health.
Import ListNotations.
Open Scope Z_scope.

Definition dec_hop (v : val) : option hop :=
  match v with
  | VL [VZ 1; VZ n] => if (1 <=? n) && (n <=? 16) then Some (ReqFail n) else None
  | VL [VZ 2] => Some ReqSucc
  | VL [VZ 3] => Some CheckOk
  | VL [VZ 4] => Some CheckFail
  | VL [VZ 5] => Some Release
  | VL [VZ 6; VZ ft; VZ st] => Some (SetThr ft st)
  | VL [VZ 8] => Some RemoveCluster
  | _ => None
  end.
Definition dec_input (i : val) : option (Z * Z * list hop) :=
  match i with
  | VL [VZ ft; VZ st; VL ops] =>
    match all_some (map dec_hop ops) with Some l => Some (ft, st, l) | None => None end
  | _ => None
  end.
Definition enc_h (s : hstate) : val :=
  VL [vbool (avail s); VZ (failN s); VZ (succN s); VZ (checkers s); vbool (restarted s); VZ (checkers s)].
Definition run_C06 (i : val) : val :=
  match dec_input i with
  | Some (ft, st, ops) => VL (map enc_h (hrun (h_init ft st) ops))
  | None => VErr 0
  end.
Definition agree_C06 (i o : val) : bool := val_eqb (run_C06 i) o.

Definition dec_obs (v : val) : option (bool * Z) :=
  match v with
  | VL [VZ a; VZ _; VZ _; VZ p; VZ _; VZ live] => if p =? live then Some (negb (a =? 0), live) else None
  | _ => None
  end.
Definition prop_C06 (i o : val) : bool :=
  match dec_input i, o with
  | Some (ft, st, ops), VL ol =>
    match all_some (map dec_obs ol) with
    | Some obs => (length ops =? length obs)%nat && mon_run (mon_init ft st) (combine ops obs)
    | None => false
    end
  | _, _ => false
  end.
Definition kf_C06 (i : val) : Z := 0.
