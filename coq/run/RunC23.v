(* Wire functions for C23 (chunked transfer coding).
   [1 wire [rd sizes] [piece sizes]] -> [data errcode consumed errcode2]    decode until error, then 2 more Reads
   [2 [chunk ...]]                   -> wire                       encode
   [3 line]                          -> [n] | [-1 code]            parseHexUint *)
From Coq Require Import List ZArith Bool.
From Bfe Require Import lib.Val lib.Bytes model.Chunked.
Import ListNotations.
Open Scope Z_scope.

Definition dec_obs (wire : bytes) (r : bytes * Z * bytes) : val :=
  let '(d, e, rest) := r in
  (* the last field: further Reads return (0, cr.err) - first branch of cr_read - so the same code again *)
  VL [VB d; VZ e; VZ (if e =? 1 then blen wire - blen rest else 0); VZ e].

Definition run_C23 (i : val) : val :=
  match i with
  | VL [VZ 1; VB wire; sizes; _pieces] =>
    match as_LZ sizes with
    | Some szs => dec_obs wire (decode_all szs wire)
    | None => VErr 0
    end
  | VL [VZ 2; chunks] =>
    match as_LB chunks with Some cs => VB (encode_chunks cs) | None => VErr 0 end
  | VL [VZ 3; VB line] =>
    let '(n, e) := parse_hex line in if e =? 0 then VL [VZ n] else VErr e
  | _ => VErr 0
  end.

Definition agree_C23 (i o : val) : bool := val_eqb (run_C23 i) o.

(* The property, from the specification (reference decoder ref_decode_all / size-line grammar), evaluated on
   what the implementation returned. *)
Definition prop_C23 (i o : val) : bool :=
  match i with
  | VL [VZ 1; VB wire; _; _] =>
    (* the decoder delivers exactly the reference data; it ends cleanly (io.EOF, having consumed exactly the
       chunks and the last-chunk line) iff the wire is a well-formed chunked body; otherwise a real error *)
    let '(d, ok, rest) := ref_decode_all wire in
    match o with
    | VL [VB d'; VZ e; VZ c; VZ e2] =>
      bytes_eqb d d' && negb (e =? 0) && Bool.eqb ok (e =? 1) &&
      (if ok then c =? blen wire - blen rest else true) && (e2 =? e)   (* and the outcome is sticky *)
    | _ => false
    end
  | VL [VZ 2; chunks] =>
    (* the encoder output is a well-formed chunked body that decodes to the concatenation, nothing left over *)
    match as_LB chunks, o with
    | Some cs, VB w =>
      let '(d, ok, rest) := ref_decode_all w in
      bytes_eqb d (concat cs) && ok && match rest with [] => true | _ => false end
    | _, _ => false
    end
  | VL [VZ 3; VB line] =>
    (* a size is accepted iff it is 1..16 hex digits, with its value *)
    if size_ok line then val_eqb o (VL [VZ (hex_value line)])
    else match o with VL [VZ (-1); VZ e] => negb (e =? 0) | _ => false end
  | _ => false
  end.

(* all three classes found in the original code were repaired in /repo (see known_findings/C23.txt) *)
Definition kf_C23 (i : val) : Z := 0.
