(* C01 wire functions.
   input : [ conf ops ]   conf = [[id w] ...] (unscaled configured weights, list order = conf order)
           ops  = [0 k]      k calls of BalanceRR.Balance(WrrSmooth)        -> observation [p1 .. pk] (id, -1 = error)
                | [1 conf]   BalanceRR.Update(conf)                          -> observation []
                | [2 id b]   SetAvail(b) on the backend with that id         -> observation []
                | [3 t]      BalanceRR.SetSlowStart(t seconds)               -> observation []
                | [4 id e]   clock seam: e ms have passed since the slow-start ramp of backend id began -> []
                | [5 id]     SetRestart(true) on backend id                  -> observation []
   Inputs without operations 3..5 are evaluated by the plain model (run_ops / check_ops / spec_ops); inputs with them
   by the slow-start extension (run2 / check2 / spec2), which coincides with the plain one while slow start is off.
   output: list of the per-operation observations. *)
From Coq Require Import List ZArith Bool.
From Bfe Require Import lib.Val model.Swrr.
Import ListNotations.
Open Scope Z_scope.

Definition dec_pair (v : val) : option (Z * Z) :=
  match v with VL [VZ a; VZ b] => Some (a, b) | _ => None end.
Definition dec_conf (v : val) : option (list (Z * Z)) :=
  match v with VL l => all_some (map dec_pair l) | _ => None end.
Definition max_k : Z := 5000.
Definition dec_op (v : val) : option op :=
  match v with
  | VL [VZ 0; VZ k] => if (0 <=? k) && (k <=? max_k) then Some (OPick (Z.to_nat k)) else None
  | VL [VZ 1; c] => match dec_conf c with Some conf => Some (OUpdate conf) | None => None end
  | VL [VZ 2; VZ id; VZ b] => Some (OAvail id (negb (b =? 0)))
  | VL [VZ 3; VZ t] => if (0 <=? t) && (t <=? 1000000) then Some (OSetSS t) else None
  | VL [VZ 4; VZ id; VZ e] => if (0 <=? e) && (e <=? 10^11) then Some (OElapsed id e) else None
  | VL [VZ 5; VZ id] => Some (ORestart id)
  | VL [VZ 6; VZ id; VZ n] => Some (OConn id n)
  | _ => None
  end.
Definition dec_in (v : val) : option (list (Z * Z) * list op) :=
  match v with
  | VL [c; VL ops] =>
    match dec_conf c, all_some (map dec_op ops) with
    | Some conf, Some os => Some (conf, os)
    | _, _ => None
    end
  | _ => None
  end.
Definition dec_out (v : val) : option (list (list Z)) :=
  match v with VL l => all_some (map as_LZ l) | _ => None end.

Definition run_C01 (i : val) : val :=
  match dec_in i with
  | Some (conf, ops) =>
    if existsb is_ss_op ops then VL (map vLZ (run2 smooth (0, init2 conf) ops))
    else VL (map vLZ (run_ops (init conf) ops))
  | None => VErr 0
  end.
(* trace validation: every implementation pick holds a maximal current in the model state that is
   advanced with the implementation's own picks *)
Definition agree_C01 (i o : val) : bool :=
  match dec_in i, dec_out o with
  | Some (conf, ops), Some obs =>
    if existsb is_ss_op ops then check2 smooth_follow (0, init2 conf) ops obs
    else check_ops (init conf) ops obs
  | _, _ => false
  end.
(* the property: in every stable segment every window of A = sum of eligible weights consecutive picks
   contains each eligible backend exactly weight-many times *)
Definition prop_C01 (i o : val) : bool :=
  match dec_in i, dec_out o with
  | Some (conf, ops), Some obs =>
    if existsb is_ss_op ops then spec2 (0, init2 conf) None [] ops obs
    else spec_ops (cfg_init conf) [] ops obs
  | _, _ => false
  end.
Definition kf_C01 (i : val) : Z :=
  match dec_in i with
  | Some (conf, ops) =>
    if existsb is_ss_op ops then (if carried2 (0, init2 conf) None ops then 1 else 0)
    else if carried (init conf) ops then 1 else 0
  | None => 0
  end.
