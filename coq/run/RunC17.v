(* C17 wire functions.  Three operations:
   [1 VB text]                       condition.Build(text) on arbitrary bytes: the model only says "ok or error"
   [2 VB name; args; oracle]         Build of the single call name(args) (args of any kind, any count)
   [3 toks; calls; oracle]           Build of a composite expression; toks as in C16 (atom n = calls[n]);
                                     calls[n] = VL [VB name; args] (a call) or VL [VB name] (a bare identifier)
   [4 VB text; oracle]               condition.Build(text) on ASCII text: scanner + grammar + builders are modelled
                                     (model/CondScan.v); the model predicts ok / error exactly
   output: VZ 0 = a condition was returned, VZ 1 = an error was returned ([-2] panic / [-3] hang otherwise) *)
From Coq Require Import List ZArith Bool.
From Bfe Require Import lib.Val lib.Bytes gen.CondProtos model.CondParse model.CondPrim model.CondScan run.RunC16.
Import ListNotations.
Open Scope Z_scope.
Local Open Scope list_scope.

Definition built (o : option cond) : Z := match o with Some _ => 0 | None => 1 end.

Definition dec_call (v : val) : option (bytes * option (list arg)) :=
  match v with
  | VL [VB name] => Some (name, None)
  | VL [VB name; args] => match dec_args args with Some a => Some (name, Some a) | None => None end
  | _ => None
  end.

Fixpoint atoms_of (e : expr) : list nat :=
  match e with
  | Atom n => [n]
  | Not a => atoms_of a
  | And a b | Or a b => atoms_of a ++ atoms_of b
  end.

(* Build of a composite: syntax error, or an identifier (unresolved variable), or a failing primitive => error *)
Definition build_composite (x : ext) (ts : list tok) (calls : list (bytes * option (list arg))) : Z :=
  match parse src_table ts with
  | None => 1
  | Some e =>
    if forallb (fun n => match nth_error calls n with
                         | Some (name, Some args) => built (build_call x name args) =? 0
                         | _ => false
                         end) (atoms_of e)
    then 0 else 1
  end.

Inductive op17 :=
| ORaw (text : bytes)
| OCall (x : ext) (name : bytes) (args : list arg)
| OComp (x : ext) (ts : list tok) (calls : list (bytes * option (list arg)))
| OText (x : ext) (text : bytes).

Definition decode_C17 (i : val) : option op17 :=
  match i with
  | VL [VZ 1; VB text] => Some (ORaw text)
  | VL [VZ 2; VB name; args; orc] =>
    match dec_args args, dec_ext orc with
    | Some a, Some x => Some (OCall x name a)
    | _, _ => None
    end
  | VL [VZ 4; VB text; orc] =>
    match dec_ext orc with
    | Some x => if ascii_text text then Some (OText x text) else None
    | None => None
    end
  | VL [VZ 3; VL toks; VL calls; orc] =>
    match all_some (map (fun v => match v with VZ z => tok_of_Z z | _ => None end) toks),
          all_some (map dec_call calls), dec_ext orc with
    | Some ts, Some cs, Some x =>
      (* every atom must name an entry of calls *)
      if forallb (fun k => match k with TAtom n => Nat.ltb n (length cs) | _ => true end) ts
      then Some (OComp x ts cs) else None
    | _, _, _ => None
    end
  | _ => None
  end.

(* model output: VZ 0 / VZ 1, or VL [] when the model leaves the choice open (raw text) *)
Definition run_C17 (i : val) : val :=
  match decode_C17 i with
  | Some (ORaw _) => VL []
  | Some (OCall x name a) => VZ (built (build_call x name a))
  | Some (OComp x ts cs) => VZ (build_composite x ts cs)
  | Some (OText x text) => VZ (build_text (build_composite x) text)
  | None => VErr 0
  end.
Definition total_obs (o : val) : bool := val_eqb o (VZ 0) || val_eqb o (VZ 1).
Definition agree_core (i o : val) : bool :=
  match run_C17 i with
  | VL [] => total_obs o
  | m => val_eqb m o
  end.
(* the oracle columns were produced by the real bfe_util.ParseTime / ParseTimeOfDay: on plain texts they must equal
   the model of these two functions (model/CondScan.v) *)
Definition oracle_of (i : val) : val :=
  match i with
  | VL [VZ 2; _; _; orc] | VL [VZ 3; _; _; orc] | VL [VZ 4; _; orc] => orc
  | _ => VL []
  end.
Definition agree_C17 (i o : val) : bool := agree_core i o && time_rows_ok (oracle_of i).

(* ---- the property, from its text: never panics or hangs; unknown primitives, wrong argument counts or types,
   unresolved variables and invalid primitive arguments (IPs, regexps, hash ranges, times) are rejected *)
Inductive vclass := VNone | VIpList | VIpRange | VRegex | VHash | VTime | VPeriodic | VHostList.
(* which validation a documented primitive applies to its pattern arguments (by documented name) *)
Definition ends_with (suffix : bytes) (s : bytes) : bool := is_suffix suffix s.
Definition vclass_of (name : bytes) : vclass :=
  if bytes_eqb name ((* "req_vip_in" *) [114;101;113;95;118;105;112;95;105;110]) then VIpList
  else if bytes_eqb name ((* "req_host_in" *) [114;101;113;95;104;111;115;116;95;105;110]) then VHostList
  else if bytes_eqb name ((* "bfe_time_range" *) [98;102;101;95;116;105;109;101;95;114;97;110;103;101]) then VTime
  else if bytes_eqb name ((* "bfe_periodic_time_range" *) [98;102;101;95;112;101;114;105;111;100;105;99;95;116;105;109;101;95;114;97;110;103;101]) then VPeriodic
  else if ends_with ((* "ip_range" *) [105;112;95;114;97;110;103;101]) name then VIpRange
  else if ends_with ((* "_regmatch" *) [95;114;101;103;109;97;116;99;104]) name then VRegex
  else if ends_with ((* "_hash_in" *) [95;104;97;115;104;95;105;110]) name then VHash
  else VNone.
(* the pattern argument of *_regmatch / *_hash_in: documented signatures are (pattern ...) or, for the
   *_value_* primitives, (key, pattern ...) *)
Definition pat_pos (name : bytes) : Z := if contains (* "_value_" *) [95;118;97;108;117;101;95] name then 1 else 0.
Definition invalid_args (x : ext) (c : vclass) (pp : Z) (args : list arg) : bool :=
  let sp := arg_str (nth_arg args pp) in
  let s0 := arg_str (nth_arg args 0) in
  let s1 := arg_str (nth_arg args 1) in
  let s2 := arg_str (nth_arg args 2) in
  match c with
  | VNone => false
  | VIpList => existsb (fun p => match x_ip x p with Some _ => false | None => true end) (split_bar s0)
  | VHostList => existsb (fun p => existsb (Z.eqb 58) p) (split_bar s0)        (* a port in a host pattern *)
  | VIpRange =>
    match x_ip x s0, x_ip x s1 with
    | Some (s, v4s), Some (e, v4e) => negb (Bool.eqb v4s v4e) || negb (bytes_le s e)
    | _, _ => true
    end
  | VRegex => negb (x_re_ok x sp)
  | VHash => existsb (fun sec => match hash_section sec with Some _ => false | None => true end)
                     (split_bar sp)
  | VTime =>
    match x_time x s0, x_time x s1 with
    | Some s, Some e => e <? s
    | _, _ => true
    end
  | VPeriodic =>
    match s2, x_tod x s0, x_tod x s1 with
    | [], Some (s, o1), Some (e, o2) => (e <? s) || negb (o1 =? o2)
    | _, _, _ => true
    end
  end.
Definition must_reject (x : ext) (name : bytes) (args : list arg) : bool :=
  negb (prototype_check protos name (map fst args) =? 0)        (* unknown primitive, wrong count, wrong types *)
  || invalid_args x (vclass_of name) (pat_pos name) args.

Definition must_reject_comp (x : ext) (ts : list tok) (cs : list (bytes * option (list arg))) : bool :=
  match parse doc_table ts with
  | None => true                                                  (* not an expression of the documented grammar *)
  | Some e => existsb (fun n => match nth_error cs n with
                                | Some (name, Some args) => must_reject x name args
                                | _ => true                       (* bare identifier: unresolved variable *)
                                end) (atoms_of e)
  end.

Definition prop_C17 (i o : val) : bool :=
  match decode_C17 i with
  | Some (ORaw _) => total_obs o
  | Some (OCall x name a) => val_eqb o (VZ (if must_reject x name a then 1 else 0))
  | Some (OComp x ts cs) => val_eqb o (VZ (if must_reject_comp x ts cs then 1 else 0))
  | Some (OText _ _) => total_obs o
  | None => true
  end.
(* inputs on which the model is deterministic: everything except raw (possibly non-ASCII) bytes *)
Definition wf_C17 (i : val) : bool :=
  match decode_C17 i with
  | Some (ORaw _) | None => false
  | Some _ => true
  end.
Definition kf_C17 (i : val) : Z := 0.
