(* C30 wire functions.
   input : VL [VZ L; VL ops]     L = negotiated table size limit (SETTINGS_HEADER_TABLE_SIZE)
           op = VL [VZ 0; VB name; VB value; VZ sensitive]   Encoder.WriteField
              | VL [VZ 1; VZ v]                              Encoder.SetMaxDynamicTableSize(v)
              | VL [VZ 2]                                    end of header block: Decoder.Write(block); Close()
              | VL [VZ 2; VZ k]                              the same, but the receiver calls SetEmitEnabled(false)
                                                             after k emitted fields (re-enabled for the next block)
   output: VL of one record per block:
           VL [VB block; VL decoded fields; VZ status; VZ encSize; VZ encMax; VZ decSize; VZ decMax] *)
From Coq Require Import List ZArith Bool.
From Bfe Require Import lib.Val lib.Bytes model.Huffman model.Hpack.
Import ListNotations.
Open Scope Z_scope.

Inductive op := OWrite (f : field) | OSetMax (v : Z) | OEnd | OEndB (k : Z).
Definition val_op (v : val) : option op :=
  match v with
  | VL [VZ 0; VB n; VB x; VZ s] => Some (OWrite (mkF n x (negb (s =? 0))))
  | VL [VZ 1; VZ m] => Some (OSetMax m)
  | VL [VZ 2] => Some OEnd
  | VL [VZ 2; VZ k] => Some (OEndB k)
  | _ => None
  end.

(* encoder and decoder set up as an HTTP/2 endpoint pair: protocol default 4096, limit L on both sides *)
Definition init_enc (L : Z) : option enc := enc_set_limit new_encoder L.
Definition init_dec (L : Z) : dec := mkD (mkDT [] 0 4096 L) [] true.

Definition block_record (blk : bytes) (fs : list field) (st : Z) (e : enc) (d : dec) : val :=
  VL [VB blk; fields_val fs; VZ st; VZ (dsize (edt e)); VZ (dmax (edt e)); VZ (dsize (ddt d)); VZ (dmax (ddt d))].

(* None = the model panics *)
Fixpoint run_ops (hd : bytes -> hres) (ops : list op) (e : enc) (d : dec) (blk : bytes) (out : list val)
  : option (list val) :=
  match ops with
  | [] => Some (rev out)
  | OWrite f :: r =>
    match enc_write e f with
    | Some (e', b) => run_ops hd r e' d (blk ++ b) out
    | None => None
    end
  | OSetMax v :: r =>
    match enc_set_max e v with
    | Some e' => run_ops hd r e' d blk out
    | None => None
    end
  | OEnd :: r =>
    let '(d', fs, st) := dec_run hd d [blk] [] in
    if st =? ST_PANIC then None
    else run_ops hd r e d' [] (block_record blk fs st e d' :: out)
  | OEndB k :: r =>
    let '(d', fs, st) := dec_run_e hd 0 d k [blk] [] in
    if st =? ST_PANIC then None
    else run_ops hd r e d' [] (block_record blk fs st e d' :: out)
  end.

Definition decode_input (i : val) : option (Z * list op) :=
  match i with
  | VL [VZ L; VL ops] => match all_some (map val_op ops) with Some l => Some (L, l) | None => None end
  | _ => None
  end.

Definition run_C30_hd (hd : bytes -> hres) (i : val) : val :=
  match decode_input i with
  | Some (L, ops) =>
    match init_enc L with
    | Some e => match run_ops hd ops e (init_dec L) [] [] with
                | Some out => VL out
                | None => VL [VZ (-2)]
                end
    | None => VL [VZ (-2)]
    end
  | None => VErr 0
  end.
(* the model: Huffman strings are decoded by the RFC bit-level decoder (functional model of huffmanDecode) *)
Definition run_C30 (i : val) : val := run_C30_hd huff_decode_spec i.
(* the implementation must agree with the model, and so must the transcription of the byte-trie decoder *)
Definition agree_C30 (i o : val) : bool := val_eqb (run_C30 i) o && val_eqb (run_C30_hd huff_decode i) o.

(* THE PROPERTY on the implementation's observation: every block decodes, without error, to exactly the
   fields written into it (name, value, never-index flag), and both tables stay within their maximum and
   within the negotiated limit L. *)
Fixpoint expected_blocks (ops : list op) (cur : list field) : list (list field) :=
  match ops with
  | [] => []
  | OWrite f :: r => expected_blocks r (cur ++ [f])
  | OSetMax _ :: r => expected_blocks r cur
  | OEnd :: r => cur :: expected_blocks r []
  | OEndB k :: r => take_b k cur :: expected_blocks r []      (* only the first k fields are emitted *)
  end.
Definition block_ok (L : Z) (want : list field) (rec : val) : bool :=
  match rec with
  | VL [VB _; fsv; VZ st; VZ es; VZ em; VZ ds; VZ dm] =>
    match val_fields fsv with
    | Some fs => fields_eqb fs want && (st =? 0)
                 && (0 <=? es) && (es <=? em) && (em <=? L) && (0 <=? ds) && (ds <=? dm) && (ds <=? L)
    | None => false
    end
  | _ => false
  end.
Fixpoint blocks_ok (L : Z) (want : list (list field)) (recs : list val) : bool :=
  match want, recs with
  | [], [] => true
  | w :: want', r :: recs' => block_ok L w r && blocks_ok L want' recs'
  | _, _ => false
  end.
Definition prop_C30 (i o : val) : bool :=
  match decode_input i, o with
  | Some (L, ops), VL recs => blocks_ok L (expected_blocks ops []) recs
  | _, _ => false
  end.
Definition kf_C30 (i : val) : Z := 0.

(* executable well-formedness of inputs: limit in uint32, bytes in range, strings below 2^61 bytes (always true for
   wire inputs), SetMaxDynamicTableSize values non-negative and only before the first field of a block
   (the HTTP/2 layer applies SETTINGS between header blocks; RFC 7541 4.2) *)
Definition wf_field_b (f : field) : bool :=
  wf_bytes (fname f) && wf_bytes (fvalue f) && (blen (fname f) <? 2 ^ 61) && (blen (fvalue f) <? 2 ^ 61).
Fixpoint wf_ops_b (ops : list op) (started : bool) : bool :=
  match ops with
  | [] => true
  | OWrite f :: r => wf_field_b f && wf_ops_b r true
  | OSetMax v :: r => (0 <=? v) && negb started && wf_ops_b r started
  | OEnd :: r => wf_ops_b r false
  | OEndB _ :: r => wf_ops_b r false
  end.
Definition wf_C30 (i : val) : bool :=
  match decode_input i with
  | Some (L, ops) => (0 <=? L) && (L <=? uint32_max) && wf_ops_b ops false
  | None => false
  end.
