From Coq Require Import List ZArith Bool.
From Bfe Require Import lib.Val lib.Bytes model.BasicRoute.
Import ListNotations.
Open Scope Z_scope.

(* input : [ VZ mode; rules; queries ]   rules = [[VL hosts; VL paths; VB cluster] ...]   queries = [[VB host; VB path] ...]
     mode 0: the rules go through the loader (route_rule_conf.RouteConfLoad: checks + Insert)
     mode 1: NewBasicRouteRuleTree + BasicRouteRuleTree.Insert per rule, WITHOUT the loader's checks
   output: VErr 1 when the loader rejects the rule set (mode 0), VErr 2 when an Insert fails (mode 1),
           else [ r ... ] with r = [VB cluster] (found) or [] (miss) *)
Definition dec_rule (v : val) : option rule :=
  match v with
  | VL [hs; ps; VB c] =>
    match as_LB hs, as_LB ps with Some h, Some p => Some (mkRule h p c) | _, _ => None end
  | _ => None
  end.
Definition dec_pair (v : val) : option (bytes * bytes) :=
  match v with VL [VB a; VB b] => Some (a, b) | _ => None end.
Definition dec_list {A} (f : val -> option A) (v : val) : option (list A) :=
  match v with VL l => all_some (map f l) | _ => None end.
Definition enc_res (r : option bytes) : val := match r with Some c => VL [VB c] | None => VL [] end.

Definition dec_C11 (i : val) : option (bool * list rule * list (bytes * bytes)) :=
  match i with
  | VL [VZ m; rs; qs] =>
    match dec_list dec_rule rs, dec_list dec_pair qs with
    | Some rules, Some queries =>
      if m =? 0 then Some (false, rules, queries) else if m =? 1 then Some (true, rules, queries) else None
    | _, _ => None
    end
  | _ => None
  end.
Definition wf_C11 (i : val) : bool := match dec_C11 i with Some _ => true | None => false end.
Definition enc_answers (f : bytes -> bytes -> option bytes) (queries : list (bytes * bytes)) : val :=
  VL (map (fun q => enc_res (f (fst q) (snd q))) queries).
Definition run_C11 (i : val) : val :=
  match dec_C11 i with
  | Some (direct, rules, queries) =>
    if direct then
      match insert_all rules with Some t => enc_answers (tree_get t) queries | None => VErr 2 end
    else
      match load_rules rules with Some t => enc_answers (tree_get t) queries | None => VErr 1 end
  | None => VErr 0
  end.
Definition agree_C11 (i o : val) : bool := val_eqb (run_C11 i) o.
(* the property: for a rule set that passes the loader's checks every observed answer is the documented choice
   (host class exact > single-label wildcard > any, no cross-class fallback; path exact > longest prefix > any),
   computed from the rule list alone.  Rejected rule sets (observation = error) and, in direct mode, rule sets the
   loader's checks would refuse carry no obligation on lookups. *)
Definition prop_C11 (i o : val) : bool :=
  match dec_C11 i with
  | Some (direct, rules, queries) =>
    match o with
    | VL [VZ (-1); VZ _] => true
    | _ => if direct && negb (forallb check_rule rules) then true
           else val_eqb o (enc_answers (doc_route rules) queries)
    end
  | None => false
  end.
Definition kf_C11 (i : val) : Z := 0.
