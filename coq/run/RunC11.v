From Coq Require Import List ZArith Bool.
From Bfe Require Import lib.Val lib.Bytes model.BasicRoute.
Import ListNotations.
Open Scope Z_scope.

(* input : [ rules queries ]   rules = [[VL hosts; VL paths; VB cluster] ...]   queries = [[VB host; VB path] ...]
   output: VErr 1 when the loader rejects the rule set, else [ r ... ] with r = [VB cluster] (found) or [] (miss) *)
Definition dec_rule (v : val) : option rule :=
  match v with
  | VL [hs; ps; VB c] =>
    match as_LB hs, as_LB ps with Some h, Some p => Some (mkRule h p c) | _, _ => None end
  | _ => None
  end.
Definition dec_pair (v : val) : option (bytes * bytes) :=
  match v with VL [VB a; VB b] => Some (a, b) | _ => None end.
Definition dec_list {A} (f : val -> option A) (v : val) : option (list A) :=
  match v with VL l => all_some (map f l) | _ => None end.
Definition enc_res (r : option bytes) : val := match r with Some c => VL [VB c] | None => VL [] end.

Definition dec_C11 (i : val) : option (list rule * list (bytes * bytes)) :=
  match i with
  | VL [rs; qs] =>
    match dec_list dec_rule rs, dec_list dec_pair qs with
    | Some rules, Some queries => Some (rules, queries)
    | _, _ => None
    end
  | _ => None
  end.
Definition run_C11 (i : val) : val :=
  match dec_C11 i with
  | Some (rules, queries) =>
    match load_rules rules with
    | Some t => VL (map (fun q => enc_res (tree_get t (fst q) (snd q))) queries)
    | None => VErr 1
    end
  | None => VErr 0
  end.
Definition agree_C11 (i o : val) : bool := val_eqb (run_C11 i) o.
(* the property: for an accepted rule set every observed answer is the documented choice
   (host class exact > single-label wildcard > any, no cross-class fallback; path exact > longest prefix > any),
   computed from the rule list alone.  Rejected rule sets carry no obligation on lookups. *)
Definition prop_C11 (i o : val) : bool :=
  match dec_C11 i with
  | Some (rules, queries) =>
    match o with
    | VL [VZ (-1); VZ _] => true
    | _ => val_eqb o (VL (map (fun q => enc_res (doc_route rules (fst q) (snd q))) queries))
    end
  | None => false
  end.
Definition kf_C11 (i : val) : Z := 0.
