From Coq Require Import List ZArith Bool.
From Bfe Require Import lib.Val lib.Bytes model.StaticFile.
Import ListNotations.
Open Scope Z_scope.

(* input : [VB method; VB urlPath; VB acceptEncoding; VL root elems; VB defaultFile; VZ enableCompress;
            VL [ [VL path elems; VB content | VZ 0 (directory)] ... ]; VZ route; VB cmd]     (absolute paths; route: see static_handler;
            route 3: the BROWSE rule is written to a rule file with command cmd and loaded by the module's loader)
   output: [VZ status (-1 = handler lets the request go on); VB body; VB Content-Length header ("" = absent);
            VB Content-Encoding header; VL [FileBrowseNotExist increment; FileBrowseFallbackDefault increment;
            FileCurrentOpened gauge after the response body was read and closed; rule file loaded (route 3, else 0)]] *)
Definition dec_node (v : val) : option node :=
  match v with VB c => Some (NFile c) | VZ 0 => Some NDir | _ => None end.
Definition dec_entry (v : val) : option (list elem * node) :=
  match v with
  | VL [p; n] => match as_LB p, dec_node n with Some p', Some n' => Some (p', n') | _, _ => None end
  | _ => None
  end.
Definition dec_fs (v : val) : option fsys :=
  match v with VL l => all_some (map dec_entry l) | _ => None end.

Record input := { i_meth : bytes; i_name : bytes; i_ae : bytes; i_root : list elem; i_def : bytes;
                  i_compress : bool; i_fs : fsys; i_route : Z; i_cmd : bytes }.
Definition dec_input (v : val) : option input :=
  match v with
  | VL [VB m; VB n; VB ae; r; VB d; VZ c; f; VZ rt; VB cmd] =>
    match as_LB r, dec_fs f with
    | Some r', Some f' => Some {| i_meth := m; i_name := n; i_ae := ae; i_root := r'; i_def := d;
                                  i_compress := negb (c =? 0); i_fs := f'; i_route := rt; i_cmd := cmd |}
    | _, _ => None
    end
  | _ => None
  end.
Definition serve_input (x : input) : resp :=
  serve (i_fs x) (i_root x) (i_meth x) (i_name x) (i_ae x) (i_def x) (i_compress x).
Definition counters_input (x : input) : Z * Z :=
  counters (i_fs x) (i_root x) (i_meth x) (i_name x) (i_ae x) (i_def x) (i_compress x).
Definition loaded_input (x : input) : bool := (i_route x =? 3) && rule_file_ok (i_fs x) (i_root x) (i_def x) (i_cmd x).
(* the request is covered by a BROWSE rule *)
Definition handled (x : input) : bool := (i_route x =? 0) || loaded_input x.
Definition enc_resp (x : input) : val :=
  if handled x then
    let r := serve_input x in let '(ne, fb) := counters_input x in
    VL [VZ (r_status r); VB (r_body r); VB (r_clen r); VB (r_cenc r); VL [VZ ne; VZ fb; VZ 0; vbool (loaded_input x)]]
  else VL [VZ (-1); VB []; VB []; VB []; VL [VZ 0; VZ 0; VZ 0; VZ 0]].

Definition run_C50 (v : val) : val :=
  match dec_input v with Some x => enc_resp x | None => VErr 0 end.
Definition agree_C50 (i o : val) : bool := val_eqb (run_C50 i) o.

(* ---- the property, written from the statement of C50 over (input, observed response) ---- *)
Fixpoint path_prefix (p l : list elem) : bool :=
  match p, l with
  | [], _ => true
  | x :: p', y :: l' => bytes_eqb x y && path_prefix p' l'
  | _ :: _, [] => false
  end.
(* some regular file stored under the document root has exactly these bytes (is_get) and this length *)
Definition served_from_root (fs : fsys) (root : list elem) (is_get : bool) (body clen : bytes) : bool :=
  existsb (fun e => match e with
                    | (p, NFile c) => path_prefix root p && bytes_eqb clen (dec_of_Z (blen c))
                                      && (if is_get then bytes_eqb body c else bytes_eqb body [])
                    | _ => false
                    end) fs.
(* a request path "/e1/e2/.../en" without empty, dot, dot-dot, NUL or over-long elements *)
Definition plain_elem (e : elem) : bool :=
  negb (bytes_eqb e []) && negb (bytes_eqb e DOT) && negb (bytes_eqb e DOTDOT)
  && negb (existsb (Z.eqb 0) e) && (blen e <=? NAME_MAX).
Definition plain_path (name : bytes) : option (list elem) :=
  match split_byte SLASH name with
  | [] :: es => if forallb plain_elem es then Some es else None
  | _ => None
  end.
(* every ancestor directory of every entry is listed as a directory, and entries are plain *)
Fixpoint prefixes (p : list elem) : list (list elem) :=
  match p with [] => [] | e :: r => [] :: map (cons e) (prefixes r) end.     (* proper prefixes *)
Definition fs_closed (fs : fsys) : bool :=
  forallb (fun e => forallb (fun q => match fs_get fs q with Some NDir => true | _ => false end) (prefixes (fst e))
                    && forallb plain_elem (fst e)) fs.

Definition prop_resp (x : input) (st : Z) (body clen cenc : bytes) : bool :=
  let fs := i_fs x in let root := i_root x in
  let is_get := bytes_eqb (i_meth x) GET in
  if negb is_get && negb (bytes_eqb (i_meth x) HEAD) then
    (* only GET and HEAD are served *)
    (st =? 405) && bytes_eqb body [] && bytes_eqb clen []
  else
    (* whatever is served is a file under the document root, exact bytes, matching Content-Length *)
    (if st =? 200 then served_from_root fs root is_get body clen
     else ((st =? 404) || (st =? 500)) && bytes_eqb body [] && bytes_eqb clen [])
    &&
    (* plain paths, no pre-compressed lookup: the file at root/path is the one served; missing => 404 *)
    (match plain_path (i_name x) with
     | Some es =>
       if i_compress x || negb (fs_closed fs) || negb (forallb plain_elem root) then true else
       match fs_get fs (root ++ es) with
       | Some (NFile c) => (st =? 200) && bytes_eqb clen (dec_of_Z (blen c))
                           && (if is_get then bytes_eqb body c else bytes_eqb body [])
       | Some NDir => true
       | None => match i_def x with [] => st =? 404 | _ => true end
       end
     | None => true
     end).

(* ---- pre-compressed siblings (EnableCompress): which file may be served with which Content-Encoding *)
Definition DOTGZ : bytes := [46; 103; 122].
Definition DOTBR : bytes := [46; 98; 114].
(* some regular file under the root whose name ends with sufx has these bytes / this length *)
Definition served_suffix (fs : fsys) (root : list elem) (is_get : bool) (body clen sufx : bytes) : bool :=
  existsb (fun e => match e with
                    | (p, NFile c) => path_prefix root p && is_suffix sufx (last p []) && bytes_eqb clen (dec_of_Z (blen c))
                                      && (if is_get then bytes_eqb body c else bytes_eqb body [])
                    | _ => false
                    end) fs.
(* a Content-Encoding is announced only on a 200 answer, only when pre-compressed lookup is enabled, only gzip/br,
   only if the request's Accept-Encoding has that token, and the bytes are those of a *.gz / *.br file under the root *)
Definition prop_enc (x : input) (st : Z) (body clen cenc : bytes) : bool :=
  if bytes_eqb cenc [] then true
  else
    let is_get := bytes_eqb (i_meth x) GET in
    (st =? 200) && i_compress x
    && ((bytes_eqb cenc GZIP && has_token (i_ae x) GZIP && served_suffix (i_fs x) (i_root x) is_get body clen DOTGZ)
        || (bytes_eqb cenc BR && has_token (i_ae x) BR && served_suffix (i_fs x) (i_root x) is_get body clen DOTBR)).
(* the sibling of path es with extension ext: last element extended by "." ext *)
Definition sib (es : list elem) (ext : bytes) : list elem := removelast es ++ [last es [] ++ 46 :: ext].
(* first accepted encoding (gzip before br) whose sibling exists *)
Fixpoint spec_pick (fs : fsys) (root es : list elem) (cands : list (bytes * bytes)) : option (list elem * bytes) :=
  match cands with
  | [] => None
  | (enc, ext) :: r => match fs_get fs (root ++ sib es ext) with
                       | Some _ => Some (sib es ext, enc)
                       | None => spec_pick fs root es r
                       end
  end.
(* plain path with pre-compressed lookup on: the first existing sibling among the accepted encodings is served with
   that Content-Encoding; without one the file itself, without Content-Encoding; nothing there and no default => 404 *)
Definition prop_sibling (x : input) (st : Z) (body clen cenc : bytes) : bool :=
  let fs := i_fs x in let root := i_root x in
  let is_get := bytes_eqb (i_meth x) GET in
  if negb (is_get || bytes_eqb (i_meth x) HEAD) || negb (i_compress x) || negb (fs_closed fs)
     || negb (forallb plain_elem root) then true
  else match plain_path (i_name x) with
       | None => true
       | Some es =>
         let '(target, enc) := match spec_pick fs root es (accept_list (i_ae x)) with
                               | Some te => te | None => (es, []) end in
         match fs_get fs (root ++ target) with
         | Some (NFile c) => (st =? 200) && bytes_eqb clen (dec_of_Z (blen c)) && bytes_eqb cenc enc
                             && (if is_get then bytes_eqb body c else bytes_eqb body [])
         | Some NDir => true
         | None => match i_def x with [] => st =? 404 | _ => true end
         end
       end.

Definition prop_C50 (i o : val) : bool :=
  match dec_input i, o with
  | Some x, VL [VZ st; VB body; VB clen; VB cenc; VL [VZ ne; VZ fb; VZ opened; VZ loaded]] =>
    (* a rule file either fails to load or its rule is enforced: with route 3 the request is covered iff the file loaded *)
    if (i_route x =? 0) || ((i_route x =? 3) && negb (loaded =? 0)) then
      prop_resp x st body clen cenc && prop_enc x st body clen cenc && prop_sibling x st body clen cenc
      && (opened =? 0)                                   (* the served file is closed again *)
    else (st =? -1) && bytes_eqb body []                 (* no rule for the request: not handled here *)
  | _, _ => false
  end.
Definition kf_C50 (i : val) : Z := 0.
