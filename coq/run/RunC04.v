(* C04 wire functions.
   input : [ conf ops seed ]   (seed only seeds math/rand for WlcSimple in the harness; ignored here)
           conf = [[id w] ...] (configured weights)
           ops  = [0 m]     one Balance call, m = 4 WlcSmooth, m = 3 WlcSimple  -> observation id (-1 = error)
                | [1 id n]  connNum of backend id := n                            -> observation 0
                | [2 id b]  SetAvail(b) on backend id                             -> observation 0
   output: list of the per-operation observations.
         | [7 conf ops]   ONE BalanceRR, Balance(WlcSmooth) with slow start: conf = [[id w] ...], ops as in RunC01.v
           ([0 k] picks, [1 conf] Update, [2 id b] SetAvail, [3 t] SetSlowStart, [4 id e] clock seam, [5 id] SetRestart,
           [6 id n] connNum := n); output: per-op lists of picked ids (-1 = error)
         | [8 params subs ops]   BalanceGslb.Balance histories, same encoding and model as RunC03.v ([mode rmax cross],
           sub-clusters with backends, Balance / SetAvail / connNum operations; observation [code sub bid retry cross ecode]) *)
From Coq Require Import List ZArith Bool.
From Bfe Require Import lib.Val model.Swrr model.Wlc.
From Bfe Require model.Gslb run.RunC03 run.RunC01.
Import ListNotations.
Open Scope Z_scope.

Definition dec_pair (v : val) : option (Z * Z) :=
  match v with VL [VZ a; VZ b] => Some (a, b) | _ => None end.
Definition dec_conf (v : val) : option (list (Z * Z)) :=
  match v with VL l => all_some (map dec_pair l) | _ => None end.
Definition dec_wop (v : val) : option wop :=
  match v with
  | VL [VZ 0; VZ m] => if m =? 4 then Some (WPick true) else if m =? 3 then Some (WPick false) else None
  | VL [VZ 1; VZ id; VZ n] => Some (WConn id n)
  | VL [VZ 2; VZ id; VZ b] => Some (WAvail id (negb (b =? 0)))
  | _ => None
  end.
Definition dec_in (v : val) : option (list (Z * Z) * list wop) :=
  match v with
  | VL [c; VL ops; VZ _] =>
    match dec_conf c, all_some (map dec_wop ops) with
    | Some conf, Some os => Some (conf, os)
    | _, _ => None
    end
  | _ => None
  end.

Definition dec8 (v : val) :=
  match v with VL [VZ 8; p; ss; ops] => RunC03.dec_in (VL [p; ss; ops]) | _ => None end.

Definition dec7 (v : val) : option (list (Z * Z) * list op) :=
  match v with
  | VL [VZ 7; c; VL ops] =>
    match RunC01.dec_conf c, all_some (map RunC01.dec_op ops) with
    | Some conf, Some os => Some (conf, os)
    | _, _ => None
    end
  | _ => None
  end.
Definition dec_out7 (v : val) : option (list (list Z)) :=
  match v with VL l => all_some (map as_LZ l) | _ => None end.

Definition run_C04 (i : val) : val :=
  match dec_in i with
  | Some (conf, ops) => vLZ (wrun (winit conf) ops)
  | None => match dec8 i with
            | Some (p, conf, ops) => VL (map RunC03.enc_obs (Gslb.grun p (Gslb.g_init conf) ops))
            | None => match dec7 i with
                      | Some (conf, ops) => VL (map vLZ (run7 (0, init2 conf) [] ops))
                      | None => VErr 0
                      end
            end
  end.
(* WlcSmooth: trace validation (the pick holds a maximal credit among the tied candidates, model state
   advanced with the implementation's picks); WlcSimple: membership in the candidate list *)
Definition agree_C04 (i o : val) : bool :=
  match dec_in i, as_LZ o with
  | Some (conf, ops), Some obs => wcheck (winit conf) ops obs
  | Some _, None => false
  | None, _ => match dec8 i, RunC03.dec_out o with
               | Some (p, conf, ops), Some os => Gslb.gcheck p (Gslb.g_init conf) ops os
               | Some _, None => false
               | None, _ => match dec7 i, dec_out7 o with
                            | Some (conf, ops), Some obs => check7 (0, init2 conf) [] ops obs
                            | _, _ => false
                            end
               end
  end.
(* the property: every pick is an eligible backend minimising connections/weight; error iff none eligible *)
Definition prop_C04 (i o : val) : bool :=
  match dec_in i, as_LZ o with
  | Some (conf, ops), Some obs => wspec (wc_init conf) ops obs
  | Some _, None => false
  (* through BalanceGslb: the returned backend is minimal (WLC) / the hash owner (sticky) in the reported sub-cluster *)
  | None, _ => match dec8 i, RunC03.dec_out o with
               | Some (p, conf, ops), Some os => Gslb.gspec8 p (Gslb.g_init conf) ops os
               | Some _, None => false
               (* slow start: minimal w.r.t. the CURRENT (ramped) weight *)
               | None, _ => match dec7 i, dec_out7 o with
                            | Some (conf, ops), Some obs => spec7 (0, init2 conf) [] ops obs
                            | _, _ => false
                            end
               end
  end.
Definition kf_C04 (i : val) : Z := 0.
