(* C33 wire functions.  input: [[isw maxStreams] [[op a b c d] ...]] ; output: per-step event lists + [panics]
   (format: harness/h2c33/engine.go).  prop_C33 is the client-side flow-control book-keeping of
   RFC 7540 6.9 applied to the implementation's own frames; it does not use the model. *)
From Coq Require Import List ZArith Bool.
From Bfe Require Import lib.Val model.H2Flow model.H2Stream.
Import ListNotations.
Open Scope Z_scope.

Definition run_C33 (i : val) : val := run_script i.
Definition agree_C33 (i o : val) : bool := val_eqb (run_C33 i) o.

(* ---------- the property, from the client's side ---------- *)
(* what the client knows about one of its streams *)
Record cstream := mkCS {
  k_id : Z;
  k_win : Z;        (* stream window as advertised to the client: isw - DATA lengths + WINDOW_UPDATEs *)
  k_unread : Z;     (* request-body octets accepted by the server and not yet read by the handler *)
  k_phase : Z;      (* 1 open, 2 half-closed by the client (END_STREAM sent), 3 closed *)
  k_run : bool;     (* handler still running *)
  k_decl : Z;       (* declared content-length or -1 *)
  k_sent : Z        (* accepted body octets so far *)
}.
Record cstate := mkK { k_conn : Z; k_sts : list cstream; k_stop : bool }.

Fixpoint kfind (id : Z) (l : list cstream) : option cstream :=
  match l with [] => None | x :: r => if k_id x =? id then Some x else kfind id r end.
Fixpoint kupd (s : cstream) (l : list cstream) : list cstream :=
  match l with [] => [] | x :: r => if k_id x =? k_id s then s :: r else x :: kupd s r end.

Definition ev_is (k s : Z) (e : evt) : bool := let '(k', s', _) := e in (k' =? k) && (s' =? s).
Definition ev_val (e : evt) : Z := let '(_, _, x) := e in x.
Definition ev_kind (k : Z) (e : evt) : bool := let '(k', _, _) := e in k' =? k.
Definition wu_of (obs : list evt) (sid : Z) : Z :=
  fold_right (fun e acc => if ev_is 1 sid e then ev_val e + acc else acc) 0 obs.
Definition has_rst (obs : list evt) (id : Z) : bool := existsb (ev_is 2 id) obs.
Definition rst_is (obs : list evt) (id code : Z) : bool := existsb (fun e => ev_is 2 id e && (ev_val e =? code)) obs.
Definition goaway_is (obs : list evt) (code : Z) : bool := existsb (fun e => ev_kind 4 e && (ev_val e =? code)) obs.
Definition ended (obs : list evt) : bool := existsb (fun e => ev_kind 4 e || ev_kind 5 e) obs.
Definition resp_end (obs : list evt) (id : Z) : bool := existsb (fun e => ev_is 3 id e && Z.odd (ev_val e)) obs.
Definition hres (obs : list evt) (id : Z) : option Z :=
  match filter (ev_is 6 id) obs with e :: _ => Some (ev_val e) | [] => None end.

Definition sum_unread (f : cstream -> bool) (l : list cstream) : Z :=
  fold_right (fun s acc => if f s then k_unread s + acc else acc) 0 l.

(* credit the WINDOW_UPDATEs of this step, close streams that were reset / answered *)
Definition credit (obs : list evt) (k : cstate) : cstate :=
  mkK (k_conn k + wu_of obs 0)
      (map (fun s => mkCS (k_id s) (k_win s + wu_of obs (k_id s)) (k_unread s)
                          (if has_rst obs (k_id s) || resp_end obs (k_id s) then 3 else k_phase s)
                          (k_run s) (k_decl s) (k_sent s)) (k_sts k))
      (k_stop k).

(* at every barrier: nothing over-refunded, nothing leaked, open streams exactly accounted *)
Definition balanced (isw : Z) (k : cstate) : bool :=
  (k_conn k + sum_unread (fun s => negb (k_phase s =? 3)) (k_sts k) <=? init_window) &&
  (init_window <=? k_conn k + sum_unread k_run (k_sts k)) &&
  forallb (fun s => negb (k_phase s =? 1) || (k_win s + k_unread s =? isw)) (k_sts k).

Definition stop (k : cstate) : cstate := mkK (k_conn k) (k_sts k) true.

Definition spec_step (isw : Z) (k : cstate) (o : op) (obs : list evt) : cstate * bool :=
  if k_stop k then (k, true) else
  let fin (k' : cstate) : cstate * bool :=
      if ended obs then (stop k', true) else let k2 := credit obs k' in (k2, balanced isw k2) in
  match o with
  | OData id dlen pad es =>
    let L := frame_len dlen pad in
    if id =? 0 then (stop k, true) else
    let cs := kfind id (k_sts k) in
    let isopen := match cs with Some s => k_phase s =? 1 | None => false end in
    let swin := match cs with Some s => k_win s | None => 0 end in
    let overrun := match cs with Some s => negb (k_decl s =? -1) && (k_decl s <? k_sent s + dlen) | None => false end in
    if (k_conn k <? L) || (isopen && (swin <? L)) then
      (* the client exceeded a window it was given: must be answered with FLOW_CONTROL_ERROR
         (PROTOCOL_ERROR tolerated when the same frame also overruns the declared content-length);
         after that the client is no longer "respecting the windows": nothing more is required *)
      (stop k, rst_is obs id 3 || goaway_is obs 3 || (overrun && rst_is obs id 1 && (L <=? k_conn k)))
    else
      let k1 := mkK (k_conn k - L) (k_sts k) false in
      match cs with
      | Some s =>
        if k_phase s =? 1 then
          let acc := negb (has_rst obs id) && negb (ended obs) in
          let s' := mkCS id (k_win s - L) (if acc then k_unread s + dlen else k_unread s)
                         (if acc && es then 2 else k_phase s) (k_run s) (k_decl s)
                         (if acc then k_sent s + dlen else k_sent s) in
          fin (mkK (k_conn k1) (kupd s' (k_sts k)) false)
        else fin k1
      | None => fin k1
      end
  | OHeaders id es kind clen =>
    match kfind id (k_sts k) with
    | Some s =>
      let acc := (k_phase s =? 1) && negb (has_rst obs id) && negb (ended obs) in
      fin (mkK (k_conn k) (kupd (mkCS id (k_win s) (k_unread s) (if acc then 2 else k_phase s) (k_run s) (k_decl s) (k_sent s)) (k_sts k)) false)
    | None =>
      if has_rst obs id || ended obs then fin k
      else fin (mkK (k_conn k)
                    (mkCS id isw 0 (if es then 2 else 1) true (if es then 0 else if 0 <=? clen then clen else -1) 0 :: k_sts k) false)
    end
  | ORst id _ =>
    match kfind id (k_sts k) with
    | Some s => fin (mkK (k_conn k) (kupd (mkCS id (k_win s) (k_unread s) 3 (k_run s) (k_decl s) (k_sent s)) (k_sts k)) false)
    | None => fin k
    end
  | ORead id _ =>
    match kfind id (k_sts k), hres obs id with
    | Some s, Some n =>
      if 0 <? n then fin (mkK (k_conn k) (kupd (mkCS id (k_win s) (k_unread s - n) (k_phase s) (k_run s) (k_decl s) (k_sent s)) (k_sts k)) false)
      else fin k
    | _, _ => fin k
    end
  | OFinish id =>
    match kfind id (k_sts k), hres obs id with
    | Some s, Some 0 =>
      (* the handler is gone: whatever it did not read has been consumed by the server *)
      fin (mkK (k_conn k) (kupd (mkCS id (k_win s) 0 (k_phase s) false (k_decl s) (k_sent s)) (k_sts k)) false)
    | _, _ => fin k
    end
  | ORace id _ _ _ =>
    match kfind id (k_sts k), hres obs id with
    | Some s, Some 0 =>
      fin (mkK (k_conn k) (kupd (mkCS id (k_win s) 0 (k_phase s) false (k_decl s) (k_sent s)) (k_sts k)) false)
    | _, _ => fin k
    end
  | _ => fin k
  end.

Fixpoint spec_run (isw : Z) (k : cstate) (ops : list op) (obs : list (list evt)) {struct ops} : bool :=
  match ops, obs with
  | [], [] => true
  | o :: r, e :: r' => let '(k', ok) := spec_step isw k o e in ok && spec_run isw k' r r'
  | _, _ => false
  end.

Definition prop_C33 (i o : val) : bool :=
  match dec_script i, dec_out o with
  | Some (isw, _, ops), Some (obs, _) =>
    spec_run (if isw =? 0 then init_window else isw) (mkK init_window [] false) ops obs
  | _, _ => false
  end.

(* known finding 1: a stream is closed (RST either way, response finished, stream error) while its body
   pipe still holds unread octets: they are never returned to the connection window *)
Definition kf_C33 (i : val) : Z :=
  match dec_script i with
  | Some (isw, maxs, ops) => if c_p3 (fst (run_ops (init_conn isw maxs) ops)) then 1 else 0
  | None => 0
  end.
