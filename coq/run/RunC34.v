From Coq Require Import List ZArith Bool.
From Bfe Require Import lib.Val model.H2Sched.
Import ListNotations.
Open Scope Z_scope.

(* input : VL ops ; op = [1 sid init] new stream | [2 frame] ws.add | [3] ws.take | [4 sid] ws.forgetStream
                       | [5 sid n] flow.add (sid 0 = connection) | [6 v] maxFrameSize = v
   frame  = [0 tag] control | [1 sid start len es] DATA (payload start,start+1,.. mod 256) | [2 sid tag] other stream frame
   output : VL steps ; step = [obs connwindow [streamwindow ...]] ; obs = [] | [1 frame] | [2 bool] | [3] (panic) *)
Definition dec_fr (v : val) : option fr :=
  match v with
  | VL [VZ 0; VZ t] => Some (FCtl t)
  | VL [VZ 1; VZ s; VZ a; VZ l; VZ e] => Some (FData s a l (negb (e =? 0)))
  | VL [VZ 2; VZ s; VZ t] => Some (FHdr s t)
  | _ => None
  end.
Definition enc_fr (f : fr) : val :=
  match f with
  | FCtl t => VL [VZ 0; VZ t]
  | FData s a l e => VL [VZ 1; VZ s; VZ a; VZ l; VZ (if e then 1 else 0)]
  | FHdr s t => VL [VZ 2; VZ s; VZ t]
  end.
Definition dec_sop (v : val) : option sop :=
  match v with
  | VL [VZ 1; VZ s; VZ i] => Some (SNew s i)
  | VL [VZ 2; f] => option_map SAdd (dec_fr f)
  | VL [VZ 3] => Some STake
  | VL [VZ 4; VZ s] => Some (SForget s)
  | VL [VZ 5; VZ s; VZ n] => Some (SWin s n)
  | VL [VZ 6; VZ m] => Some (SMax m)
  | _ => None
  end.
Definition enc_sop (o : sop) : val :=
  match o with
  | SNew s i => VL [VZ 1; VZ s; VZ i]
  | SAdd f => VL [VZ 2; enc_fr f]
  | STake => VL [VZ 3]
  | SForget s => VL [VZ 4; VZ s]
  | SWin s n => VL [VZ 5; VZ s; VZ n]
  | SMax m => VL [VZ 6; VZ m]
  end.
(* an empty payload has no first byte: the start value of a zero-length DATA frame is irrelevant, use 0 *)
Definition norm_sop (o : sop) : sop :=
  match o with
  | SAdd (FData s a l e) => SAdd (FData s (if l =? 0 then 0 else a) l e)
  | _ => o
  end.
Definition dec_sops (v : val) : option (list sop) :=
  match v with VL l => option_map (map norm_sop) (all_some (map dec_sop l)) | _ => None end.
Definition enc_sops (ops : list sop) : val := VL (map enc_sop ops).

Definition enc_sobs (o : sobs) : val :=
  match o with
  | ONone => VL []
  | OFrame f => VL [VZ 1; enc_fr f]
  | OBool b => VL [VZ 2; VZ (if b then 1 else 0)]
  | OPanic => VL [VZ 3]
  end.
Definition dec_sobs (v : val) : option sobs :=
  match v with
  | VL [] => Some ONone
  | VL [VZ 1; f] => option_map OFrame (dec_fr f)
  | VL [VZ 2; VZ b] => Some (OBool (negb (b =? 0)))
  | VL [VZ 3] => Some OPanic
  | _ => None
  end.
Definition enc_step (x : sobs * (Z * list Z)) : val :=
  let '(ob, (cw, ws)) := x in VL [enc_sobs ob; VZ cw; vLZ ws].
Definition dec_step (v : val) : option (sobs * (Z * list Z)) :=
  match v with
  | VL [ob; VZ cw; ws] =>
    match dec_sobs ob, as_LZ ws with
    | Some ob', Some ws' => Some (ob', (cw, ws'))
    | _, _ => None
    end
  | _ => None
  end.
Definition dec_steps (v : val) : option (list (sobs * (Z * list Z))) :=
  match v with VL l => all_some (map dec_step l) | _ => None end.

(* ---- live connection inputs: [7 [step ...]] ; step = [1 sid n] request | [3 sid] RST | [4 sid inc] WINDOW_UPDATE
        | [5 v] SETTINGS_INITIAL_WINDOW_SIZE | [6 v] SETTINGS_MAX_FRAME_SIZE
   observation: one list per step of frames received in order: [0 sid len es good] DATA | [1] SETTINGS ack | [2] GOAWAY/closed *)
Definition dec_lstep (v : val) : option lstep :=
  match v with
  | VL [VZ 1; VZ s; VZ n] => Some (LReq s n)
  | VL [VZ 3; VZ s] => Some (LRst s)
  | VL [VZ 4; VZ s; VZ n] => Some (LWin s n)
  | VL [VZ 5; VZ x] => Some (LSetIW x)
  | VL [VZ 6; VZ x] => Some (LSetMF x)
  | _ => None
  end.
Definition dec_live (v : val) : option (list lstep) :=
  match v with
  | VL [VZ 7; VL l] => all_some (map dec_lstep l)
  | _ => None
  end.
Definition dec_levent (v : val) : option levent :=
  match v with
  | VL [VZ 0; VZ s; VZ n; VZ e; VZ g] => Some (EData s n (negb (e =? 0)) (negb (g =? 0)))
  | VL [VZ 1] => Some EAck
  | VL [VZ 2] => Some EDead
  | _ => None
  end.
Definition dec_lobs (v : val) : option (list (list levent)) :=
  match v with
  | VL l => all_some (map (fun x => match x with VL es => all_some (map dec_levent es) | _ => None end) l)
  | _ => None
  end.
Definition enc_levent (e : levent) : val :=
  match e with
  | EData s n e g => VL [VZ 0; VZ s; VZ n; VZ (if e then 1 else 0); VZ (if g then 1 else 0)]
  | EAck => VL [VZ 1]
  | EDead => VL [VZ 2]
  end.
Definition enc_lobs (l : list (list levent)) : val := VL (map (fun es => VL (map enc_levent es)) l).
(* the client-side window accounting accepts the frames the real server sent *)
Definition live_ok (script : list lstep) (o : val) : bool :=
  match dec_lobs o with
  | Some obs => lvalidate lstate0 script obs
  | None => false
  end.

Definition run_C34 (i : val) : val :=
  match dec_live i with
  | Some script => enc_lobs (lcanon script)   (* one allowed trace (no DATA at all); the real amount is timing dependent *)
  | None =>
  match dec_sops i with
  | None => VErr 0
  | Some ops => VL (map enc_step (srun sst0 ops))
  end
  end.

(* trace validation: the observation must be one of the behaviours the model allows (any map-iteration choice) *)
Definition agree_C34 (i o : val) : bool :=
  match dec_live i with
  | Some script => live_ok script o
  | None =>
  match dec_sops i, dec_steps o with
  | Some ops, Some obs => svalidate sst0 ops obs
  | _, _ => false
  end
  end.

(* THE PROPERTY.  Unit level: the specification checker of H2Sched.v (client-side window accounting in Z, per-stream
   FIFO with byte-exact splitting, nothing sent for a stream after forget, no panic) accepts the observed trace.
   Live connection: every DATA frame the server sent is within the stream window, the connection window and the
   max frame size as the client computes them (SETTINGS deltas on all open streams, WINDOW_UPDATEs, DATA received),
   never exceeds the response body, and none arrives after END_STREAM or after a reset was processed. *)
Definition prop_C34 (i o : val) : bool :=
  match dec_live i with
  | Some script => live_ok script o
  | None =>
  match dec_sops i, dec_steps o with
  | Some ops, Some obs => spec_run spec0 ops (map fst obs)
  | _, _ => false
  end
  end.

Definition kf_C34 (i : val) : Z := 0.

(* executable well-formedness of an input: a live script, or scheduler operations within wf_sop *)
Definition wf_C34 (i : val) : bool :=
  match dec_live i with
  | Some _ => true
  | None => match dec_sops i with Some ops => forallb wf_sopb ops | None => false end
  end.
