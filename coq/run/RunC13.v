(* C13 wire functions.  Input / output shapes: harness/cmd/c13/main.go.
     [1 style host vip route cluster] -> [h v r c all]    1 accepted, 0 error, -2 panic
     [2 style gslb] -> [x]      [3 style ctable] -> [x]      [9 loader rawbytes] -> [x]  (JSON syntax: not modelled) *)
From Coq Require Import List ZArith Bool.
From Bfe Require Import lib.Val lib.Bytes model.ConfLoad model.ConfLoadWire.
Import ListNotations.
Open Scope Z_scope.

Definition vb (b : bool) : val := VZ (if b then 1 else 0).
Definition is_some {A} (o : option A) : bool := match o with Some _ => true | None => false end.

Definition run_sdc (fs : files) : val :=
  VL [vb (is_some (host_conf_load (fs_host fs))); vb (is_some (vip_conf_load (fs_vip fs)));
      vb (route_conf_check (fs_route fs)); vb (is_some (cluster_conf_load (fs_cluster fs))); vb (accepted fs)].

Definition run_C13 (i : val) : val :=
  match i with
  | VL [VZ 1; VZ _; h; v; r; c] => match d_files h v r c with Some fs => run_sdc fs | None => VErr 0 end
  | VL [VZ 2; VZ _; g] => match d_gslb g with Some f => VL [vb (gslb_conf_load f)] | None => VErr 0 end
  | VL [VZ 3; VZ _; t] => match d_ctable t with Some f => VL [vb (ctable_load f)] | None => VErr 0 end
  | VL [VZ 9; VZ _; VB _] => VL []
  | _ => VErr 0
  end.

(* acceptance itself depends on the map iteration order (C14 finding classes): a host-tag under two products, or a
   repeated host name together with an empty-string host-tag.  The C13 generators do not produce these. *)
Definition accept_order_sensitive (fs : files) : bool :=
  negb (tags_single_product fs)
  || (mem_str [] (map fst (olist (hf_hosts (fs_host fs))))
      && negb (nodup_str (map fst (flat_hosts (olist (hf_hosts (fs_host fs))))))).

Definition is_flag (v : val) : bool := match v with VZ 0 | VZ 1 => true | _ => false end.
Definition is_result (v : val) : bool := match v with VZ 0 | VZ 1 | VZ (-2) => true | _ => false end.

Definition agree_C13 (i o : val) : bool :=
  match i with
  | VL [VZ 1; VZ _; h; v; r; c] =>
      match d_files h v r c with
      | Some fs => if accept_order_sensitive fs
                   then match o with VL [a; b; c'; d; e] => forallb is_flag [a; b; c'; d; e] | _ => false end
                   else val_eqb (run_C13 i) o
      | None => false
      end
  | VL [VZ 9; VZ _; VB _] => match o with VL [x] => is_result x | _ => false end
  | _ => val_eqb (run_C13 i) o
  end.

(* THE PROPERTY on an implementation observation:
   no loader panicked; a file set that follows the documented format was accepted; an accepted file set is closed
   (closed_full: including the products named by vip_rule.data)
   (gslb / cluster_table: an accepted file is usable). *)
Definition no_panic (o : val) : bool :=
  match o with VL l => forallb (fun x => match x with VZ (-2) => false | _ => true end) l | _ => false end.
Definition prop_C13 (i o : val) : bool :=
  match i with
  | VL [VZ 1; VZ _; h; v; r; c] =>
      match d_files h v r c, o with
      | Some fs, VL [_; _; _; _; VZ all] =>
          no_panic o && (if documented fs then all =? 1 else true) && (if all =? 1 then closed_full fs else true)
      | _, _ => false
      end
  | VL [VZ 2; VZ _; g] =>
      match d_gslb g, o with
      | Some f, VL [VZ x] => no_panic o && (if doc_gslb f then x =? 1 else true) && (if x =? 1 then usable_gslb f else true)
      | _, _ => false
      end
  | VL [VZ 3; VZ _; t] =>
      match d_ctable t, o with
      | Some f, VL [VZ x] => no_panic o && (if doc_ctable f then x =? 1 else true) && (if x =? 1 then usable_ctable f else true)
      | _, _ => false
      end
  | VL [VZ 9; VZ _; VB _] => match o with VL [VZ _] => no_panic o | _ => false end
  | _ => false
  end.
(* known-finding class 1: vip_rule.data names a product that HostTags does not define *)
Definition kf_C13 (i : val) : Z :=
  match i with
  | VL [VZ 1; VZ _; h; v; r; c] =>
      match d_files h v r c with
      | Some fs => if vip_products_defined fs then 0 else 1
      | None => 0
      end
  | _ => 0
  end.

(* well-formed inputs: one of the three modelled operations with a decodable record (what the generators emit;
   op 9 = raw bytes is outside the model) *)
Definition wf_C13 (i : val) : bool :=
  match i with
  | VL [VZ 1; VZ _; h; v; r; c] => is_some (d_files h v r c)
  | VL [VZ 2; VZ _; g] => is_some (d_gslb g)
  | VL [VZ 3; VZ _; t] => is_some (d_ctable t)
  | _ => false
  end.
