From Coq Require Import List ZArith Bool.
From Bfe Require Import lib.Val lib.Bytes model.Cors.
Import ListNotations.
Open Scope Z_scope.

(* one request: [rules req rsp handler] (see the history format below)
     rules = [[match rule] ...]  (match: does the rule's condition hold for this request)
     rule = [origins:LB cred expose:LB methods:LB headers:LB maxage:(opt Z)]
     req  = [method:B originValues:LB acrmValues:LB hasRules]
     rsp  = [vary acao acac acam acah acma aceh] (LB each)
     handler = 0 corsHandler | 1 corsPreflightHandler
   output: VErr 1 (rule rejected by ruleConvert) | [ret hdrs] (hdrs = [] when the callback made no response) *)
Definition dec_rule (v : val) : option rule :=
  match v with
  | VL [o; VZ c; e; m; h; VL ma] =>
    match as_LB o, as_LB e, as_LB m, as_LB h, ma with
    | Some o', Some e', Some m', Some h', [] => Some (mkRule o' (negb (c =? 0)) e' m' h' None)
    | Some o', Some e', Some m', Some h', [VZ a] => Some (mkRule o' (negb (c =? 0)) e' m' h' (Some a))
    | _, _, _, _, _ => None
    end
  | _ => None
  end.
Definition dec_req (v : val) : option req :=
  match v with
  | VL [VB m; o; a; VZ hr] =>
    match as_LB o, as_LB a with
    | Some o', Some a' => Some (mkReq m o' a' (negb (hr =? 0)))
    | _, _ => None
    end
  | _ => None
  end.
Definition dec_hdrs (v : val) : option hdrs :=
  match v with
  | VL [a; b; c; d; e; f; g] =>
    match as_LB a, as_LB b, as_LB c, as_LB d, as_LB e, as_LB f, as_LB g with
    | Some a', Some b', Some c', Some d', Some e', Some f', Some g' => Some (mkHdrs a' b' c' d' e' f' g')
    | _, _, _, _, _, _, _ => None
    end
  | _ => None
  end.
Definition enc_hdrs (h : hdrs) : val :=
  VL [vLB (h_vary h); vLB (h_acao h); vLB (h_acac h); vLB (h_acam h); vLB (h_acah h); vLB (h_acma h); vLB (h_aceh h)].

Definition dec_mrule (v : val) : option (bool * rule) :=
  match v with
  | VL [VZ m; r] => match dec_rule r with Some r' => Some (negb (m =? 0), r') | None => None end
  | _ => None
  end.
Definition dec_rules (v : val) : option rules :=
  match v with VL l => all_some (map dec_mrule l) | _ => None end.
(* input : [op ...]   a history on one module instance, starting with an empty rule table
     op = [0 conf]                      reload: conf = [[product rules] ...] written to a rule file and loaded through
                                        the module's reload handler (loadRuleData)
        | [1 product req rsp handler]   request of that product (req's 4th field is ignored)
   output: one observation per op: [1] load ok | VErr 1 load rejected (table unchanged) | [ret hdrs] *)
Definition dec_prules (v : val) : option (bytes * rules) :=
  match v with
  | VL [VB p; rs] => match dec_rules rs with Some r => Some (p, r) | None => None end
  | _ => None
  end.
Inductive cop :=
| OLoad (c : conf)
| OReq (product : bytes) (q : req) (h : hdrs) (k : Z).
Definition dec_op (v : val) : option cop :=
  match v with
  | VL [VZ 0; VL c] => match all_some (map dec_prules c) with Some c' => Some (OLoad c') | None => None end
  | VL [VZ 1; VB p; q; h; VZ k] =>
    match dec_req q, dec_hdrs h with
    | Some q', Some h' => if (k =? 0) || (k =? 1) then Some (OReq p q' h' k) else None
    | _, _ => None
    end
  | _ => None
  end.
Definition dec_in (v : val) : option (list cop) :=
  match v with VL l => all_some (map dec_op l) | _ => None end.
Definition wf_C52 (i : val) : bool := match dec_in i with Some _ => true | None => false end.

(* one request against rule list rs (q already says whether the product has rules) *)
Definition step_run (rs : rules) (q : req) (h : hdrs) (k : Z) : val :=
  if k =? 0 then VL [VZ 0; enc_hdrs (cors_handler rs q h)]
  else match preflight_handler rs q with
       | None => VL [VZ 0; VL []]
       | Some h' => VL [VZ 1; enc_hdrs h']
       end.
Fixpoint run_ops (t : conf) (ops : list cop) : list val :=
  match ops with
  | [] => []
  | OLoad c :: rest => (if conf_ok c then VL [VZ 1] else VErr 1) :: run_ops (table_load t c) rest
  | OReq p q h k :: rest => let '(rs, q') := with_product t p q in step_run rs q' h k :: run_ops t rest
  end.
Definition run_C52 (i : val) : val :=
  match dec_in i with
  | None => VErr 0
  | Some ops => VL (run_ops [] ops)
  end.
Definition agree_C52 (i o : val) : bool := val_eqb (run_C52 i) o.

(* THE PROPERTY on the implementation's observations.  The configuration in force at a request is the one of the LAST
   successful reload before it (spec_table below follows the history independently of the model's table); the header
   after the callback must relate to the header before it (the backend's header for corsHandler, the empty header of
   the freshly created 204 response for the preflight callback) as cors_spec_rules demands for THAT configuration's
   rule list of the request's product - in particular a product dropped by a reload is granted nothing any more. *)
Definition step_prop (rs : rules) (q : req) (h : hdrs) (k : Z) (o : val) : bool :=
  match o with
  | VL [VZ ret; VL []] => (ret =? 0) && negb (k =? 0)
  | VL [VZ ret; ho] =>
    match dec_hdrs ho with
    | None => false
    | Some after =>
      if k =? 0 then (ret =? 0) && cors_spec_rules rs q h after
      else (ret =? 1) && is_preflight q && q_has_rules q
           && match find_rule rs with Some _ => true | None => false end
           && cors_spec_rules rs q empty_hdrs after
    end
  | _ => false
  end.
Fixpoint prop_ops (spec_table : conf) (ops : list cop) (obs : list val) : bool :=
  match ops, obs with
  | [], [] => true
  | OLoad c :: rest, o :: ro =>
    if conf_ok c then val_eqb o (VL [VZ 1]) && prop_ops c rest ro        (* accepted: c is in force from now on *)
    else val_eqb o (VErr 1) && prop_ops spec_table rest ro               (* rejected: nothing changes *)
  | OReq p q h k :: rest, o :: ro =>
    (let '(rs, q') := with_product spec_table p q in step_prop rs q' h k o) && prop_ops spec_table rest ro
  | _, _ => false
  end.
Definition prop_C52 (i o : val) : bool :=
  match dec_in i, o with
  | Some ops, VL obs => prop_ops [] ops obs
  | _, _ => false
  end.
Definition kf_C52 (i : val) : Z := 0.
