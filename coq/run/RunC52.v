From Coq Require Import List ZArith Bool.
From Bfe Require Import lib.Val lib.Bytes model.Cors.
Import ListNotations.
Open Scope Z_scope.

(* input : [rules req rsp handler]
     rules = [[match rule] ...]  (match: does the rule's condition hold for this request)
     rule = [origins:LB cred expose:LB methods:LB headers:LB maxage:(opt Z)]
     req  = [method:B originValues:LB acrmValues:LB hasRules]
     rsp  = [vary acao acac acam acah acma aceh] (LB each)
     handler = 0 corsHandler | 1 corsPreflightHandler
   output: VErr 1 (rule rejected by ruleConvert) | [ret hdrs] (hdrs = [] when the callback made no response) *)
Definition dec_rule (v : val) : option rule :=
  match v with
  | VL [o; VZ c; e; m; h; VL ma] =>
    match as_LB o, as_LB e, as_LB m, as_LB h, ma with
    | Some o', Some e', Some m', Some h', [] => Some (mkRule o' (negb (c =? 0)) e' m' h' None)
    | Some o', Some e', Some m', Some h', [VZ a] => Some (mkRule o' (negb (c =? 0)) e' m' h' (Some a))
    | _, _, _, _, _ => None
    end
  | _ => None
  end.
Definition dec_req (v : val) : option req :=
  match v with
  | VL [VB m; o; a; VZ hr] =>
    match as_LB o, as_LB a with
    | Some o', Some a' => Some (mkReq m o' a' (negb (hr =? 0)))
    | _, _ => None
    end
  | _ => None
  end.
Definition dec_hdrs (v : val) : option hdrs :=
  match v with
  | VL [a; b; c; d; e; f; g] =>
    match as_LB a, as_LB b, as_LB c, as_LB d, as_LB e, as_LB f, as_LB g with
    | Some a', Some b', Some c', Some d', Some e', Some f', Some g' => Some (mkHdrs a' b' c' d' e' f' g')
    | _, _, _, _, _, _, _ => None
    end
  | _ => None
  end.
Definition enc_hdrs (h : hdrs) : val :=
  VL [vLB (h_vary h); vLB (h_acao h); vLB (h_acac h); vLB (h_acam h); vLB (h_acah h); vLB (h_acma h); vLB (h_aceh h)].

Definition dec_mrule (v : val) : option (bool * rule) :=
  match v with
  | VL [VZ m; r] => match dec_rule r with Some r' => Some (negb (m =? 0), r') | None => None end
  | _ => None
  end.
Definition dec_rules (v : val) : option rules :=
  match v with VL l => all_some (map dec_mrule l) | _ => None end.
Definition dec_in (v : val) : option (rules * req * hdrs * Z) :=
  match v with
  | VL [r; q; h; VZ k] =>
    match dec_rules r, dec_req q, dec_hdrs h with
    | Some r', Some q', Some h' => if (k =? 0) || (k =? 1) then Some (r', q', h', k) else None
    | _, _, _ => None
    end
  | _ => None
  end.
Definition wf_C52 (i : val) : bool := match dec_in i with Some _ => true | None => false end.

Definition run_C52 (i : val) : val :=
  match dec_in i with
  | None => VErr 0
  | Some (r, q, h, k) =>
    if negb (rules_ok r) then VErr 1
    else if k =? 0 then VL [VZ 0; enc_hdrs (cors_handler r q h)]
    else match preflight_handler r q with
         | None => VL [VZ 0; VL []]
         | Some h' => VL [VZ 1; enc_hdrs h']
         end
  end.
Definition agree_C52 (i o : val) : bool := val_eqb (run_C52 i) o.

(* THE PROPERTY on the implementation's observation: a rejected rule grants nothing; otherwise the header
   after the callback relates to the header before it (the backend's header for corsHandler, the empty header of
   the freshly created 204 response for the preflight callback) as cors_spec demands. *)
Definition prop_C52 (i o : val) : bool :=
  match dec_in i with
  | None => false
  | Some (r, q, h, k) =>
    if negb (rules_ok r) then val_eqb o (VErr 1)
    else match o with
         | VL [VZ ret; VL []] => (ret =? 0) && (k =? 1)
         | VL [VZ ret; ho] =>
           match dec_hdrs ho with
           | None => false
           | Some after =>
             if k =? 0 then (ret =? 0) && cors_spec_rules r q h after
             else (ret =? 1) && is_preflight q && q_has_rules q
                  && match find_rule r with Some _ => true | None => false end
                  && cors_spec_rules r q empty_hdrs after
           end
         | _ => false
         end
  end.
Definition kf_C52 (i : val) : Z := 0.
