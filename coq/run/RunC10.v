From Coq Require Import List ZArith Bool.
From Bfe Require Import lib.Val lib.Bytes model.HostTable.
Import ListNotations.
Open Scope Z_scope.

(* input : [ entries vips dflt queries ]
     entries = [[VB host; VB tag; VB product] ...]   vips = [[VB vip; VB product] ...]   dflt = VB product ("" = none)
     queries = [[VB host; VB vip] ...]   (vip "" = the session has no VIP)
   output: [[VB product; VB tag; VZ err] ...]  (err 1 = ErrNoProduct) one per query *)
Definition dec_entry (v : val) : option host_entry :=
  match v with VL [VB h; VB t; VB p] => Some (h, (t, p)) | _ => None end.
Definition dec_pair (v : val) : option (bytes * bytes) :=
  match v with VL [VB a; VB b] => Some (a, b) | _ => None end.
Definition dec_list {A} (f : val -> option A) (v : val) : option (list A) :=
  match v with VL l => all_some (map f l) | _ => None end.
Definition enc_presult (r : presult) : val :=
  match r with
  | POk tag prod => VL [VB prod; VB tag; VZ 0]
  | PErrNoProduct => VL [VB []; VB []; VZ 1]
  end.
Definition vip_of (b : bytes) : option bytes := match b with [] => None | _ => Some b end.

Definition with_C10 (f : list host_entry -> list (bytes * bytes) -> bytes -> bytes -> option bytes -> presult)
           (i : val) : val :=
  match i with
  | VL [es; vs; VB dflt; qs] =>
    match dec_list dec_entry es, dec_list dec_pair vs, dec_list dec_pair qs with
    | Some tbl, Some vips, Some queries =>
      VL (map (fun q => enc_presult (f tbl vips dflt (fst q) (vip_of (snd q)))) queries)
    | _, _, _ => VErr 0
    end
  | _ => VErr 0
  end.

Definition run_C10 (i : val) : val := with_C10 lookup_product i.
Definition agree_C10 (i o : val) : bool := val_eqb (run_C10 i) o.
(* the property: the observation equals the declarative priority chain (exact host, longest wildcard,
   VIP, default, error) computed on natural host labels, without the trie and without string reversal *)
Definition prop_C10 (i o : val) : bool :=
  match with_C10 spec_product i with
  | VL [VZ (-1); VZ 0] => false
  | s => val_eqb s o
  end.
Definition kf_C10 (i : val) : Z := 0.
