From Coq Require Import List ZArith Bool.
From Bfe Require Import lib.Val lib.Bytes model.HostTable.
Import ListNotations.
Open Scope Z_scope.

(* input : [ pre_queries stages ]
     pre_queries = queries run on a fresh HostTable BEFORE any Update (hostTrie == nil, empty VIP table, no default)
     stages      = [[entries vips dflt queries] ...]  applied to the SAME HostTable object in order: Update(stage tables),
                   then the stage's queries (act -> reload -> act): each stage must be answered from its own tables only
       entries = [[VB host; VB tag; VB product] ...]   dflt = VB product ("" = none)
       vips    = [[VB text; VB addr16; VB canon; VB product] ...]   text = the vip as written in the file (any textual form
                 of the address); addr16 = net.ParseIP(text).To16() and canon = net.ParseIP(text).String() are supplied by the
                 generator (net.ParseIP / IP.String are stdlib components outside the model); the implementation only sees text
       queries = [[VB host; VB vipraw; VB vipstr] ...]   vipraw = Session.Vip as raw net.IP bytes (4-byte or 16-byte form;
                 "" = the session has no VIP); vipstr = the string passed to LookupProductByVip
   output: [ pre_results [stage_results ...] ], one result per query:
       [VB product; VB tag; VZ err;  VB lp_product; VZ lp_err;  VB vp_product; VZ vp_err]
       (LookupHostTagAndProduct; LookupProduct(host); LookupProductByVip(vip))   err 1 = ErrNoProduct *)
Definition dec_entry (v : val) : option host_entry :=
  match v with VL [VB h; VB t; VB p] => Some (h, (t, p)) | _ => None end.
Definition dec_pair (v : val) : option (bytes * bytes) :=
  match v with VL [VB a; VB b] => Some (a, b) | _ => None end.
Definition dec_list {A} (f : val -> option A) (v : val) : option (list A) :=
  match v with VL l => all_some (map f l) | _ => None end.
(* the address VALUE of a net.IP: the 4-byte form a.b.c.d and the 16-byte form ::ffff:a.b.c.d are the same address *)
Definition V4_PREFIX : bytes := [0;0;0;0;0;0;0;0;0;0;255;255].
Definition norm_ip (raw : bytes) : bytes :=
  match raw with [_; _; _; _] => V4_PREFIX ++ raw | _ => raw end.
Definition vip_of (b : bytes) : option bytes := match b with [] => None | _ => Some (norm_ip b) end.
Record vip_entry := mkVip { v_text : bytes; v_addr : bytes; v_canon : bytes; v_product : bytes }.
Definition dec_vip (v : val) : option vip_entry :=
  match v with VL [VB t; VB a; VB c; VB p] => Some (mkVip t a c p) | _ => None end.
Definition dec_query (v : val) : option (bytes * (bytes * bytes)) :=
  match v with VL [VB h; VB raw; VB str] => Some (h, (raw, str)) | _ => None end.
(* the VIP table as a map from address values, and as a map from canonical texts (what LookupProductByVip is keyed by) *)
Definition by_addr (vs : list vip_entry) : list (bytes * bytes) := map (fun e => (v_addr e, v_product e)) vs.
Definition by_canon (vs : list vip_entry) : list (bytes * bytes) := map (fun e => (v_canon e, v_product e)) vs.

Record stage := mkStage { s_tbl : list host_entry; s_vips : list vip_entry; s_dflt : bytes;
                          s_queries : list (bytes * (bytes * bytes)) }.
Definition dec_stage (v : val) : option stage :=
  match v with
  | VL [es; vs; VB dflt; qs] =>
    match dec_list dec_entry es, dec_list dec_vip vs, dec_list dec_query qs with
    | Some tbl, Some vips, Some queries => Some (mkStage tbl vips dflt queries)
    | _, _, _ => None
    end
  | _ => None
  end.
Definition dec_C10 (i : val) : option (list (bytes * (bytes * bytes)) * list stage) :=
  match i with
  | VL [pq; ss] =>
    match dec_list dec_query pq, dec_list dec_stage ss with
    | Some pre, Some stages => Some (pre, stages)
    | _, _ => None
    end
  | _ => None
  end.

(* the three exported lookups, parameterised by the host-table part so that the same encoder serves model and spec *)
Section Enc.
Variable full : list host_entry -> list (bytes * bytes) -> bytes -> bytes -> option bytes -> presult.
Variable byhost : list host_entry -> bytes -> option route.
Definition enc_query (tbl : list host_entry) (vips : list vip_entry) (dflt : bytes) (q : bytes * (bytes * bytes)) : val :=
  let '(p, t, e) := match full tbl (by_addr vips) dflt (fst q) (vip_of (fst (snd q))) with
                    | POk tag prod => (prod, tag, 0)
                    | PErrNoProduct => ([], [], 1)
                    end in
  let '(lp, le) := match byhost tbl (fst q) with Some (_, prod) => (prod, 0) | None => ([], 1) end in
  let '(vp, ve) := match assoc (snd (snd q)) (by_canon vips) with Some prod => (prod, 0) | None => ([], 1) end in
  VL [VB p; VB t; VZ e; VB lp; VZ le; VB vp; VZ ve].
Definition enc_stage (s : stage) : val := VL (map (enc_query (s_tbl s) (s_vips s) (s_dflt s)) (s_queries s)).
Definition with_C10 (i : val) : val :=
  match dec_C10 i with
  | Some (pre, stages) => VL [VL (map (enc_query [] [] []) pre); VL (map enc_stage stages)]
  | None => VErr 0
  end.
End Enc.

Definition wf_C10 (i : val) : bool := match dec_C10 i with Some _ => true | None => false end.
Definition run_C10 (i : val) : val := with_C10 lookup_product find_host_route i.
Definition agree_C10 (i o : val) : bool := val_eqb (run_C10 i) o.
(* the property: every observation equals the declarative priority chain (exact host, longest wildcard, VIP, default,
   error) computed on natural host labels from the tables of the CURRENT stage, without the trie and without string
   reversal; the VIP step matches on the address VALUE of Session.Vip (4-byte and 16-byte forms of an IPv4 address are
   the same address; the textual form used in the file is irrelevant); LookupProduct is the host-table part,
   LookupProductByVip(text) the VIP table keyed by canonical text *)
Definition prop_C10 (i o : val) : bool :=
  wf_C10 i && val_eqb (with_C10 spec_product spec_host i) o.
Definition kf_C10 (i : val) : Z := 0.
