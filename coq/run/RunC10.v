From Coq Require Import List ZArith Bool.
From Bfe Require Import lib.Val lib.Bytes model.HostTable.
Import ListNotations.
Open Scope Z_scope.

(* input : [ pre_queries stages ]
     pre_queries = queries run on a fresh HostTable BEFORE any Update (hostTrie == nil, empty VIP table, no default)
     stages      = [[entries vips dflt queries] ...]  applied to the SAME HostTable object in order: Update(stage tables),
                   then the stage's queries (act -> reload -> act): each stage must be answered from its own tables only
       entries = [[VB host; VB tag; VB product] ...]   vips = [[VB vip; VB product] ...]   dflt = VB product ("" = none)
       queries = [[VB host; VB vip] ...]   (vip "" = the session has no VIP)
   output: [ pre_results [stage_results ...] ], one result per query:
       [VB product; VB tag; VZ err;  VB lp_product; VZ lp_err;  VB vp_product; VZ vp_err]
       (LookupHostTagAndProduct; LookupProduct(host); LookupProductByVip(vip))   err 1 = ErrNoProduct *)
Definition dec_entry (v : val) : option host_entry :=
  match v with VL [VB h; VB t; VB p] => Some (h, (t, p)) | _ => None end.
Definition dec_pair (v : val) : option (bytes * bytes) :=
  match v with VL [VB a; VB b] => Some (a, b) | _ => None end.
Definition dec_list {A} (f : val -> option A) (v : val) : option (list A) :=
  match v with VL l => all_some (map f l) | _ => None end.
Definition vip_of (b : bytes) : option bytes := match b with [] => None | _ => Some b end.

Record stage := mkStage { s_tbl : list host_entry; s_vips : list (bytes * bytes); s_dflt : bytes;
                          s_queries : list (bytes * bytes) }.
Definition dec_stage (v : val) : option stage :=
  match v with
  | VL [es; vs; VB dflt; qs] =>
    match dec_list dec_entry es, dec_list dec_pair vs, dec_list dec_pair qs with
    | Some tbl, Some vips, Some queries => Some (mkStage tbl vips dflt queries)
    | _, _, _ => None
    end
  | _ => None
  end.
Definition dec_C10 (i : val) : option (list (bytes * bytes) * list stage) :=
  match i with
  | VL [pq; ss] =>
    match dec_list dec_pair pq, dec_list dec_stage ss with
    | Some pre, Some stages => Some (pre, stages)
    | _, _ => None
    end
  | _ => None
  end.

(* the three exported lookups, parameterised by the host-table part so that the same encoder serves model and spec *)
Section Enc.
Variable full : list host_entry -> list (bytes * bytes) -> bytes -> bytes -> option bytes -> presult.
Variable byhost : list host_entry -> bytes -> option route.
Definition enc_query (tbl : list host_entry) (vips : list (bytes * bytes)) (dflt : bytes) (q : bytes * bytes) : val :=
  let '(p, t, e) := match full tbl vips dflt (fst q) (vip_of (snd q)) with
                    | POk tag prod => (prod, tag, 0)
                    | PErrNoProduct => ([], [], 1)
                    end in
  let '(lp, le) := match byhost tbl (fst q) with Some (_, prod) => (prod, 0) | None => ([], 1) end in
  let '(vp, ve) := match assoc (snd q) vips with Some prod => (prod, 0) | None => ([], 1) end in
  VL [VB p; VB t; VZ e; VB lp; VZ le; VB vp; VZ ve].
Definition enc_stage (s : stage) : val := VL (map (enc_query (s_tbl s) (s_vips s) (s_dflt s)) (s_queries s)).
Definition with_C10 (i : val) : val :=
  match dec_C10 i with
  | Some (pre, stages) => VL [VL (map (enc_query [] [] []) pre); VL (map enc_stage stages)]
  | None => VErr 0
  end.
End Enc.

Definition wf_C10 (i : val) : bool := match dec_C10 i with Some _ => true | None => false end.
Definition run_C10 (i : val) : val := with_C10 lookup_product find_host_route i.
Definition agree_C10 (i o : val) : bool := val_eqb (run_C10 i) o.
(* the property: every observation equals the declarative priority chain (exact host, longest wildcard, VIP, default,
   error) computed on natural host labels from the tables of the CURRENT stage, without the trie and without string
   reversal; LookupProduct is its host-table part, LookupProductByVip its VIP part *)
Definition prop_C10 (i o : val) : bool :=
  wf_C10 i && val_eqb (with_C10 spec_product spec_host i) o.
Definition kf_C10 (i : val) : Z := 0.
