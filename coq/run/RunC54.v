From Coq Require Import List ZArith Bool.
From Bfe Require Import lib.Val lib.Bytes model.StaticFile model.Compress.
Import ListNotations.
Open Scope Z_scope.

(* op 1 (filter):  [1; VZ codec (0 gzip, 1 brotli); VZ level; VZ flushSize; VL [VB chunk ...] (source reads); VZ p (consumer buffer);
                   VZ srcerr (1: after the chunks the source fails with an error instead of EOF; then p is large)]
     observation: [VL [c per Read call ...]; VB decoded; VZ ok; VZ closes]
                  decoded = output of the standard decompressor applied to everything the consumer received up to EOF
                  (or up to the error), ok = 1 iff it ended cleanly at EOF, 2 iff the filter reported the source's error;
                  closes = number of times the source was closed after filter.Close()
   op 2 (handler): [2; VZ cmd; VZ rule (0 product without rules, 1 one matching rule, 2 only a non-matching rule,
                    3 non-matching then matching rule); VB Accept-Encoding; VB response Content-Encoding; VZ has Content-Length;
                    VZ level; VZ flushSize; VB body]
     observation: [VB Content-Encoding after; VZ has Content-Length after; VZ wrapped (0/1 gzip/2 brotli);
                   VB body decoded according to the announced Content-Encoding; VZ ok]
   op 3 (rule file + handler): [3; VB Cmd; VZ Quality; VZ FlushSize; VB Accept-Encoding; VB response Content-Encoding;
                    VZ has Content-Length; VB body]   the rule is written to a rule file and loaded by the module
     observation: [VZ loaded; then as op 2] *)
Definition lz_eqb (a b : list Z) : bool := list_Z_eqb a b.
Fixpoint sumZ (l : list Z) : Z := match l with [] => 0 | x :: r => x + sumZ r end.

Inductive op :=
| OFilter (codec level flush : Z) (cs : list bytes) (p : Z) (srcerr : bool)
| OHandler (cmd rule : Z) (ae cenc : bytes) (has_cl : bool) (level flush : Z) (body : bytes)
| OLoad (cmd : bytes) (quality flush : Z) (ae cenc : bytes) (has_cl : bool) (body : bytes).
Definition dec_C54 (i : val) : option op :=
  match i with
  | VL [VZ 1; VZ codec; VZ level; VZ flush; chunks; VZ p; VZ se] =>
    match as_LB chunks with Some cs => Some (OFilter codec level flush cs p (negb (se =? 0))) | None => None end
  | VL [VZ 2; VZ cmd; VZ rule; VB ae; VB cenc; VZ has_cl; VZ level; VZ flush; VB body] =>
    Some (OHandler cmd rule ae cenc (negb (has_cl =? 0)) level flush body)
  | VL [VZ 3; VB cmd; VZ quality; VZ flush; VB ae; VB cenc; VZ has_cl; VB body] =>
    Some (OLoad cmd quality flush ae cenc (negb (has_cl =? 0)) body)
  | _ => None
  end.
Definition rule_matches (rule : Z) : bool := (rule =? 1) || (rule =? 3).
Definition fdiv (flush : Z) : Z := if flush <=? 0 then 1 else flush.
(* source error: every Read that gets its full flushSize bytes succeeds (and flushes); the Read during which the source
   fails returns the error and delivers nothing of what it pulled *)
Definition err_pulls (flush total : Z) : list Z := repeat flush (Z.to_nat (total / fdiv flush)) ++ [total mod (fdiv flush)].
Definition err_delivered (flush : Z) (cs : list bytes) : bytes :=
  firstn (Z.to_nat ((total cs / fdiv flush) * flush)) (concat cs).

Definition run_op (x : op) : val :=
  match x with
  | OFilter codec level flush cs p false =>
    (* canonical run: exactly the calls that consume the body, one that closes, one that sees EOF *)
    let n := Z.to_nat (total cs / fdiv flush + 3) in
    VL [vLZ (pulls flush cs n); VB (concat cs); VZ 1; VZ 1]
  | OFilter codec level flush cs p true =>
    VL [vLZ (err_pulls flush (total cs)); VB (err_delivered flush cs); VZ 2; VZ 1]
  | OHandler cmd rule ae cenc has_cl level flush body =>
    let r := handler ae cenc has_cl (rule_matches rule) cmd in
    VL [VB (h_cenc r); vbool (h_has_clen r); VZ (h_wrapped r); VB body; VZ 1]
  | OLoad cmd quality flush ae cenc has_cl body =>
    let '(ok, r) := load_handler cmd quality flush ae cenc has_cl in
    VL [vbool ok; VB (h_cenc r); vbool (h_has_clen r); VZ (h_wrapped r); VB body; VZ 1]
  end.
Definition run_C54 (i : val) : val := match dec_C54 i with Some x => run_op x | None => VErr 0 end.

(* the number of Read calls depends on compressed sizes (outside the model): the observed per-call consumption
   must be the model's for that many calls, must consume the whole body; the decoded body must be the source *)
Definition agree_op (x : op) (o : val) : bool :=
  match x with
  | OFilter codec level flush cs p false =>
    match o with
    | VL [obs; VB dec; VZ ok; VZ closes] =>
      match as_LZ obs with
      | Some l => lz_eqb (pulls flush cs (length l)) l && (sumZ l =? total cs)
                  && (ok =? 1) && bytes_eqb dec (concat cs) && (closes =? 1)
      | None => false
      end
    | _ => false
    end
  | _ => val_eqb (run_op x) o
  end.
Definition agree_C54 (i o : val) : bool := match dec_C54 i with Some x => agree_op x o | None => false end.

(* ---- the property, from the statement *)
Definition prop_op (x : op) (o : val) : bool :=
  match x, o with
  | OFilter codec level flush cs p false, VL [obs; VB dec; VZ ok; VZ closes] =>
    (* the compressed stream decompresses to exactly the backend body; the backend body is closed once *)
    (ok =? 1) && bytes_eqb dec (concat cs) && (closes =? 1)
  | OFilter codec level flush cs p true, VL [obs; VB dec; VZ ok; VZ closes] =>
    (* a failing backend: the error is reported, never a clean end, and what was delivered is a prefix of the body *)
    (ok =? 2) && is_prefix dec (concat cs) && (closes =? 1)
  | OHandler cmd rule ae cenc has_cl level flush body, VL [VB cenc'; VZ has_cl'; VZ wrapped; VB dec; VZ ok] =>
    let compressed := negb (wrapped =? 0) in
    (* whatever happened, the client can recover the backend body with the announced encoding *)
    (ok =? 1) && bytes_eqb dec body
    && (if compressed then
          (* announced encoding is the one applied, the request accepted it and a matching rule asks for it;
             no stale Content-Length; only responses that were not already encoded *)
          ((bytes_eqb cenc' GZIP && (wrapped =? 1) && has_token ae GZIP && (cmd =? 0))
           || (bytes_eqb cenc' BR && (wrapped =? 2) && has_token ae BR && (cmd =? 1)))
          && (has_cl' =? 0) && (bytes_eqb cenc [] || bytes_eqb cenc IDENTITY) && rule_matches rule
        else
          (* untouched: same Content-Encoding, Content-Length kept *)
          bytes_eqb cenc' cenc && (has_cl' =? (if has_cl then 1 else 0)))
    (* a response that is already encoded is never touched *)
    && (if negb (bytes_eqb cenc []) && negb (bytes_eqb cenc IDENTITY) then negb compressed else true)
  | OLoad cmd quality flush ae cenc has_cl body, VL [VZ loaded; VB cenc'; VZ has_cl'; VZ wrapped; VB dec; VZ ok] =>
    (* a rule file either fails to load or its rule is enforced (the command read case-insensitively), and the
       response stays decodable / consistent either way *)
    let compressed := negb (wrapped =? 0) in
    let fresh := bytes_eqb cenc [] || bytes_eqb cenc IDENTITY in
    let want := if eq_fold cmd CMD_GZIP then (if has_token ae GZIP then 1 else 0)
                else if eq_fold cmd CMD_BROTLI then (if has_token ae BR then 2 else 0) else 3 in
    (ok =? 1) && bytes_eqb dec body
    && (if negb (loaded =? 0) then negb (want =? 3) && (if fresh then wrapped =? want else wrapped =? 0)
        else wrapped =? 0)
    && (if compressed then
          ((bytes_eqb cenc' GZIP && (wrapped =? 1) && has_token ae GZIP)
           || (bytes_eqb cenc' BR && (wrapped =? 2) && has_token ae BR)) && (has_cl' =? 0)
        else bytes_eqb cenc' cenc && (has_cl' =? (if has_cl then 1 else 0)))
  | _, _ => false
  end.
Definition prop_C54 (i o : val) : bool := match dec_C54 i with Some x => prop_op x o | None => false end.
Definition kf_C54 (i : val) : Z := 0.
Definition wf_C54 (i : val) : bool := match dec_C54 i with Some _ => true | None => false end.
