From Coq Require Import List ZArith Bool.
From Bfe Require Import lib.Val lib.Bytes model.StaticFile model.Compress.
Import ListNotations.
Open Scope Z_scope.

(* op 1 (filter):  [1; VZ codec (0 gzip, 1 brotli); VZ level; VZ flushSize; VL [VB chunk ...] (source reads); VZ p (consumer buffer)]
     observation: [VL [c per Read call ...]; VB decoded; VZ ok]   decoded = output of the standard decompressor
                  applied to everything the consumer received up to EOF, ok = 1 iff it ended cleanly
   op 2 (handler): [2; VZ cmd; VZ has_rule; VB Accept-Encoding; VB response Content-Encoding; VZ has Content-Length;
                    VZ level; VZ flushSize; VB body]
     observation: [VB Content-Encoding after; VZ has Content-Length after; VZ wrapped (0/1 gzip/2 brotli);
                   VB body decoded according to the announced Content-Encoding; VZ ok] *)
Definition lz_eqb (a b : list Z) : bool := list_Z_eqb a b.
Fixpoint all_zero (l : list Z) : bool := match l with [] => true | x :: r => (x =? 0) && all_zero r end.
Fixpoint sumZ (l : list Z) : Z := match l with [] => 0 | x :: r => x + sumZ r end.

Definition run_C54 (i : val) : val :=
  match i with
  | VL [VZ 1; VZ codec; VZ level; VZ flush; chunks; VZ p] =>
    match as_LB chunks with
    | Some cs =>
      (* canonical run: exactly the calls that consume the body, one that closes, one that sees EOF *)
      let n := Z.to_nat (total cs / (if flush <=? 0 then 1 else flush) + 3) in
      VL [vLZ (pulls flush cs n); VB (concat cs); VZ 1]
    | None => VErr 0
    end
  | VL [VZ 2; VZ cmd; VZ has_rule; VB ae; VB cenc; VZ has_cl; VZ level; VZ flush; VB body] =>
    let r := handler ae cenc (negb (has_cl =? 0)) (negb (has_rule =? 0)) cmd in
    VL [VB (h_cenc r); vbool (h_has_clen r); VZ (h_wrapped r); VB body; VZ 1]
  | _ => VErr 0
  end.

(* the number of Read calls depends on compressed sizes (outside the model): the observed per-call consumption
   must be the model's for that many calls, must consume the whole body and end with at least two empty calls
   (close, EOF); the decoded body must be the source *)
Definition agree_C54 (i o : val) : bool :=
  match i with
  | VL [VZ 1; VZ codec; VZ level; VZ flush; chunks; VZ p] =>
    match as_LB chunks, o with
    | Some cs, VL [obs; VB dec; VZ ok] =>
      match as_LZ obs with
      | Some l => lz_eqb (pulls flush cs (length l)) l && (sumZ l =? total cs)
                  && (ok =? 1) && bytes_eqb dec (concat cs)
      | None => false
      end
    | _, _ => false
    end
  | _ => val_eqb (run_C54 i) o
  end.

(* ---- the property, from the statement *)
Definition prop_C54 (i o : val) : bool :=
  match i, o with
  | VL [VZ 1; VZ codec; VZ level; VZ flush; chunks; VZ p], VL [obs; VB dec; VZ ok] =>
    (* the compressed stream decompresses to exactly the backend body *)
    match as_LB chunks with Some cs => (ok =? 1) && bytes_eqb dec (concat cs) | None => false end
  | VL [VZ 2; VZ cmd; VZ has_rule; VB ae; VB cenc; VZ has_cl; VZ level; VZ flush; VB body],
    VL [VB cenc'; VZ has_cl'; VZ wrapped; VB dec; VZ ok] =>
    let compressed := negb (wrapped =? 0) in
    (* whatever happened, the client can recover the backend body with the announced encoding *)
    (ok =? 1) && bytes_eqb dec body
    && (if compressed then
          (* announced encoding is the one applied and the request accepted it; no stale Content-Length;
             only responses that were not already encoded *)
          ((bytes_eqb cenc' GZIP && (wrapped =? 1) && has_token ae GZIP && (cmd =? 0))
           || (bytes_eqb cenc' BR && (wrapped =? 2) && has_token ae BR && (cmd =? 1)))
          && (has_cl' =? 0) && (bytes_eqb cenc [] || bytes_eqb cenc IDENTITY) && negb (has_rule =? 0)
        else
          (* untouched: same Content-Encoding, Content-Length kept *)
          bytes_eqb cenc' cenc && (has_cl' =? (if has_cl =? 0 then 0 else 1)))
    (* a response that is already encoded is never touched *)
    && (if negb (bytes_eqb cenc []) && negb (bytes_eqb cenc IDENTITY) then negb compressed else true)
  | _, _ => false
  end.
Definition kf_C54 (i : val) : Z := 0.
