(* C45 wire functions.
   input  : [op mt flag X]
              op = 1  round trip : X = [fields...]   -> observation [VB marshalled; P]
              op = 2  parse      : X = VB data       -> observation P
            mt: 1 clientHello 2 serverHello 3 certificate 4 serverKeyExchange 5 certificateStatus
                7 clientKeyExchange 8 finished 9 nextProto 10 certificateRequest 11 certificateVerify
                12 newSessionTicket 13 sessionState ; flag = hasSignatureAndHash (mt 10, 11)
   P      : [1 [fields...]] (unmarshal returned true) | [0] (false) ; a Go panic is [-2]. *)
From Coq Require Import List ZArith Bool.
From Bfe Require Import lib.Val lib.Bytes model.TlsMsgs.
Import ListNotations.
Open Scope Z_scope.

Definition vb (b : bool) : val := vbool b.

(* ---- field lists <-> values ---- *)
Definition ch_fields (m : client_hello) : list val :=
  [VZ (ch_vers m); VB (ch_random m); VB (ch_sid m); vLZ (ch_suites m); VB (ch_comp m); vb (ch_npn m);
   VB (ch_sni m); vb (ch_ocsp m); vLZ (ch_curves m); VB (ch_points m); vb (ch_ticket_ok m);
   VB (ch_ticket m); vLZ (ch_sigalgs m); vb (ch_reneg m); vLB (ch_alpn m)].
Definition ch_out (m : client_hello) : val :=
  VL (ch_fields m ++ [vb (ch_padding m); vLZ (ch_extids m)]).
Definition ch_of (f : list val) : option client_hello :=
  match f with
  | [VZ vers; VB random; VB sid; su; VB comp; VZ npn; VB sni; VZ ocsp; cu; VB points; VZ tok;
     VB ticket; sa; VZ reneg; al] =>
    match as_LZ su, as_LZ cu, as_LZ sa, as_LB al with
    | Some su', Some cu', Some sa', Some al' =>
      Some {| ch_vers := vers; ch_random := random; ch_sid := sid; ch_suites := su'; ch_comp := comp;
              ch_npn := negb (npn =? 0); ch_sni := sni; ch_ocsp := negb (ocsp =? 0); ch_curves := cu';
              ch_points := points; ch_ticket_ok := negb (tok =? 0); ch_ticket := ticket;
              ch_sigalgs := sa'; ch_reneg := negb (reneg =? 0); ch_alpn := al';
              ch_padding := false; ch_extids := [] |}
    | _, _, _, _ => None
    end
  | _ => None
  end.

Definition sh_fields (m : server_hello) : list val :=
  [VZ (sh_vers m); VB (sh_random m); VB (sh_sid m); VZ (sh_suite m); VZ (sh_comp m); vb (sh_npn m);
   vLB (sh_protos m); vb (sh_ocsp m); vb (sh_ticket m); vb (sh_reneg m); VB (sh_alpn m)].
Definition sh_of (f : list val) : option server_hello :=
  match f with
  | [VZ vers; VB random; VB sid; VZ suite; VZ comp; VZ npn; pr; VZ ocsp; VZ tk; VZ reneg; VB alpn] =>
    match as_LB pr with
    | Some pr' =>
      Some {| sh_vers := vers; sh_random := random; sh_sid := sid; sh_suite := suite; sh_comp := comp;
              sh_npn := negb (npn =? 0); sh_protos := pr'; sh_ocsp := negb (ocsp =? 0);
              sh_ticket := negb (tk =? 0); sh_reneg := negb (reneg =? 0); sh_alpn := alpn |}
    | None => None
    end
  | _ => None
  end.

Definition ss_fields (s : session_state) : list val :=
  [VZ (ss_vers s); VZ (ss_suite s); VB (ss_master s); vLB (ss_certs s)].
Definition ss_of (f : list val) : option session_state :=
  match f with
  | [VZ v; VZ su; VB ms; ce] =>
    match as_LB ce with
    | Some ce' => Some {| ss_vers := v; ss_suite := su; ss_master := ms; ss_certs := ce' |}
    | None => None
    end
  | _ => None
  end.

(* ---- marshal: fields -> bytes ---- *)
Definition marshal_any (mt : Z) (flag : bool) (f : list val) : option bytes :=
  if mt =? 1 then option_map marshal_ch (ch_of f)
  else if mt =? 2 then option_map marshal_sh (sh_of f)
  else if mt =? 3 then match f with [c] => option_map marshal_cert (as_LB c) | _ => None end
  else if mt =? 4 then match f with [VB k] => Some (marshal_ske k) | _ => None end
  else if mt =? 5 then match f with [VZ ty; VB r] => Some (marshal_cs ty r) | _ => None end
  else if mt =? 7 then match f with [VB k] => Some (marshal_cke k) | _ => None end
  else if mt =? 8 then match f with [VB k] => Some (marshal_fin k) | _ => None end
  else if mt =? 9 then match f with [VB k] => Some (marshal_np k) | _ => None end
  else if mt =? 10 then
    match f with
    | [VB ty; sa; ca] =>
      match as_LZ sa, as_LB ca with
      | Some sa', Some ca' => Some (marshal_creq flag ty sa' ca')
      | _, _ => None
      end
    | _ => None
    end
  else if mt =? 11 then match f with [VZ sah; VB sg] => Some (marshal_cv flag sah sg) | _ => None end
  else if mt =? 12 then match f with [VB k] => Some (marshal_nst k) | _ => None end
  else if mt =? 13 then option_map marshal_ss (ss_of f)
  else None.

(* ---- unmarshal: bytes -> P ---- *)
Definition pres {A} (enc : A -> list val) (r : res A) : val :=
  match r with
  | Ok a => VL [VZ 1; VL (enc a)]
  | Bad => VL [VZ 0]
  | Fuel => VErr 99
  end.
Definition one (b : bytes) : list val := [VB b].

Definition unmarshal_any (mt : Z) (flag : bool) (d : bytes) : val :=
  if mt =? 1 then match unmarshal_ch d with
                  | Ok m => VL [VZ 1; ch_out m] | Bad => VL [VZ 0] | Fuel => VErr 99 end
  else if mt =? 2 then pres sh_fields (unmarshal_sh d)
  else if mt =? 3 then pres (fun c => [vLB c]) (unmarshal_cert d)
  else if mt =? 4 then pres one (unmarshal_ske d)
  else if mt =? 5 then pres (fun p => [VZ (fst p); VB (snd p)]) (unmarshal_cs d)
  else if mt =? 7 then pres one (unmarshal_cke d)
  else if mt =? 8 then pres one (unmarshal_fin d)
  else if mt =? 9 then pres one (unmarshal_np d)
  else if mt =? 10 then
    pres (fun p => [VB (fst (fst p)); vLZ (snd (fst p)); vLB (snd p)]) (unmarshal_creq flag d)
  else if mt =? 11 then pres (fun p => [VZ (fst p); VB (snd p)]) (unmarshal_cv flag d)
  else if mt =? 12 then pres one (unmarshal_nst d)
  else if mt =? 13 then pres ss_fields (unmarshal_ss d)
  else VErr 0.

Definition run_C45 (i : val) : val :=
  match i with
  | VL [VZ 1; VZ mt; VZ flag; VL f] =>
    match marshal_any mt (negb (flag =? 0)) f with
    | Some b => VL [VB b; unmarshal_any mt (negb (flag =? 0)) b]
    | None => VErr 0
    end
  | VL [VZ 2; VZ mt; VZ flag; VB d] => unmarshal_any mt (negb (flag =? 0)) d
  | _ => VErr 0
  end.
Definition agree_C45 (i o : val) : bool := val_eqb (run_C45 i) o.

(* ---- the property, from the specification ---- *)
(* "values within field widths": the domain on which a round trip is required *)
Definition wf_str (lo hi : Z) (s : bytes) : bool := wf_bytes s && (lo <=? blen s) && (blen s <? hi).
Definition exts_fit (l : list (Z * bytes)) : bool :=
  forallb (fun e => blen (snd e) <? 65536) l && (blen (flat_map enc_ext l) <? 65536).

Definition wf_ch (m : client_hello) : bool :=
  wf_u16 (ch_vers m) && wf_str 32 33 (ch_random m) && wf_str 0 33 (ch_sid m) &&
  forallb wf_u16 (ch_suites m) && (blen (ch_suites m) <? 32768) && wf_str 0 256 (ch_comp m) &&
  wf_bytes (ch_sni m) && forallb wf_u16 (ch_curves m) && wf_str 0 256 (ch_points m) &&
  wf_bytes (ch_ticket m) && (ch_ticket_ok m || (blen (ch_ticket m) =? 0)) &&
  forallb wf_u16 (ch_sigalgs m) && forallb (wf_str 1 256) (ch_alpn m) &&
  (* the renegotiation SCSV in the suite list is the same signal as the extension *)
  (ch_reneg m || negb (existsb (Z.eqb scsv_renegotiation) (ch_suites m))) &&
  exts_fit (ch_exts m).

Definition wf_sh (m : server_hello) : bool :=
  wf_u16 (sh_vers m) && wf_str 32 33 (sh_random m) && wf_str 0 33 (sh_sid m) && wf_u16 (sh_suite m) &&
  (0 <=? sh_comp m) && (sh_comp m <? 256) && forallb (wf_str 1 256) (sh_protos m) &&
  (sh_npn m || (llen (sh_protos m) =? 0)) && wf_str 0 256 (sh_alpn m) && exts_fit (sh_exts m).

Definition wf_ss (s : session_state) : bool :=
  wf_u16 (ss_vers s) && wf_u16 (ss_suite s) && wf_str 0 65536 (ss_master s) &&
  (llen (ss_certs s) <? 65536) && forallb (wf_str 0 4294967296) (ss_certs s).

Definition wf_any (mt : Z) (flag : bool) (f : list val) : bool :=
  (* for the two hellos the value must also be in canonical wire form (booleans encoded as 0/1) *)
  if mt =? 1 then match ch_of f with Some m => wf_ch m && val_eqb (VL (ch_fields m)) (VL f) | None => false end
  else if mt =? 2 then match sh_of f with Some m => wf_sh m && val_eqb (VL (sh_fields m)) (VL f) | None => false end
  else if mt =? 3 then
    match f with
    | [c] => match as_LB c with
             | Some cs => forallb (wf_str 1 16777216) cs && (blen (flat_map enc_cert24 cs) <? 16777216)
             | None => false end
    | _ => false end
  else if mt =? 4 then match f with [VB k] => wf_bytes k | _ => false end
  else if mt =? 5 then
    match f with
    | [VZ ty; VB r] => (0 <=? ty) && (ty <? 256) && wf_str 0 16777212 r && ((ty =? 1) || (blen r =? 0))
    | _ => false end
  else if mt =? 7 then match f with [VB k] => wf_str 0 16777216 k | _ => false end
  else if mt =? 8 then match f with [VB k] => wf_bytes k | _ => false end
  else if mt =? 9 then match f with [VB k] => wf_str 0 256 k | _ => false end
  else if mt =? 10 then
    match f with
    | [VB ty; sa; ca] =>
      match as_LZ sa, as_LB ca with
      | Some sa', Some ca' =>
        wf_str 1 256 ty && forallb wf_u16 sa' && (blen sa' <? 32768) && (flag || (blen sa' =? 0)) &&
        forallb (wf_str 0 65536) ca' && (blen (flat_map enc_vec16 ca') <? 65536)
      | _, _ => false
      end
    | _ => false end
  else if mt =? 11 then
    match f with
    | [VZ sah; VB sg] => (if flag then wf_u16 sah else sah =? 0) && wf_str 0 65536 sg
    | _ => false end
  else if mt =? 12 then match f with [VB k] => wf_str 0 65536 k | _ => false end
  else if mt =? 13 then match ss_of f with Some s => wf_ss s | None => false end
  else false.

Definition not_crash (p : val) : bool :=
  match p with
  | VL [VZ 1; VL _] => true
  | VL [VZ 0] => true
  | _ => false
  end.

(* op 1: for a value within field widths the bytes parse back (ok = 1) to the same fields (derived,
   un-compared fields may follow); op 2: parsing any byte string returns true/false -- no panic,
   no read outside the (exact-capacity) message slice.  Outside the widths only not_crash is required. *)
Definition prop_C45 (i o : val) : bool :=
  match i with
  | VL [VZ 1; VZ mt; VZ flag; VL f] =>
    match o with
    | VL [VB _; p] =>
      not_crash p &&
      (negb (wf_any mt (negb (flag =? 0)) f) ||
       match p with
       | VL [VZ 1; VL f'] => val_eqb (VL (firstn (length f) f')) (VL f)
       | _ => false
       end)
    | _ => false
    end
  | VL [VZ 2; VZ _; VZ _; VB _] => not_crash o
  | _ => false
  end.

Definition kf_C45 (i : val) : Z := 0.

(* well-formed harness inputs: a known message id and, for a round-trip case, decodable fields *)
Definition valid_mt (mt : Z) : bool := existsb (Z.eqb mt) [1; 2; 3; 4; 5; 7; 8; 9; 10; 11; 12; 13].
Definition wf_C45 (i : val) : bool :=
  match i with
  | VL [VZ 1; VZ mt; VZ flag; VL f] =>
    valid_mt mt && match marshal_any mt (negb (flag =? 0)) f with Some _ => true | None => false end
  | VL [VZ 2; VZ mt; VZ _; VB _] => valid_mt mt
  | _ => false
  end.
