(* C26 wire functions.
   input : VL [VZ mode; VL [VL [VB name; VB value]; ...]]   (mode: 0 GET no body, 1 POST + 3-byte body, 2 POST + chunked
           body, 3 GET + empty chunked body, 4 HTTP/1.0 GET no body; pairs = the client's header lines after "Host: example.org")
   output: VL [VB line; ...] header lines the backend received (wire order, request line dropped), or VErr status when
           BFE answered itself and nothing reached the backend. *)
From Coq Require Import List ZArith Bool.
From Bfe Require Import lib.Val lib.Bytes gen.HopHeaders model.HopByHop.
Import ListNotations.
Open Scope Z_scope.

Definition host_C26 : bytes := [101;120;97;109;112;108;101;46;111;114;103].   (* example.org *)

Definition dec_pair (v : val) : option (bytes * bytes) :=
  match v with VL [VB n; VB x] => Some (n, x) | _ => None end.
Definition dec_C26 (i : val) : option (Z * list (bytes * bytes)) :=
  match i with
  | VL [VZ mode; VL ps] => match all_some (map dec_pair ps) with Some l => Some (mode, l) | None => None end
  | _ => None
  end.

Definition run_C26 (i : val) : val :=
  match dec_C26 i with
  | None => VErr 0
  | Some (_, pairs) =>
    match backend_lines host_C26 pairs with
    | Some ls => VL (map VB ls)
    | None => VErr 400
    end
  end.
Definition agree_C26 (i o : val) : bool := val_eqb (run_C26 i) o.

(* ---- the property, on what actually reached the backend ---- *)
Definition line_name (l : bytes) : bytes :=
  match index_byte 58 l with Some n => firstn n l | None => l end.
Definition line_value (l : bytes) : bytes :=
  match index_byte 58 l with Some n => trim_sp (skipn (S n) l) | None => [] end.
(* lines that are BFE's own framing of the message it sends on its own hop: Host, Content-Length, and
   "Transfer-Encoding: chunked" when it relays a chunked body (modes 2, 3) *)
Definition own_framing (mode : Z) (n v : bytes) : bool :=
  eq_fold n s_host || eq_fold n s_content_length ||
  (eq_fold n s_transfer_encoding && bytes_eqb v s_chunked && ((mode =? 2) || (mode =? 3))).
Definition line_ok (mode : Z) (tokens : list bytes) (l : bytes) : bool :=
  let n := line_name l in
  let v := line_value l in
  own_framing mode n v ||
  ((negb (existsb (eq_fold n) spec_hop_names) || (eq_fold n s_te && bytes_eqb v s_trailers))
   && negb (nominated tokens n)).

Definition prop_C26 (i o : val) : bool :=
  match dec_C26 i with
  | None => false
  | Some (mode, pairs) =>
    match o with
    | VL [VZ (-1); VZ _] => true                      (* nothing reached the backend *)
    | VL ls => match all_some (map as_B ls) with
               | Some lines => forallb (line_ok mode (conn_tokens pairs)) lines
               | None => false
               end
    | _ => false
    end
  end.

(* known finding 1: a field named by a Connection token is forwarded (the proxy does not act on Connection tokens) *)
Definition kf_C26 (i : val) : Z :=
  match dec_C26 i with
  | None => 0
  | Some (_, pairs) =>
    match read_request pairs with
    | Some (m, _, _) =>
      if existsb (fun e => nominated (conn_tokens pairs) (fst e)) (to_backend m) then 1 else 0
    | None => 0
    end
  end.
