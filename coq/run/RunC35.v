(* C35 wire functions.  Same script format and model as C33 (harness/h2c33/engine.go, model/H2Stream.v).
   prop_C35 is written from RFC 7540 5.1 / 5.1.1 / 5.1.2 / 8.1 and the property text: the client-side
   view of its own streams, evaluated on the implementation's frames; it does not use the model. *)
From Coq Require Import List ZArith Bool.
From Bfe Require Import lib.Val model.H2Flow model.H2Stream run.RunC33.
Import ListNotations.
Open Scope Z_scope.

Definition run_C35 (i : val) : val := run_script i.
Definition agree_C35 (i o : val) : bool := val_eqb (run_C35 i) o.

(* client view: (stream id, phase) with phase 1 open, 2 half-closed(remote) for the server, 3 closed *)
Record rstate := mkR { r_sts : list (Z * Z); r_max : Z; r_stop : bool }.

Fixpoint rfind (id : Z) (l : list (Z * Z)) : option Z :=
  match l with [] => None | (i, p) :: r => if i =? id then Some p else rfind id r end.
Fixpoint rset (id p : Z) (l : list (Z * Z)) : list (Z * Z) :=
  match l with [] => [] | (i, q) :: r => if i =? id then (i, p) :: r else (i, q) :: rset id p r end.
Definition nopen (l : list (Z * Z)) : Z :=
  fold_right (fun x acc => if snd x =? 3 then acc else acc + 1) 0 l.
Definition any_goaway (obs : list evt) : bool := existsb (ev_kind 4) obs.
Definition panicked (obs : list evt) : bool := existsb (fun e => ev_kind 5 e && negb (ev_val e =? 0)) obs.

(* streams answered with RST_STREAM or a complete response are closed *)
Definition settle1 (sts : list (Z * Z)) (e : evt) : list (Z * Z) :=
  let '(k, s, x) := e in
  if (k =? 2) || ((k =? 3) && Z.odd x) then rset s 3 sts else sts.
Definition settle (obs : list evt) (r : rstate) : rstate :=
  mkR (fold_left settle1 obs (r_sts r)) (r_max r) (r_stop r || ended obs).

Definition rules_step (adv : Z) (r : rstate) (o : op) (obs : list evt) : rstate * bool :=
  if r_stop r then (r, true) else
  if panicked obs then (r, false) else
  let conn_err := goaway_is obs 1 in
  match o with
  | OHeaders id es kind _ =>
    if id =? 0 then (settle obs r, conn_err)
    else if kind =? 7 then (settle obs r, rst_is obs id 1 || any_goaway obs)    (* 8.1.2: malformed header block: stream error *)
    else if negb (id mod 2 =? 1) then (settle obs r, conn_err)                  (* 5.1.1: client streams are odd *)
    else match rfind id (r_sts r) with
         | Some p =>
           if p =? 1 then                                                       (* trailers *)
             if es && (kind =? 1) then
               let ok := negb (has_rst obs id) && negb (ended obs) in
               (settle obs (mkR (rset id 2 (r_sts r)) (r_max r) false), ok)
             else (settle obs r, rst_is obs id 1 || any_goaway obs)            (* 8.1: trailers must end the stream, no pseudo-headers *)
           else if p =? 2 then (settle obs r, rst_is obs id 5 || any_goaway obs) (* 5.1 half-closed(remote): STREAM_CLOSED *)
           else (settle obs r, any_goaway obs)                                  (* closed stream: connection error *)
         | None =>
           if id <=? r_max r then (settle obs r, conn_err)                      (* 5.1.1: ids must increase *)
           else
             (* the new stream exists from now on (it is closed again at once when it is refused) *)
             let r1 := mkR ((id, if es then 2 else 1) :: r_sts r) id false in
             if adv <=? nopen (r_sts r) then                                    (* 5.1.2: over the advertised limit: refused somehow *)
               (settle obs r1, has_rst obs id || ended obs)
             else if (kind =? 1) || ((kind =? 2) && negb es) || ((4 <=? kind) && (kind <=? 6)) then  (* 8.1.2.3 / 8.3: malformed request *)
               (settle obs r1, rst_is obs id 1 || any_goaway obs)
             else
               let ok := negb (has_rst obs id) && negb (ended obs) in
               (settle obs r1, ok)
         end
  | OData id dlen pad es =>
    if id =? 0 then (settle obs r, conn_err)
    else match rfind id (r_sts r) with
         | Some p =>
           if p =? 1 then
             let acc := negb (has_rst obs id) && negb (ended obs) in
             (settle obs (mkR (if acc && es then rset id 2 (r_sts r) else r_sts r) (r_max r) false), true)
           else (settle obs r, has_rst obs id || any_goaway obs)                (* 5.1: DATA on a stream that is not open *)
         | None => (settle obs r, has_rst obs id || any_goaway obs)
         end
  | ORst id _ =>
    if id =? 0 then (settle obs r, conn_err)
    else match rfind id (r_sts r) with
         | Some _ => (settle obs (mkR (rset id 3 (r_sts r)) (r_max r) false), negb (ended obs))
         | None => if r_max r <? id then (settle obs r, conn_err)               (* 6.4: RST_STREAM on an idle stream *)
                   else (settle obs r, negb (ended obs))
         end
  | OPush _ => (settle obs r, conn_err)                                         (* 8.2: a client cannot push *)
  | OFinish id =>
    match rfind id (r_sts r), hres obs id with
    | Some p, Some x => (settle obs r, negb (x =? 0) || (p =? 3) || resp_end obs id)   (* a running stream gets its complete response *)
    | _, _ => (settle obs r, true)
    end
  | ORace id _ _ _ =>                                                           (* handler return racing with a client frame: same duty *)
    match rfind id (r_sts r), hres obs id with
    | Some p, Some x => (settle obs r, negb (ended obs) && (negb (x =? 0) || (p =? 3) || resp_end obs id))
    | _, _ => (settle obs r, negb (ended obs))
    end
  | _ => (settle obs r, negb (ended obs))                                       (* WINDOW_UPDATE, SETTINGS, reads: connection continues *)
  end.

Fixpoint rules_run (adv : Z) (r : rstate) (ops : list op) (obs : list (list evt)) {struct ops} : bool :=
  match ops, obs with
  | [], [] => true
  | o :: t, e :: t' => let '(r', ok) := rules_step adv r o e in ok && rules_run adv r' t t'
  | _, _ => false
  end.

(* "the connection either continues or ends with GOAWAY or close": no panic-close event; the step that
   ends the connection shows exactly one GOAWAY or one plain close; nothing is observed afterwards *)
Definition clean_endb (obs : list evt) : bool :=
  match obs with
  | [(k, s, x)] => (k =? 4) || ((k =? 5) && (s =? 0) && (x =? 0))
  | _ => false
  end.
Fixpoint core_run (dead : bool) (obs : list (list evt)) {struct obs} : bool :=
  match obs with
  | [] => true
  | e :: r =>
    if dead then (match e with [] => true | _ => false end) && core_run true r
    else negb (panicked e) && (if ended e then clean_endb e && core_run true r else core_run false r)
  end.

Definition prop_C35 (i o : val) : bool :=
  match dec_script i, dec_out o with
  | Some (_, maxs, ops), Some (obs, p) =>
    (p =? 0) && core_run false obs && rules_run (if maxs =? 0 then 200 else maxs) (mkR [] 0 false) ops obs
  | _, _ => false
  end.

Definition kf_C35 (i : val) : Z := 0.
