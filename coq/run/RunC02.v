(* C02 wire functions.
   input : [1 backends hash key perms]     direct BalanceRR.Balance(WrrSticky, key) on each permutation of the conf
             backends = [[addrinfo w avail] ...], hash = murmur3.Sum64(key) (supplied by the harness),
             perms = list of index lists (each a permutation of 0..n-1)
           output: one result per permutation: addrinfo bytes, or -1 ("all backend is down")
         | [2 subs hash strategy key nvar]  BalanceGslb.Balance (SessionSticky, crossRetry 0) built in nvar different ways
             subs = [[name w backends] ...]; strategy/key only tell the harness how to place the key in the request
           output: one result [sub r] per variant, r = addrinfo | -1 (no backend) | -2 (blackhole); or [x -3] (no sub-cluster)
         | [3 conf0 ops]   reload history on ONE BalanceRR: Init(conf0), conf = [[addrinfo w] ...],
             ops = [0 hash key] sticky Balance -> addrinfo | -1 ;  [1 conf] BalanceRR.Update(conf) -> 0 ;
                   [2 addrinfo b] SetAvail -> 0
           output: one observation per operation *)
From Coq Require Import List ZArith Bool.
From Bfe Require Import lib.Val model.Sticky.
Import ListNotations.
Open Scope Z_scope.

Definition dec_target (v : val) : option target :=
  match v with VL [VB k; VZ w; VZ a] => Some (k, w, negb (a =? 0)) | _ => None end.
Definition dec_targets (v : val) : option (list target) :=
  match v with VL l => all_some (map dec_target l) | _ => None end.
Definition dec_sub (v : val) : option subc :=
  match v with
  | VL [VB n; VZ w; bs] => match dec_targets bs with Some l => Some (n, w, l) | None => None end
  | _ => None
  end.
Definition dec_subs (v : val) : option (list subc) :=
  match v with VL l => all_some (map dec_sub l) | _ => None end.
Definition permute {X} (l : list X) (p : list Z) : list X :=
  flat_map (fun i => match nth_error l (Z.to_nat i) with Some x => [x] | None => [] end) p.
(* p is a permutation of 0..n-1 *)
Definition is_perm (n : nat) (p : list Z) : bool :=
  Nat.eqb (length p) n &&
  forallb (fun i => Nat.eqb (length (filter (Z.eqb (Z.of_nat i)) p)) 1) (seq 0 n).
Definition dec_perms (n : nat) (v : val) : option (list (list Z)) :=
  match v with
  | VL l => match all_some (map as_LZ l) with
            | Some ps => if forallb (is_perm n) ps then Some ps else None
            | None => None
            end
  | _ => None
  end.

Definition dec_kw (v : val) : option (key * Z) :=
  match v with VL [VB k; VZ w] => Some (k, w) | _ => None end.
Definition dec_kconf (v : val) : option (list (key * Z)) :=
  match v with VL l => all_some (map dec_kw l) | _ => None end.
Definition dec_hop (v : val) : option hop :=
  match v with
  | VL [VZ 0; VZ h; VB _] => if (0 <=? h) && (h <? 2^64) then Some (HPick h) else None
  | VL [VZ 1; c] => match dec_kconf c with Some conf => Some (HUpdate conf) | None => None end
  | VL [VZ 2; VB k; VZ b] => Some (HAvail k (negb (b =? 0)))
  | _ => None
  end.
Definition dec_hist (c ops : val) : option (list (key * Z) * list hop) :=
  match dec_kconf c, ops with
  | Some conf, VL l => match all_some (map dec_hop l) with Some os => Some (conf, os) | None => None end
  | _, _ => None
  end.
Definition enc_hobs (o : option (option key)) : val :=
  match o with Some (Some k) => VB k | Some None => VZ (-1) | None => VZ 0 end.
Definition enc_okey (o : option key) : val := match o with Some k => VB k | None => VZ (-1) end.
Definition enc_gres (g : gres) : val :=
  match g with
  | GNoSub => VL [VB []; VZ (-3)]
  | GBlackhole s => VL [VB s; VZ (-2)]
  | GNoBackend s => VL [VB s; VZ (-1)]
  | GOk s a => VL [VB s; VB a]
  end.
Definition wf_hash (h : Z) : bool := (0 <=? h) && (h <? 2^64).

Definition run_C02 (i : val) : val :=
  match i with
  | VL [VZ 1; bs; VZ h; VB _; ps] =>
    match dec_targets bs with
    | Some l => match dec_perms (length l) ps with
                | Some perms => if wf_hash h then VL (map (fun p => enc_okey (sticky (permute l p) h)) perms) else VErr 0
                | None => VErr 0
                end
    | None => VErr 0
    end
  | VL [VZ 2; ss; VZ h; VZ _; VB _; VZ n] =>
    match dec_subs ss with
    | Some subs => if wf_hash h && (0 <=? n) && (n <=? 8) then VL (repeat (enc_gres (gslb_pick subs h)) (Z.to_nat n)) else VErr 0
    | None => VErr 0
    end
  | VL [VZ 3; c; ops] =>
    match dec_hist c ops with
    | Some (conf, os) => VL (map enc_hobs (hrun_by sticky (h_init conf) os))
    | None => VErr 0
    end
  | _ => VErr 0
  end.
Definition agree_C02 (i o : val) : bool := val_eqb (run_C02 i) o.

(* the property: (a) the same target for every ordering / construction history of the configuration;
   (b) the target is the owner of the residue hash mod W in the key-sorted eligible list, where target t owns
   exactly the w_t residues [sum of the weights before it, +w_t). *)
Definition all_eq (v : val) (l : list val) : bool := forallb (val_eqb v) l.
Definition prop_C02 (i o : val) : bool :=
  match i, o with
  | VL [VZ 1; bs; VZ h; VB _; ps], VL outs =>
    match dec_targets bs with
    | Some l => match dec_perms (length l) ps with
                | Some perms =>
                  wf_hash h && distinct_keys (map t_key l) && Nat.eqb (length outs) (length perms) &&
                  all_eq (enc_okey (spec_pick 100 true l h)) outs
                | None => false
                end
    | None => false
    end
  | VL [VZ 2; ss; VZ h; VZ _; VB _; VZ n], VL outs =>
    match dec_subs ss with
    | Some subs =>
      wf_hash h && distinct_keys (map (fun s : subc => fst (fst s)) subs) &&
      forallb (fun s : subc => distinct_keys (map t_key (snd s))) subs &&
      (Z.of_nat (length outs) =? n) && all_eq (enc_gres (gslb_spec subs h)) outs
    | None => false
    end
  (* history: after every Update / SetAvail the pick is the owner of the residue in the key-sorted eligible list of
     the CURRENT configuration, i.e. what a freshly built balancer with that configuration returns *)
  | VL [VZ 3; c; ops], _ =>
    match dec_hist c ops with
    | Some (conf, os) => val_eqb (VL (map enc_hobs (hrun_by (spec_pick 100 true) (h_init conf) os))) o
    | None => false
    end
  | _, _ => false
  end.
Definition kf_C02 (i : val) : Z := 0.
