(* C08 wire functions.
   input : [rm cr level method body [steps]]
     rm, cr  RetryMax / CrossRetry of the cluster; level 0 RetryConnect / 1 RetryGet
     method  0 GET 1 POST 2 HEAD 3 PUT;  body 0 none, 1 "Content-Length: 0", 2 Content-Length body, 3 chunked body
     steps   outcome of each attempt that reaches a live backend: 0 reply 200, 1 close after reading the request head,
             2 half a status line then close, 4 reply 500, 5 no reply until the response-header timeout fires;
             returned by the fault-injecting transport after the backend received the request and replied: 11 bfe_http.WriteRequestError,
             12 bfe_http.ReadRespHeaderError, 13 RespHeaderTimeoutError, 14 TransportBrokenError, 16 bfe_fcgi.WriteRequestError,
             17 bfe_fcgi.ReadRespHeaderError, 18 an error of another type
   topology: sub-cluster 0 (weight 100) = backends 0 (live), 1 (refuses connections); sub-cluster 1 (weight 0) = 2 (live),
             3 (refuses); sub-cluster 2 (weight 0) = 4 (live); GSLB_BLACKHOLE weight 0.
   optional 7th input element topo: 0 = the cluster above; 1 = a cluster whose primary sub-cluster (weight 100) has NO backend and
             whose second sub-cluster (weight 0) has backends 5 (live) and 6 (refuses): every in-cluster selection fails, Balance
             raises RetryTime to RetryMax and selects across sub-clusters (or returns ErrBkNoBackend when CrossRetry = 0);
             2 = a cluster with two empty sub-clusters: Balance returns ErrBkCrossRetryBalance until the budget is exhausted.
   optional 8th input element hist (topo must be 0): how the cluster got its retry settings: 0 at start-up; 1 the cluster was
             put into service by a reload (ServerDataConfReload + GslbDataConfReload) just before the request; 2 it was added by a
             reload with OTHER retry settings and changed to these by a second reload; 3 as 1 but reloaded once more unchanged.
             The bounds are those of the current configuration.
   output: [[backend chosen per attempt] [backends that received request bytes, in order] status]
   The balancer's choices are left open: agree_C08 takes them from the observation and checks them against the model
   (in-cluster attempts in sub-cluster 0, cross attempts in another one) and predicts everything else. *)
From Coq Require Import List ZArith Bool.
From Bfe Require Import lib.Val model.Retry.
Import ListNotations.
Open Scope Z_scope.

(* step codes: 0,1,2,4,5 played by the fake backend; 11.. returned by the fault-injecting transport after a successful round trip *)
Definition step_ok (x : Z) : bool :=
  (x =? 0) || (x =? 1) || (x =? 2) || (x =? 4) || (x =? 5) || (x =? 11) || (x =? 12) || (x =? 13) || (x =? 14) || (x =? 16) || (x =? 17) || (x =? 18).

Record c08_input := mkI { i_cfg : cfg; i_req : req; i_steps : list Z; i_topo : Z }.

Definition decode_fields (rm cr level method body : Z) (s : val) (topo : Z) : option c08_input :=
  match as_LZ s with
  | Some steps =>
    if (0 <=? rm) && (rm <=? 30) && (0 <=? cr) && (cr <=? 3) && (0 <=? level) && (level <=? 1)
       && (0 <=? method) && (method <=? 3) && (0 <=? body) && (body <=? 3)
       && forallb step_ok steps
       && (length steps <=? 40)%nat && (0 <=? topo) && (topo <=? 2)
    then Some (mkI (mkCfg rm cr level) (mkReq (method =? 0) (body <=? 1)) steps topo)
    else None
  | None => None
  end.

Definition decode_C08 (v : val) : option c08_input :=
  match v with
  | VL [VZ rm; VZ cr; VZ level; VZ method; VZ body; s] => decode_fields rm cr level method body s 0
  | VL [VZ rm; VZ cr; VZ level; VZ method; VZ body; s; VZ topo] => decode_fields rm cr level method body s topo
  | VL [VZ rm; VZ cr; VZ level; VZ method; VZ body; s; VZ 0; VZ hist] =>
    (* reload history: the behaviour must be that of the CURRENT configuration, so the model ignores hist *)
    if (0 <=? hist) && (hist <=? 3) then decode_fields rm cr level method body s 0 else None
  | _ => None
  end.

Definition is_dead (b : Z) : bool := (b =? 1) || (b =? 3).
Definition sub_of (b : Z) : Z := if b <=? 1 then 0 else if b <=? 3 then 1 else 2.

(* outcome of each attempt, with the status the client gets if it is the last one *)
Definition step_outcome (st : Z) : outcome * Z :=
  if st =? 0 then (Ok, 200) else if st =? 4 then (Ok, 500)
  else if (st =? 5) || (st =? 13) then (HdrTimeout, 500)
  else if (st =? 11) || (st =? 16) then (WriteErr, 500)
  else if st =? 14 then (Broken, 500)
  else if st =? 18 then (Other, 500)
  else (ReadHdrErr, 500).

Fixpoint outs_of (choices : list Z) (steps : list Z) : list (outcome * Z) :=
  match choices with
  | [] => []
  | b :: rest =>
    if is_dead b then (ConnectErr, 500) :: outs_of rest steps
    else step_outcome (match steps with x :: _ => x | [] => 0 end) :: outs_of rest (tl steps)
  end.

Definition model_obs (i : c08_input) (choices : list Z) : option val :=
  let outs := outs_of choices (i_steps i) in
  let atts := attempts (i_cfg i) (i_req i) (map (fun p => EvAttempt false (fst p)) outs) in
  let n := length atts in
  let ch := firstn n choices in
  (* the choices must fit: in-cluster attempts in sub-cluster 0, cross attempts elsewhere *)
  if forallb (fun p => let '(b, a) := p in
                       (0 <=? b) && (b <=? 4) &&
                       (if is_cross (i_cfg i) a then negb (sub_of b =? 0) else sub_of b =? 0))
             (combine ch atts)
  then
    let status := match last (firstn n outs) (Other, 500) with (Ok, s) => s | _ => 500 end in
    Some (VL [vLZ ch; vLZ (filter (fun b => negb (is_dead b)) ch); VZ status])
  else None.

(* ---- topologies 1 and 2 (in-cluster selection always fails) ---- *)
Definition is_dead_x (b : Z) : bool := b =? 6.
Fixpoint outs_of_x (choices : list Z) (steps : list Z) : list (outcome * Z) :=
  match choices with
  | [] => []
  | b :: rest =>
    if is_dead_x b then (ConnectErr, 500) :: outs_of_x rest steps
    else step_outcome (match steps with x :: _ => x | [] => 0 end) :: outs_of_x rest (tl steps)
  end.

Definition events_x (i : c08_input) (outs : list (outcome * Z)) : list event :=
  if i_topo i =? 2 then repeat EvCrossBalance 20
  else if cross_retry (i_cfg i) <=? 0 then [EvBalErr]
  else map (fun p => EvAttempt true (fst p)) outs.

Definition model_obs_x (i : c08_input) (choices : list Z) : option val :=
  let outs := outs_of_x choices (i_steps i) in
  let atts := attempts (i_cfg i) (i_req i) (events_x i outs) in
  let n := length atts in
  let ch := firstn n choices in
  if forallb (fun b => (b =? 5) || (b =? 6)) ch && (length ch =? n)%nat
  then
    let status := match last (firstn n outs) (Other, 500) with (Ok, s) => s | _ => 500 end in
    Some (VL [vLZ ch; vLZ (filter (fun b => negb (is_dead_x b)) ch); VZ status])
  else None.

Definition model_any (i : c08_input) (choices : list Z) : option val :=
  if i_topo i =? 0 then model_obs i choices else model_obs_x i choices.

(* default choices when there is no observation: alternate 0,1 in the primary sub-cluster, backend 2 across *)
Definition default_choices (i : c08_input) : list Z :=
  map (fun k => if Z.of_nat k <=? retry_max (i_cfg i) then Z.of_nat (Nat.modulo k 2) else 2) (seq 0 40).

Definition run_C08 (v : val) : val :=
  match decode_C08 v with
  | Some i => match model_any i (if i_topo i =? 0 then default_choices i else map (fun k => if Nat.even k then 6 else 5) (seq 0 40)) with Some o => o | None => VErr 1 end
  | None => VErr 0
  end.

Definition agree_C08 (iv o : val) : bool :=
  match decode_C08 iv with
  | Some i =>
    match o with
    | VL [c; _; _] =>
      match as_LZ c with
      | Some ch =>
        (* one more (fictitious) choice is appended so that a missing attempt is noticed *)
        match model_any i (ch ++ [if negb (i_topo i =? 0) then 5 else if Z.of_nat (length ch) <=? retry_max (i_cfg i) then 0 else 2]) with
        | Some m => val_eqb m o
        | None => false
        end
      | None => false
      end
    | _ => false
    end
  | None => val_eqb (VErr 0) o
  end.

(* ------------------------------------------------------------------------------------------------
   THE PROPERTY on the implementation's observation. *)
Fixpoint resend_safe (safe_always : bool) (ch : list Z) : bool :=
  match ch with
  | a :: (_ :: _) as rest => (is_dead a || safe_always) && resend_safe safe_always rest   (* a was followed by another attempt *)
  | _ => true
  end.

Fixpoint cross_ok (rm : Z) (k : Z) (first_sub : Z) (ch : list Z) : bool :=
  match ch with
  | [] => true
  | b :: rest => (if rm <? k then negb (sub_of b =? first_sub) else true) && cross_ok rm (k + 1) first_sub rest
  end.

Definition prop_body (i : c08_input) (o : val) : bool :=
  match o with
  | VL [c; s; VZ status] =>
    match as_LZ c, as_LZ s with
    | Some ch, Some saw =>
      let c := i_cfg i in
      let safe := (retry_level c =? 1) && is_get (i_req i) && bodyless (i_req i) in
      let n := Z.of_nat (length ch) in
      (* bounded *)
      (n <=? Z.min 20 (1 + retry_max c + cross_retry c))
      (* sent again only after a connect failure, or for a body-less GET when the retry level allows it *)
      && resend_safe safe ch
      (* never replayed: at most one backend received bytes unless replaying is safe *)
      && (safe || (Z.of_nat (length saw) <=? 1))
      (* exactly the live backends among the attempts received bytes, in attempt order *)
      && list_Z_eqb saw (filter (fun b => negb (is_dead b)) ch)
      (* cross attempts go to a different, existing, non-blackhole sub-cluster *)
      && forallb (fun b => (0 <=? b) && (b <=? 4)) ch
      && cross_ok (retry_max c) 0 (match ch with b :: _ => sub_of b | [] => 0 end) ch
      && (100 <=? status)
    | _, _ => false
    end
  | _ => false
  end.

Fixpoint resend_safe_x (safe_always : bool) (ch : list Z) : bool :=
  match ch with
  | a :: (_ :: _) as rest => (is_dead_x a || safe_always) && resend_safe_x safe_always rest
  | _ => true
  end.

(* topologies 1 / 2: every attempt is a cross attempt (the primary sub-cluster has no backend) *)
Definition prop_body_x (i : c08_input) (o : val) : bool :=
  match o with
  | VL [c; s; VZ status] =>
    match as_LZ c, as_LZ s with
    | Some ch, Some saw =>
      let c := i_cfg i in
      let safe := (retry_level c =? 1) && is_get (i_req i) && bodyless (i_req i) in
      let n := Z.of_nat (length ch) in
      (n <=? Z.min 20 (1 + retry_max c + cross_retry c))
      (* at most CrossRetry + 1 attempts, none when cross retry is disabled or no sub-cluster has a backend *)
      && (n <=? (if (i_topo i =? 2) || (cross_retry c <=? 0) then 0 else cross_retry c + 1))
      && resend_safe_x safe ch
      && (safe || (Z.of_nat (length saw) <=? 1))
      && list_Z_eqb saw (filter (fun b => negb (is_dead_x b)) ch)
      (* only backends of the other (non-blackhole) sub-cluster *)
      && forallb (fun b => (b =? 5) || (b =? 6)) ch
      && (100 <=? status)
    | _, _ => false
    end
  | _ => false
  end.

Definition prop_C08 (iv o : val) : bool :=
  match decode_C08 iv with
  | Some i => if i_topo i =? 0 then prop_body i o else prop_body_x i o
  | None => false
  end.

Definition kf_C08 (i : val) : Z := 0.
