(* C08 wire functions.
   input : [rm cr level method body [steps]]
     rm, cr  RetryMax / CrossRetry of the cluster; level 0 RetryConnect / 1 RetryGet
     method  0 GET 1 POST 2 HEAD 3 PUT;  body 0 none, 1 "Content-Length: 0", 2 Content-Length body, 3 chunked body
     steps   outcome of each attempt that reaches a live backend: 0 reply 200, 1 close after reading the request head,
             2 half a status line then close, 4 reply 500, 5 no reply until the response-header timeout fires
   topology: sub-cluster 0 (weight 100) = backends 0 (live), 1 (refuses connections); sub-cluster 1 (weight 0) = 2 (live),
             3 (refuses); sub-cluster 2 (weight 0) = 4 (live); GSLB_BLACKHOLE weight 0.
   output: [[backend chosen per attempt] [backends that received request bytes, in order] status]
   The balancer's choices are left open: agree_C08 takes them from the observation and checks them against the model
   (in-cluster attempts in sub-cluster 0, cross attempts in another one) and predicts everything else. *)
From Coq Require Import List ZArith Bool.
From Bfe Require Import lib.Val model.Retry.
Import ListNotations.
Open Scope Z_scope.

Record c08_input := mkI { i_cfg : cfg; i_req : req; i_steps : list Z }.

Definition decode_C08 (v : val) : option c08_input :=
  match v with
  | VL [VZ rm; VZ cr; VZ level; VZ method; VZ body; s] =>
    match as_LZ s with
    | Some steps =>
      if (0 <=? rm) && (rm <=? 5) && (0 <=? cr) && (cr <=? 3) && (0 <=? level) && (level <=? 1)
         && (0 <=? method) && (method <=? 3) && (0 <=? body) && (body <=? 3)
         && forallb (fun x => (x =? 0) || (x =? 1) || (x =? 2) || (x =? 4) || (x =? 5)) steps
         && (length steps <=? 12)%nat
      then Some (mkI (mkCfg rm cr level) (mkReq (method =? 0) (body <=? 1)) steps)
      else None
    | None => None
    end
  | _ => None
  end.

Definition is_dead (b : Z) : bool := (b =? 1) || (b =? 3).
Definition sub_of (b : Z) : Z := if b <=? 1 then 0 else if b <=? 3 then 1 else 2.

(* outcome of each attempt, with the status the client gets if it is the last one *)
Fixpoint outs_of (choices : list Z) (steps : list Z) : list (outcome * Z) :=
  match choices with
  | [] => []
  | b :: rest =>
    if is_dead b then (ConnectErr, 500) :: outs_of rest steps
    else
      let st := match steps with x :: _ => x | [] => 0 end in
      let o := if st =? 0 then (Ok, 200) else if st =? 4 then (Ok, 500)
               else if st =? 5 then (HdrTimeout, 500) else (ReadHdrErr, 500) in
      o :: outs_of rest (tl steps)
  end.

Definition model_obs (i : c08_input) (choices : list Z) : option val :=
  let outs := outs_of choices (i_steps i) in
  let atts := attempts (i_cfg i) (i_req i) (map (fun p => EvAttempt false (fst p)) outs) in
  let n := length atts in
  let ch := firstn n choices in
  (* the choices must fit: in-cluster attempts in sub-cluster 0, cross attempts elsewhere *)
  if forallb (fun p => let '(b, a) := p in
                       (0 <=? b) && (b <=? 4) &&
                       (if is_cross (i_cfg i) a then negb (sub_of b =? 0) else sub_of b =? 0))
             (combine ch atts)
  then
    let status := match last (firstn n outs) (Other, 500) with (Ok, s) => s | _ => 500 end in
    Some (VL [vLZ ch; vLZ (filter (fun b => negb (is_dead b)) ch); VZ status])
  else None.

(* default choices when there is no observation: alternate 0,1 in the primary sub-cluster, backend 2 across *)
Definition default_choices (i : c08_input) : list Z :=
  map (fun k => if Z.of_nat k <=? retry_max (i_cfg i) then Z.of_nat (Nat.modulo k 2) else 2) (seq 0 20).

Definition run_C08 (v : val) : val :=
  match decode_C08 v with
  | Some i => match model_obs i (default_choices i) with Some o => o | None => VErr 1 end
  | None => VErr 0
  end.

Definition agree_C08 (iv o : val) : bool :=
  match decode_C08 iv with
  | Some i =>
    match o with
    | VL [c; _; _] =>
      match as_LZ c with
      | Some ch =>
        (* one more (fictitious) choice is appended so that a missing attempt is noticed *)
        match model_obs i (ch ++ [if Z.of_nat (length ch) <=? retry_max (i_cfg i) then 0 else 2]) with
        | Some m => val_eqb m o
        | None => false
        end
      | None => false
      end
    | _ => false
    end
  | None => val_eqb (VErr 0) o
  end.

(* ------------------------------------------------------------------------------------------------
   THE PROPERTY on the implementation's observation. *)
Fixpoint resend_safe (safe_always : bool) (ch : list Z) : bool :=
  match ch with
  | a :: (_ :: _) as rest => (is_dead a || safe_always) && resend_safe safe_always rest   (* a was followed by another attempt *)
  | _ => true
  end.

Fixpoint cross_ok (rm : Z) (k : Z) (first_sub : Z) (ch : list Z) : bool :=
  match ch with
  | [] => true
  | b :: rest => (if rm <? k then negb (sub_of b =? first_sub) else true) && cross_ok rm (k + 1) first_sub rest
  end.

Definition prop_body (i : c08_input) (o : val) : bool :=
  match o with
  | VL [c; s; VZ status] =>
    match as_LZ c, as_LZ s with
    | Some ch, Some saw =>
      let c := i_cfg i in
      let safe := (retry_level c =? 1) && is_get (i_req i) && bodyless (i_req i) in
      let n := Z.of_nat (length ch) in
      (* bounded *)
      (n <=? Z.min 20 (1 + retry_max c + cross_retry c))
      (* sent again only after a connect failure, or for a body-less GET when the retry level allows it *)
      && resend_safe safe ch
      (* never replayed: at most one backend received bytes unless replaying is safe *)
      && (safe || (Z.of_nat (length saw) <=? 1))
      (* exactly the live backends among the attempts received bytes, in attempt order *)
      && list_Z_eqb saw (filter (fun b => negb (is_dead b)) ch)
      (* cross attempts go to a different, existing, non-blackhole sub-cluster *)
      && forallb (fun b => (0 <=? b) && (b <=? 4)) ch
      && cross_ok (retry_max c) 0 (match ch with b :: _ => sub_of b | [] => 0 end) ch
      && (100 <=? status)
    | _, _ => false
    end
  | _ => false
  end.

Definition prop_C08 (iv o : val) : bool :=
  match decode_C08 iv with
  | Some i => prop_body i o
  | None => false
  end.

Definition kf_C08 (i : val) : Z := 0.
