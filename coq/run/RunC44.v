From Coq Require Import List ZArith Bool.
From Bfe Require Import lib.Val lib.Bytes model.TlsTicket.
Import ListNotations.
Open Scope Z_scope.

(* Crypto columns: for the ticket of a case the harness supplies (computed with Go's crypto/hmac,
   crypto/aes, crypto/cipher directly, not through bfe_tls)
     maccol = HMAC-SHA256(key[16:32], ticket[:len-32])      ks = AES-CTR(key[:16], iv) key stream
   and the model's Section variables are instantiated with them.

   op 1  [1 key ticket maccol ks ikey iticket istate]  decryptTicket(key, ticket); (ikey, iticket, istate) =
         the key / ticket / state of the encryptTicket call this ticket was derived from
         -> [1 vers suite master [cert..] VB buf] | [0 VB buf]     (buf = the ticket buffer after the call)
   op 2  [2 key iv state ks maccol]                    encryptTicket -> VB ticket
   op 3  [3 consts table policy maccol ks]             checkForResumption
         -> VErr 70 (no mutual version: the handshake fails before resumption is considered) | [0 connVers]
          | [1 connVers suite sessVers sessSuite master [cert..]]
   state  = [vers suite VB master [VB cert ..]]
   policy = [key ticketsDisabled cacheDisabled cachePresent [[VB id VB val]..] min max [suite..] clientAuth
             helloVers [suite..] ticketSupported ticket sessionId ellipticOk ecdsaOk chachaOk useRC4] *)

Definition cmac (col : list Z) : list Z -> list Z -> list Z := fun _ _ => col.
Definition cctr (ks : list Z) : list Z -> list Z -> list Z -> list Z := fun _ _ d => xor_bytes d ks.

Definition dec_sess (v : val) : option sess :=
  match v with
  | VL [VZ vers; VZ suite; VB master; certs] =>
    match as_LB certs with Some cs => Some (mkSess vers suite master cs) | None => None end
  | _ => None
  end.
Definition enc_sess (s : sess) : list val := [VZ (s_vers s); VZ (s_suite s); VB (s_master s); vLB (s_certs s)].

Definition dec_pair (v : val) : option (Z * Z) := match v with VL [VZ a; VZ b] => Some (a, b) | _ => None end.
Definition dec_kv (v : val) : option (list Z * list Z) := match v with VL [VB a; VB b] => Some (a, b) | _ => None end.

Definition dec_consts (v : val) : option consts :=
  match as_LZ v with
  | Some [a; b; c; d; e; f; g; h; i; j; k; l; m] => Some (mkConsts a b c d e f g h i j k l m)
  | _ => None
  end.
Definition dec_policy (v : val) : option policy :=
  match v with
  | VL [VB key; VZ td; VZ cd; VZ cp; VL cache; VZ mn; VZ mx; suites; VZ auth; VZ hv; hsuites; VZ ts; VB ticket; VB sid;
        VZ ell; VZ ecdsa; VZ chacha; VZ rc4] =>
    match all_some (map dec_kv cache), as_LZ suites, as_LZ hsuites with
    | Some c, Some s, Some hs =>
      Some (mkPolicy key (negb (td =? 0)) (negb (cd =? 0)) (negb (cp =? 0)) c mn mx s auth hv hs (negb (ts =? 0)) ticket sid
                     (negb (ell =? 0)) (negb (ecdsa =? 0)) (negb (chacha =? 0)) rc4)
    | _, _, _ => None
    end
  | _ => None
  end.

Definition run_C44 (v : val) : val :=
  match v with
  | VL [VZ 1; VB key; VB t; VB col; VB ks; VB _; VB _; _] =>
    let buf := VB (ticket_buf_after (cmac col) (cctr ks) key t) in
    match decrypt_ticket (cmac col) (cctr ks) key t with
    | Some s => VL (VZ 1 :: enc_sess s ++ [buf])
    | None => VL [VZ 0; buf]
    end
  | VL [VZ 2; VB key; VB iv; st; VB ks; VB col] =>
    match dec_sess st with
    | Some s => VB (encrypt_ticket (cmac col) (cctr ks) key iv s)
    | None => VErr 0
    end
  | VL [VZ 3; k; VL tb; p; VB col; VB ks] =>
    match dec_consts k, all_some (map dec_pair tb), dec_policy p with
    | Some K, Some table, Some pol =>
      match conn_version K pol with
      | None => VErr 70
      | Some cv =>
        match check_for_resumption (cmac col) (cctr ks) K table pol with
        | Some (s, suite) => VL (VZ 1 :: VZ cv :: VZ suite :: enc_sess s)
        | None => VL [VZ 0; VZ cv]
        end
      end
    | _, _, _ => VErr 0
    end
  | _ => VErr 0
  end.
Definition agree_C44 (i o : val) : bool := val_eqb (run_C44 i) o.

(* ---- the property, on the implementation's observation ---- *)
(* plaintext of a ticket whose tag is right, by the supplied key stream *)
Definition ticket_plain (t ks : list Z) : list Z := xor_bytes (skipn 16 (firstn (length t - 32) t)) ks.
Definition tag_ok (t col : list Z) : bool := (48 <=? blen t) && bytes_eqb (skipn (length t - 32) t) col.

Definition prop_resume (K : consts) (table : list (Z * Z)) (p : policy) (col ks : list Z)
           (cv suite : Z) (s : sess) : bool :=
  (* 1. the session comes from an unmodified own ticket, or from the server's cache under the offered id *)
  (if ticket_path p
   then tag_ok (h_ticket p) col &&
        match unmarshal (ticket_plain (h_ticket p) ks) with Some s0 => sess_eqb s0 s | None => false end
   else negb (blen (h_sid p) =? 0) && negb (p_cache_disabled p) && p_cache_present p &&
        match cache_get (p_cache p) (h_sid p) with
        | Some v => match unmarshal v with Some s0 => sess_eqb s0 s | None => false end
        | None => false
        end) &&
  (* 2. the resumed connection (which runs at connVers with the session's master secret and suite) has
        the session's version and cipher suite *)
  (s_vers s =? cv) && (suite =? s_suite s) &&
  (* 3. the suite is still offered by the client and still enabled and usable on the server *)
  existsb (Z.eqb (s_suite s)) (h_suites p) && existsb (Z.eqb (s_suite s)) (p_suites p) &&
  match lookup_flags table (s_suite s) with Some fl => suite_usable K p fl cv | None => false end &&
  (* 4. version still allowed *)
  (min_version K p <=? s_vers s) && (s_vers s <=? max_version K p) && (s_vers s <=? h_vers p) &&
  (* 5. a client-certificate requirement is not skipped, and certificates are not carried into a
        connection that asks for none *)
  (let has_certs := negb (Z.of_nat (length (s_certs s)) =? 0) in
   let need := (p_auth p =? k_require_any K) || (p_auth p =? k_require_verify K) in
   implb need has_certs && implb has_certs (negb (p_auth p =? k_no_cert K))).

Definition prop_C44 (i o : val) : bool :=
  match i with
  | VL [VZ 1; VB key; VB t; VB col; VB ks; VB ikey; VB it; ist] =>
    let own := bytes_eqb key ikey && bytes_eqb t it in
    (* nothing is decrypted (the buffer is untouched) unless the MAC over all preceding bytes verified *)
    let buf_ok := fun buf => tag_ok t col || bytes_eqb buf t in
    match o, dec_sess ist with
    | VL [VZ 0; VB buf], Some _ => negb own && buf_ok buf       (* own unmodified tickets are honoured *)
    | VL [VZ 1; a; b; c; d; VB buf], Some s0 =>                 (* accepted => byte-identical to the issued one, same key *)
      own && val_eqb (VL [a; b; c; d]) (VL (enc_sess s0)) && buf_ok buf
    | _, _ => false
    end
  | VL [VZ 2; VB key; VB iv; st; VB ks; VB col] =>
    match o, dec_sess st with
    | VB t, Some s =>
      bytes_eqb (firstn 16 t) iv && (blen iv =? 16) && tag_ok t col &&
      match unmarshal (ticket_plain t ks) with Some s' => sess_eqb s s' | None => false end
    | _, _ => false
    end
  | VL [VZ 3; k; VL tb; p; VB col; VB ks] =>
    match dec_consts k, all_some (map dec_pair tb), dec_policy p with
    | Some K, Some table, Some pol =>
      match o with
      | VL [VZ 1; VZ cv; VZ suite; a; b; c; d] =>
        match dec_sess (VL [a; b; c; d]) with
        | Some s => prop_resume K table pol col ks cv suite s
        | None => false
        end
      | VL [VZ 0; VZ _] => true
      | VL [VZ (-1); VZ 70] => true
      | _ => false
      end
    | _, _, _ => false
    end
  | _ => false
  end.

(* Well-formed inputs (what the generator produces).  For op 1 this contains the symbolic-crypto reading
   of the HMAC column: the supplied HMAC value equals the presented tag only for the issued ticket under
   its own key (unforgeability / collision freedom of HMAC-SHA256 for the generated cases), and for the
   issued ticket it does and the key stream decrypts it to the issued state. *)
Definition wf_C44 (i : val) : bool :=
  match i with
  | VL [VZ 1; VB key; VB t; VB col; VB ks; VB ikey; VB it; ist] =>
    match dec_sess ist with
    | Some s0 =>
      let own := bytes_eqb key ikey && bytes_eqb t it in
      implb (tag_ok t col) own &&
      implb own (tag_ok t col &&
                 match unmarshal (ticket_plain t ks) with
                 | Some s => val_eqb (VL (enc_sess s)) (VL (enc_sess s0))
                 | None => false
                 end)
    | None => false
    end
  | VL [VZ 2; VB key; VB iv; st; VB ks; VB col] =>
    match dec_sess st with
    | Some s => wf_sess s && (blen iv =? 16) && (blen col =? 32) && (blen (marshal s) <=? blen ks)
    | None => false
    end
  | VL [VZ 3; k; VL tb; p; VB col; VB ks] =>
    match dec_consts k, all_some (map dec_pair tb), dec_policy p with
    | Some _, Some _, Some _ => true
    | _, _, _ => false
    end
  | _ => false
  end.

(* finding class 1: checkForResumption resumes a session whose version is lower than the version the
   connection runs at *)
Definition kf_C44 (i : val) : Z :=
  match run_C44 i with
  | VL [VZ 1; VZ cv; VZ _; VZ sv; _; _; _] => if sv =? cv then 0 else 1
  | _ => 0
  end.
