(* C48 wire functions.
   input : [h bst tls [chain0] [chain1] [chain2] [chain3] [chain4] [chain5] [chain6] [chain7] [chain8]]   (see harness/cmd/c48/main.go)
   output: [[calls] status body location xfake xmod contacted open [hdrs]] *)
From Coq Require Import List ZArith Bool.
From Bfe Require Import lib.Val model.Callbacks.
Import ListNotations.
Open Scope Z_scope.

Record c48_input := mkIn { i_h : nat; i_bst : Z; i_tls : bool; i_chains : list (list Z) }.   (* 9 chains, points 0..8 *)

Definition code_ok (c : Z) : bool := (0 <=? c) && (c <=? 29).

Definition decode_C48 (v : val) : option c48_input :=
  match v with
  | VL (VZ h :: VZ bst :: VZ tls :: rest) =>
    match all_some (map as_LZ rest) with
    | Some chains =>
      if (1 <=? h) && (h <=? 5) && (200 <=? bst) && (bst <=? 599) && (0 <=? tls) && (tls <=? 1) && (length chains =? 9)%nat
         && forallb (fun c => (Z.of_nat (length c) <=? h) && forallb code_ok c) chains
      then Some (mkIn (Z.to_nat h) bst (tls =? 1) chains) else None
    | None => None
    end
  | _ => None
  end.

Definition chain_at (i : c48_input) (p : Z) : list Z := pad (i_h i) (nth (Z.to_nat p) (i_chains i) []).

Definition enc_reply (calls : list Z) (r : reply) (contacted open : Z) : val :=
  VL [vLZ calls; VZ (r_status r); VB (r_body r); VB (r_loc r); VZ (r_xfake r); VZ (r_xmod r); VZ contacted; VZ open; vLB (r_hdrs r)].

Definition run_C48 (v : val) : val :=
  match decode_C48 v with
  | Some i => let k := serve_conn (i_h i) (i_bst i) (i_tls i) (chain_at i) in
              enc_reply (k_calls k) (k_reply k) (k_contacted k) (k_open k)
  | None => VErr 0
  end.

Definition agree_C48 (i o : val) : bool := val_eqb (run_C48 i) o.

(* ------------------------------------------------------------------------------------------------
   THE PROPERTY, evaluated on the implementation's observation. *)

(* verdict of a chain per the specification: the verdict of the first handler that does not continue *)
Definition chain_verdict (l : list Z) : Z := nth (first_non_continue l) l VGoOn.
(* handlers that must have run: 0 .. first_non_continue (all of them when every handler continues) *)
Definition expected_idxs (l : list Z) : list Z :=
  map Z.of_nat (seq 0 (Nat.min (length l) (S (first_non_continue l)))).

Definition call_point (c : Z) : Z := c / 100.
Definition call_idx (c : Z) : Z := (c / 10) mod 10.
Definition call_tag (c : Z) : Z := c mod 10.
Definition idxs_of (calls : list Z) (p tag : Z) : list Z :=
  map call_idx (filter (fun c => (call_point c =? p) && (call_tag c =? tag)) calls).

Fixpoint sorted_le (l : list Z) : bool :=
  match l with
  | a :: (b :: _) as r => (a <=? b) && sorted_le r
  | _ => true
  end.

(* clause 1: at every callback point the handlers ran in registration order and stopped at the first
   verdict other than continue; points appear in pipeline order; no other call was logged *)
Definition order_and_stop (i : c48_input) (calls : list Z) : bool :=
  let h := i_h i in
  let ok_pt (p tag : Z) (l : list Z) :=
      let got := idxs_of calls p tag in
      match got with [] => true | _ => list_Z_eqb got (expected_idxs l) end in
  forallb (fun p => ok_pt p 0 (chain_at i p)) [0; 1; 8]
  && (i_tls i || match idxs_of calls 1 0 with [] => true | _ => false end)
  && negb (match idxs_of calls 0 0 with [] => true | _ => false end)
  && negb (match idxs_of calls 8 0 with [] => true | _ => false end)
  && forallb (fun p => ok_pt p 1 (chain_at i p) && ok_pt p 2 (repeat VGoOn h)) [2; 3; 4; 5; 6; 7]
  && forallb (fun c => let p := call_point c in let t := call_tag c in
                       (0 <=? c) && (call_idx c <? Z.of_nat h) &&
                       (((t =? 0) && ((p =? 0) || (p =? 1) || (p =? 8))) || (((t =? 1) || (t =? 2)) && (2 <=? p) && (p <=? 7)))) calls
  && sorted_le (map call_point (filter (fun c => call_tag c =? 1) calls))
  && sorted_le (map call_point (filter (fun c => call_tag c =? 2) calls)).

(* first request-phase point (BeforeLocation, FoundProduct, AfterLocation) whose chain verdict the server honours *)
Fixpoint first_decisive (i : c48_input) (ps : list Z) : option Z :=
  match ps with
  | [] => None
  | p :: rest => let r := ret (chain_verdict (chain_at i p)) in
                 if (r =? VClose) || (r =? VFinish) || (r =? VRedirect) || (r =? VResponse)
                 then Some (chain_verdict (chain_at i p)) else first_decisive i rest
  end.

Definition prop_C48 (iv o : val) : bool :=
  match decode_C48 iv, o with
  | Some i, VL [VL callsv; VZ status; VB body; VB loc; VZ xfake; VZ xmod; VZ contacted; VZ open; hdrsv] =>
    match all_some (map as_Z callsv), as_LB hdrsv with
    | Some calls, Some hdrs =>
      (* the full multiset of the module's header fields, repeated keys included *)
      let hdrs_are (l : list (list Z)) := val_eqb (vLB hdrs) (vLB l) in
      let v p := chain_verdict (chain_at i p) in
      let r p := ret (v p) in
      (* open-ness expected when nothing before HandleRequestFinish closed the connection *)
      let keep := if r 7 =? VFinish then 0 else 1 in
      let sent_nothing := (status =? 0) && list_Z_eqb body [] && (open =? 0) in
      let closed_after_reply := negb (status =? 0) && (open =? 0) in
      let is_redirect k := (status =? redir_code k) && list_Z_eqb loc (redir_url k) && (xfake =? 0) && (xmod =? 0) && hdrs_are (extra_hdrs k) in
      (* after a response is in hand the HandleReadResponse chain may still finish or redirect *)
      let after_read_response (otherwise : bool) :=
          if r 6 =? VFinish then closed_after_reply
          else if r 6 =? VRedirect then is_redirect (variant (v 6))
          else otherwise in
      order_and_stop i calls &&
      (if (r 0 =? VClose) || (i_tls i && (r 1 =? VClose)) then sent_nothing && (contacted =? 0)
       else match first_decisive i [2; 3; 4] with
            | Some c =>
              (contacted =? 0) &&
              (if ret c =? VClose then sent_nothing
               else if ret c =? VFinish then closed_after_reply
               else if ret c =? VRedirect then is_redirect (variant c) && (open =? keep)
               else (* Response *)
                 after_read_response ((status =? resp_status (variant c)) && list_Z_eqb body [118; 48 + variant c]
                                      && (xmod =? 1) && (xfake =? 0) && hdrs_are (extra_hdrs (variant c)))
                 && ((r 6 =? VFinish) || (open =? keep)))
            | None =>
              if r 5 =? VFinish then (contacted =? 0) && closed_after_reply
              else (contacted =? 1)
                   && after_read_response ((status =? i_bst i) && list_Z_eqb body [98; 107] && (xfake =? 1) && (xmod =? 0) && hdrs_are [])
                   && ((r 6 =? VFinish) || (open =? keep))
            end)
    | _, _ => false
    end
  | _, _ => false
  end.

Definition kf_C48 (i : val) : Z := 0.
