From Coq Require Import List ZArith Bool.
From Bfe Require Import lib.Val model.H2Frame.
Import ListNotations.
Open Scope Z_scope.

(* input : [maxReadSize [cmd ...]]
   cmd   : [0 sid es data haspad pad] WriteDataPadded | [1 sid frag es eh padlen dep excl weight] WriteHeaders
         | [2 sid dep excl weight] WritePriority | [3 sid code] WriteRSTStream | [4 [[id val] ...]] WriteSettings
         | [12] WriteSettingsAck | [5 sid promise frag eh padlen] WritePushPromise | [6 ack data8] WritePing
         | [7 last code debug] WriteGoAway | [8 sid inc] WriteWindowUpdate | [9 sid eh frag] WriteContinuation
         | [10 ty fl sid payload] WriteRawFrame | [11 bytes] raw bytes appended to the wire
   output: [wire [err ...] [result ...]] ; result = [0 ty fl sid len body...] | [1 code] | [2 sid code] | [3] | [4] | [5] *)
Definition zb (z : Z) : bool := negb (z =? 0).
Definition dec_pair (v : val) : option (Z * Z) :=
  match v with VL [VZ a; VZ b] => Some (a, b) | _ => None end.
Definition dec_cmd (v : val) : option wcmd :=
  match v with
  | VL [VZ 0; VZ sid; VZ es; VB data; VZ hp; VB pad] => Some (WData sid (zb es) data (if zb hp then Some pad else None))
  | VL [VZ 1; VZ sid; VB frag; VZ es; VZ eh; VZ pl; VZ dep; VZ ex; VZ w] =>
    Some (WHeaders sid frag (zb es) (zb eh) pl dep (zb ex) w)
  | VL [VZ 2; VZ sid; VZ dep; VZ ex; VZ w] => Some (WPriority sid dep (zb ex) w)
  | VL [VZ 3; VZ sid; VZ code] => Some (WRst sid code)
  | VL [VZ 4; VL l] => option_map WSettings (all_some (map dec_pair l))
  | VL [VZ 12] => Some WSettingsAck
  | VL [VZ 5; VZ sid; VZ pr; VB frag; VZ eh; VZ pl] => Some (WPush sid pr frag (zb eh) pl)
  | VL [VZ 6; VZ ack; VB data] => Some (WPing (zb ack) data)
  | VL [VZ 7; VZ last; VZ code; VB dbg] => Some (WGoAway last code dbg)
  | VL [VZ 8; VZ sid; VZ inc] => Some (WWindow sid inc)
  | VL [VZ 9; VZ sid; VZ eh; VB frag] => Some (WCont sid (zb eh) frag)
  | VL [VZ 10; VZ ty; VZ fl; VZ sid; VB p] => Some (WRawFrame ty fl sid p)
  | VL [VZ 11; VB b] => Some (WBytes b)
  | _ => None
  end.
Definition dec_input (v : val) : option (Z * list wcmd) :=
  match v with
  | VL [VZ mr; VL cs] => match all_some (map dec_cmd cs) with Some l => Some (mr, l) | None => None end
  | _ => None
  end.

Definition enc_body (b : body) : list val :=
  match b with
  | BData d => [VB d]
  | BHeaders dep ex w frag => [VZ dep; VZ (b2z ex); VZ w; VB frag]
  | BPriority dep ex w => [VZ dep; VZ (b2z ex); VZ w]
  | BRst c => [VZ c]
  | BSettings p vc => [VB p; VZ vc]
  | BPush pr frag => [VZ pr; VB frag]
  | BPing d => [VB d]
  | BGoAway last c dbg => [VZ last; VZ c; VB dbg]
  | BWindow inc => [VZ inc]
  | BCont frag => [VB frag]
  | BUnknown p => [VB p]
  end.
Definition enc_rres (r : rres) : val :=
  match r with
  | ROk h b => VL (VZ 0 :: VZ (h_ty h) :: VZ (h_fl h) :: VZ (h_sid h) :: VZ (h_len h) :: enc_body b)
  | RConn c => VL [VZ 1; VZ c]
  | RStream s c => VL [VZ 2; VZ s; VZ c]
  | RTooLarge => VL [VZ 3]
  | RUnexpEOF => VL [VZ 4]
  | REOF => VL [VZ 5]
  end.
(* enough of a result to check the rules: kind, header, SETTINGS validity code *)
Definition dec_rres_lite (v : val) : option rres :=
  match v with
  | VL (VZ 0 :: VZ ty :: VZ fl :: VZ sid :: VZ len :: rest) =>
    Some (ROk (mkh ty fl sid len)
              (match ty, rest with 4, [VB p; VZ vc] => BSettings p vc | _, _ => BUnknown [] end))
  | VL [VZ 1; VZ c] => Some (RConn c)
  | VL [VZ 2; VZ s; VZ c] => Some (RStream s c)
  | VL [VZ 3] => Some RTooLarge
  | VL [VZ 4] => Some RUnexpEOF
  | VL [VZ 5] => Some REOF
  | _ => None
  end.

Definition fuel_of (bs : list Z) : nat := S (length bs).

Definition run_C32 (i : val) : val :=
  match dec_input i with
  | None => VErr 0
  | Some (mr, cs) =>
    let '(wire, errs) := write_all cs in
    VL [VB wire; vLZ errs; VL (map enc_rres (read_all (fuel_of wire) mr 0 wire))]
  end.

Definition agree_C32 (i o : val) : bool := val_eqb (run_C32 i) o.

Definition all_wf (cs : list wcmd) : bool := forallb wf_cmd cs.

(* THE PROPERTY on the implementation's observation (wire bytes written, write errors, ReadFrame results):
   (1) no panic / every result decodes; (2) rules: along the wire, every frame RFC 7540 says must be refused was
   refused and accepted frames echo their header (rules_ok); (3) round trip: if every command is a Write call with
   legal parameters, no write failed and the results are exactly the frames described by the parameters. *)
Definition prop_C32 (i o : val) : bool :=
  match dec_input i, o with
  | Some (mr, cs), VL [VB wire; VL errs; VL results] =>
    match all_some (map dec_rres_lite results) with
    | None => false
    | Some rs =>
      rules_ok (fuel_of wire) mr 0 wire rs &&
      (if all_wf cs && (mr =? 16777215)
       then forallb (fun e => val_eqb e (VZ 0)) errs &&
            val_eqb (VL results) (VL (map enc_rres (expect_all 0 cs)))
       else true)
    end
  | _, _ => false
  end.

Definition kf_C32 (i : val) : Z :=
  match dec_input i with
  | Some (mr, cs) => if all_wf cs && existsb empty_headers cs then 1 else 0
  | None => 0
  end.

(* executable well-formedness of an input: decodes; the wire consists of bytes and is shorter than 2^24 octets (so no
   Write call hits ErrFrameTooLarge); the reading loop has fuel for every command; and when every command is a legal
   Write call, each described frame fits the largest read size *)
Definition len_ok (c : wcmd) : bool :=
  match expected c with Some (h, _) => h_len h <=? 16777215 | None => false end.
Definition wf_C32 (i : val) : bool :=
  match dec_input i with
  | Some (mr, cs) =>
    let wire := fst (write_all cs) in
    bytes_ok wire && (blen wire <? 16777216) && (length cs <? fuel_of wire)%nat &&
    (if all_wf cs then forallb len_ok cs else true)
  | None => false
  end.
