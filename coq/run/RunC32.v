From Coq Require Import List ZArith Bool.
From Bfe Require Import lib.Val model.H2Frame.
Import ListNotations.
Open Scope Z_scope.

(* input : [maxReadSize [cmd ...]]
   cmd   : [0 sid es data haspad pad] WriteDataPadded | [1 sid frag es eh padlen dep excl weight] WriteHeaders
         | [2 sid dep excl weight] WritePriority | [3 sid code] WriteRSTStream | [4 [[id val] ...]] WriteSettings
         | [12] WriteSettingsAck | [5 sid promise frag eh padlen] WritePushPromise | [6 ack data8] WritePing
         | [7 last code debug] WriteGoAway | [8 sid inc] WriteWindowUpdate | [9 sid eh frag] WriteContinuation
         | [10 ty fl sid payload] WriteRawFrame | [11 bytes] raw bytes appended to the wire
   output: [wire [err ...] [result ...]] ; result = [0 ty fl sid len body...] | [1 code] | [2 sid code] | [3] | [4] | [5] *)
Definition zb (z : Z) : bool := negb (z =? 0).
Definition dec_pair (v : val) : option (Z * Z) :=
  match v with VL [VZ a; VZ b] => Some (a, b) | _ => None end.
Definition dec_cmd (v : val) : option wcmd :=
  match v with
  | VL [VZ 0; VZ sid; VZ es; VB data; VZ hp; VB pad] => Some (WData sid (zb es) data (if zb hp then Some pad else None))
  | VL [VZ 1; VZ sid; VB frag; VZ es; VZ eh; VZ pl; VZ dep; VZ ex; VZ w] =>
    Some (WHeaders sid frag (zb es) (zb eh) pl dep (zb ex) w)
  | VL [VZ 2; VZ sid; VZ dep; VZ ex; VZ w] => Some (WPriority sid dep (zb ex) w)
  | VL [VZ 3; VZ sid; VZ code] => Some (WRst sid code)
  | VL [VZ 4; VL l] => option_map WSettings (all_some (map dec_pair l))
  | VL [VZ 12] => Some WSettingsAck
  | VL [VZ 5; VZ sid; VZ pr; VB frag; VZ eh; VZ pl] => Some (WPush sid pr frag (zb eh) pl)
  | VL [VZ 6; VZ ack; VB data] => Some (WPing (zb ack) data)
  | VL [VZ 7; VZ last; VZ code; VB dbg] => Some (WGoAway last code dbg)
  | VL [VZ 8; VZ sid; VZ inc] => Some (WWindow sid inc)
  | VL [VZ 9; VZ sid; VZ eh; VB frag] => Some (WCont sid (zb eh) frag)
  | VL [VZ 10; VZ ty; VZ fl; VZ sid; VB p] => Some (WRawFrame ty fl sid p)
  | VL [VZ 11; VB b] => Some (WBytes b)
  | _ => None
  end.
Definition dec_input (v : val) : option (Z * list wcmd) :=
  match v with
  | VL [VZ mr; VL cs] => match all_some (map dec_cmd cs) with Some l => Some (mr, l) | None => None end
  | _ => None
  end.

Definition enc_body (b : body) : list val :=
  match b with
  | BData d => [VB d]
  | BHeaders dep ex w frag => [VZ dep; VZ (b2z ex); VZ w; VB frag]
  | BPriority dep ex w => [VZ dep; VZ (b2z ex); VZ w]
  | BRst c => [VZ c]
  | BSettings p vc => [VB p; VZ vc]
  | BPush pr frag => [VZ pr; VB frag]
  | BPing d => [VB d]
  | BGoAway last c dbg => [VZ last; VZ c; VB dbg]
  | BWindow inc => [VZ inc]
  | BCont frag => [VB frag]
  | BUnknown p => [VB p]
  end.
Definition enc_rres (r : rres) : val :=
  match r with
  | ROk h b => VL (VZ 0 :: VZ (h_ty h) :: VZ (h_fl h) :: VZ (h_sid h) :: VZ (h_len h) :: enc_body b)
  | RConn c => VL [VZ 1; VZ c]
  | RStream s c => VL [VZ 2; VZ s; VZ c]
  | RTooLarge => VL [VZ 3]
  | RUnexpEOF => VL [VZ 4]
  | REOF => VL [VZ 5]
  end.
(* enough of a result to check the rules: kind, header, SETTINGS validity code *)
Definition dec_rres_lite (v : val) : option rres :=
  match v with
  | VL (VZ 0 :: VZ ty :: VZ fl :: VZ sid :: VZ len :: rest) =>
    Some (ROk (mkh ty fl sid len)
              (match ty, rest with 4, [VB p; VZ vc] => BSettings p vc | _, _ => BUnknown [] end))
  | VL [VZ 1; VZ c] => Some (RConn c)
  | VL [VZ 2; VZ s; VZ c] => Some (RStream s c)
  | VL [VZ 3] => Some RTooLarge
  | VL [VZ 4] => Some RUnexpEOF
  | VL [VZ 5] => Some REOF
  | _ => None
  end.

Definition fuel_of (bs : list Z) : nat := S (length bs).

Definition run_C32 (i : val) : val :=
  match dec_input i with
  | None => VErr 0
  | Some (mr, cs) =>
    let '(wire, errs) := write_all cs in
    VL [VB wire; vLZ errs; VL (map enc_rres (read_all (fuel_of wire) mr 0 wire))]
  end.

(* the harness also reads the same wire with Framer.ReadMetaHeaders set (the mode the server uses) and appends those
   results as a 4th component; the model covers the first three (hpack decoding belongs to C30/C31) *)
Definition agree_C32 (i o : val) : bool :=
  match o with
  | VL [w; e; r; _] => val_eqb (run_C32 i) (VL [w; e; r])
  | _ => val_eqb (run_C32 i) o
  end.

Definition all_wf (cs : list wcmd) : bool := forallb wf_cmd cs.

(* meta-mode result: [0 ty fl sid len ...] frame | [7 sid nfields truncated] merged header block | errors as before.
   Consistency with the plain results: every HEADERS frame together with its CONTINUATION frames is replaced by one
   merged block or by an error; everything else is identical (same header fields, same error). *)
Definition is_err (v : val) : bool := match v with VL (VZ 0 :: _) => false | VL (VZ 7 :: _) => false | _ => true end.
Definition is_terminal_v (v : val) : bool := match v with VL (VZ 2 :: _) => false | _ => is_err v end.
Definition hdr4 (v : val) : option (Z * Z * Z * Z) :=
  match v with VL (VZ 0 :: VZ ty :: VZ fl :: VZ sid :: VZ len :: _) => Some (ty, fl, sid, len) | _ => None end.
(* drop the CONTINUATION frames that complete a header block; returns (END_HEADERS seen, remaining results) *)
Fixpoint skip_cont (ended : bool) (plain : list val) {struct plain} : bool * list val :=
  if ended then (true, plain) else
  match plain with
  | x :: r => match hdr4 x with
              | Some (9, fl, _, _) => skip_cont (hasf fl 4) r
              | _ => (false, plain)
              end
  | [] => (false, [])
  end.
Definition ends_here (v : val) (mr : list val) : bool :=
  if is_terminal_v v then match mr with [] => true | _ => false end else true.
Fixpoint meta_ok (fuel : nat) (plain meta : list val) {struct fuel} : bool :=
  match fuel with
  | O => false
  | S f =>
    match plain, meta with
    | [], [] => true
    | x :: pr, m :: mr =>
      match hdr4 x with
      | Some (1, fl, sid, _) =>
        let '(ended, rest) := skip_cont (hasf fl 4) pr in
        if ended then
          (* a complete header block: merged, or refused by HPACK / header validation *)
          match m with
          | VL [VZ 7; VZ msid; _; _] => (msid =? sid) && meta_ok f rest mr
          | _ => is_err m && ends_here m mr && (if is_terminal_v m then true else meta_ok f rest mr)
          end
        else
          (* the block was cut short by an error of the frame reader: the same error is reported, or the block was
             refused before (HPACK, size limits) *)
          match rest with
          | y :: rest' =>
            is_err m && ends_here m mr &&
            (if is_terminal_v m then true
             else if val_eqb m y then meta_ok f rest' mr else meta_ok f rest mr)
          | [] => is_err m && is_terminal_v m && ends_here m mr
          end
      | Some h =>
        match hdr4 m with Some h' => let '(a, b, c, d) := h in let '(a', b', c', d') := h' in
                                      (a =? a') && (b =? b') && (c =? c') && (d =? d') && meta_ok f pr mr
                     | None => false end
      | None => val_eqb x m && ends_here x mr && (if is_terminal_v x then true else meta_ok f pr mr)
      end
    | _, _ => false
    end
  end.

(* THE PROPERTY on the implementation's observation (wire bytes written, write errors, ReadFrame results):
   (1) no panic / every result decodes; (2) rules: along the wire, every frame RFC 7540 says must be refused was
   refused and accepted frames echo their header (rules_ok); (3) round trip: if every command is a Write call with
   legal parameters, no write failed and the results are exactly the frames described by the parameters;
   (4) when present, the ReadMetaHeaders-mode results are consistent with the plain ones (and no panic there). *)
Definition prop_base (i : val) (wire : list Z) (errs results : list val) : bool :=
  match dec_input i with
  | Some (mr, cs) =>
    match all_some (map dec_rres_lite results) with
    | None => false
    | Some rs =>
      rules_ok (fuel_of wire) mr 0 wire rs &&
      (if all_wf cs && (mr =? 16777215)
       then forallb (fun e => val_eqb e (VZ 0)) errs &&
            val_eqb (VL results) (VL (map enc_rres (expect_all 0 cs)))
       else true)
    end
  | None => false
  end.
Definition prop_C32 (i o : val) : bool :=
  match o with
  | VL [VB wire; VL errs; VL results] => prop_base i wire errs results
  | VL [VB wire; VL errs; VL results; VL meta] =>
    prop_base i wire errs results && meta_ok (S (length results + length meta)) results meta
  | _ => false
  end.

Definition kf_C32 (i : val) : Z :=
  match dec_input i with
  | Some (mr, cs) => if all_wf cs && existsb empty_headers cs then 1 else 0
  | None => 0
  end.

(* executable well-formedness of an input: decodes; the wire consists of bytes and is shorter than 2^24 octets (so no
   Write call hits ErrFrameTooLarge); the reading loop has fuel for every command; and when every command is a legal
   Write call, each described frame fits the largest read size *)
Definition len_ok (c : wcmd) : bool :=
  match expected c with Some (h, _) => h_len h <=? 16777215 | None => false end.
Definition wf_C32 (i : val) : bool :=
  match dec_input i with
  | Some (mr, cs) =>
    let wire := fst (write_all cs) in
    bytes_ok wire && (blen wire <? 16777216) && (length cs <? fuel_of wire)%nat &&
    (if all_wf cs then forallb len_ok cs else true)
  | None => false
  end.
