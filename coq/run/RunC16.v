(* C16 wire functions.
   input : VL [VL toks; VZ env; VZ ws]
           toks: VZ codes, 0..63 = primitive atom n, 100 = &&, 101 = ||, 102 = !, 103 = (, 104 = )
           env : bit n = truth value of atom n on the request the harness builds
           ws  : whitespace/flavour seed for the harness' rendering (ignored by the model)
   output: VZ 0/1 = condition.Build(text).Match(req), or VErr 1 when Build returns an error. *)
From Coq Require Import List ZArith Bool.
From Bfe Require Import lib.Val model.CondParse.
Import ListNotations.
Open Scope Z_scope.

Definition tok_of_Z (z : Z) : option tok :=
  if (0 <=? z) && (z <? 64) then Some (TAtom (Z.to_nat z))
  else if z =? 100 then Some TAnd else if z =? 101 then Some TOr else if z =? 102 then Some TNot
  else if z =? 103 then Some TL else if z =? 104 then Some TR else None.
Definition Z_of_tok (k : tok) : Z :=
  match k with TAtom n => Z.of_nat n | TAnd => 100 | TOr => 101 | TNot => 102 | TL => 103 | TR => 104 end.
Definition env_of (m : Z) (n : nat) : bool := Z.testbit m (Z.of_nat n).

Definition decode_C16 (i : val) : option (list tok * Z) :=
  match i with
  | VL [VL toks; VZ env; VZ _] =>
    match all_some (map (fun v => match v with VZ z => tok_of_Z z | _ => None end) toks) with
    | Some ts => Some (ts, env)
    | None => None
    end
  | _ => None
  end.

(* evaluate a token list under operator table t *)
Definition eval_tokens (t : table) (ts : list tok) (env : Z) : val :=
  match parse t ts with
  | Some e => vbool (eval (env_of env) e)
  | None => VErr 1
  end.

(* the model: the grammar as declared in cond.y (generated table) *)
Definition run_C16 (i : val) : val :=
  match decode_C16 i with
  | Some (ts, env) => eval_tokens src_table ts env
  | None => VErr 0
  end.
Definition agree_C16 (i o : val) : bool := val_eqb (run_C16 i) o.

(* the property: the implementation's verdict is the value of the expression read with the DOCUMENTED
   precedence (parentheses, then !, then &&, then ||; binary operators left-associative) *)
Definition prop_C16 (i o : val) : bool :=
  match decode_C16 i with
  | Some (ts, env) => val_eqb o (eval_tokens doc_table ts env)
  | None => true     (* not a C16 input: nothing to check (agree_C16 flags it: the model answers VErr 0) *)
  end.
Definition kf_C16 (i : val) : Z := 0.
