(* C16 wire functions.
   input : VL [VL toks; VZ env; VZ ws] or VL [VL toks; VZ env; VZ ws; VZ kind]
           toks: VZ codes, 0..63 = primitive atom n, 100 = &&, 101 = ||, 102 = !, 103 = (, 104 = )
           env : bit n = truth value of atom n on the request the harness builds
           ws  : whitespace/flavour seed for the harness' rendering (ignored by the model)
           kind: shape of the request object: 0 (or absent) = complete HTTP request; 1 = session-only request
                 (HttpRequest == nil, as built by mod_key_log / TLS-phase callbacks); 2 = Session == nil; 3 = nil request.
           atoms 0..11 are request primitives (header / query / cookie families): false on an incomplete request
           (PrimitiveCond.Match); atom 12 = default_t() (true on every request); atom 13 = ses_tls_client_auth()
           (bit 13 of env on requests that have a session, false otherwise).
   output: VZ 0/1 = condition.Build(text).Match(req), or VErr 1 when Build returns an error. *)
From Coq Require Import List ZArith Bool.
From Bfe Require Import lib.Val model.CondParse.
Import ListNotations.
Open Scope Z_scope.

Definition tok_of_Z (z : Z) : option tok :=
  if (0 <=? z) && (z <? 64) then Some (TAtom (Z.to_nat z))
  else if z =? 100 then Some TAnd else if z =? 101 then Some TOr else if z =? 102 then Some TNot
  else if z =? 103 then Some TL else if z =? 104 then Some TR else None.
Definition Z_of_tok (k : tok) : Z :=
  match k with TAtom n => Z.of_nat n | TAnd => 100 | TOr => 101 | TNot => 102 | TL => 103 | TR => 104 end.
Definition env_of (m : Z) (n : nat) : bool := Z.testbit m (Z.of_nat n).

(* truth values of the atoms on a request of the given shape *)
Definition bit (n : Z) : Z := Z.shiftl 1 n.
Definition eff_env (kind env : Z) : Z :=
  if kind =? 0 then Z.lor env (bit 12)
  else if kind =? 1 then Z.lor (Z.land env (bit 13)) (bit 12)
  else bit 12.

Definition decode_C16 (i : val) : option (list tok * Z) :=
  let dec toks env kind :=
    match all_some (map (fun v => match v with VZ z => tok_of_Z z | _ => None end) toks) with
    | Some ts => if (0 <=? kind) && (kind <=? 3) then Some (ts, eff_env kind env) else None
    | None => None
    end in
  match i with
  | VL [VL toks; VZ env; VZ _] => dec toks env 0
  | VL [VL toks; VZ env; VZ _; VZ kind] => dec toks env kind
  | _ => None
  end.

(* evaluate a token list under operator table t *)
Definition eval_tokens (t : table) (ts : list tok) (env : Z) : val :=
  match parse t ts with
  | Some e => vbool (eval (env_of env) e)
  | None => VErr 1
  end.

(* the model: the grammar as declared in cond.y (generated table) *)
Definition run_C16 (i : val) : val :=
  match decode_C16 i with
  | Some (ts, env) => eval_tokens src_table ts env
  | None => VErr 0
  end.
Definition agree_C16 (i o : val) : bool := val_eqb (run_C16 i) o.

(* the property: the implementation's verdict is the value of the expression read with the DOCUMENTED
   precedence (parentheses, then !, then &&, then ||; binary operators left-associative) *)
Definition prop_C16 (i o : val) : bool :=
  match decode_C16 i with
  | Some (ts, env) => val_eqb o (eval_tokens doc_table ts env)
  | None => true     (* not a C16 input: nothing to check (agree_C16 flags it: the model answers VErr 0) *)
  end.
Definition kf_C16 (i : val) : Z := 0.
