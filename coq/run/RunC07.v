(* C07 wire functions.
   input : [rm mode [op ...]]   rm = RetryMax of the cluster (CrossRetry 0, RetryLevel RetryGet), mode 0 WRR / 1 WLC,
           op = [1 rid [fwd ...] [steps ...] rr rf]  (rr rf optional) start GET number rid (0..2); fwd = HandleForward verdict
                                               per attempt, rr / rf = verdict of the HandleReadResponse / HandleRequestFinish handler,
                                               steps = outcome per attempt that reaches a live backend (see ConnCount.simulate);
                                               the harness waits until the request has completed or is held by a backend
              | [2 rid]                        release request / tunnel rid if a backend holds it and wait for its end (else no-op)
              | [3 rid kind st]                open a tunnel in slot rid: kind 0 = WebSocket upgrade (bfe_websocket), 1 = TLS
                                               stream (bfe_stream), 2 = WebSocket upgrade routed to a cluster whose only backend refuses
                                               connections (findBackend gives up); st = what the live backend that gets the connection does:
                                               0 accept and keep the tunnel open until released, 1 close after the first bytes,
                                               2 reject (WebSocket: 403 instead of 101; stream: close)
              | [4 b v]                        administrative action on backend b (0..3) while requests / tunnels may be in flight:
                                               v = 0 BfeBackend.SetAvail(false) (as the failure path marks a backend down), 1 SetAvail(true)
                                               (as the health check brings it back), 2 / 3 SetRestart(true / false), 4 reload of gslb.data +
                                               cluster_table.data with unchanged content (b ignored).  None of them may touch a count.
                                               Observation [[] 1 0 [c0 c1 c2 c3]].
   output: one entry per op: [[attempts] status held [c0 c1 c2 c3]]
           attempts = backends chosen so far for rid (0, 1 live; 2 refuses connections); for a tunnel only the live backend that
           finally got the connection is observable ([] = findBackend gave up after connectRetryMax refused dials);
           status = reply status (0 while held; 1 for a tunnel that has ended),
           held = 1 iff the request / tunnel is now waiting inside a backend, c_k = BfeBackend.ConnNum() of backend k at that moment.
   The balancer's choices are left open by the model: agree_C07 validates the observed trace (choices taken from the
   observation, everything else predicted). *)
From Coq Require Import List ZArith Bool.
From Bfe Require Import lib.Val model.ConnCount.
Import ListNotations.
Open Scope Z_scope.

Definition DEAD : nat := 2%nat.
Definition NB : nat := 4%nat.     (* backends: 0, 1 live, 2 refuses connections; 3 = the only backend of a second cluster, refuses connections *)
Definition DEAD2 : nat := 3%nat.
Definition NR : nat := 3%nat.     (* request slots *)

Inductive hop := HStart (rid : nat) (fwd steps : list Z) (rr rf : Z) | HRelease (rid : nat) | HTunnel (rid : nat) (kind st : Z)
  | HAdmin (b : nat) (v : Z).

Definition decode_start (rid : Z) (f s : val) (rr rf : Z) : option hop :=
  match as_LZ f, as_LZ s with
  | Some fwd, Some steps =>
    if (0 <=? rid) && (rid <? 3) && forallb (fun x => (0 <=? x) && (x <=? 5)) fwd
       && forallb (fun x => (0 <=? x) && (x <=? 4)) steps && (0 <=? rr) && (rr <=? 5) && (0 <=? rf) && (rf <=? 5)
    then Some (HStart (Z.to_nat rid) fwd steps rr rf) else None
  | _, _ => None
  end.

(* status the client sees: the HandleReadResponse chain may finish (nothing sent by the proxy: "200" with empty body from
   finishRequest) or redirect (302) whatever response is in hand *)
Definition final_status (rr : Z) (st : Z) : Z := if rr =? 0 then 200 else if rr =? 2 then 302 else st.

Definition decode_op (v : val) : option hop :=
  match v with
  | VL [VZ 1; VZ rid; f; s] => decode_start rid f s 1 1
  | VL [VZ 1; VZ rid; f; s; VZ rr; VZ rf] => decode_start rid f s rr rf
  | VL [VZ 2; VZ rid] => if (0 <=? rid) && (rid <? 3) then Some (HRelease (Z.to_nat rid)) else None
  | VL [VZ 3; VZ rid; VZ kind; VZ st] =>
    if (0 <=? rid) && (rid <? 3) && (0 <=? kind) && (kind <=? 2) && (0 <=? st) && (st <=? 2)
    then Some (HTunnel (Z.to_nat rid) kind st) else None
  | VL [VZ 4; VZ b; VZ v] =>
    if (0 <=? b) && (b <=? 3) && (0 <=? v) && (v <=? 4) then Some (HAdmin (Z.to_nat b) v) else None
  | _ => None
  end.

Definition decode_C07 (v : val) : option (Z * list hop) :=
  match v with
  | VL [VZ rm; VZ mode; VL ops] =>
    match all_some (map decode_op ops) with
    | Some l => if (0 <=? rm) && (rm <=? 4) && (0 <=? mode) && (mode <=? 1) && (length l <=? 24)%nat then Some (rm, l) else None
    | None => None
    end
  | _ => None
  end.

(* harness-level bookkeeping per request slot: the backend holding it (if any), the choices seen, the last status,
   whether it is a tunnel.  Model requests are indexed by the slot; a slot is re-initialised when it is reused. *)
Record hstate := mkH { h_model : state; h_hold : nat -> option nat; h_choices : nat -> list nat;
                       h_status : nat -> Z; h_tun : nat -> bool; h_avail : nat -> bool }.
Definition h_init : hstate := mkH s_init (fun _ => None) (fun _ => []) (fun _ => 0) (fun _ => false) (fun _ => true).
(* is any backend of the main cluster available?  (the refusing address counts: it is selectable) *)
Definition any_avail (h : hstate) : bool := h_avail h 0%nat || h_avail h 1%nat || h_avail h 2%nat.
(* the balancer may only have chosen available backends *)
Definition choices_avail (h : hstate) (ch : list nat) : bool := forallb (h_avail h) ch.
Definition is_held (h : hstate) (rid : nat) : bool := match h_hold h rid with Some _ => true | None => false end.

Definition counts_val (s : state) : val := VL (map (fun b => VZ (counts s b)) (seq 0 NB)).
Definition obs_val (choices : list nat) (status : Z) (held : bool) (s : state) : val :=
  VL [VL (map (fun b => VZ (Z.of_nat b)) choices); VZ status; vbool held; counts_val s].

Definition tag (rid : nat) (l : list op) : list (nat * op) := map (fun x => (rid, x)) l.

(* operations of a tunnel: the dials that were refused are not observable and leave no trace in the counts; the
   canonical trace has none before a successful pick and connectRetryMax = 3 of them before giving up *)
Definition give_up (d : nat) : list op :=
  [TunnelPick d; TunnelDialFail; TunnelPick d; TunnelDialFail; TunnelPick d; TunnelDialFail; TunnelGiveUp].
Definition tunnel_ops (kind : Z) (ch : list nat) (st : Z) : option (list op * bool) :=
  match ch with
  | [] => Some (give_up (if kind =? 2 then DEAD2 else DEAD), false)
  | [b] => if Nat.ltb b DEAD && negb (kind =? 2)
           then Some (if st =? 0 then ([TunnelPick b], true) else ([TunnelPick b; TunnelEnd], false)) else None
  | _ => None
  end.

Fixpoint exec (rm : Z) (ops : list hop) (choose : nat -> hop -> list nat) (k : nat) (h : hstate) : option (list val) :=
  match ops with
  | [] => Some []
  | o :: rest =>
    match o with
    | HStart rid fwd steps rr rf =>
      if is_held h rid then None else
      let ch := choose k o in
      (* no backend available: bal.Balance fails at once (as when the retry budget is exhausted), no attempt *)
      match simulate 40 DEAD rm (if any_avail h then 0 else rm + 1) fwd steps ch with
      | None => None
      | Some m =>
        if negb (Nat.eqb (m_used m) (length ch)) || negb (choices_avail h ch) then None else
        match run_ops (reset (h_model h) rid) (tag rid (m_ops m)) with
        | None => None
        | Some s' =>
          (* h_status: the status at completion (now, or when released) *)
          let fin := final_status rr (if m_held m then 200 else m_status m) in
          let h' := mkH s' (upd (h_hold h) rid (if m_held m then Some (last ch O) else None)) (upd (h_choices h) rid ch)
                        (upd (h_status h) rid fin) (upd (h_tun h) rid false) (h_avail h) in
          match exec rm rest choose (S k) h' with
          | Some l => Some (obs_val ch (if m_held m then 0 else fin) (m_held m) s' :: l)
          | None => None
          end
        end
      end
    | HTunnel rid kind st =>
      if is_held h rid then None else
      let ch := choose k o in
      if negb (choices_avail h ch) then None else
      match tunnel_ops kind ch st with
      | None => None
      | Some (tops, held) =>
        match run_ops (reset (h_model h) rid) (tag rid tops) with
        | None => None
        | Some s' =>
          let status := if held then 0 else 1 in
          let h' := mkH s' (upd (h_hold h) rid (if held then Some (last ch O) else None)) (upd (h_choices h) rid ch)
                        (upd (h_status h) rid 1) (upd (h_tun h) rid true) (h_avail h) in
          match exec rm rest choose (S k) h' with
          | Some l => Some (obs_val ch status held s' :: l)
          | None => None
          end
        end
      end
    | HAdmin b v =>
      (* no count changes; only the availability seen by the balancer *)
      let av := if v =? 0 then upd (h_avail h) b false else if v =? 1 then upd (h_avail h) b true else h_avail h in
      let h' := mkH (h_model h) (h_hold h) (h_choices h) (h_status h) (h_tun h) av in
      match exec rm rest choose (S k) h' with
      | Some l => Some (obs_val [] 1 false (h_model h) :: l)
      | None => None
      end
    | HRelease rid =>
      if negb (is_held h rid) then
        (* nothing to release: the request has completed already (or was never started) *)
        match exec rm rest choose (S k) h with
        | Some l => Some (obs_val (h_choices h rid) (h_status h rid) false (h_model h) :: l)
        | None => None
        end
      else
      let status := h_status h rid in
      match run_ops (h_model h) (tag rid (if h_tun h rid then [TunnelEnd] else [RoundTrip 0; Finish])) with
      | None => None
      | Some s' =>
        let h' := mkH s' (upd (h_hold h) rid None) (h_choices h) (upd (h_status h) rid status) (h_tun h) (h_avail h) in
        match exec rm rest choose (S k) h' with
        | Some l => Some (obs_val (h_choices h rid) status false s' :: l)
        | None => None
        end
      end
    end
  end.

(* choices for the op number k read back from the observation *)
Definition obs_choices (o : val) (k : nat) (_ : hop) : list nat :=
  match o with
  | VL l => match nth k l (VL []) with
            | VL (c :: _) => match as_LZ c with Some zs => map Z.to_nat zs | None => [] end
            | _ => []
            end
  | _ => []
  end.

(* default choices (round-robin 0,1,2,...) used when no observation is available: the shortest prefix that fits *)
Definition rr_choices (rm : Z) (k : nat) (o : hop) : list nat :=
  match o with
  | HStart _ fwd steps _ _ =>
    let stream := map (fun j => Nat.modulo (j + k) NB) (seq 0 8) in
    match find (fun n => match simulate 40 DEAD rm 0 fwd steps (firstn n stream) with Some _ => true | None => false end)
               (seq 0 8) with
    | Some n => firstn n stream
    | None => []
    end
  | HTunnel _ kind _ => if (kind =? 2) || Nat.eqb (Nat.modulo k 3) 2 then [] else [Nat.modulo k 3]
  | _ => []
  end.

Definition run_C07 (v : val) : val :=
  match decode_C07 v with
  | Some (rm, ops) =>
    match exec rm ops (rr_choices rm) 0 h_init with
    | Some l => VL l
    | None => VErr 1
    end
  | None => VErr 0
  end.

Definition agree_C07 (i o : val) : bool :=
  match decode_C07 i with
  | Some (rm, ops) =>
    match exec rm ops (obs_choices o) 0 h_init with
    | Some l => val_eqb (VL l) o
    | None => false
    end
  | None => val_eqb (VErr 0) o
  end.

(* ------------------------------------------------------------------------------------------------
   THE PROPERTY on the implementation's observation: at every observation point each backend's count equals the
   number of requests / tunnels currently in flight on it (one is in flight on b exactly while a backend b holds it),
   is never negative, and is zero when nothing is in flight. *)
Definition holders (hold : nat -> option Z) (b : Z) : Z :=
  fold_right (fun rid acc => acc + match hold rid with Some x => if x =? b then 1 else 0 | None => 0 end) 0 (seq 0 NR).

Definition op_rid (o : hop) : nat := match o with HStart r _ _ _ _ => r | HRelease r => r | HTunnel r _ _ => r | HAdmin _ _ => O end.

Fixpoint prop_ops (ops : list hop) (obs : list val) (hold : nat -> option Z) : bool :=
  match ops, obs with
  | [], [] => true
  | o :: ops', VL [VL att; VZ status; VZ held; VL cs] :: obs' =>
    let rid := op_rid o in
    let hold' := match o with
                 | HAdmin _ _ => hold
                 | _ => upd hold rid (if held =? 1 then match last att (VZ (-1)) with VZ b => Some b | _ => None end else None)
                 end in
    match all_some (map as_Z cs) with
    | Some c =>
      (length c =? 4)%nat
      && forallb (fun x => 0 <=? x) c
      && forallb (fun b => nth (Z.to_nat b) c (-1) =? holders hold' b) [0; 1; 2; 3]
      && (match o with HRelease _ | HAdmin _ _ => held =? 0 | _ => if held =? 1 then status =? 0 else negb (status =? 0) end)
      && prop_ops ops' obs' hold'
    | None => false
    end
  | _, _ => false
  end.

Definition prop_C07 (i o : val) : bool :=
  match decode_C07 i, o with
  | Some (_, ops), VL obs => prop_ops ops obs (fun _ => None)
  | _, _ => false
  end.

Definition kf_C07 (i : val) : Z := 0.

(* well-formed input: decodes, and the model can run it with the default choices (no start on an occupied slot) *)
Definition wf_C07 (v : val) : bool :=
  match decode_C07 v with
  | Some (rm, ops) => match exec rm ops (rr_choices rm) 0 h_init with Some _ => true | None => false end
  | None => false
  end.
