(* C07 wire functions.
   input : [rm mode [op ...]]   rm = RetryMax of the cluster (CrossRetry 0, RetryLevel RetryGet), mode 0 WRR / 1 WLC,
           op = [1 rid [fwd ...] [steps ...]]  start GET number rid (0..2); fwd = HandleForward verdict per attempt,
                                               steps = outcome per attempt that reaches a live backend (see ConnCount.simulate);
                                               the harness waits until the request has completed or is held by a backend
              | [2 rid]                        release request rid if a backend holds it and wait for its completion (else no-op)
   output: one entry per op: [[attempts] status held [c0 c1 c2]]
           attempts = backends chosen so far for rid (0, 1 live; 2 refuses connections), status = reply status (0 while held),
           held = 1 iff the request is now waiting inside a backend, c_k = BfeBackend.ConnNum() of backend k at that moment.
   The balancer's choices are left open by the model: agree_C07 validates the observed trace (choices taken from the
   observation, everything else predicted). *)
From Coq Require Import List ZArith Bool.
From Bfe Require Import lib.Val model.ConnCount.
Import ListNotations.
Open Scope Z_scope.

Definition DEAD : nat := 2%nat.
Definition NB : nat := 3%nat.

Inductive hop := HStart (rid : nat) (fwd steps : list Z) | HRelease (rid : nat).

Definition decode_op (v : val) : option hop :=
  match v with
  | VL [VZ 1; VZ rid; f; s] =>
    match as_LZ f, as_LZ s with
    | Some fwd, Some steps =>
      if (0 <=? rid) && (rid <? 3) && forallb (fun x => (0 <=? x) && (x <=? 5)) fwd
         && forallb (fun x => (0 <=? x) && (x <=? 4)) steps
      then Some (HStart (Z.to_nat rid) fwd steps) else None
    | _, _ => None
    end
  | VL [VZ 2; VZ rid] => if (0 <=? rid) && (rid <? 3) then Some (HRelease (Z.to_nat rid)) else None
  | _ => None
  end.

Definition decode_C07 (v : val) : option (Z * list hop) :=
  match v with
  | VL [VZ rm; VZ mode; VL ops] =>
    match all_some (map decode_op ops) with
    | Some l => if (0 <=? rm) && (rm <=? 4) && (0 <=? mode) && (mode <=? 1) && (length l <=? 12)%nat then Some (rm, l) else None
    | None => None
    end
  | _ => None
  end.

(* harness-level bookkeeping: per rid  0 = idle, 1 = held; plus the choices seen so far *)
Record hstate := mkH { h_model : state; h_held : nat -> bool; h_choices : nat -> list nat; h_status : nat -> Z }.
Definition h_init : hstate := mkH s_init (fun _ => false) (fun _ => []) (fun _ => 0).

Definition counts_val (s : state) : val := VL (map (fun b => VZ (counts s b)) (seq 0 NB)).
Definition obs_val (choices : list nat) (status : Z) (held : bool) (s : state) : val :=
  VL [VL (map (fun b => VZ (Z.of_nat b)) choices); VZ status; vbool held; counts_val s].

(* fresh model slot per started request: the model indexes requests by a running number so that a rid can be
   reused after completion; slot = number of HStart ops so far *)
Fixpoint exec (rm : Z) (ops : list hop) (choose : nat -> hop -> list nat) (k : nat)
         (slot : nat -> nat) (nslots : nat) (h : hstate) : option (list val) :=
  match ops with
  | [] => Some []
  | o :: rest =>
    match o with
    | HStart rid fwd steps =>
      if h_held h rid then None else
      let ch := choose k o in
      match simulate 40 DEAD rm 0 fwd steps ch with
      | None => None
      | Some m =>
        if negb (Nat.eqb (m_used m) (length ch)) then None else
        let sl := nslots in
        match run_ops (h_model h) (map (fun x => (sl, x)) (m_ops m)) with
        | None => None
        | Some s' =>
          let h' := mkH s' (upd (h_held h) rid (m_held m)) (upd (h_choices h) rid ch) (upd (h_status h) rid (m_status m)) in
          match exec rm rest choose (S k) (upd slot rid sl) (S nslots) h' with
          | Some l => Some (obs_val ch (m_status m) (m_held m) s' :: l)
          | None => None
          end
        end
      end
    | HRelease rid =>
      if negb (h_held h rid) then
        (* nothing to release: the request has completed already (or was never started) *)
        match exec rm rest choose (S k) slot nslots h with
        | Some l => Some (obs_val (h_choices h rid) (h_status h rid) false (h_model h) :: l)
        | None => None
        end
      else
      match run_ops (h_model h) [(slot rid, RoundTrip 0); (slot rid, Finish)] with
      | None => None
      | Some s' =>
        let h' := mkH s' (upd (h_held h) rid false) (h_choices h) (upd (h_status h) rid 200) in
        match exec rm rest choose (S k) slot nslots h' with
        | Some l => Some (obs_val (h_choices h rid) 200 false s' :: l)
        | None => None
        end
      end
    end
  end.

(* choices for the op number k read back from the observation *)
Definition obs_choices (o : val) (k : nat) (_ : hop) : list nat :=
  match o with
  | VL l => match nth k l (VL []) with
            | VL (c :: _) => match as_LZ c with Some zs => map Z.to_nat zs | None => [] end
            | _ => []
            end
  | _ => []
  end.

(* default choices (round-robin 0,1,2,...) used when no observation is available: the shortest prefix that fits *)
Definition rr_choices (rm : Z) (k : nat) (o : hop) : list nat :=
  match o with
  | HStart _ fwd steps =>
    let stream := map (fun j => Nat.modulo (j + k) NB) (seq 0 8) in
    match find (fun n => match simulate 40 DEAD rm 0 fwd steps (firstn n stream) with Some _ => true | None => false end)
               (seq 0 8) with
    | Some n => firstn n stream
    | None => []
    end
  | _ => []
  end.

Definition run_C07 (v : val) : val :=
  match decode_C07 v with
  | Some (rm, ops) =>
    match exec rm ops (rr_choices rm) 0 (fun _ => O) 0 h_init with
    | Some l => VL l
    | None => VErr 1
    end
  | None => VErr 0
  end.

Definition agree_C07 (i o : val) : bool :=
  match decode_C07 i with
  | Some (rm, ops) =>
    match exec rm ops (obs_choices o) 0 (fun _ => O) 0 h_init with
    | Some l => val_eqb (VL l) o
    | None => false
    end
  | None => val_eqb (VErr 0) o
  end.

(* ------------------------------------------------------------------------------------------------
   THE PROPERTY on the implementation's observation: at every observation point each backend's count equals the
   number of requests currently in flight on it (a request is in flight on b exactly while a backend b holds it),
   is never negative, and is zero when nothing is in flight. *)
Fixpoint holders (hold : list (nat * Z)) (b : Z) : Z :=
  match hold with
  | [] => 0
  | (_, x) :: r => (if x =? b then 1 else 0) + holders r b
  end.

Fixpoint prop_ops (ops : list hop) (obs : list val) (hold : list (nat * Z)) : bool :=
  match ops, obs with
  | [], [] => true
  | o :: ops', VL [VL att; VZ status; VZ held; VL cs] :: obs' =>
    let rid := match o with HStart r _ _ => r | HRelease r => r end in
    let hold0 := filter (fun p => negb (Nat.eqb (fst p) rid)) hold in
    let hold' := if held =? 1 then
                   match last att (VZ (-1)) with VZ b => (rid, b) :: hold0 | _ => hold0 end
                 else hold0 in
    match all_some (map as_Z cs) with
    | Some c =>
      (length c =? 3)%nat
      && forallb (fun x => 0 <=? x) c
      && forallb (fun b => nth (Z.to_nat b) c (-1) =? holders hold' b) [0; 1; 2]
      && (match o with HStart _ _ _ => if held =? 1 then status =? 0 else negb (status =? 0) | HRelease _ => held =? 0 end)
      && prop_ops ops' obs' hold'
    | None => false
    end
  | _, _ => false
  end.

Definition prop_C07 (i o : val) : bool :=
  match decode_C07 i, o with
  | Some (_, ops), VL obs => prop_ops ops obs []
  | _, _ => false
  end.

Definition kf_C07 (i : val) : Z := 0.
