(* C28 wire functions.
   input  : VL [VL requests; VL scripts]
     request  VL [VB bytes; VB id; VZ kind; VZ head; VZ expect]
              bytes  what the client sends for this request (head and, unless withheld, body); the client sends the
                     concatenation of all requests at once and then half-closes (FIN)
              id     value of its X-Verif-Id header (unique per connection)
              kind   0 well-formed and complete; 1 well-formed with "Expect: 100-continue" and the body withheld
                     (the client sends the body only after "100 Continue"); 2 malformed head (the server can only
                     answer an error and close); 3 well-formed head but the stream ends inside its body;
                     4 well-formed head but the chunked framing of the body is not valid (size line empty, not
                     1*HEXDIG [ext], over 64 bits ...): the server cannot know where the body ends
              head   1 iff the method is HEAD;  expect  1 iff it carries "Expect: 100-continue"
     script   VL [VB key; VZ src; VZ read; VZ status; VL hdrs; VL pieces; VZ err]: the handler of the request whose
              X-Verif-Spec header is key (see KeepAlive.v script); handlers echo the X-Verif-Id they saw as X-Req
   output : VB (all bytes the client received until the server closed the connection; a generated Date value is
            rewritten to fixed_date by the harness) *)
From Coq Require Import List ZArith Bool.
From Bfe Require Import lib.Val lib.Bytes model.Http1Resp model.KeepAlive.
Import ListNotations.
Open Scope Z_scope.

Definition sniff_text (_ : bytes) : bytes := s_text_plain_utf8.
Definition serve_new := serve sniff_text fixed_date true.
Definition serve_old := serve sniff_text fixed_date false.

Record creq := { c_bytes : bytes; c_id : bytes; c_kind : Z; c_head : bool; c_expect : bool }.
Definition dec_hdr (v : val) : option (bytes * bytes) :=
  match v with VL [VB k; VB x] => Some (k, x) | _ => None end.
Definition dec_req (v : val) : option creq :=
  match v with
  | VL [VB b; VB id; VZ kind; VZ head; VZ expect] =>
    if (0 <=? kind) && (kind <=? 4) && ((head =? 0) || (head =? 1)) && ((expect =? 0) || (expect =? 1))
    then Some {| c_bytes := b; c_id := id; c_kind := kind; c_head := head =? 1; c_expect := expect =? 1 |} else None
  | _ => None
  end.
Definition dec_script (v : val) : option script :=
  match v with
  | VL [VB key; VZ src; VZ rd; VZ status; VL hs; VL ps; VZ err] =>
    match all_some (map dec_hdr hs), all_some (map as_B ps) with
    | Some h, Some pieces =>
      if (0 <=? src) && (src <=? 3) && (0 <=? rd) && (rd <=? 2) && (100 <=? status) && (status <=? 599) &&
         ((err =? 0) || (err =? 1))
      then Some {| h_key := key; h_src := src; h_read := rd; h_status := status; h_hdrs := h; h_pieces := pieces;
                   h_err := err =? 1 |} else None
    | _, _ => None
    end
  | _ => None
  end.
Definition dec_C28 (i : val) : option (list creq * list script) :=
  match i with
  | VL [VL rs; VL ss] =>
    match all_some (map dec_req rs), all_some (map dec_script ss) with
    | Some r, Some s => Some (r, s)
    | _, _ => None
    end
  | _ => None
  end.
Definition stream_of (rs : list creq) : bytes := concat (map c_bytes rs).

Definition run_C28 (i : val) : val :=
  match dec_C28 i with
  | Some (rs, ss) =>
    match serve_new (S (length (stream_of rs))) ss (stream_of rs) with
    | Some out => VB out
    | None => VErr 1
    end
  | None => VErr 0
  end.
Definition agree_C28 (i o : val) : bool := val_eqb (run_C28 i) o.

(* ---- THE PROPERTY: the received bytes, cut into responses by the strict reference parser of C27, against the
   requests the client sent ---- *)
Definition is_error_status (st : Z) : bool := (st =? 400) || (st =? 413) || (st =? 414) || (st =? 417).
Definition strip_continue (s : bytes) : option bytes :=
  if is_prefix s_continue s then Some (skipn (length s_continue) s) else None.
(* walks the requests in order; s = response bytes not yet attributed *)
Fixpoint check_responses (rs : list creq) (s : bytes) {struct rs} : bool :=
  match rs with
  | [] => is_empty s                                   (* no response without a request *)
  | r :: rest =>
    if is_empty s then true                            (* the connection was closed: always safe *)
    else
      (* an interim "100 Continue" may precede the final response of a request that asked for it *)
      let '(s1, continued) := match strip_continue s with
                              | Some t => (t, true)
                              | None => (s, false)
                              end in
      if continued && negb (c_expect r) then false
      else if is_empty s1 then true
      else
      match ref_parse (c_head r) s1 with
      | None => false
      | Some p =>
        p_complete p &&
        (if c_kind r =? 2 then is_error_status (p_status p) && is_empty (p_rest p)
         else
           (* at most one final response per request, in request order: the response names this request (or names
              none and is the last one) *)
           match get_all_ci s_xreq (p_fields p) with
           | [x] => bytes_eqb x (c_id r)
           | [] => is_empty (p_rest p)
           | _ => false
           end &&
           (if is_error_status (p_status p) && negb (has_ci s_xreq (p_fields p)) then is_empty (p_rest p) else true) &&
           (if (c_kind r =? 1) && negb continued then is_empty (p_rest p)      (* body position unknown: must close *)
            else if (c_kind r =? 3) || (c_kind r =? 4) then is_empty (p_rest p)   (* body not delimitable: must close *)
            else check_responses rest (p_rest p)))
      end
  end.
Definition prop_C28 (i o : val) : bool :=
  match dec_C28 i, o with
  | Some (rs, _), VB s => check_responses rs s
  | _, _ => false
  end.

Definition kf_C28 (i : val) : Z := 0.
