(* C24 wire functions.  input: VB stream.
   output: [ [req ...] endcode ], req = [method target proto host [[key value] ...] body offset_after] *)
From Coq Require Import List ZArith Bool.
From Bfe Require Import lib.Val lib.Bytes model.Http1Req.
Import ListNotations.
Open Scope Z_scope.

Definition enc_fields (h : fields) : val := VL (map (fun kv => VL [VB (fst kv); VB (snd kv)]) h).
Definition enc_obs (o : obs) : val :=
  VL [VB (o_method o); VB (o_target o); VB (o_proto o); VB (o_host o); enc_fields (o_fields o);
      VB (o_body o); VZ (o_off o)].
Definition dec_field (v : val) : option (bytes * bytes) :=
  match v with VL [VB k; VB x] => Some (k, x) | _ => None end.
Definition dec_obs (v : val) : option obs :=
  match v with
  | VL [VB m; VB t; VB p; VB h; VL fs; VB b; VZ off] =>
    match all_some (map dec_field fs) with
    | Some fs' => Some {| o_method := m; o_target := t; o_proto := p; o_host := h; o_fields := fs';
                          o_body := b; o_off := off |}
    | None => None
    end
  | _ => None
  end.

Definition bfe_run (s : bytes) : list obs * Z :=
  let '(qs, e) := parse_all V_bfe s in (map (bfe_obs (blen s)) qs, e).

Definition run_C24 (i : val) : val :=
  match i with
  | VB s => let '(os, e) := bfe_run s in VL [VL (map enc_obs os); VZ e]
  | _ => VErr 0
  end.
Fixpoint vals_prefix (a b : list val) {struct a} : bool :=
  match a, b with
  | [], _ => true
  | x :: a', y :: b' => val_eqb x y && vals_prefix a' b'
  | _ :: _, [] => false
  end.
(* equality, except that after a request-target outside the modelled classes (model end code 98) only the
   requests before it are compared *)
Definition agree_C24 (i o : val) : bool :=
  match run_C24 i, o with
  | VL [VL ms; VZ e], VL [VL os; VZ e'] =>
    if e =? 98 then vals_prefix ms os else val_eqb (VL [VL ms; VZ e]) o
  | r, _ => val_eqb r o
  end.

(* THE PROPERTY on the implementation's observation: every request the implementation accepted (in order)
   is the request the RFC 7230 reference parser finds at the same place: same method, target, version,
   same non-framing fields (names canonicalised), same body, same end offset.  In particular the
   implementation accepts no request at a point where the reference parser rejects. *)
Definition prop_core (s : bytes) (os : list obs) : bool :=
  let '(refs, e) := parse_all V_ref s in
  if e =? 98 then obs_prefix (blen s) (firstn (length refs) os) refs    (* target class not modelled: stop comparing *)
  else obs_prefix (blen s) os refs.
Definition prop_C24 (i o : val) : bool :=
  match i, o with
  | VB s, VL [VL reqs; VZ _] =>
    match all_some (map dec_obs reqs) with
    | Some os => prop_core s os
    | None => false
    end
  | _, _ => false
  end.
Definition kf_C24 (i : val) : Z :=
  match i with
  | VB s => stream_class (S (length s)) s
  | _ => 0
  end.
