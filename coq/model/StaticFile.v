(* C50: model of bfe_modules/mod_static (createRespFromStaticFile / openStaticFile / newStaticFile)
   together with the parts of the Go standard library it relies on for path confinement:
   path.Clean on rooted paths, http.Dir(root).Open, filepath.Join(root, name) for an absolute root.
   The file system is an input: a finite list (absolute element path -> file content | directory).
   Symbolic links, permissions and the kernel's PATH_MAX are outside the model (lexical model). *)
From Coq Require Import List ZArith Bool.
From Bfe Require Import lib.Val lib.Bytes.
Import ListNotations.
Open Scope Z_scope.

Definition elem := bytes.
Definition DOT : elem := [46].
Definition DOTDOT : elem := [46; 46].
Definition SLASH : Z := 47.

(* ---- path.Clean for rooted paths, over the list of '/'-separated elements.
   stk is the output so far, reversed.  "" and "." are dropped, ".." pops (and is dropped at the root). *)
Definition clean_step (stk : list elem) (e : elem) : list elem :=
  if bytes_eqb e [] || bytes_eqb e DOT then stk
  else if bytes_eqb e DOTDOT then tl stk
  else e :: stk.
Definition clean_from (stk : list elem) (es : list elem) : list elem := fold_left clean_step es stk.
Definition clean_abs (es : list elem) : list elem := rev (clean_from [] es).
(* path.Clean("/" ++ name) as element list *)
Definition clean_name (name : bytes) : list elem := clean_abs (split_byte SLASH name).

(* ---- file system *)
Inductive node := NFile (c : bytes) | NDir.
Definition fsys := list (list elem * node).
Fixpoint path_eqb (a b : list elem) : bool :=
  match a, b with
  | [], [] => true
  | x :: a', y :: b' => bytes_eqb x y && path_eqb a' b'
  | _, _ => false
  end.
Fixpoint fs_find (fs : fsys) (p : list elem) : option node :=
  match fs with
  | [] => None
  | (q, n) :: r => if path_eqb q p then Some n else fs_find r p
  end.
(* the root directory "/" always exists *)
Definition fs_get (fs : fsys) (p : list elem) : option node :=
  match p with [] => Some NDir | _ => fs_find fs p end.

Inductive res := RFile (c : bytes) | RDir | RNotExist | RTooLong | RInvalid.
Definition NAME_MAX : Z := 255.
(* kernel path walk from directory cur over the remaining elements.
   ENOENT and ENOTDIR both end as "not exist" (net/http mapOpenError turns ENOTDIR into ErrNotExist);
   a component longer than NAME_MAX in an existing directory gives ENAMETOOLONG. *)
Fixpoint walk (fs : fsys) (cur : list elem) (rest : list elem) {struct rest} : res :=
  match rest with
  | [] => match fs_get fs cur with
          | Some (NFile c) => RFile c
          | Some NDir => RDir
          | None => RNotExist
          end
  | e :: r => match fs_get fs cur with
              | Some NDir => if NAME_MAX <? blen e then RTooLong else walk fs (cur ++ [e]) r
              | _ => RNotExist
              end
  end.
Definition has_nul (es : list elem) : bool := existsb (fun e => existsb (Z.eqb 0) e) es.

(* http.Dir(root).Open(name) followed by Stat: the path handed to the OS is root ++ Clean("/"++name);
   a NUL byte in the cleaned path is refused before the OS is asked *)
Definition opened_path (root : list elem) (name : bytes) : option (list elem) :=
  let c := clean_name name in if has_nul c then None else Some (root ++ c).
Definition dir_open (fs : fsys) (root : list elem) (name : bytes) : res :=
  match opened_path root name with
  | None => RInvalid
  | Some p => walk fs [] p
  end.

(* os.Stat(filepath.Join(root, name)) == nil : NOT confined to root (Clean over root ++ name) *)
Definition stat_path (root : list elem) (name : bytes) : list elem :=
  clean_abs (root ++ split_byte SLASH name).
Definition stat_ok (fs : fsys) (root : list elem) (name : bytes) : bool :=
  let p := stat_path root name in
  if has_nul p then false
  else match walk fs [] p with RFile _ | RDir => true | _ => false end.

(* ---- bfe_http.HasToken(v, token) for a lowercase ASCII token *)
Definition is_boundary (b : Z) : bool := (b =? 32) || (b =? 44) || (b =? 9).
Fixpoint scan_token (prev_ok : bool) (v tok : bytes) {struct v} : bool :=
  match v with
  | [] => false
  | b :: r =>
    (prev_ok && (length tok <=? length v)%nat && eq_fold (firstn (length tok) v) tok
       && match skipn (length tok) v with [] => true | a :: _ => is_boundary a end)
    || scan_token (is_boundary b) r tok
  end.
Definition has_token (v tok : bytes) : bool :=
  match tok with
  | [] => false
  | _ => if (length v <? length tok)%nat then false else bytes_eqb v tok || scan_token true v tok
  end.

Definition GZIP : bytes := [103; 122; 105; 112].
Definition BR : bytes := [98; 114].
Definition GZ : bytes := [103; 122].
(* CheckAcceptEncoding: (encoding, file extension) in the order gzip, br *)
Definition accept_list (ae : bytes) : list (bytes * bytes) :=
  (if has_token ae GZIP then [(GZIP, GZ)] else []) ++ (if has_token ae BR then [(BR, BR)] else []).

(* newStaticFile: first existing pre-compressed sibling wins, then http.Dir.Open *)
Fixpoint pick_sibling (fs : fsys) (root : list elem) (name : bytes) (encs : list (bytes * bytes)) : bytes * bytes :=
  match encs with
  | [] => (name, [])
  | (enc, ext) :: r =>
    let cand := name ++ 46 :: ext in
    if stat_ok fs root cand then (cand, enc) else pick_sibling fs root name r
  end.
Definition new_static_file (fs : fsys) (root : list elem) (name : bytes) (encs : list (bytes * bytes)) : res * bytes :=
  let '(fname, enc) := pick_sibling fs root name encs in (dir_open fs root fname, enc).

(* openStaticFile: default file when the first attempt is "not exist" or a directory *)
Definition open_static_file (fs : fsys) (root : list elem) (name def : bytes) (encs : list (bytes * bytes)) : res * bytes :=
  let r1 := new_static_file fs root name encs in
  match fst r1 with
  | RNotExist | RDir => match def with [] => r1 | _ => new_static_file fs root def encs end
  | _ => r1
  end.

Definition GET : bytes := [71; 69; 84].
Definition HEAD : bytes := [72; 69; 65; 68].

Record resp := { r_status : Z; r_body : bytes; r_clen : bytes; r_cenc : bytes }.
(* createRespFromStaticFile *)
Definition serve (fs : fsys) (root : list elem) (meth name ae def : bytes) (compress : bool) : resp :=
  if negb (bytes_eqb meth GET) && negb (bytes_eqb meth HEAD) then
    {| r_status := 405; r_body := []; r_clen := []; r_cenc := [] |}
  else
    let encs := if compress then accept_list ae else [] in
    match open_static_file fs root name def encs with
    | (RFile c, enc) =>
      {| r_status := 200; r_body := if bytes_eqb meth HEAD then [] else c;
         r_clen := dec_of_Z (blen c); r_cenc := enc |}
    | (RNotExist, _) => {| r_status := 404; r_body := []; r_clen := []; r_cenc := [] |}
    | (_, _) => {| r_status := 500; r_body := []; r_clen := []; r_cenc := [] |}
    end.

(* staticFileHandler: product lookup and first rule whose condition matches.
   route: 0 = the product has a rule list [rule that does not match; BROWSE rule (root, def) that matches],
          1 = the product has no rule list, 2 = no rule of the list matches.   None = BfeHandlerGoOn *)
Definition static_handler (route : Z) (fs : fsys) (root : list elem) (meth name ae def : bytes) (compress : bool)
  : option resp :=
  if route =? 0 then Some (serve fs root meth name ae def compress) else None.
(* module counters touched by one request: FileBrowseNotExist, FileBrowseFallbackDefault (increments) *)
Definition counters (fs : fsys) (root : list elem) (meth name ae def : bytes) (compress : bool) : Z * Z :=
  if negb (bytes_eqb meth GET) && negb (bytes_eqb meth HEAD) then (0, 0)
  else
    let encs := if compress then accept_list ae else [] in
    match fst (new_static_file fs root name encs) with
    | RNotExist => (1, match def with [] => 0 | _ => 1 end)
    | RDir => (0, match def with [] => 0 | _ => 1 end)
    | _ => (0, 0)
    end.

(* static_rule_load.go / action.go ActionFileCheck: a rule {Cmd, Params [root, default]} of a rule file loads iff Cmd is
   exactly "BROWSE", there are two params, os.Stat(root) succeeds and, for a non-empty default,
   os.Stat(path.Join(root, default)) succeeds (lexical join, not confined to root) *)
Definition BROWSE : bytes := [66; 82; 79; 87; 83; 69].
Definition rule_file_ok (fs : fsys) (root : list elem) (def cmd : bytes) : bool :=
  bytes_eqb cmd BROWSE
  && match walk fs [] root with RFile _ | RDir => true | _ => false end
  && match def with [] => true | _ => stat_ok fs root def end.

Example clean_ex1 : clean_name [47;97;47;46;46;47;46;46;47;98] = [[98]].   (* "/a/../../b" -> /b *)
Proof. reflexivity. Qed.
Example has_token_ex1 : has_token [71;90;73;80;44;32;98;114] GZIP = true.       (* "GZIP, br" *)
Proof. reflexivity. Qed.
Example has_token_ex2 : has_token [120;103;122;105;112] GZIP = false.            (* "xgzip" *)
Proof. reflexivity. Qed.
