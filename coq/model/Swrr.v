(* C01 — model of bfe_balance/bal_slb: smoothBalance (bal_rr.go), BackendRR.Init / UpdateWeight
   (backend_rr.go), BalanceRR.Update (bal_rr.go), BfeBackend.SetAvail.

   Two layers:
   (1) `st` = the (weight, current) list of the ELIGIBLE backends (Avail() && weight > 0), with the
       update `step` ("every eligible current += weight; picked current -= total of the currents
       before the additions") and the code's pick `swrr_pick` (first strictly greater current wins,
       i.e. the first maximal current).  The exact-share theorem is proved over this layer for an
       arbitrary choice function returning a maximal index.
   (2) the full backend list (id, weight, current, avail) with the ineligible entries skipped
       (their credit is not touched, exactly as the `continue` in smoothBalance), Update and SetAvail.
   Weights in the state are already scaled (x100, BackendRR.Init); configuration weights are unscaled. *)
From Coq Require Import List ZArith Bool.
Import ListNotations.
Open Scope Z_scope.

(* ---------------------------------------------------------------- layer 1: eligible list *)
Definition st := list (Z * Z).                      (* (weight, current) *)
Definition sumw (s : st) := fold_right (fun p a => fst p + a) 0 s.
Definition sumc (s : st) := fold_right (fun p a => snd p + a) 0 s.
Definition fresh (ws : list Z) : st := map (fun w => (w, w)) ws.

Fixpoint upd (s : st) (i : nat) (total : Z) : st :=
  match s with
  | [] => []
  | (w, c) :: r =>
    match i with
    | O => (w, c + w - total) :: map (fun p => (fst p, snd p + fst p)) r
    | S i' => (w, c + w) :: upd r i' total
    end
  end.
Definition step (s : st) (i : nat) : st := upd s i (sumc s).

(* index i holds a maximal current *)
Definition ok (s : st) (i : nat) : Prop :=
  exists w c, nth_error s i = Some (w, c) /\ forall j w' c', nth_error s j = Some (w', c') -> c' <= c.
Definition okb (s : st) (i : nat) : bool :=
  match nth_error s i with
  | Some (_, c) => forallb (fun p => snd p <=? c) s
  | None => false
  end.

(* the Go loop:  if best == nil || backendRR.current > max { best = backendRR; max = current } *)
Fixpoint scan (s : st) (i : nat) (best : option (nat * Z)) {struct s} : option (nat * Z) :=
  match s with
  | [] => best
  | (_, c) :: r =>
    let best' := match best with
                 | None => Some (i, c)
                 | Some (_, m) => if c >? m then Some (i, c) else best
                 end in
    scan r (S i) best'
  end.
Definition swrr_pick (s : st) : nat := match scan s 0%nat None with Some (i, _) => i | None => 0%nat end.

(* executions driven by a choice function *)
Section Exec.
  Variable choose : st -> nat.
  Variable ws : list Z.
  Fixpoint state (n : nat) : st :=
    match n with O => fresh ws | S n' => let s := state n' in step s (choose s) end.
  Definition pick (n : nat) : nat := choose (state n).
  Fixpoint cnt (i : nat) (n : nat) : Z :=
    match n with O => 0 | S n' => cnt i n' + (if Nat.eqb i (pick n') then 1 else 0) end.
  (* occurrences of i among picks k .. k+len-1 *)
  Definition cntw (i : nat) (k len : nat) : Z := cnt i (k + len) - cnt i k.
End Exec.
Definition Asum (a : list Z) := fold_right Z.add 0 a.
Definition ai (a : list Z) (i : nat) : Z := nth i a 0.

(* ---------------------------------------------------------------- layer 2: backend list *)
Definition backend := (Z * Z * Z * bool)%type.       (* id, weight(x100), current, avail *)
Definition b_id (b : backend) : Z := let '(i, _, _, _) := b in i.
Definition b_w (b : backend) : Z := let '(_, w, _, _) := b in w.
Definition b_c (b : backend) : Z := let '(_, _, c, _) := b in c.
Definition b_av (b : backend) : bool := let '(_, _, _, a) := b in a.
Definition elig (b : backend) : bool := b_av b && (0 <? b_w b).
Definition set_c (b : backend) (c : Z) : backend := let '(i, w, _, a) := b in (i, w, c, a).

Definition view (bs : list backend) : st := map (fun b => (b_w b, b_c b)) (filter elig bs).
Fixpoint writeback (bs : list backend) (s : st) {struct bs} : list backend :=
  match bs with
  | [] => []
  | b :: r =>
    if elig b then match s with
                   | (_, c) :: s' => set_c b c :: writeback r s'
                   | [] => b :: r
                   end
    else b :: writeback r s
  end.
Definition elig_ids (bs : list backend) : list Z := map b_id (filter elig bs).

(* smoothBalance with the pick made by `ch` on the eligible view; None = "all backend is down" *)
Definition smooth_by (ch : st -> nat) (bs : list backend) : option (Z * list backend) :=
  match view bs with
  | [] => None
  | s => let i := ch s in Some (nth i (elig_ids bs) (-1), writeback bs (step s i))
  end.
Definition smooth := smooth_by swrr_pick.

(* position of id in a list *)
Fixpoint index_of (x : Z) (l : list Z) : option nat :=
  match l with
  | [] => None
  | y :: r => if x =? y then Some O else match index_of x r with Some n => Some (S n) | None => None end
  end.
(* trace validation step: the implementation picked `p`; accept iff p is an eligible backend holding a
   maximal current, and advance with that pick *)
Definition smooth_follow (bs : list backend) (p : Z) : option (list backend) :=
  match view bs with
  | [] => if p =? -1 then Some bs else None
  | s => match index_of p (elig_ids bs) with
         | Some i => if okb s i then Some (writeback bs (step s i)) else None
         | None => None
         end
  end.

(* BackendRR.Init / UpdateWeight / BalanceRR.Update; conf = (id, unscaled weight) list *)
Definition init_backend (e : Z * Z) : backend := (fst e, 100 * snd e, 100 * snd e, true).
Definition init (conf : list (Z * Z)) : list backend := map init_backend conf.
Fixpoint lookup (x : Z) (conf : list (Z * Z)) : option Z :=   (* confMapMake: the last entry of a key wins *)
  match conf with
  | [] => None
  | (k, w) :: r => match lookup x r with Some w' => Some w' | None => if x =? k then Some w else None end
  end.
Definition update_weight (b : backend) (w : Z) : backend :=
  let '(i, _, c, a) := b in (i, 100 * w, (if w <=? 0 then 0 else c), a).
Definition update (bs : list backend) (conf : list (Z * Z)) : list backend :=
  flat_map (fun b => match lookup (b_id b) conf with Some w => [update_weight b w] | None => [] end) bs
  ++ map init_backend (filter (fun e => negb (existsb (Z.eqb (fst e)) (map b_id bs))) conf).
Definition set_avail (bs : list backend) (id : Z) (a : bool) : list backend :=
  map (fun b => let '(i, w, c, _) := b in if i =? id then (i, w, c, a) else b) bs.

Inductive op :=
| OPick (k : nat)                       (* k calls of Balance(WrrSmooth) *)
| OUpdate (conf : list (Z * Z))         (* BalanceRR.Update *)
| OAvail (id : Z) (a : bool).           (* BfeBackend.SetAvail on the backend with that id *)

Fixpoint picks_by (ch : st -> nat) (bs : list backend) (k : nat) {struct k} : list Z * list backend :=
  match k with
  | O => ([], bs)
  | S k' => match smooth_by ch bs with
            | None => let '(l, bs') := picks_by ch bs k' in (-1 :: l, bs')
            | Some (p, bs1) => let '(l, bs') := picks_by ch bs1 k' in (p :: l, bs')
            end
  end.
Definition apply_op (bs : list backend) (o : op) : list Z * list backend :=
  match o with
  | OPick k => picks_by swrr_pick bs k
  | OUpdate conf => ([], update bs conf)
  | OAvail id a => ([], set_avail bs id a)
  end.
Fixpoint run_ops (bs : list backend) (ops : list op) : list (list Z) :=
  match ops with
  | [] => []
  | o :: r => let '(obs, bs') := apply_op bs o in obs :: run_ops bs' r
  end.

Fixpoint follow (bs : list backend) (ps : list Z) : option (list backend) :=
  match ps with
  | [] => Some bs
  | p :: r => match smooth_follow bs p with Some bs' => follow bs' r | None => None end
  end.
(* trace validation of the implementation's observations *)
Fixpoint check_ops (bs : list backend) (ops : list op) (obs : list (list Z)) : bool :=
  match ops, obs with
  | [], [] => true
  | OPick k :: r, ps :: obs' =>
    (Nat.eqb (length ps) k) && match follow bs ps with Some bs' => check_ops bs' r obs' | None => false end
  | OUpdate conf :: r, [] :: obs' => check_ops (update bs conf) r obs'
  | OAvail id a :: r, [] :: obs' => check_ops (set_avail bs id a) r obs'
  | _, _ => false
  end.

(* ---------------------------------------------------------------- specification (credit-free) *)
(* configuration state: (id, unscaled weight, avail) in backend-list order *)
Definition cfg := list (Z * Z * bool).
Definition cfg_init (conf : list (Z * Z)) : cfg := map (fun e => (fst e, snd e, true)) conf.
Definition cfg_update (c : cfg) (conf : list (Z * Z)) : cfg :=
  flat_map (fun b => let '(i, _, a) := b in match lookup i conf with Some w => [(i, w, a)] | None => [] end) c
  ++ map (fun e => (fst e, snd e, true))
         (filter (fun e => negb (existsb (Z.eqb (fst e)) (map (fun b : Z * Z * bool => fst (fst b)) c))) conf).
Definition cfg_avail (c : cfg) (id : Z) (a : bool) : cfg :=
  map (fun b => let '(i, w, _) := b in if i =? id then (i, w, a) else b) c.
(* eligible (id, weight) list *)
Definition cfg_elig (c : cfg) : list (Z * Z) :=
  map (fun b => (fst (fst b), snd (fst b))) (filter (fun b => snd b && (0 <? snd (fst b))) c).

Fixpoint count (x : Z) (l : list Z) : Z :=
  match l with [] => 0 | y :: r => (if x =? y then 1 else 0) + count x r end.
(* a window of picks has the exact shares of the eligible (id, weight) list *)
Definition window_ok (el : list (Z * Z)) (win : list Z) : bool :=
  forallb (fun e => count (fst e) win =? snd e) el.
(* every window of A = sum of weights consecutive picks is exact; every pick is an eligible id;
   with no eligible backend every call reports the error (-1) *)
Definition segment_ok (el : list (Z * Z)) (ps : list Z) : bool :=
  match el with
  | [] => forallb (Z.eqb (-1)) ps
  | _ =>
    let A := Z.to_nat (Asum (map snd el)) in
    forallb (fun p => existsb (Z.eqb p) (map fst el)) ps &&
    forallb (fun k => window_ok el (firstn A (skipn k ps))) (seq 0 (length ps + 1 - A))
  end.

Fixpoint elig_eqb (a b : list (Z * Z)) : bool :=
  match a, b with
  | [], [] => true
  | (i, w) :: a', (j, v) :: b' => (i =? j) && (w =? v) && elig_eqb a' b'
  | _, _ => false
  end.

(* walk the operations; a stable segment ends when the eligible (id, weight) list changes *)
Fixpoint spec_ops (c : cfg) (acc : list Z) (ops : list op) (obs : list (list Z)) : bool :=
  match ops, obs with
  | [], [] => segment_ok (cfg_elig c) acc
  | OPick k :: r, ps :: obs' => (Nat.eqb (length ps) k) && spec_ops c (acc ++ ps) r obs'
  | OUpdate conf :: r, [] :: obs' =>
    let c' := cfg_update c conf in
    if elig_eqb (cfg_elig c) (cfg_elig c') then spec_ops c' acc r obs'
    else segment_ok (cfg_elig c) acc && spec_ops c' [] r obs'
  | OAvail id a :: r, [] :: obs' =>
    let c' := cfg_avail c id a in
    if elig_eqb (cfg_elig c) (cfg_elig c') then spec_ops c' acc r obs'
    else segment_ok (cfg_elig c) acc && spec_ops c' [] r obs'
  | _, _ => false
  end.

(* known-finding class: some stable segment starts with carried-over credits (current <> weight on an
   eligible backend) in the model run *)
Definition fresh_state (bs : list backend) : bool := forallb (fun b => negb (elig b) || (b_c b =? b_w b)) bs.
Definition el_of (bs : list backend) : list (Z * Z) := map (fun b => (b_id b, b_w b)) (filter elig bs).
Fixpoint carried (bs : list backend) (ops : list op) : bool :=
  match ops with
  | [] => false
  | o :: r =>
    let bs' := snd (apply_op bs o) in
    match o with
    | OPick _ => carried bs' r
    | _ => (negb (elig_eqb (el_of bs) (el_of bs')) && negb (fresh_state bs')) || carried bs' r
    end
  end.

(* the DESIGN witness: weights 5,1,1 -> 3 picks -> Update to 1,1,3 -> 5 picks *)
Example reload_witness :
  run_ops (init [(0,5);(1,1);(2,1)]) [OPick 3; OUpdate [(0,1);(1,1);(2,3)]; OPick 10]
  = [[0;0;1]; []; [0;2;2;2;0;2;1;2;2;0]].
Proof. reflexivity. Qed.
