(* C01 — model of bfe_balance/bal_slb: smoothBalance (bal_rr.go), BackendRR.Init / UpdateWeight
   (backend_rr.go), BalanceRR.Update (bal_rr.go), BfeBackend.SetAvail.

   Two layers:
   (1) `st` = the (weight, current) list of the ELIGIBLE backends (Avail() && weight > 0), with the
       update `step` ("every eligible current += weight; picked current -= total of the currents
       before the additions") and the code's pick `swrr_pick` (first strictly greater current wins,
       i.e. the first maximal current).  The exact-share theorem is proved over this layer for an
       arbitrary choice function returning a maximal index.
   (2) the full backend list (id, weight, current, avail) with the ineligible entries skipped
       (their credit is not touched, exactly as the `continue` in smoothBalance), Update and SetAvail.
   Weights in the state are already scaled (x100, BackendRR.Init); configuration weights are unscaled. *)
From Coq Require Import List ZArith Bool.
Import ListNotations.
Open Scope Z_scope.

(* ---------------------------------------------------------------- layer 1: eligible list *)
Definition st := list (Z * Z).                      (* (weight, current) *)
Definition sumw (s : st) := fold_right (fun p a => fst p + a) 0 s.
Definition sumc (s : st) := fold_right (fun p a => snd p + a) 0 s.
Definition fresh (ws : list Z) : st := map (fun w => (w, w)) ws.

Fixpoint upd (s : st) (i : nat) (total : Z) : st :=
  match s with
  | [] => []
  | (w, c) :: r =>
    match i with
    | O => (w, c + w - total) :: map (fun p => (fst p, snd p + fst p)) r
    | S i' => (w, c + w) :: upd r i' total
    end
  end.
Definition step (s : st) (i : nat) : st := upd s i (sumc s).

(* index i holds a maximal current *)
Definition ok (s : st) (i : nat) : Prop :=
  exists w c, nth_error s i = Some (w, c) /\ forall j w' c', nth_error s j = Some (w', c') -> c' <= c.
Definition okb (s : st) (i : nat) : bool :=
  match nth_error s i with
  | Some (_, c) => forallb (fun p => snd p <=? c) s
  | None => false
  end.

(* the Go loop:  if best == nil || backendRR.current > max { best = backendRR; max = current } *)
Fixpoint scan (s : st) (i : nat) (best : option (nat * Z)) {struct s} : option (nat * Z) :=
  match s with
  | [] => best
  | (_, c) :: r =>
    let best' := match best with
                 | None => Some (i, c)
                 | Some (_, m) => if c >? m then Some (i, c) else best
                 end in
    scan r (S i) best'
  end.
Definition swrr_pick (s : st) : nat := match scan s 0%nat None with Some (i, _) => i | None => 0%nat end.

(* executions driven by a choice function *)
Section Exec.
  Variable choose : st -> nat.
  Variable ws : list Z.
  Fixpoint state (n : nat) : st :=
    match n with O => fresh ws | S n' => let s := state n' in step s (choose s) end.
  Definition pick (n : nat) : nat := choose (state n).
  Fixpoint cnt (i : nat) (n : nat) : Z :=
    match n with O => 0 | S n' => cnt i n' + (if Nat.eqb i (pick n') then 1 else 0) end.
  (* occurrences of i among picks k .. k+len-1 *)
  Definition cntw (i : nat) (k len : nat) : Z := cnt i (k + len) - cnt i k.
End Exec.
Definition Asum (a : list Z) := fold_right Z.add 0 a.
Definition ai (a : list Z) (i : nat) : Z := nth i a 0.

(* ---------------------------------------------------------------- layer 2: backend list *)
Definition backend := (Z * Z * Z * bool)%type.       (* id, weight(x100), current, avail *)
Definition b_id (b : backend) : Z := let '(i, _, _, _) := b in i.
Definition b_w (b : backend) : Z := let '(_, w, _, _) := b in w.
Definition b_c (b : backend) : Z := let '(_, _, c, _) := b in c.
Definition b_av (b : backend) : bool := let '(_, _, _, a) := b in a.
Definition elig (b : backend) : bool := b_av b && (0 <? b_w b).
Definition set_c (b : backend) (c : Z) : backend := let '(i, w, _, a) := b in (i, w, c, a).

Definition view (bs : list backend) : st := map (fun b => (b_w b, b_c b)) (filter elig bs).
Fixpoint writeback (bs : list backend) (s : st) {struct bs} : list backend :=
  match bs with
  | [] => []
  | b :: r =>
    if elig b then match s with
                   | (_, c) :: s' => set_c b c :: writeback r s'
                   | [] => b :: r
                   end
    else b :: writeback r s
  end.
Definition elig_ids (bs : list backend) : list Z := map b_id (filter elig bs).

(* smoothBalance with the pick made by `ch` on the eligible view; None = "all backend is down" *)
Definition smooth_by (ch : st -> nat) (bs : list backend) : option (Z * list backend) :=
  match view bs with
  | [] => None
  | s => let i := ch s in Some (nth i (elig_ids bs) (-1), writeback bs (step s i))
  end.
Definition smooth := smooth_by swrr_pick.

(* position of id in a list *)
Fixpoint index_of (x : Z) (l : list Z) : option nat :=
  match l with
  | [] => None
  | y :: r => if x =? y then Some O else match index_of x r with Some n => Some (S n) | None => None end
  end.
(* trace validation step: the implementation picked `p`; accept iff p is an eligible backend holding a
   maximal current, and advance with that pick *)
Definition smooth_follow (bs : list backend) (p : Z) : option (list backend) :=
  match view bs with
  | [] => if p =? -1 then Some bs else None
  | s => match index_of p (elig_ids bs) with
         | Some i => if okb s i then Some (writeback bs (step s i)) else None
         | None => None
         end
  end.

(* BackendRR.Init / UpdateWeight / BalanceRR.Update; conf = (id, unscaled weight) list *)
Definition init_backend (e : Z * Z) : backend := (fst e, 100 * snd e, 100 * snd e, true).
Definition init (conf : list (Z * Z)) : list backend := map init_backend conf.
Fixpoint lookup (x : Z) (conf : list (Z * Z)) : option Z :=   (* confMapMake: the last entry of a key wins *)
  match conf with
  | [] => None
  | (k, w) :: r => match lookup x r with Some w' => Some w' | None => if x =? k then Some w else None end
  end.
Definition update_weight (b : backend) (w : Z) : backend :=
  let '(i, _, c, a) := b in (i, 100 * w, (if w <=? 0 then 0 else c), a).
Definition update (bs : list backend) (conf : list (Z * Z)) : list backend :=
  flat_map (fun b => match lookup (b_id b) conf with Some w => [update_weight b w] | None => [] end) bs
  ++ map init_backend (filter (fun e => negb (existsb (Z.eqb (fst e)) (map b_id bs))) conf).
Definition set_avail (bs : list backend) (id : Z) (a : bool) : list backend :=
  map (fun b => let '(i, w, c, _) := b in if i =? id then (i, w, c, a) else b) bs.

Inductive op :=
| OPick (k : nat)                       (* k calls of Balance(WrrSmooth) *)
| OUpdate (conf : list (Z * Z))         (* BalanceRR.Update *)
| OAvail (id : Z) (a : bool)            (* BfeBackend.SetAvail on the backend with that id *)
| OSetSS (t : Z)                        (* BalanceRR.SetSlowStart(t seconds) *)
| OElapsed (id e : Z)                   (* clock seam: e milliseconds have passed since the ramp of backend id began *)
| ORestart (id : Z)                     (* BfeBackend.SetRestart(true) (health check brought the backend back) *)
| OConn (id n : Z).                     (* connNum of backend id := n (only used by the least-connection model, Wlc.v) *)

Fixpoint picks_by (ch : st -> nat) (bs : list backend) (k : nat) {struct k} : list Z * list backend :=
  match k with
  | O => ([], bs)
  | S k' => match smooth_by ch bs with
            | None => let '(l, bs') := picks_by ch bs k' in (-1 :: l, bs')
            | Some (p, bs1) => let '(l, bs') := picks_by ch bs1 k' in (p :: l, bs')
            end
  end.
Definition apply_op (bs : list backend) (o : op) : list Z * list backend :=
  match o with
  | OPick k => picks_by swrr_pick bs k
  | OUpdate conf => ([], update bs conf)
  | OAvail id a => ([], set_avail bs id a)
  | _ => ([], bs)                        (* slow-start operations: only in the extended model below *)
  end.
Fixpoint run_ops (bs : list backend) (ops : list op) : list (list Z) :=
  match ops with
  | [] => []
  | o :: r => let '(obs, bs') := apply_op bs o in obs :: run_ops bs' r
  end.

Fixpoint follow (bs : list backend) (ps : list Z) : option (list backend) :=
  match ps with
  | [] => Some bs
  | p :: r => match smooth_follow bs p with Some bs' => follow bs' r | None => None end
  end.
(* trace validation of the implementation's observations *)
Fixpoint check_ops (bs : list backend) (ops : list op) (obs : list (list Z)) : bool :=
  match ops, obs with
  | [], [] => true
  | OPick k :: r, ps :: obs' =>
    (Nat.eqb (length ps) k) && match follow bs ps with Some bs' => check_ops bs' r obs' | None => false end
  | OUpdate conf :: r, [] :: obs' => check_ops (update bs conf) r obs'
  | OAvail id a :: r, [] :: obs' => check_ops (set_avail bs id a) r obs'
  | _, _ => false
  end.

(* ---------------------------------------------------------------- specification (credit-free) *)
(* configuration state: (id, unscaled weight, avail) in backend-list order *)
Definition cfg := list (Z * Z * bool).
Definition cfg_init (conf : list (Z * Z)) : cfg := map (fun e => (fst e, snd e, true)) conf.
Definition cfg_update (c : cfg) (conf : list (Z * Z)) : cfg :=
  flat_map (fun b => let '(i, _, a) := b in match lookup i conf with Some w => [(i, w, a)] | None => [] end) c
  ++ map (fun e => (fst e, snd e, true))
         (filter (fun e => negb (existsb (Z.eqb (fst e)) (map (fun b : Z * Z * bool => fst (fst b)) c))) conf).
Definition cfg_avail (c : cfg) (id : Z) (a : bool) : cfg :=
  map (fun b => let '(i, w, _) := b in if i =? id then (i, w, a) else b) c.
(* eligible (id, weight) list *)
Definition cfg_elig (c : cfg) : list (Z * Z) :=
  map (fun b => (fst (fst b), snd (fst b))) (filter (fun b => snd b && (0 <? snd (fst b))) c).

Fixpoint count (x : Z) (l : list Z) : Z :=
  match l with [] => 0 | y :: r => (if x =? y then 1 else 0) + count x r end.
(* a window of picks has the exact shares of the eligible (id, weight) list *)
Definition window_ok (el : list (Z * Z)) (win : list Z) : bool :=
  forallb (fun e => count (fst e) win =? snd e) el.
(* every window of A = sum of weights consecutive picks is exact; every pick is an eligible id;
   with no eligible backend every call reports the error (-1) *)
Definition segment_ok (el : list (Z * Z)) (ps : list Z) : bool :=
  match el with
  | [] => forallb (Z.eqb (-1)) ps
  | _ =>
    let A := Z.to_nat (Asum (map snd el)) in
    forallb (fun p => existsb (Z.eqb p) (map fst el)) ps &&
    forallb (fun k => window_ok el (firstn A (skipn k ps))) (seq 0 (length ps + 1 - A))
  end.

Fixpoint elig_eqb (a b : list (Z * Z)) : bool :=
  match a, b with
  | [], [] => true
  | (i, w) :: a', (j, v) :: b' => (i =? j) && (w =? v) && elig_eqb a' b'
  | _, _ => false
  end.

(* walk the operations; a stable segment ends when the eligible (id, weight) list changes *)
Fixpoint spec_ops (c : cfg) (acc : list Z) (ops : list op) (obs : list (list Z)) : bool :=
  match ops, obs with
  | [], [] => segment_ok (cfg_elig c) acc
  | OPick k :: r, ps :: obs' => (Nat.eqb (length ps) k) && spec_ops c (acc ++ ps) r obs'
  | OUpdate conf :: r, [] :: obs' =>
    let c' := cfg_update c conf in
    if elig_eqb (cfg_elig c) (cfg_elig c') then spec_ops c' acc r obs'
    else segment_ok (cfg_elig c) acc && spec_ops c' [] r obs'
  | OAvail id a :: r, [] :: obs' =>
    let c' := cfg_avail c id a in
    if elig_eqb (cfg_elig c) (cfg_elig c') then spec_ops c' acc r obs'
    else segment_ok (cfg_elig c) acc && spec_ops c' [] r obs'
  | _, _ => false
  end.

(* known-finding class: some stable segment starts with carried-over credits (current <> weight on an
   eligible backend) in the model run *)
Definition fresh_state (bs : list backend) : bool := forallb (fun b => negb (elig b) || (b_c b =? b_w b)) bs.
Definition el_of (bs : list backend) : list (Z * Z) := map (fun b => (b_id b, b_w b)) (filter elig bs).
Fixpoint carried (bs : list backend) (ops : list op) : bool :=
  match ops with
  | [] => false
  | o :: r =>
    let bs' := snd (apply_op bs o) in
    match o with
    | OPick _ => carried bs' r
    | _ => (negb (elig_eqb (el_of bs) (el_of bs')) && negb (fresh_state bs')) || carried bs' r
    end
  end.

(* the DESIGN witness: weights 5,1,1 -> 3 picks -> Update to 1,1,3 -> 5 picks *)
Example reload_witness :
  run_ops (init [(0,5);(1,1);(2,1)]) [OPick 3; OUpdate [(0,1);(1,1);(2,3)]; OPick 10]
  = [[0;0;1]; []; [0;2;2;2;0;2;1;2;2;0]].
Proof. reflexivity. Qed.

(* ================================================================ slow start (backend_rr.go initSlowStart /
   updateSlowStart, bal_rr.go SetSlowStart / checkSlowStart; UpdateWeight also sets weightSS.final — /repo fix).
   Layered on the backend list: every backend carries a slow-start record
     (final, inSlowStart, elapsed, restart, slowStartTime)
   where `elapsed` = milliseconds since weightSS.startTime as set by the harness through the clock-seam hook
   (the model's clock stands still between OElapsed operations), `restart` = BfeBackend.restarted.
   Balance (not sticky) first runs checkSlowStart when brr.slowStartTime > 0. *)
Definition ssrec := (Z * bool * Z * bool * Z)%type.
Definition sb := (backend * ssrec)%type.
Definition ss_final (s : ssrec) : Z := let '(f, _, _, _, _) := s in f.
Definition ss_in (s : ssrec) : bool := let '(_, i, _, _, _) := s in i.
Definition ss_el (s : ssrec) : Z := let '(_, _, e, _, _) := s in e.
Definition ss_rs (s : ssrec) : bool := let '(_, _, _, r, _) := s in r.
Definition ss_T (s : ssrec) : Z := let '(_, _, _, _, t) := s in t.
Definition ss0 (w : Z) (rs : bool) : ssrec := (100 * w, false, 0, rs, 0).

(* one iteration of the checkSlowStart loop (brr.slowStartTime = T > 0):
   if restarted { restarted = false; initSlowStart(T) }; updateSlowStart() *)
Definition check_one (T : Z) (x : sb) : sb :=
  let '((id, w, c, av), (fin, inss, e, rs, sT)) := x in
  (* initSlowStart: slowStartTime = T; startTime = now; inSlowStart = true; weight = current = 1 *)
  let '(w1, c1, inss1, e1, sT1) := if rs then (1, 1, true, 0, T) else (w, c, inss, e, sT) in
  (* updateSlowStart: weight = final * elapsed / slowStartTime (Duration arithmetic, truncated) *)
  if inss1 then
    let wt := if sT1 =? 0 then fin else Z.quot (fin * e1) (1000 * sT1) in
    if wt >=? fin then ((id, fin, c1, av), (fin, false, e1, false, sT1))
    else ((id, wt, c1, av), (fin, true, e1, false, sT1))
  else ((id, w1, c1, av), (fin, inss1, e1, false, sT1)).
Definition check_ss (T : Z) (l : list sb) : list sb := if 0 <? T then map (check_one T) l else l.

Definition init2 (conf : list (Z * Z)) : list sb := map (fun e => (init_backend e, ss0 (snd e) false)) conf.
Definition set_final (s : ssrec) (f : Z) : ssrec := let '(_, i, e, r, t) := s in (f, i, e, r, t).
Definition update2 (l : list sb) (conf : list (Z * Z)) : list sb :=
  flat_map (fun x => match lookup (b_id (fst x)) conf with
                     | Some w => [(update_weight (fst x) w, set_final (snd x) (100 * w))]
                     | None => []
                     end) l
  ++ map (fun e => (init_backend e, ss0 (snd e) true))
         (filter (fun e => negb (existsb (Z.eqb (fst e)) (map (fun x : sb => b_id (fst x)) l))) conf).
Definition on_id (id : Z) (f : sb -> sb) (l : list sb) : list sb :=
  map (fun x => if b_id (fst x) =? id then f x else x) l.
Definition set_avail2 (l : list sb) (id : Z) (a : bool) : list sb :=
  on_id id (fun x => let '((i, w, c, _), s) := x in ((i, w, c, a), s)) l.
Definition set_elapsed (l : list sb) (id e : Z) : list sb :=
  on_id id (fun x => let '(b, (f, i, _, r, t)) := x in (b, (f, i, e, r, t))) l.
Definition set_restart (l : list sb) (id : Z) : list sb :=
  on_id id (fun x => let '(b, (f, i, e, _, t)) := x in (b, (f, i, e, true, t))) l.

(* one Balance call with algorithm `bal` (smoothBalance, or leastConnsSmoothBalance in Gslb.v) *)
Definition pick2 (bal : list backend -> option (Z * list backend)) (T : Z) (l : list sb) : Z * list sb :=
  let l1 := check_ss T l in
  match bal (map fst l1) with
  | Some (p, upd) => (p, combine upd (map snd l1))
  | None => (-1, l1)
  end.
Fixpoint picks2 (bal : list backend -> option (Z * list backend)) (T : Z) (l : list sb) (k : nat) {struct k}
  : list Z * list sb :=
  match k with
  | O => ([], l)
  | S k' => let '(p, l1) := pick2 bal T l in let '(ps, l2) := picks2 bal T l1 k' in (p :: ps, l2)
  end.
Definition apply_op2 (st : Z * list sb) (o : op) : Z * list sb :=
  let '(T, l) := st in
  match o with
  | OPick _ => st
  | OUpdate conf => (T, update2 l conf)
  | OAvail id a => (T, set_avail2 l id a)
  | OSetSS t => (t, l)
  | OElapsed id e => (T, set_elapsed l id e)
  | ORestart id => (T, set_restart l id)
  | OConn _ _ => st
  end.
Fixpoint run2 (bal : list backend -> option (Z * list backend)) (st : Z * list sb) (ops : list op) : list (list Z) :=
  match ops with
  | [] => []
  | OPick k :: r => let '(ps, l') := picks2 bal (fst st) (snd st) k in ps :: run2 bal (fst st, l') r
  | o :: r => [] :: run2 bal (apply_op2 st o) r
  end.
(* trace validation with a follow function (smooth_follow / wlc follow) *)
Fixpoint follow2 (fol : list backend -> Z -> option (list backend)) (T : Z) (l : list sb) (ps : list Z) : option (list sb) :=
  match ps with
  | [] => Some l
  | p :: r => let l1 := check_ss T l in
              match fol (map fst l1) p with
              | Some upd => follow2 fol T (combine upd (map snd l1)) r
              | None => None
              end
  end.
Fixpoint check2 (fol : list backend -> Z -> option (list backend)) (st : Z * list sb) (ops : list op) (obs : list (list Z)) : bool :=
  match ops, obs with
  | [], [] => true
  | OPick k :: r, ps :: obs' =>
    (Nat.eqb (length ps) k) &&
    match follow2 fol (fst st) (snd st) ps with Some l' => check2 fol (fst st, l') r obs' | None => false end
  | OPick _ :: _, _ => false
  | o :: r, [] :: obs' => check2 fol (apply_op2 st o) r obs'
  | _, _ => false
  end.

(* ---- C01 specification with slow start: a stable segment is a maximal run of picks during which the eligible
   (id, effective weight) list — as checkSlowStart leaves it before each pick — does not change.  Exact windows are
   demanded when all effective weights are multiples of 100 (always the case once every ramp has finished). *)
Definition segment_ok2 (el : list (Z * Z)) (ps : list Z) : bool :=
  if forallb (fun e => snd e mod 100 =? 0) el
  then segment_ok (map (fun e => (fst e, snd e / 100)) el) ps
  else forallb (fun p => existsb (Z.eqb p) (map fst el)) ps.
(* state: T, credit-free use of the sb list, eligible list of the open segment (None before the first pick), its picks *)
Fixpoint spec_picks (T : Z) (l : list sb) (cur : option (list (Z * Z))) (acc : list Z) (ps : list Z)
  : bool * list sb * option (list (Z * Z)) * list Z :=
  match ps with
  | [] => (true, l, cur, acc)
  | p :: r =>
    let l1 := check_ss T l in
    let el := el_of (map fst l1) in
    match cur with
    | Some c => if elig_eqb c el then spec_picks T l1 cur (acc ++ [p]) r
                else let '(ok, l2, cur2, acc2) := spec_picks T l1 (Some el) [p] r in (segment_ok2 c acc && ok, l2, cur2, acc2)
    | None => spec_picks T l1 (Some el) [p] r
    end
  end.
Fixpoint spec2 (st : Z * list sb) (cur : option (list (Z * Z))) (acc : list Z) (ops : list op) (obs : list (list Z)) : bool :=
  match ops, obs with
  | [], [] => match cur with Some c => segment_ok2 c acc | None => true end
  | OPick k :: r, ps :: obs' =>
    (Nat.eqb (length ps) k) &&
    let '(ok, l', cur', acc') := spec_picks (fst st) (snd st) cur acc ps in ok && spec2 (fst st, l') cur' acc' r obs'
  | OPick _ :: _, _ => false
  | o :: r, [] :: obs' => spec2 (apply_op2 st o) cur acc r obs'
  | _, _ => false
  end.
(* known-finding class 1 with slow start: in the model run some segment starts with an eligible credit <> weight *)
Fixpoint carried_picks (T : Z) (l : list sb) (cur : option (list (Z * Z))) (k : nat) {struct k} : bool * list sb * option (list (Z * Z)) :=
  match k with
  | O => (false, l, cur)
  | S k' =>
    let l1 := check_ss T l in
    let el := el_of (map fst l1) in
    let changed := match cur with Some c => negb (elig_eqb c el) | None => true end in
    let bad := changed && negb (fresh_state (map fst l1)) in
    let '(_, l2) := pick2 smooth T l in
    let '(b, l3, cur3) := carried_picks T l2 (Some el) k' in (bad || b, l3, cur3)
  end.
Fixpoint carried2 (st : Z * list sb) (cur : option (list (Z * Z))) (ops : list op) : bool :=
  match ops with
  | [] => false
  | OPick k :: r => let '(b, l', cur') := carried_picks (fst st) (snd st) cur k in b || carried2 (fst st, l') cur' r
  | o :: r => carried2 (apply_op2 st o) cur r
  end.
Definition is_ss_op (o : op) : bool :=
  match o with OSetSS _ | OElapsed _ _ | ORestart _ => true | _ => false end.

(* ---- C03 specification for Balance on one BalanceRR with slow start: the pick is an available backend whose
   effective AND configured (final) weight are positive; the error is returned iff no such backend exists *)
Definition sb_ok (x : sb) : bool := elig (fst x) && (0 <? ss_final (snd x)).
Fixpoint spec3_picks (T : Z) (l : list sb) (ps : list Z) : bool * list sb :=
  match ps with
  | [] => (true, l)
  | p :: r =>
    let l1 := check_ss T l in
    let good := if p =? -1 then negb (existsb (fun x => elig (fst x)) l1)
                else existsb (fun x => (b_id (fst x) =? p) && sb_ok x) l1 in
    let '(ok, l2) := spec3_picks T l1 r in (good && ok, l2)
  end.
Fixpoint spec3 (st : Z * list sb) (ops : list op) (obs : list (list Z)) : bool :=
  match ops, obs with
  | [], [] => true
  | OPick k :: r, ps :: obs' =>
    (Nat.eqb (length ps) k) && let '(ok, l') := spec3_picks (fst st) (snd st) ps in ok && spec3 (fst st, l') r obs'
  | OPick _ :: _, _ => false
  | o :: r, [] :: obs' => spec3 (apply_op2 st o) r obs'
  | _, _ => false
  end.
