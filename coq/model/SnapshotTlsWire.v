(* C15, TLS part: wire-level definitions (decode, sequential execution of the model, specification predicate).
   input : [100 [op ...]]  (at most 16 ops), executed strictly one after the other on a real BFE server whose TLS
           configuration version t (1..3) has: default certificate CN d<t>; certificate CN s<t> for the SNI name
           sni.example.org; certificate CN v<t> named by a rule with vip 10.0.0.1 (t = 1, 3) resp. 10.0.0.2 (t = 2); the
           rule's and the default NextProtos put http/1.1 (t = 1), h2 (t = 2), spdy/3.1 (t = 3) first.
     [1 t]      TLSConfReload from the directory of version t                                     -> [0]
     [2 t k]    a reload of version t that FAILS: k = 1 TLSConfReload from a directory whose rule names an unknown
                certificate (CheckTlsConf), k = 2 MultiCert.Update with such a rule map, k = 3 MultiCert.Update with a
                certificate map that lacks the default certificate (rejected after the name table was built)  -> [1]
     [3 t]      MultiCert.Update with the certificates and rules of version t (certificate tables only)   -> [0]
     [4 who]    one real TLS handshake: who 0 = no vip, SNI sni.example.org; 1 = vip 10.0.0.1 and that SNI; 2 = no vip,
                no SNI; 3 = no vip, unknown SNI         -> [kind ver rule]: kind / version of the certificate presented
                (1 = v<ver>, 2 = s<ver>, 3 = d<ver>) and the version whose first protocol was negotiated by ALPN
     [5 seed n tf]  burst: 4 goroutines x n handshakes (who = 1) while version reloads and failing updates loop;
                afterwards version tf is installed   -> [ok]  ok = 1 iff every handshake got a certificate that ONE
                configuration version would present *)
From Coq Require Import List ZArith Bool.
From Bfe Require Import lib.Val model.SnapshotTls.
Import ListNotations.
Open Scope Z_scope.

Inductive top := TGoodR (t : Z) | TBadR (t k : Z) | TDirect (t : Z) | TProbe (who : Z) | TBurst (seed n tf : Z).

Definition rng (lo hi x : Z) : bool := (lo <=? x) && (x <=? hi).

Definition decode_top (v : val) : option top :=
  match v with
  | VL [VZ 1; VZ t] => if rng 1 3 t then Some (TGoodR t) else None
  | VL [VZ 2; VZ t; VZ k] => if rng 1 3 t && rng 1 3 k then Some (TBadR t k) else None
  | VL [VZ 3; VZ t] => if rng 1 3 t then Some (TDirect t) else None
  | VL [VZ 4; VZ who] => if rng 0 3 who then Some (TProbe who) else None
  | VL [VZ 5; VZ seed; VZ n; VZ tf] => if rng 0 1000000 seed && rng 1 6 n && rng 1 3 tf then Some (TBurst seed n tf) else None
  | _ => None
  end.

Definition decode_tls (v : val) : option (list top) :=
  match v with
  | VL [VZ 100; VL ops] => if (length ops <=? 16)%nat then all_some (map decode_top ops) else None
  | _ => None
  end.

Fixpoint tl_run_thread (fuel : nat) (st : tl_state) (i : nat) {struct fuel} : tl_state :=
  match fuel with O => st | S f => tl_run_thread f (tl_step st i) i end.

Definition tl_add (st : tl_state) (t : tl_thread) : tl_state * nat :=
  (mkTSt (tsh st) (tthreads st ++ [t]), length (tthreads st)).

Definition tl_run_new (st : tl_state) (t : tl_thread) : tl_state :=
  let '(st1, i) := tl_add st t in tl_run_thread 12 st1 i.

Definition shake_view (h : tl_shake) : val :=
  let '(k, v) := choose_cert (th_who h) (th_vip h) (th_name h) (th_def h) in VL [VZ k; VZ v; VZ (th_rule h)].

Definition shake_consistent (t : tl_thread) : bool :=
  match t with
  | TTShake h => (th_vip h =? th_name h) && (th_name h =? th_def h)
  | _ => true
  end.

Fixpoint tl_lcg (n : nat) (x base cnt : Z) {struct n} : list nat :=
  match n with
  | O => []
  | S n' => let x' := (x * 1103515245 + 12345) mod 2147483648 in
            Z.to_nat (base + (x' / 65536) mod cnt) :: tl_lcg n' x' base cnt
  end.

Fixpoint tl_add_all (st : tl_state) (ts : list tl_thread) : tl_state :=
  match ts with [] => st | t :: r => tl_add_all (fst (tl_add st t)) r end.
Fixpoint tl_finish (st : tl_state) (idx : list nat) : tl_state :=
  match idx with [] => st | i :: r => tl_finish (tl_run_thread 12 st i) r end.

Definition tl_burst (st : tl_state) (seed n tf : Z) : tl_state * bool :=
  let base := length (tthreads st) in
  let ts := [new_tl_reload (1 + seed mod 3) 0 false; new_tl_reload (1 + (seed + 1) mod 3) 0 false;
             new_tl_reload (1 + (seed + 2) mod 3) 3 true] ++ repeat (new_tl_shake 1) (Z.to_nat n) in
  let st1 := tl_add_all st ts in
  let cnt := length ts in
  let st2 := tl_exec st1 (tl_lcg (16 * cnt) seed (Z.of_nat base) (Z.of_nat cnt)) in
  let idx := seq base cnt in
  let st3 := tl_finish (tl_finish st2 idx) idx in
  (tl_run_new st3 (new_tl_reload tf 0 false), forallb shake_consistent (skipn base (tthreads st3))).

Definition tl_exec_op (st : tl_state) (o : top) : tl_state * val :=
  match o with
  | TGoodR t => (tl_run_new st (new_tl_reload t 0 false), VL [VZ 0])
  | TBadR t k => (tl_run_new st (new_tl_reload t k (negb (k =? 1))), VL [VZ 1])
  | TDirect t => (tl_run_new st (new_tl_reload t 0 true), VL [VZ 0])
  | TProbe who =>
    let st' := tl_run_new st (new_tl_shake who) in
    (st', match nth_error (tthreads st') (length (tthreads st)) with
          | Some (TTShake h) => shake_view h
          | _ => VErr 3
          end)
  | TBurst seed n tf => let '(st', ok) := tl_burst st seed n tf in (st', VL [vbool ok])
  end.

Fixpoint tl_exec_ops (st : tl_state) (ops : list top) {struct ops} : list val :=
  match ops with
  | [] => []
  | o :: r => let '(st', v) := tl_exec_op st o in v :: tl_exec_ops st' r
  end.

Definition tl_state0 : tl_state := mkTSt (tl_init 1 1) [].
Definition run_tls (ops : list top) : val := VL (tl_exec_ops tl_state0 ops).

(* THE PROPERTY for the TLS tables, on the implementation's observation (does not run the transition system):
   a failing reload - whichever way it fails - changes the answer of no later handshake; a successful reload switches the
   certificate tables (vip, SNI, default) together and, for a full TLSConfReload, the rule table too; every handshake of
   a burst was answered from one version. *)
Fixpoint prop_tls (c r : Z) (ops : list top) (vs : list val) {struct ops} : bool :=
  match ops, vs with
  | [], [] => true
  | o :: orest, v :: vrest =>
    match o with
    | TGoodR t => val_eqb v (VL [VZ 0]) && prop_tls t t orest vrest
    | TBadR _ _ => val_eqb v (VL [VZ 1]) && prop_tls c r orest vrest
    | TDirect t => val_eqb v (VL [VZ 0]) && prop_tls t r orest vrest
    | TProbe who => let '(k, x) := choose_cert who c c c in val_eqb v (VL [VZ k; VZ x; VZ r]) && prop_tls c r orest vrest
    | TBurst _ _ tf => val_eqb v (VL [VZ 1]) && prop_tls tf tf orest vrest
    end
  | _, _ => false
  end.
