(* C28: model of the HTTP/1 connection loop of BFE.
     bfe_server/http_conn.go   conn.serve (request loop), conn.readRequest, conn.serveRequest
     bfe_server/expect_continue_reader.go
     bfe_server/chunk_writer.go  writeHeader: post-handler drain of the request body, Expect handling (after the
                                 /repo fix: no "100 Continue" sent => close after the reply)
     bfe_server/response.go     finishRequest (Body.Close unless closing), sendExpectationFailed
     bfe_http/transfer.go       request side of readTransfer, body.Close (drains the declared body)
   on top of the response writer of Http1Resp.v.  The client's bytes are one list; the handler of each request is
   a script found by the request's X-Verif-Spec header (the harness module does the same).  Requests are read
   with a reader for the request grammar the generators use (CRLF lines, METHOD SP target SP HTTP/1.x, token
   ": " value fields); anything else is answered 400 as ReadRequest does for the malformed kinds generated.
   Request bodies are below maxPostHandlerReadBytes (256 KiB).  Definitions only.
   After the /repo fixes: no "100 Continue" sent => close after the reply; request body not drainable => close. *)
From Coq Require Import String Ascii.
From Coq Require Import List ZArith Bool.
From Bfe Require Import lib.Val lib.Bytes model.Http1Resp.
Import ListNotations.
Open Scope Z_scope.

Definition s_expect : bytes := Eval compute in bs "Expect".
Definition s_100c : bytes := Eval compute in bs "100-continue".
Definition s_spec : bytes := Eval compute in bs "X-Verif-Spec".
Definition s_vid : bytes := Eval compute in bs "X-Verif-Id".
Definition s_xreq : bytes := Eval compute in bs "X-Req".
Definition s_head_m : bytes := Eval compute in bs "HEAD".
Definition s_http10 : bytes := Eval compute in bs "HTTP/1.0".
Definition s_http11 : bytes := Eval compute in bs "HTTP/1.1".
Definition s_bad_request : bytes := Eval compute in bs "HTTP/1.1 400 Bad Request" ++ [13;10;13;10].
Definition s_continue : bytes := Eval compute in bs "HTTP/1.1 100 Continue" ++ [13;10;13;10].

(* ---------- reading one request head ---------- *)
Definition get_ci (name : bytes) (h : fields) : bytes :=
  match get_all_ci name h with v :: _ => v | [] => [] end.
Definition has_ci (name : bytes) (h : fields) : bool :=
  match get_all_ci name h with [] => false | _ => true end.
Inductive rframing := RLen (n : Z) | RChunked.
Record req := { r_method : bytes; r_minor : Z; r_fields : fields; r_framing : rframing }.
Inductive read_result :=
| REof                                  (* no byte left: the loop ends silently *)
| RBad                                  (* malformed: "400 Bad Request", close *)
| RUriTooLong                           (* request target longer than MaxHeaderUriBytes: "414", close *)
| ROk (r : req) (rest : bytes).
(* MaxHeaderUriBytes of the harness configuration (bfe.conf ships 8192) *)
Definition max_uri : Z := 256.
Definition s_uri_too_long : bytes := Eval compute in bs "HTTP/1.1 414 Request-URI Too Long" ++ [13;10;13;10].
Definition target_ok (t : bytes) : bool :=
  match t with [] => false | _ => forallb (fun b => (33 <=? b) && negb (b =? 127)) t end.
Definition read_request (s : bytes) : read_result :=
  match s with
  | [] => REof
  | _ =>
    match split_crlf s with
    | None => RBad
    | Some (rl, r1) =>
      match split_byte 32 rl with
      | [m; t; v] =>
        if is_token m && (max_uri <? blen t) then RUriTooLong
        else if is_token m && target_ok t && (bytes_eqb v s_http11 || bytes_eqb v s_http10) then
          match strict_fields (S (length r1)) r1 [] with
          | None => RBad
          | Some (fs, rest) =>
            let minor := if bytes_eqb v s_http11 then 1 else 0 in
            if has_ci s_te fs then
              if bytes_eqb (to_lower (get_ci s_te fs)) s_chunked
              then ROk {| r_method := m; r_minor := minor; r_fields := fs; r_framing := RChunked |} rest
              else RBad
            else if has_ci s_cl fs then
              match parse_dec (get_ci s_cl fs) with
              | Some n => ROk {| r_method := m; r_minor := minor; r_fields := fs; r_framing := RLen n |} rest
              | None => RBad
              end
            else ROk {| r_method := m; r_minor := minor; r_fields := fs; r_framing := RLen 0 |} rest
          end
        else RBad
      | _ => RBad
      end
    end
  end.

(* ---------- the chunked request body as bfe_http/chunked.go reads it ----------
   readLine: up to LF (a bare LF is accepted), trailing space / tab / CR / LF trimmed; parseHexUint: 1..16 hex
   digits, nothing else (no chunk extensions); chunk data must be followed by CRLF; after the last chunk
   body.readTrailer wants CRLF or well-formed trailer fields ended by a blank line.
   Size lines stay far below the 4096-byte line limit.  Result: the stream after the body, None on any error. *)
Fixpoint split_lf (s : bytes) : option (bytes * bytes) :=
  match s with
  | [] => None
  | x :: r => if x =? 10 then Some ([], r)
              else match split_lf r with Some (l, t) => Some (x :: l, t) | None => None end
  end.
Definition is_ws4 (b : Z) : bool := (b =? 32) || (b =? 9) || (b =? 13) || (b =? 10).
(* result: (the stream position the reader has reached, the body ended cleanly) *)
Fixpoint req_chunks (fuel : nat) (s : bytes) {struct fuel} : bytes * bool :=
  match fuel with
  | O => ([], false)
  | S f =>
    match split_lf s with
    | None => ([], false)                                   (* no line end before the end of the stream *)
    | Some (l, r) =>
      match parse_hex_line (trim_right is_ws4 l) with
      | None => (r, false)                                  (* bad size line: the line has been consumed *)
      | Some n =>
        if n =? 0 then
          (* body.readTrailer: CRLF, or trailer fields up to a blank line (token ": " value lines are generated) *)
          match r with
          | 13 :: 10 :: r' => (r', true)
          | _ => match strict_fields (S (length r)) r [] with
                 | Some (_, r') => (r', true)
                 | None => (r, false)
                 end
          end
        else if blen r <? n + 2 then ([], false)            (* the stream ends inside the chunk *)
        else match skipn (Z.to_nat n) r with
             | 13 :: 10 :: r2 => req_chunks f r2
             | _ => (skipn (Z.to_nat n + 2) r, false)       (* chunk data not followed by CRLF *)
             end
      end
    end
  end.

(* where reading / draining the request body ends, and whether it ended cleanly; not clean: the stream ends
   inside the body, or its chunked framing is corrupt (then the position only matters to the code before the fix,
   which went on reading requests from there; for a failed trailer it is approximate) *)
Definition body_end (fr : rframing) (rest : bytes) : bytes * bool :=
  match fr with
  | RLen n => if blen rest <? n then ([], false) else (skipn (Z.to_nat n) rest, true)
  | RChunked => req_chunks (S (length rest)) rest
  end.

(* ---------- handler scripts ---------- *)
(* h_src: 0 = module response at HandleBeforeLocation, 1 = forwarded to the backend (reply given by the script),
          2 = handler returns BfeHandlerClose (no response), 3 = handler returns BfeHandlerFinish (no response
          object: finishRequest writes an empty 200, then the connection is closed)
   h_read: how the handler consumes the request body first: 0 not at all, 1 completely, 2 partially *)
Record script := { h_key : bytes; h_src : Z; h_read : Z; h_status : Z; h_hdrs : fields; h_pieces : list bytes; h_err : bool }.
Fixpoint find_script (k : bytes) (l : list script) : option script :=
  match l with [] => None | x :: r => if bytes_eqb k (h_key x) then Some x else find_script k r end.

Section Serve.
Variable sniff : bytes -> bytes.
Variable now : bytes.
Variable fix_expect : bool.
Definition respond' := respond_gen sniff now fix_expect body_allowed_status.

(* one request: bytes written, stop after it *)
(* body_err: the request body cannot be read / drained cleanly to its end (see body_end) *)
Definition serve_one (scripts : list script) (r : req) (body_err : bool) : option (bytes * bool) :=
  let q := {| q_minor := r_minor r; q_head := bytes_eqb (r_method r) s_head_m; q_conn := get_ci s_conn (r_fields r) |} in
  let cl_nonzero := match r_framing r with RLen n => negb (n =? 0) | RChunked => true end in
  let expects := has_token (get_ci s_expect (r_fields r)) s_100c in
  if expects && negb cl_nonzero then
    (* w.Header().Set("Connection","close"); WriteHeader(400); finishRequest; break *)
    let '(out, _, _) := respond' q (false, false, false, false) false 400 [(s_conn, s_close)] [] false in Some (out, true)
  else if negb expects && negb (is_empty (get_ci s_expect (r_fields r))) then
    let '(out, _, _) := respond' q (false, false, false, false) false 417 [(s_conn, s_close)] [] false in Some (out, true)
  else
    match find_script (get_ci s_spec (r_fields r)) scripts with
    | None => None
    | Some sc =>
      let is_expecter := expects && (1 <=? r_minor r) in
      let body_read := negb (h_read sc =? 0) || (h_src sc =? 1) in
      let wrote_continue := is_expecter && body_read in
      let pre := if wrote_continue then s_continue else [] in
      let rb := (cl_nonzero, is_expecter, wrote_continue, body_err) in
      let echo := (s_xreq, get_ci s_vid (r_fields r)) in
      if h_src sc =? 2 then Some (pre, true)
      else if h_src sc =? 3 then
        let '(out, _, _) := respond' q rb false 200 [] [] false in Some (pre ++ out, true)
      else if h_src sc =? 1 then
        let '(h, ps, e) := backend_view (q_head q) (h_status sc) (h_hdrs sc ++ [echo]) 0 (blen (concat (h_pieces sc))) (h_pieces sc) false in
        let '(out, close, _) := respond' q rb true (h_status sc) h ps e in Some (pre ++ out, close)
      else
        let '(out, close, _) := respond' q rb false (h_status sc) (eff_hdrs (h_hdrs sc ++ [echo])) (h_pieces sc) (h_err sc) in
        Some (pre ++ out, close)
    end.

(* conn.serve: the request loop.  None: outside the model (unknown script key / fuel).  A response that does not
   close the connection implies (after the fix) that the body was drained cleanly to its end. *)
Fixpoint serve (fuel : nat) (scripts : list script) (s : bytes) : option bytes :=
  match fuel with
  | O => None
  | S f =>
    match read_request s with
    | REof => Some []
    | RBad => Some s_bad_request
    | RUriTooLong => Some s_uri_too_long
    | ROk r rest =>
      match serve_one scripts r (negb (snd (body_end (r_framing r) rest))) with
      | None => None
      | Some (out, stop) =>
        if stop then Some out
        else match serve f scripts (fst (body_end (r_framing r) rest)) with Some o => Some (out ++ o) | None => None end
      end
    end
  end.
End Serve.
