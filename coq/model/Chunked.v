(* Model of bfe_http/chunked.go (after the fix commit: parseHexUint rejects empty / >16 digit sizes, and an
   EOF inside a chunk is io.ErrUnexpectedEOF): parseHexUint, readLine + trimTrailingWhitespace,
   chunkedReader.beginChunk / Read, chunkedWriter.Write / Close.
   The bfe_bufio.Reader under the chunked reader is abstracted to the list of bytes not yet consumed
   (buffer size 4096 only matters for the over-long-line error).  Bytes are Z in [0,256).
   Error codes: 0 nil, 1 io.EOF, 2 io.ErrUnexpectedEOF, 3 ErrLineTooLong, 4 "invalid byte in chunk length",
   5 "malformed chunked encoding", 6 "empty hex number for chunk length", 7 "http chunk length too large",
   99 model fuel exhausted (never happens, see ChunkedProofs). *)
From Coq Require Import List ZArith Bool.
From Bfe Require Import lib.Val lib.Bytes.
Import ListNotations.
Open Scope Z_scope.

Definition hex_val (b : Z) : option Z :=
  if (48 <=? b) && (b <=? 57) then Some (b - 48)
  else if (97 <=? b) && (b <=? 102) then Some (b - 97 + 10)
  else if (65 <=? b) && (b <=? 70) then Some (b - 65 + 10)
  else None.

(* for i, b := range v { switch {...default: invalid}; if i == 16 {too large}; n <<= 4; n |= uint64(b) }   (uint64) *)
Fixpoint parse_hex_loop (v : bytes) (i n : Z) {struct v} : Z * Z :=
  match v with
  | [] => (n, 0)
  | b :: r =>
    match hex_val b with
    | None => (0, 4)
    | Some d => if i =? 16 then (0, 7) else parse_hex_loop r (i + 1) (Z.lor ((n * 16) mod 2^64) d)
    end
  end.
Definition parse_hex (v : bytes) : Z * Z :=
  match v with [] => (0, 6) | _ => parse_hex_loop v 0 0 end.

(* The code before the fix: no emptiness / length check, silent uint64 wrap. Kept to state what was wrong. *)
Fixpoint parse_hex_prefix (v : bytes) (n : Z) {struct v} : Z * Z :=
  match v with
  | [] => (n, 0)
  | b :: r => match hex_val b with None => (0, 4) | Some d => parse_hex_prefix r (Z.lor ((n * 16) mod 2^64) d) end
  end.

Definition is_ws (b : Z) : bool := (b =? 32) || (b =? 9) || (b =? 10) || (b =? 13).
Definition max_line : Z := 4096.

(* readLine: ReadSlice('\n') on the buffered reader, error mapping, length limit, trimTrailingWhitespace.
   result ((line, err), remaining stream) *)
Definition read_line (s : bytes) : (bytes * Z) * bytes :=
  match index_byte 10 s with
  | Some i =>
    if Z.of_nat (S i) <? max_line then ((trim_right is_ws (firstn (S i) s), 0), skipn (S i) s)
    else (([], 3), [])
  | None => if max_line <=? blen s then (([], 3), []) else (([], 2), [])
  end.

(* chunkedReader state: (unconsumed wire, cr.n, cr.err) *)
Definition crst : Type := bytes * Z * Z.
Definition st_rest (st : crst) : bytes := fst (fst st).
Definition st_n (st : crst) : Z := snd (fst st).
Definition st_err (st : crst) : Z := snd st.

Definition begin_chunk (st : crst) : crst :=
  let '((line, e), rest') := read_line (st_rest st) in
  if negb (e =? 0) then (rest', st_n st, e)
  else let '(v, e2) := parse_hex line in
       if negb (e2 =? 0) then (rest', v, e2)
       else if v =? 0 then (rest', 0, 1) else (rest', v, 0).

(* the part of Read after beginChunk, with cr.n > 0 and cr.err == nil; k = len(b) >= 1 *)
Definition read_data (k : Z) (st : crst) : bytes * crst :=
  let rest := st_rest st in
  let n := st_n st in
  let k' := Z.min k n in
  match rest with
  | [] => ([], ([], n, 2))                       (* bufio: (0, io.EOF) -> ErrUnexpectedEOF since the fix *)
  | _ =>
    let j := Z.min k' (blen rest) in
    let d := firstn (Z.to_nat j) rest in
    let rest' := skipn (Z.to_nat j) rest in
    let n' := n - j in
    if n' =? 0 then
      (* end of chunk: io.ReadFull(cr.r, cr.buf[:2]) must be CR LF *)
      match rest' with
      | a :: b :: r => if (a =? 13) && (b =? 10) then (d, (r, 0, 0)) else (d, (r, 0, 5))
      | _ => (d, ([], 0, 2))
      end
    else (d, (rest', n', 0))
  end.

Definition cr_read (k : Z) (st : crst) : bytes * crst :=
  if negb (st_err st =? 0) then ([], st)
  else let st1 := if st_n st =? 0 then begin_chunk st else st in
       if negb (st_err st1 =? 0) then ([], st1) else read_data k st1.

(* read-buffer sizes are taken from a cycled list; every size is at least 1 *)
Definition next_size (all cur : list Z) : Z * list Z :=
  match cur with
  | k :: r => (Z.max 1 k, r)
  | [] => match all with k :: r => (Z.max 1 k, r) | [] => (1, []) end
  end.

(* Read until an error: (all data, final error, unconsumed wire) *)
Fixpoint decode_loop (fuel : nat) (all cur : list Z) (st : crst) {struct fuel} : bytes * Z * bytes :=
  match fuel with
  | O => ([], 99, st_rest st)
  | S f =>
    let '(k, cur') := next_size all cur in
    let '(d, st') := cr_read k st in
    if negb (st_err st' =? 0) then (d, st_err st', st_rest st')
    else let '(d2, e, r) := decode_loop f all cur' st' in (d ++ d2, e, r)
  end.
Definition decode_all (sizes : list Z) (wire : bytes) : bytes * Z * bytes :=
  decode_loop (S (S (length wire))) sizes sizes (wire, 0, 0).

(* ---- chunkedWriter (sink never fails: bytes.Buffer) ---- *)
Definition hex_digit (d : Z) : Z := if d <? 10 then 48 + d else 87 + d.
Fixpoint hex_digits (fuel : nat) (n : Z) (acc : bytes) {struct fuel} : bytes :=
  match fuel with
  | O => acc
  | S f => let acc' := hex_digit (n mod 16) :: acc in if n / 16 =? 0 then acc' else hex_digits f (n / 16) acc'
  end.
Definition hex_of (n : Z) : bytes := hex_digits 16 n [].       (* fmt "%x" for 0 <= n < 2^64 *)
Definition encode_chunk (d : bytes) : bytes :=
  match d with [] => [] | _ => hex_of (blen d) ++ [13; 10] ++ d ++ [13; 10] end.
Definition encode_chunks (chunks : list bytes) : bytes := flat_map encode_chunk chunks ++ [48; 13; 10].

(* ---- specification: reference decoder for the chunked grammar (RFC 7230 4.1 without chunk extensions), on
   the whole wire.  Tolerated leniencies: trailing SP/HT/CR on the size line and a bare LF as its end.
   Result: (all data deliverable before the end or the first error, ok, wire left after the last-chunk line) *)
Definition is_hex (b : Z) : bool :=
  ((48 <=? b) && (b <=? 57)) || ((97 <=? b) && (b <=? 102)) || ((65 <=? b) && (b <=? 70)).
Definition hex_digit_value (b : Z) : Z :=
  if b <=? 57 then b - 48 else if b <=? 70 then b - 55 else b - 87.
Definition hex_value (l : bytes) : Z := fold_left (fun a b => a * 16 + hex_digit_value b) l 0.
Definition size_ok (tok : bytes) : bool :=
  (1 <=? blen tok) && (blen tok <=? 16) && forallb is_hex tok.
Definition parse_size_line (s : bytes) : option (Z * bytes) :=
  match index_byte 10 s with
  | None => None
  | Some i =>
    if max_line <=? Z.of_nat (S i) then None
    else let tok := trim_right is_ws (firstn (S i) s) in
         if size_ok tok then Some (hex_value tok, skipn (S i) s) else None
  end.
Definition ref_data (K : bytes -> bytes * bool * bytes) (sz : Z) (s : bytes) : bytes * bool * bytes :=
  if blen s <? sz then (s, false, [])
  else let d := firstn (Z.to_nat sz) s in
       match skipn (Z.to_nat sz) s with
       | a :: b :: s2 =>                                   (* chunk data must be followed by CR LF *)
         if (a =? 13) && (b =? 10) then let '(d', ok, r) := K s2 in (d ++ d', ok, r) else (d, false, [])
       | _ => (d, false, [])
       end.
Fixpoint ref_decode (fuel : nat) (s : bytes) {struct fuel} : bytes * bool * bytes :=
  match fuel with
  | O => ([], false, [])
  | S f =>
    match parse_size_line s with
    | None => ([], false, [])
    | Some (sz, s1) => if sz =? 0 then ([], true, s1) else ref_data (ref_decode f) sz s1
    end
  end.
Definition ref_decode_all (wire : bytes) : bytes * bool * bytes := ref_decode (S (length wire)) wire.

Example ex_decode : decode_all [3] [53;13;10;104;101;108;108;111;13;10;48;13;10;13;10]
                    = ([104;101;108;108;111], 1, [13;10]).
Proof. reflexivity. Qed.
Example ex_encode : encode_chunks [[104;105]; []; [33]] = [50;13;10;104;105;13;10;49;13;10;33;13;10;48;13;10].
Proof. reflexivity. Qed.
