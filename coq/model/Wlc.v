(* C04 — model of bfe_balance/bal_slb/bal_rr.go: leastConnsBalance, compLCWeight,
   leastConnsSmoothBalance (smoothBalance among the tied candidates), leastConnsSimpleBalance
   (random among the tied candidates).  Backends carry (id, weight x100, current, avail) as in Swrr.v
   plus the active connection count (BfeBackend.connNum).  Go int arithmetic is modelled in Z; the
   harness keeps conn*weight far below 2^63. *)
From Coq Require Import List ZArith Bool.
From Bfe Require Import model.Swrr.
Import ListNotations.
Open Scope Z_scope.

Definition wb := (backend * Z)%type.                 (* backend, connNum *)
Definition wb_conn (b : wb) : Z := snd b.
Definition wb_w (b : wb) : Z := b_w (fst b).
Definition wb_id (b : wb) : Z := b_id (fst b).
Definition wb_elig (b : wb) : bool := elig (fst b).

(* compLCWeight: sign of  a.conn*b.weight - b.conn*a.weight  *)
Definition comp (a b : wb) : Z := wb_conn a * wb_w b - wb_conn b * wb_w a.

(* first pass of leastConnsBalance: (best, singleBackend) *)
Fixpoint lc_best (bs : list wb) (best : option wb) (single : bool) {struct bs} : option wb * bool :=
  match bs with
  | [] => (best, single)
  | b :: r =>
    if negb (wb_elig b) then lc_best r best single
    else match best with
         | None => lc_best r (Some b) true
         | Some bb =>
           let ret := comp bb b in
           if ret >? 0 then lc_best r (Some b) true
           else if ret =? 0 then lc_best r best false
           else lc_best r best single
         end
  end.
Definition tied (bb b : wb) : bool := wb_elig b && (comp bb b =? 0).
(* candidate list; None = "all backend is down" *)
Definition least_conns (bs : list wb) : option (list wb) :=
  match lc_best bs None true with
  | (None, _) => None
  | (Some bb, single) => if single then Some [bb] else Some (filter (tied bb) bs)
  end.

(* write credits of the (updated) candidates back by id *)
Fixpoint find_c (id : Z) (l : list backend) : option Z :=
  match l with
  | [] => None
  | b :: r => if b_id b =? id then Some (b_c b) else find_c id r
  end.
Definition put_back (bs : list wb) (upd : list backend) : list wb :=
  map (fun b => match find_c (wb_id b) upd with Some c => (set_c (fst b) c, snd b) | None => b end) bs.

(* leastConnsSmoothBalance: one candidate -> returned directly (no credit change);
   several -> smoothBalance over the candidates (their credits change) *)
Definition wlc_smooth (bs : list wb) : option (Z * list wb) :=
  match least_conns bs with
  | None => None
  | Some [c] => Some (wb_id c, bs)
  | Some cands => match smooth (map fst cands) with
                  | Some (p, upd) => Some (p, put_back bs upd)
                  | None => None
                  end
  end.
(* trace validation of an observed smooth pick p *)
Definition wlc_smooth_follow (bs : list wb) (p : Z) : option (list wb) :=
  match least_conns bs with
  | None => if p =? -1 then Some bs else None
  | Some [c] => if p =? wb_id c then Some bs else None
  | Some cands => match smooth_follow (map fst cands) p with
                  | Some upd => Some (put_back bs upd)
                  | None => None
                  end
  end.
(* leastConnsSimpleBalance: any candidate, state unchanged *)
Definition wlc_simple_ok (bs : list wb) (p : Z) : bool :=
  match least_conns bs with
  | None => p =? -1
  | Some cands => existsb (fun c => wb_id c =? p) cands
  end.

Definition set_conn (bs : list wb) (id n : Z) : list wb :=
  map (fun b => if wb_id b =? id then (fst b, n) else b) bs.
Definition set_av (bs : list wb) (id : Z) (a : bool) : list wb :=
  map (fun b => if wb_id b =? id then (let '(i, w, c, _) := fst b in (i, w, c, a), snd b) else b) bs.

Inductive wop :=
| WPick (smooth : bool)          (* Balance(WlcSmooth) / Balance(WlcSimple) *)
| WConn (id n : Z)               (* connNum of backend id := n *)
| WAvail (id : Z) (a : bool).

Definition winit (conf : list (Z * Z)) : list wb := map (fun e => (init_backend e, 0)) conf.

(* model run: WlcSimple picks the first candidate (the implementation picks a random one) *)
Fixpoint wrun (bs : list wb) (ops : list wop) : list Z :=
  match ops with
  | [] => []
  | WPick true :: r => match wlc_smooth bs with
                       | Some (p, bs') => p :: wrun bs' r
                       | None => -1 :: wrun bs r
                       end
  | WPick false :: r => match least_conns bs with
                        | Some (c :: _) => wb_id c :: wrun bs r
                        | _ => -1 :: wrun bs r
                        end
  | WConn id n :: r => 0 :: wrun (set_conn bs id n) r
  | WAvail id a :: r => 0 :: wrun (set_av bs id a) r
  end.
Fixpoint wcheck (bs : list wb) (ops : list wop) (obs : list Z) : bool :=
  match ops, obs with
  | [], [] => true
  | WPick true :: r, p :: obs' => match wlc_smooth_follow bs p with Some bs' => wcheck bs' r obs' | None => false end
  | WPick false :: r, p :: obs' => wlc_simple_ok bs p && wcheck bs r obs'
  | WConn id n :: r, 0 :: obs' => wcheck (set_conn bs id n) r obs'
  | WAvail id a :: r, 0 :: obs' => wcheck (set_av bs id a) r obs'
  | _, _ => false
  end.

(* ---------------------------------------------------------------- specification (no credits) *)
Definition wcfg := list (Z * Z * bool * Z).          (* id, weight, avail, conn *)
Definition wc_init (conf : list (Z * Z)) : wcfg := map (fun e => (fst e, 100 * snd e, true, 0)) conf.   (* weight as stored: x100 *)
Definition wc_elig (b : Z * Z * bool * Z) : bool := let '(_, w, a, _) := b in a && (0 <? w).
(* p is eligible and minimises conn/weight:  conn_p * w_b <= conn_b * w_p for every eligible b *)
Definition minimal_pick (c : wcfg) (p : Z) : bool :=
  match filter wc_elig c with
  | [] => p =? -1
  | el => existsb (fun x => let '(i, w, _, n) := x in
                    (i =? p) && forallb (fun y => let '(_, w', _, n') := y in n * w' <=? n' * w) el) el
  end.
Fixpoint wspec (c : wcfg) (ops : list wop) (obs : list Z) : bool :=
  match ops, obs with
  | [], [] => true
  | WPick _ :: r, p :: obs' => minimal_pick c p && wspec c r obs'
  | WConn id n :: r, _ :: obs' =>
    wspec (map (fun b => let '(i, w, a, _) := b in if i =? id then (i, w, a, n) else b) c) r obs'
  | WAvail id a :: r, _ :: obs' =>
    wspec (map (fun b => let '(i, w, _, n) := b in if i =? id then (i, w, a, n) else b) c) r obs'
  | _, _ => false
  end.

(* ================================================================ least connections with slow start (C04 input kind 7)
   One BalanceRR, Balance(WlcSmooth) with SetSlowStart / Update / SetAvail / SetRestart / clock seam (slow-start layer
   of Swrr.v) and connection counts.  connNum lives in the BfeBackend object: `cs` maps id -> connNum (0 when absent);
   Update drops the entries of removed backends (a re-added backend is a new object).  compLCWeight compares with the
   CURRENT weight (BackendRR.weight), which during a ramp is below the target weight. *)
Fixpoint conn_of (cs : list (Z * Z)) (id : Z) : Z :=
  match cs with [] => 0 | (i, n) :: r => if i =? id then n else conn_of r id end.
Definition conn_set (cs : list (Z * Z)) (id n : Z) : list (Z * Z) := (id, n) :: filter (fun e => negb (fst e =? id)) cs.
Definition with_conn (cs : list (Z * Z)) (bs : list backend) : list wb := map (fun b => (b, conn_of cs (b_id b))) bs.
Definition wlc_bal_c (cs : list (Z * Z)) (bs : list backend) : option (Z * list backend) :=
  match wlc_smooth (with_conn cs bs) with Some (p, l) => Some (p, map fst l) | None => None end.
Definition wlc_fol_c (cs : list (Z * Z)) (bs : list backend) (p : Z) : option (list backend) :=
  match wlc_smooth_follow (with_conn cs bs) p with Some l => Some (map fst l) | None => None end.
Definition conn_step (cs : list (Z * Z)) (o : op) : list (Z * Z) :=
  match o with
  | OConn id n => conn_set cs id n
  | OUpdate conf => filter (fun e => existsb (Z.eqb (fst e)) (map fst conf)) cs
  | _ => cs
  end.
Fixpoint run7 (st : Z * list sb) (cs : list (Z * Z)) (ops : list op) : list (list Z) :=
  match ops with
  | [] => []
  | OPick k :: r => let '(ps, l') := picks2 (wlc_bal_c cs) (fst st) (snd st) k in ps :: run7 (fst st, l') cs r
  | o :: r => [] :: run7 (apply_op2 st o) (conn_step cs o) r
  end.
Fixpoint check7 (st : Z * list sb) (cs : list (Z * Z)) (ops : list op) (obs : list (list Z)) : bool :=
  match ops, obs with
  | [], [] => true
  | OPick k :: r, ps :: obs' =>
    (Nat.eqb (length ps) k) &&
    match follow2 (wlc_fol_c cs) (fst st) (snd st) ps with Some l' => check7 (fst st, l') cs r obs' | None => false end
  | OPick _ :: _, _ => false
  | o :: r, [] :: obs' => check7 (apply_op2 st o) (conn_step cs o) r obs'
  | _, _ => false
  end.
(* specification: after checkSlowStart, the pick minimises connNum / CURRENT weight among the eligible backends *)
Definition wcfg7 (cs : list (Z * Z)) (l : list sb) : wcfg :=
  map (fun x : sb => (b_id (fst x), b_w (fst x), b_av (fst x), conn_of cs (b_id (fst x)))) l.
Fixpoint spec7_picks (T : Z) (cs : list (Z * Z)) (l : list sb) (ps : list Z) : bool * list sb :=
  match ps with
  | [] => (true, l)
  | p :: r => let l1 := check_ss T l in
              let '(ok, l2) := spec7_picks T cs l1 r in (minimal_pick (wcfg7 cs l1) p && ok, l2)
  end.
Fixpoint spec7 (st : Z * list sb) (cs : list (Z * Z)) (ops : list op) (obs : list (list Z)) : bool :=
  match ops, obs with
  | [], [] => true
  | OPick k :: r, ps :: obs' =>
    (Nat.eqb (length ps) k) && let '(ok, l') := spec7_picks (fst st) cs (snd st) ps in ok && spec7 (fst st, l') cs r obs'
  | OPick _ :: _, _ => false
  | o :: r, [] :: obs' => spec7 (apply_op2 st o) (conn_step cs o) r obs'
  | _, _ => false
  end.
