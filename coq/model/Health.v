(* C06: model of the backend health state machine
   (bfe_balance/backend/bfe_backend.go: OnFail/AddFailNum/UpdateStatus/OnSuccess/CheckAvail/setAvail/Release,
    bfe_balance/backend/health_check.go: UpdateStatus (starts `go check`), check loop).
   `checkers` counts live check goroutines that are past the close-channel test of their loop iteration
   (i.e. have a health-check request outstanding).  Time and the network are inputs: the outcome of each
   health check is an operation (CheckOk / CheckFail); sleeping is not modelled. *)
From Coq Require Import List ZArith Bool.
Import ListNotations.
Open Scope Z_scope.

Record hstate := mkH {
  avail : bool; failN : Z; succN : Z; checkers : Z; released : bool; restarted : bool;
  failT : Z; succT : Z;              (* thresholds of the cluster's check conf, re-read at every use *)
  reqT : Z                           (* succT read by the checker when it issued the outstanding request
                                        (check reads the conf at the top of the iteration, before CheckConnect) *)
}.
Definition h_init (ft st : Z) : hstate := mkH true 0 0 0 false false ft st st.

Inductive hop :=
| ReqFail (n : Z)      (* n >= 1 request failures (OnFail), concurrently when n > 1 *)
| ReqSucc              (* OnSuccess *)
| CheckOk              (* the outstanding health check succeeds *)
| CheckFail            (* the outstanding health check fails *)
| Release              (* backend removed by reload: close(closeChan) *)
| SetThr (ft st : Z)   (* the conf fetcher now returns other thresholds *)
| RemoveCluster.       (* reload removes the backend's whole cluster: the conf fetcher returns nil from now on
                          (= unreachable failure threshold 1000000) AND the backend is released *)

(* top of the check loop after an iteration that did not restore the backend:
   select on closeChan -> exit when released, otherwise issue the next request *)
Definition loop_top (s : hstate) : hstate :=
  if released s then mkH (avail s) (failN s) (succN s) (checkers s - 1) true (restarted s) (failT s) (succT s) (reqT s)
  else mkH (avail s) (failN s) (succN s) (checkers s) (released s) (restarted s) (failT s) (succT s) (succT s).

Definition hstep (s : hstate) (o : hop) : hstate :=
  match o with
  | ReqFail n =>
    (* AddFailNum (n times), then BfeBackend.UpdateStatus(failT) under the backend lock *)
    let f := failN s + n in
    if f >=? failT s then
      (* setAvail(false); `go check` only on the true -> false edge; a check goroutine of a released
         backend leaves at its first select *)
      let start := avail s && negb (released s) in
      mkH false f (succN s) (if start then checkers s + 1 else checkers s) (released s) (restarted s) (failT s) (succT s)
          (if start then succT s else reqT s)
    else mkH (avail s) f (succN s) (checkers s) (released s) (restarted s) (failT s) (succT s) (reqT s)
  | ReqSucc => mkH (avail s) 0 (succN s) (checkers s) (released s) (restarted s) (failT s) (succT s) (reqT s)
  | CheckOk =>
    if checkers s <=? 0 then s else
    (* AddSuccNum; CheckAvail(succT as read when the request was issued): succNum >= succT -> succNum = 0, SetRestart(true), SetAvail(true) (failNum = 0), leave *)
    let k := succN s + 1 in
    if k >=? reqT s then mkH true 0 0 (checkers s - 1) (released s) true (failT s) (succT s) (reqT s)
    else loop_top (mkH (avail s) (failN s) k (checkers s) (released s) (restarted s) (failT s) (succT s) (reqT s))
  | CheckFail =>
    if checkers s <=? 0 then s else
    loop_top (mkH (avail s) (failN s) 0 (checkers s) (released s) (restarted s) (failT s) (succT s) (reqT s))
  | Release =>
    if released s then s   (* the harness releases once; double release is C09's subject *)
    else mkH (avail s) (failN s) (succN s) (checkers s) true (restarted s) (failT s) (succT s) (reqT s)
  | SetThr ft st => mkH (avail s) (failN s) (succN s) (checkers s) (released s) (restarted s) ft st (reqT s)
  | RemoveCluster => mkH (avail s) (failN s) (succN s) (checkers s) true (restarted s) 1000000 (succT s) (reqT s)
  end.

Fixpoint hrun (s : hstate) (ops : list hop) : list hstate :=
  match ops with
  | [] => []
  | o :: r => let s' := hstep s o in s' :: hrun s' r
  end.
Definition hfinal (s : hstate) (ops : list hop) : hstate := fold_left hstep ops s.

(* ---- the specification, as a monitor over (operation, observed (avail, pending checks)) pairs ----
   written from the property text, with its own bookkeeping:
   consec = consecutive request failures, okrun = consecutive successful health checks *)
Record mon := mkM { m_avail : bool; consec : Z; okrun : Z; m_rel : bool; drained : bool; m_ft : Z; m_st : Z; m_pend : Z;
                    m_req : Z (* success threshold configured when the outstanding check was issued *) }.
Definition mon_init (ft st : Z) : mon := mkM true 0 0 false false ft st 0 st.
(* a check request observed for the first time was issued under the thresholds now in force *)
Definition issue (m : mon) (fresh : bool) : Z := if fresh then m_st m else m_req m.
(* one observation: avail, pending *)
Definition mon_step (m : mon) (o : hop) (av : bool) (pend : Z) : option mon :=
  let basic := (0 <=? pend) && (pend <=? 1)                        (* at most one checker *)
               && (negb (pend =? 1) || negb av)                    (* a checker runs only while out of rotation *)
               && (av || m_rel m || (pend =? 1)) in                (* out of rotation and not removed: it is being checked *)
  if negb basic then None else
  match o with
  | ReqFail n =>
    let c := consec m + n in
    (* leaves rotation exactly when the consecutive failures reach the threshold *)
    let expect := if m_avail m then negb (c >=? m_ft m) else false in
    if Bool.eqb av expect && (negb (m_rel m) || (pend =? m_pend m))
    then Some (mkM av c (okrun m) (m_rel m) (drained m) (m_ft m) (m_st m) pend (issue m ((m_pend m =? 0) && (pend =? 1)))) else None
  | ReqSucc =>
    if Bool.eqb av (m_avail m) && (pend =? m_pend m)
    then Some (mkM av 0 (okrun m) (m_rel m) (drained m) (m_ft m) (m_st m) pend (m_req m)) else None
  | CheckOk =>
    if m_pend m =? 0 then (if Bool.eqb av (m_avail m) && (pend =? 0) then Some m else None) else
    let k := okrun m + 1 in
    (* returns to rotation exactly after succT consecutive successful checks *)
    let back := k >=? m_req m in
    if Bool.eqb av (m_avail m || back) && (negb (back || m_rel m) || (pend =? 0))
    then Some (mkM av (if back then 0 else consec m) (if back then 0 else k) (m_rel m) (m_rel m) (m_ft m) (m_st m) pend (issue m (pend =? 1)))
    else None
  | CheckFail =>
    if m_pend m =? 0 then (if Bool.eqb av (m_avail m) && (pend =? 0) then Some m else None) else
    if Bool.eqb av (m_avail m) && (negb (m_rel m) || (pend =? 0))    (* a removed backend stops being checked *)
    then Some (mkM av (consec m) 0 (m_rel m) (m_rel m) (m_ft m) (m_st m) pend (issue m (pend =? 1))) else None
  | Release =>
    if Bool.eqb av (m_avail m) && (pend =? m_pend m)
    then Some (mkM av (consec m) (okrun m) true (drained m || (pend =? 0)) (m_ft m) (m_st m) pend (m_req m)) else None
  | SetThr ft st =>
    if Bool.eqb av (m_avail m) && (pend =? m_pend m)
    then Some (mkM av (consec m) (okrun m) (m_rel m) (drained m) ft st pend (m_req m)) else None
  | RemoveCluster =>
    if Bool.eqb av (m_avail m) && (pend =? m_pend m)
    then Some (mkM av (consec m) (okrun m) true (drained m || (pend =? 0)) 1000000 (m_st m) pend (m_req m)) else None
  end.
Fixpoint mon_run (m : mon) (tr : list (hop * (bool * Z))) : bool :=
  match tr with
  | [] => true
  | (o, (av, p)) :: r =>
    match mon_step m o av p with
    | Some m' => (negb (drained m') || (p =? 0)) && mon_run m' r
    | None => false
    end
  end.
