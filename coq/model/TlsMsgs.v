(* C45: byte-level model of the TLS handshake message codecs of bfe_tls
   (handshake_messages.go: *Msg.marshal / *Msg.unmarshal; ticket.go: sessionState.marshal/unmarshal).
   Definitions only.  Bytes are list Z; Go slicing is modelled by checked slicing (takeZ / rdN) that
   fails instead of reading outside the slice, so "never reads outside the message" is structural:
   a Go panic would show up as a disagreement between the implementation (panic) and the model (Bad).
   The model is of the code after /repo commit "fix: clientHelloMsg.unmarshal must match
   extensionRenegotiationInfo" (the case label was extensionRenegotiationInfo + 1 = 0xff02). *)
From Coq Require Import List ZArith Bool.
From Bfe Require Import lib.Val lib.Bytes.
Import ListNotations.
Open Scope Z_scope.

(* ---------- three-valued parse result ---------- *)
Inductive res (A : Type) := Ok (a : A) | Bad | Fuel.
Arguments Ok {A} a. Arguments Bad {A}. Arguments Fuel {A}.

Notation "'do' x <- e ; k" := (match e with Ok x => k | Bad => Bad | Fuel => Fuel end)
  (at level 200, x pattern, e at level 100, k at level 200, right associativity).

(* ---------- integer encodings (Go: uint8(n >> 8k)) ---------- *)
Definition u8  (n : Z) : bytes := [n mod 256].
Definition u16 (n : Z) : bytes := [(n / 256) mod 256; n mod 256].
Definition u24 (n : Z) : bytes := [(n / 65536) mod 256; (n / 256) mod 256; n mod 256].
Definition u32 (n : Z) : bytes := [(n / 16777216) mod 256; (n / 65536) mod 256; (n / 256) mod 256; n mod 256].

(* ---------- checked reads ---------- *)
Definition rd8 (l : bytes) : res (Z * bytes) :=
  match l with a :: r => Ok (a, r) | _ => Bad end.
Definition rd16 (l : bytes) : res (Z * bytes) :=
  match l with a :: b :: r => Ok (a * 256 + b, r) | _ => Bad end.
Definition rd24 (l : bytes) : res (Z * bytes) :=
  match l with a :: b :: c :: r => Ok (a * 65536 + b * 256 + c, r) | _ => Bad end.
Definition rd32 (l : bytes) : res (Z * bytes) :=
  match l with a :: b :: c :: d :: r => Ok (a * 16777216 + b * 65536 + c * 256 + d, r) | _ => Bad end.
(* data[:n], data[n:] with the bounds check Go performs *)
Definition takeZ (n : Z) (l : bytes) : res (bytes * bytes) :=
  if (0 <=? n) && (n <=? blen l) then Ok (firstn (Z.to_nat n) l, skipn (Z.to_nat n) l) else Bad.

Definition enc_u16s (l : list Z) : bytes := flat_map u16 l.
Fixpoint dec_u16s (l : bytes) : list Z :=
  match l with a :: b :: r => (a * 256 + b) :: dec_u16s r | _ => [] end.
Definition llen {A} (l : list A) : Z := Z.of_nat (length l).
Definition wf_u16 (n : Z) : bool := (0 <=? n) && (n <? 65536).

(* copy(x[6:38], random): first 32 bytes, zero padded *)
Definition pad32 (r : bytes) : bytes := firstn 32 (r ++ repeat 0 32).

(* one-byte-length-prefixed strings (ALPN / NPN lists) *)
Definition enc_str8 (s : bytes) : bytes := u8 (blen s) ++ s.
Fixpoint str8_loop (fuel : nat) (d : bytes) (acc : list bytes) : res (list bytes) :=
  match d with
  | [] => Ok acc
  | n :: d1 =>
    match fuel with
    | O => Fuel
    | S f =>
      if (n =? 0) || (blen d1 <? n) then Bad
      else do (s, d2) <- takeZ n d1; str8_loop f d2 (acc ++ [s])
    end
  end.

(* extension framing *)
Definition enc_ext (e : Z * bytes) : bytes := u16 (fst e) ++ u16 (blen (snd e)) ++ snd e.
Definition enc_exts (l : list (Z * bytes)) : bytes :=
  match l with
  | [] => []
  | _ => let b := flat_map enc_ext l in u16 (blen b) ++ b
  end.
Definition opt_ext (c : bool) (id : Z) (p : bytes) : list (Z * bytes) := if c then [(id, p)] else [].

(* ============================ clientHelloMsg ============================ *)
Record client_hello := {
  ch_vers : Z; ch_random : bytes; ch_sid : bytes; ch_suites : list Z; ch_comp : bytes;
  ch_npn : bool; ch_sni : bytes; ch_ocsp : bool; ch_curves : list Z; ch_points : bytes;
  ch_ticket_ok : bool; ch_ticket : bytes; ch_sigalgs : list Z (* hash*256+signature *);
  ch_reneg : bool; ch_alpn : list bytes;
  (* filled by unmarshal only, not compared by clientHelloMsg.equal *)
  ch_padding : bool; ch_extids : list Z }.

Definition ch_exts (m : client_hello) : list (Z * bytes) :=
  opt_ext (ch_npn m) 13172 [] ++
  opt_ext (0 <? blen (ch_sni m)) 0
          (u16 (blen (ch_sni m) + 3) ++ [0] ++ u16 (blen (ch_sni m)) ++ ch_sni m) ++
  opt_ext (ch_ocsp m) 5 [1; 0; 0; 0; 0] ++
  opt_ext (0 <? blen (ch_curves m)) 10 (u16 (2 * blen (ch_curves m)) ++ enc_u16s (ch_curves m)) ++
  opt_ext (0 <? blen (ch_points m)) 11 (u8 (blen (ch_points m)) ++ ch_points m) ++
  opt_ext (ch_ticket_ok m) 35 (ch_ticket m) ++
  opt_ext (0 <? blen (ch_sigalgs m)) 13 (u16 (2 * blen (ch_sigalgs m)) ++ enc_u16s (ch_sigalgs m)) ++
  opt_ext (ch_reneg m) 65281 [0] ++
  opt_ext (0 <? llen (ch_alpn m)) 16
          (let s := flat_map enc_str8 (ch_alpn m) in u16 (blen s) ++ s).

Definition hs_frame (ty : Z) (body : bytes) : bytes := [ty] ++ u24 (blen body) ++ body.

Definition marshal_ch (m : client_hello) : bytes :=
  hs_frame 1
    (u16 (ch_vers m) ++ pad32 (ch_random m) ++ u8 (blen (ch_sid m)) ++ ch_sid m ++
     u16 (2 * blen (ch_suites m)) ++ enc_u16s (ch_suites m) ++
     u8 (blen (ch_comp m)) ++ ch_comp m ++ enc_exts (ch_exts m)).

Definition ch_push (id : Z) (m : client_hello) : client_hello :=
  {| ch_vers := ch_vers m; ch_random := ch_random m; ch_sid := ch_sid m; ch_suites := ch_suites m;
     ch_comp := ch_comp m; ch_npn := ch_npn m; ch_sni := ch_sni m; ch_ocsp := ch_ocsp m;
     ch_curves := ch_curves m; ch_points := ch_points m; ch_ticket_ok := ch_ticket_ok m;
     ch_ticket := ch_ticket m; ch_sigalgs := ch_sigalgs m; ch_reneg := ch_reneg m; ch_alpn := ch_alpn m;
     ch_padding := ch_padding m; ch_extids := ch_extids m ++ [id] |}.
Definition ch_set_npn (v : bool) (m : client_hello) :=
  {| ch_vers := ch_vers m; ch_random := ch_random m; ch_sid := ch_sid m; ch_suites := ch_suites m;
     ch_comp := ch_comp m; ch_npn := v; ch_sni := ch_sni m; ch_ocsp := ch_ocsp m;
     ch_curves := ch_curves m; ch_points := ch_points m; ch_ticket_ok := ch_ticket_ok m;
     ch_ticket := ch_ticket m; ch_sigalgs := ch_sigalgs m; ch_reneg := ch_reneg m; ch_alpn := ch_alpn m;
     ch_padding := ch_padding m; ch_extids := ch_extids m |}.
Definition ch_set_sni (v : bytes) (m : client_hello) :=
  {| ch_vers := ch_vers m; ch_random := ch_random m; ch_sid := ch_sid m; ch_suites := ch_suites m;
     ch_comp := ch_comp m; ch_npn := ch_npn m; ch_sni := v; ch_ocsp := ch_ocsp m;
     ch_curves := ch_curves m; ch_points := ch_points m; ch_ticket_ok := ch_ticket_ok m;
     ch_ticket := ch_ticket m; ch_sigalgs := ch_sigalgs m; ch_reneg := ch_reneg m; ch_alpn := ch_alpn m;
     ch_padding := ch_padding m; ch_extids := ch_extids m |}.
Definition ch_set_ocsp (v : bool) (m : client_hello) :=
  {| ch_vers := ch_vers m; ch_random := ch_random m; ch_sid := ch_sid m; ch_suites := ch_suites m;
     ch_comp := ch_comp m; ch_npn := ch_npn m; ch_sni := ch_sni m; ch_ocsp := v;
     ch_curves := ch_curves m; ch_points := ch_points m; ch_ticket_ok := ch_ticket_ok m;
     ch_ticket := ch_ticket m; ch_sigalgs := ch_sigalgs m; ch_reneg := ch_reneg m; ch_alpn := ch_alpn m;
     ch_padding := ch_padding m; ch_extids := ch_extids m |}.
Definition ch_set_curves (v : list Z) (m : client_hello) :=
  {| ch_vers := ch_vers m; ch_random := ch_random m; ch_sid := ch_sid m; ch_suites := ch_suites m;
     ch_comp := ch_comp m; ch_npn := ch_npn m; ch_sni := ch_sni m; ch_ocsp := ch_ocsp m;
     ch_curves := v; ch_points := ch_points m; ch_ticket_ok := ch_ticket_ok m;
     ch_ticket := ch_ticket m; ch_sigalgs := ch_sigalgs m; ch_reneg := ch_reneg m; ch_alpn := ch_alpn m;
     ch_padding := ch_padding m; ch_extids := ch_extids m |}.
Definition ch_set_points (v : bytes) (m : client_hello) :=
  {| ch_vers := ch_vers m; ch_random := ch_random m; ch_sid := ch_sid m; ch_suites := ch_suites m;
     ch_comp := ch_comp m; ch_npn := ch_npn m; ch_sni := ch_sni m; ch_ocsp := ch_ocsp m;
     ch_curves := ch_curves m; ch_points := v; ch_ticket_ok := ch_ticket_ok m;
     ch_ticket := ch_ticket m; ch_sigalgs := ch_sigalgs m; ch_reneg := ch_reneg m; ch_alpn := ch_alpn m;
     ch_padding := ch_padding m; ch_extids := ch_extids m |}.
Definition ch_set_ticket (v : bytes) (m : client_hello) :=
  {| ch_vers := ch_vers m; ch_random := ch_random m; ch_sid := ch_sid m; ch_suites := ch_suites m;
     ch_comp := ch_comp m; ch_npn := ch_npn m; ch_sni := ch_sni m; ch_ocsp := ch_ocsp m;
     ch_curves := ch_curves m; ch_points := ch_points m; ch_ticket_ok := true;
     ch_ticket := v; ch_sigalgs := ch_sigalgs m; ch_reneg := ch_reneg m; ch_alpn := ch_alpn m;
     ch_padding := ch_padding m; ch_extids := ch_extids m |}.
Definition ch_set_sigalgs (v : list Z) (m : client_hello) :=
  {| ch_vers := ch_vers m; ch_random := ch_random m; ch_sid := ch_sid m; ch_suites := ch_suites m;
     ch_comp := ch_comp m; ch_npn := ch_npn m; ch_sni := ch_sni m; ch_ocsp := ch_ocsp m;
     ch_curves := ch_curves m; ch_points := ch_points m; ch_ticket_ok := ch_ticket_ok m;
     ch_ticket := ch_ticket m; ch_sigalgs := v; ch_reneg := ch_reneg m; ch_alpn := ch_alpn m;
     ch_padding := ch_padding m; ch_extids := ch_extids m |}.
Definition ch_set_reneg (v : bool) (m : client_hello) :=
  {| ch_vers := ch_vers m; ch_random := ch_random m; ch_sid := ch_sid m; ch_suites := ch_suites m;
     ch_comp := ch_comp m; ch_npn := ch_npn m; ch_sni := ch_sni m; ch_ocsp := ch_ocsp m;
     ch_curves := ch_curves m; ch_points := ch_points m; ch_ticket_ok := ch_ticket_ok m;
     ch_ticket := ch_ticket m; ch_sigalgs := ch_sigalgs m; ch_reneg := v; ch_alpn := ch_alpn m;
     ch_padding := ch_padding m; ch_extids := ch_extids m |}.
Definition ch_set_alpn (v : list bytes) (m : client_hello) :=
  {| ch_vers := ch_vers m; ch_random := ch_random m; ch_sid := ch_sid m; ch_suites := ch_suites m;
     ch_comp := ch_comp m; ch_npn := ch_npn m; ch_sni := ch_sni m; ch_ocsp := ch_ocsp m;
     ch_curves := ch_curves m; ch_points := ch_points m; ch_ticket_ok := ch_ticket_ok m;
     ch_ticket := ch_ticket m; ch_sigalgs := ch_sigalgs m; ch_reneg := ch_reneg m; ch_alpn := v;
     ch_padding := ch_padding m; ch_extids := ch_extids m |}.
Definition ch_set_padding (m : client_hello) :=
  {| ch_vers := ch_vers m; ch_random := ch_random m; ch_sid := ch_sid m; ch_suites := ch_suites m;
     ch_comp := ch_comp m; ch_npn := ch_npn m; ch_sni := ch_sni m; ch_ocsp := ch_ocsp m;
     ch_curves := ch_curves m; ch_points := ch_points m; ch_ticket_ok := ch_ticket_ok m;
     ch_ticket := ch_ticket m; ch_sigalgs := ch_sigalgs m; ch_reneg := ch_reneg m; ch_alpn := ch_alpn m;
     ch_padding := true; ch_extids := ch_extids m |}.

(* server_name: `numNames` iterations over d = data[2:] -- the REST OF THE MESSAGE, not data[2:length]
   (remark: entries may be read from the bytes of following extensions; still inside the message). *)
Fixpoint sni_loop (fuel : nat) (n : Z) (d : bytes) (m : client_hello) : res client_hello :=
  if n <=? 0 then Ok m else
  match fuel with
  | O => Fuel
  | S f =>
    do (ty, d1) <- rd8 d;
    do (nl, d2) <- rd16 d1;
    do (name, d3) <- takeZ nl d2;
    if ty =? 0 then Ok (ch_set_sni name m) else sni_loop f (n - 1) d3 m
  end.

(* p = data[:length] (the extension), rest = data (everything after the 4-byte extension header) *)
Definition ch_handle (id len : Z) (p rest : bytes) (m : client_hello) : res client_hello :=
  if id =? 0 then
    if len <? 2 then Bad else
    do (n, d) <- rd16 rest; sni_loop (S (length d)) n d m
  else if id =? 13172 then (if 0 <? len then Bad else Ok (ch_set_npn true m))
  else if id =? 5 then Ok (ch_set_ocsp ((0 <? len) && (hd 0 p =? 1)) m)
  else if id =? 10 then
    if len <? 2 then Bad else
    do (l, d) <- rd16 p;
    if Z.odd l || negb (len =? l + 2) then Bad else Ok (ch_set_curves (dec_u16s d) m)
  else if id =? 11 then
    if len <? 1 then Bad else
    do (l, d) <- rd8 p;
    if negb (len =? l + 1) then Bad else Ok (ch_set_points d m)
  else if id =? 35 then Ok (ch_set_ticket p m)
  else if id =? 13 then
    if (len <? 2) || Z.odd len then Bad else
    do (l, d) <- rd16 p;
    if negb (l =? len - 2) then Bad else Ok (ch_set_sigalgs (dec_u16s d) m)
  else if id =? 65281 then
    (if negb (len =? 1) || negb (hd 0 p =? 0) then Bad else Ok (ch_set_reneg true m))
  else if id =? 16 then
    if len <? 2 then Bad else
    do (l, d) <- rd16 p;
    if negb (l =? len - 2) then Bad else
    do ps <- str8_loop (length d) d (ch_alpn m); Ok (ch_set_alpn ps m)
  else if id =? 21 then Ok (ch_set_padding m)
  else Ok m.

Fixpoint ch_ext_loop (fuel : nat) (d : bytes) (m : client_hello) : res client_hello :=
  match d with
  | [] => Ok m
  | _ =>
    match fuel with
    | O => Fuel
    | S f =>
      do (id, d1) <- rd16 d;
      do (len, d2) <- rd16 d1;
      do (p, rest) <- takeZ len d2;
      do m' <- ch_handle id len p d2 (ch_push id m);
      ch_ext_loop f rest m'
    end
  end.

Definition scsv_renegotiation : Z := 255.

Definition unmarshal_ch (data : bytes) : res client_hello :=
  if blen data <? 42 then Bad else
  do (_, d) <- takeZ 4 data;
  do (vers, d) <- rd16 d;
  do (random, d) <- takeZ 32 d;
  do (sidlen, d) <- rd8 d;
  if 32 <? sidlen then Bad else
  do (sid, d) <- takeZ sidlen d;
  do (cslen, d) <- rd16 d;
  if Z.odd cslen then Bad else
  do (cs, d) <- takeZ cslen d;
  do (cmlen, d) <- rd8 d;
  do (comp, d) <- takeZ cmlen d;
  let suites := dec_u16s cs in
  let m0 := {| ch_vers := vers; ch_random := random; ch_sid := sid; ch_suites := suites;
               ch_comp := comp; ch_npn := false; ch_sni := []; ch_ocsp := false; ch_curves := [];
               ch_points := []; ch_ticket_ok := false; ch_ticket := []; ch_sigalgs := [];
               ch_reneg := existsb (Z.eqb scsv_renegotiation) suites; ch_alpn := [];
               ch_padding := false; ch_extids := [] |} in
  match d with
  | [] => Ok m0
  | _ =>
    do (el, d) <- rd16 d;
    if negb (el =? blen d) then Bad else ch_ext_loop (length d) d m0
  end.

(* ============================ serverHelloMsg ============================ *)
Record server_hello := {
  sh_vers : Z; sh_random : bytes; sh_sid : bytes; sh_suite : Z; sh_comp : Z;
  sh_npn : bool; sh_protos : list bytes; sh_ocsp : bool; sh_ticket : bool; sh_reneg : bool;
  sh_alpn : bytes }.

Definition sh_exts (m : server_hello) : list (Z * bytes) :=
  opt_ext (sh_npn m) 13172 (flat_map enc_str8 (sh_protos m)) ++
  opt_ext (sh_ocsp m) 5 [] ++
  opt_ext (sh_ticket m) 35 [] ++
  opt_ext (sh_reneg m) 65281 [0] ++
  opt_ext (0 <? blen (sh_alpn m)) 16
          (u16 (blen (sh_alpn m) + 1) ++ u8 (blen (sh_alpn m)) ++ sh_alpn m).

Definition marshal_sh (m : server_hello) : bytes :=
  hs_frame 2
    (u16 (sh_vers m) ++ pad32 (sh_random m) ++ u8 (blen (sh_sid m)) ++ sh_sid m ++
     u16 (sh_suite m) ++ u8 (sh_comp m) ++ enc_exts (sh_exts m)).

Definition sh_handle (id len : Z) (p : bytes) (m : server_hello) : res server_hello :=
  if id =? 13172 then
    do ps <- str8_loop (length p) p (sh_protos m);
    Ok {| sh_vers := sh_vers m; sh_random := sh_random m; sh_sid := sh_sid m; sh_suite := sh_suite m;
          sh_comp := sh_comp m; sh_npn := true; sh_protos := ps; sh_ocsp := sh_ocsp m;
          sh_ticket := sh_ticket m; sh_reneg := sh_reneg m; sh_alpn := sh_alpn m |}
  else if id =? 5 then
    if 0 <? len then Bad else
    Ok {| sh_vers := sh_vers m; sh_random := sh_random m; sh_sid := sh_sid m; sh_suite := sh_suite m;
          sh_comp := sh_comp m; sh_npn := sh_npn m; sh_protos := sh_protos m; sh_ocsp := true;
          sh_ticket := sh_ticket m; sh_reneg := sh_reneg m; sh_alpn := sh_alpn m |}
  else if id =? 35 then
    if 0 <? len then Bad else
    Ok {| sh_vers := sh_vers m; sh_random := sh_random m; sh_sid := sh_sid m; sh_suite := sh_suite m;
          sh_comp := sh_comp m; sh_npn := sh_npn m; sh_protos := sh_protos m; sh_ocsp := sh_ocsp m;
          sh_ticket := true; sh_reneg := sh_reneg m; sh_alpn := sh_alpn m |}
  else if id =? 65281 then
    if negb (len =? 1) || negb (hd 0 p =? 0) then Bad else
    Ok {| sh_vers := sh_vers m; sh_random := sh_random m; sh_sid := sh_sid m; sh_suite := sh_suite m;
          sh_comp := sh_comp m; sh_npn := sh_npn m; sh_protos := sh_protos m; sh_ocsp := sh_ocsp m;
          sh_ticket := sh_ticket m; sh_reneg := true; sh_alpn := sh_alpn m |}
  else if id =? 16 then
    if len <? 3 then Bad else
    do (l, d) <- rd16 p;
    if negb (l =? len - 2) then Bad else
    do (l1, d1) <- rd8 d;
    if negb (l1 =? blen d - 1) then Bad else
    Ok {| sh_vers := sh_vers m; sh_random := sh_random m; sh_sid := sh_sid m; sh_suite := sh_suite m;
          sh_comp := sh_comp m; sh_npn := sh_npn m; sh_protos := sh_protos m; sh_ocsp := sh_ocsp m;
          sh_ticket := sh_ticket m; sh_reneg := sh_reneg m; sh_alpn := d1 |}
  else Ok m.

Fixpoint sh_ext_loop (fuel : nat) (d : bytes) (m : server_hello) : res server_hello :=
  match d with
  | [] => Ok m
  | _ =>
    match fuel with
    | O => Fuel
    | S f =>
      do (id, d1) <- rd16 d;
      do (len, d2) <- rd16 d1;
      do (p, rest) <- takeZ len d2;
      do m' <- sh_handle id len p m;
      sh_ext_loop f rest m'
    end
  end.

Definition unmarshal_sh (data : bytes) : res server_hello :=
  if blen data <? 42 then Bad else
  do (_, d) <- takeZ 4 data;
  do (vers, d) <- rd16 d;
  do (random, d) <- takeZ 32 d;
  do (sidlen, d) <- rd8 d;
  if 32 <? sidlen then Bad else
  do (sid, d) <- takeZ sidlen d;
  do (suite, d) <- rd16 d;
  do (comp, d) <- rd8 d;
  let m0 := {| sh_vers := vers; sh_random := random; sh_sid := sid; sh_suite := suite; sh_comp := comp;
               sh_npn := false; sh_protos := []; sh_ocsp := false; sh_ticket := false;
               sh_reneg := false; sh_alpn := [] |} in
  match d with
  | [] => Ok m0
  | _ =>
    do (el, d) <- rd16 d;
    if negb (blen d =? el) then Bad else sh_ext_loop (length d) d m0
  end.

(* ============================ certificateMsg ============================ *)
Definition enc_cert24 (c : bytes) : bytes := u24 (blen c) ++ c.
Definition marshal_cert (certs : list bytes) : bytes :=
  let body := flat_map enc_cert24 certs in hs_frame 11 (u24 (blen body) ++ body).

(* first pass: `for certsLen > 0 { if len(d) < 4 {false}; ... }` -- certsLen = len(d) throughout.
   Note the `< 4`: a trailing certificate entry of length 0 (3 bytes) is rejected. *)
Fixpoint cert_loop (fuel : nat) (d : bytes) : res (list bytes) :=
  match d with
  | [] => Ok []
  | _ =>
    match fuel with
    | O => Fuel
    | S f =>
      if blen d <? 4 then Bad else
      do (cl, d1) <- rd24 d;
      do (c, d2) <- takeZ cl d1;
      do r <- cert_loop f d2; Ok (c :: r)
    end
  end.
Definition unmarshal_cert (data : bytes) : res (list bytes) :=
  if blen data <? 7 then Bad else
  do (_, d) <- takeZ 4 data;
  do (cl, d) <- rd24 d;
  if negb (blen data =? cl + 7) then Bad else cert_loop (length d) d.

(* ============================ simple messages ============================ *)
Definition marshal_ske (key : bytes) : bytes := hs_frame 12 key.
Definition unmarshal_ske (data : bytes) : res bytes :=
  if blen data <? 4 then Bad else do (_, d) <- takeZ 4 data; Ok d.

Definition marshal_cke (c : bytes) : bytes := hs_frame 16 c.
Definition unmarshal_cke (data : bytes) : res bytes :=
  if blen data <? 4 then Bad else
  do (_, d0) <- rd8 data;
  do (l, d) <- rd24 d0;
  if negb (l =? blen data - 4) then Bad else Ok d.

(* finishedMsg.marshal writes only the low length byte (x[1], x[2] stay 0); unmarshal ignores it *)
Definition marshal_fin (v : bytes) : bytes := [20; 0; 0; blen v mod 256] ++ v.
Definition unmarshal_fin (data : bytes) : res bytes :=
  if blen data <? 4 then Bad else do (_, d) <- takeZ 4 data; Ok d.

(* certificateStatusMsg: (statusType, response) *)
Definition marshal_cs (ty : Z) (resp : bytes) : bytes :=
  if ty =? 1 then hs_frame 22 ([1] ++ u24 (blen resp) ++ resp) else [22; 0; 0; 1; ty mod 256].
Definition unmarshal_cs (data : bytes) : res (Z * bytes) :=
  if blen data <? 5 then Bad else
  do (_, d) <- takeZ 4 data;
  do (ty, d) <- rd8 d;
  if ty =? 1 then
    if blen data <? 8 then Bad else
    do (rl, d) <- rd24 d;
    if negb (blen data =? 8 + rl) then Bad else Ok (ty, d)
  else Ok (ty, []).

(* nextProtoMsg *)
Definition marshal_np (proto : bytes) : bytes :=
  let l := blen proto in
  let padding := 32 - (l + 2) mod 32 in
  hs_frame 67 (u8 l ++ proto ++ u8 padding ++ repeat 0 (Z.to_nat padding)).
Definition unmarshal_np (data : bytes) : res bytes :=
  if blen data <? 5 then Bad else
  do (_, d) <- takeZ 4 data;
  do (pl, d) <- rd8 d;
  do (proto, d) <- takeZ pl d;
  do (padl, d) <- rd8 d;
  if blen d =? padl then Ok proto else Bad.

(* newSessionTicketMsg: 4-byte lifetime hint left zero *)
Definition marshal_nst (t : bytes) : bytes := hs_frame 4 ([0; 0; 0; 0] ++ u16 (blen t) ++ t).
Definition unmarshal_nst (data : bytes) : res bytes :=
  if blen data <? 10 then Bad else
  do (_, d0) <- rd8 data;
  do (l, d1) <- rd24 d0;
  if negb (blen data - 4 =? l) then Bad else
  do (_, d2) <- takeZ 4 d1;
  do (tl, d3) <- rd16 d2;
  if negb (blen data - 10 =? tl) then Bad else Ok d3.

(* certificateRequestMsg: (hasSignatureAndHash is set by the caller before unmarshal) *)
Definition enc_vec16 (c : bytes) : bytes := u16 (blen c) ++ c.
Definition marshal_creq (has : bool) (types : bytes) (sigalgs : list Z) (cas : list bytes) : bytes :=
  let casb := flat_map enc_vec16 cas in
  hs_frame 13 (u8 (blen types) ++ types ++
               (if has then u16 (2 * blen sigalgs) ++ enc_u16s sigalgs else []) ++
               u16 (blen casb) ++ casb).
Fixpoint cas_loop (fuel : nat) (d : bytes) : res (list bytes) :=
  match d with
  | [] => Ok []
  | _ =>
    match fuel with
    | O => Fuel
    | S f =>
      do (cl, d1) <- rd16 d;
      do (c, d2) <- takeZ cl d1;
      do r <- cas_loop f d2; Ok (c :: r)
    end
  end.
Definition unmarshal_creq (has : bool) (data : bytes) : res (bytes * list Z * list bytes) :=
  if blen data <? 5 then Bad else
  do (_, d0) <- rd8 data;
  do (l, d1) <- rd24 d0;
  if negb (blen data - 4 =? l) then Bad else
  do (nt, d) <- rd8 d1;
  if (nt =? 0) || (blen d <=? nt) then Bad else
  do (types, d) <- takeZ nt d;
  do (sa, d) <- (if has then
                    do (sl, d) <- rd16 d;
                    if Z.odd sl then Bad else
                    do (s, d) <- takeZ sl d; Ok (dec_u16s s, d)
                  else Ok ([], d));
  do (cl, d) <- rd16 d;
  do (casb, d) <- takeZ cl d;
  do cas <- cas_loop (length casb) casb;
  if blen d <=? 0 then Ok (types, sa, cas) else Bad.

(* certificateVerifyMsg: (has, sigAndHash as u16, signature) *)
Definition marshal_cv (has : bool) (sah : Z) (sig : bytes) : bytes :=
  hs_frame 15 ((if has then u16 sah else []) ++ u16 (blen sig) ++ sig).
Definition unmarshal_cv (has : bool) (data : bytes) : res (Z * bytes) :=
  if blen data <? 6 then Bad else
  do (_, d0) <- rd8 data;
  do (l, d) <- rd24 d0;
  if negb (blen data - 4 =? l) then Bad else
  do (sah, d) <- (if has then rd16 d else Ok (0, d));
  do (sl, d) <- rd16 d;
  if negb (blen d =? sl) then Bad else Ok (sah, d).

(* ============================ sessionState (ticket.go) ============================ *)
Record session_state := { ss_vers : Z; ss_suite : Z; ss_master : bytes; ss_certs : list bytes }.
Definition enc_cert32 (c : bytes) : bytes := u32 (blen c) ++ c.
Definition marshal_ss (s : session_state) : bytes :=
  u16 (ss_vers s) ++ u16 (ss_suite s) ++ u16 (blen (ss_master s)) ++ ss_master s ++
  u16 (llen (ss_certs s)) ++ flat_map enc_cert32 (ss_certs s).
Fixpoint ss_cert_loop (n : nat) (d : bytes) : res (list bytes * bytes) :=
  match n with
  | O => Ok ([], d)
  | S n' =>
    do (cl, d1) <- rd32 d;
    do (c, d2) <- takeZ cl d1;
    do (r, d3) <- ss_cert_loop n' d2; Ok (c :: r, d3)
  end.
Definition unmarshal_ss (data : bytes) : res session_state :=
  if blen data <? 8 then Bad else
  do (vers, d) <- rd16 data;
  do (suite, d) <- rd16 d;
  do (ml, d) <- rd16 d;
  do (master, d) <- takeZ ml d;
  do (nc, d) <- rd16 d;
  (* make([][]byte, numCerts) then one iteration per entry; every iteration consumes >= 4 bytes, so
     at most len(d)/4+1 iterations run before a failure: min keeps the nat counter small *)
  if blen d <? 4 * nc then Bad else
  do (certs, d) <- ss_cert_loop (Z.to_nat nc) d;
  if blen d <=? 0 then Ok {| ss_vers := vers; ss_suite := suite; ss_master := master; ss_certs := certs |}
  else Bad.
