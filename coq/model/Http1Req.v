(* C24: model of HTTP/1 request reading in BFE
     bfe_http/request.go   ReadRequest, parseRequestLine, ParseHTTPVersion
     bfe_http/transfer.go  readTransfer, fixTransferEncoding, fixLength, fixTrailer, body / chunkedReader
     bfe_net/textproto/reader.go  ReadLine, readContinuedLineSlice, ReadMIMEHeaderAndKeys, canonicalMIMEHeaderKey
   as a generic skeleton  parse_stream V  (read head lines, validate, read body by framing decision, repeat)
   instantiated with BFE's validators (as coded) and with RFC 7230's.  Definitions only. *)
From Coq Require Import List ZArith Bool Lia.
From Bfe Require Import lib.Val lib.Bytes.
Import ListNotations.
Open Scope Z_scope.

(* ---------- constants (ASCII) ---------- *)
Definition s_host : bytes := [72;111;115;116].                                        (* Host *)
Definition s_te : bytes := [84;114;97;110;115;102;101;114;45;69;110;99;111;100;105;110;103]. (* Transfer-Encoding *)
Definition s_cl : bytes := [67;111;110;116;101;110;116;45;76;101;110;103;116;104].     (* Content-Length *)
Definition s_trailer : bytes := [84;114;97;105;108;101;114].                          (* Trailer *)
Definition s_pragma : bytes := [80;114;97;103;109;97].                                (* Pragma *)
Definition s_cc : bytes := [67;97;99;104;101;45;67;111;110;116;114;111;108].           (* Cache-Control *)
Definition s_nocache : bytes := [110;111;45;99;97;99;104;101].                        (* no-cache *)
Definition s_chunked : bytes := [99;104;117;110;107;101;100].                         (* chunked *)
Definition s_identity : bytes := [105;100;101;110;116;105;116;121].                   (* identity *)
Definition s_http11 : bytes := [72;84;84;80;47;49;46;49].                             (* HTTP/1.1 *)
Definition s_http10 : bytes := [72;84;84;80;47;49;46;48].                             (* HTTP/1.0 *)
Definition s_httpslash : bytes := [72;84;84;80;47].                                   (* HTTP/ *)
Definition s_httpcss : bytes := [104;116;116;112;58;47;47].                           (* http:// *)
Definition s_connect : bytes := [67;79;78;78;69;67;84].                               (* CONNECT *)
Definition s_crlfcrlf : bytes := [13;10;13;10].

(* ---------- character classes ---------- *)
Definition is_alpha (b : Z) : bool := ((65 <=? b) && (b <=? 90)) || ((97 <=? b) && (b <=? 122)).
(* RFC 7230 tchar = textproto.isTokenTable *)
Definition is_tchar (b : Z) : bool :=
  is_alpha b || is_digit b ||
  existsb (Z.eqb b) [33;35;36;37;38;39;42;43;45;46;94;95;96;124;126].
Definition is_token (l : bytes) : bool := match l with [] => false | _ => forallb is_tchar l end.
(* strings.TrimSpace on ASCII input: \t \n \v \f \r SP -- no longer used by the modelled code (fix 6c62a1e) *)
Definition is_go_space (b : Z) : bool := ((9 <=? b) && (b <=? 13)) || (b =? 32).
(* textproto.TrimString: SP \t \n \r *)
Definition is_ascii_space4 (b : Z) : bool := (b =? 32) || (b =? 9) || (b =? 10) || (b =? 13).
Definition go_trim (l : bytes) : bytes := trim is_go_space l.
Definition trim4 (l : bytes) : bytes := trim is_ascii_space4 l.

(* ---------- lines: bfe_bufio.ReadLine through textproto.readLineSlice ---------- *)
Fixpoint split_lf (s : bytes) : option (bytes * bytes) :=
  match s with
  | [] => None
  | x :: r => if x =? 10 then Some ([], r)
              else match split_lf r with Some (l, t) => Some (x :: l, t) | None => None end
  end.
Definition strip_cr (l : bytes) : bytes := match rev l with 13 :: r => rev r | _ => l end.
(* None = io.EOF (no data at all).  A final line without LF is returned as it is (no CR stripping). *)
Definition read_line (s : bytes) : option (bytes * bytes) :=
  match split_lf s with
  | Some (l, r) => Some (strip_cr l, r)
  | None => match s with [] => None | _ => Some (s, []) end
  end.

(* readContinuedLineSlice: continuation lines (obs-fold) are joined with one SP after trimming *)
Fixpoint cont_lines (fuel : nat) (acc s : bytes) {struct fuel} : bytes * bytes :=
  match fuel with
  | O => (acc, s)
  | S f =>
    match s with
    | x :: _ =>
      if is_space x then
        let s1 := trim_left is_space s in
        match read_line s1 with
        | None => (acc, s1)
        | Some (l, r) => cont_lines f (acc ++ 32 :: trim is_space l) r
        end
      else (acc, s)
    | [] => (acc, s)
    end
  end.
Definition read_cont_line (s : bytes) : option (bytes * bytes) :=
  match read_line s with
  | None => None
  | Some ([], r) => Some ([], r)
  | Some (l, r) => Some (cont_lines (length r) (trim is_space l) r)
  end.

(* all header lines up to the blank line.  Result: lines, complete (blank line seen), rest *)
Fixpoint read_lines (fuel : nat) (s : bytes) (acc : list bytes) {struct fuel} : list bytes * bool * bytes :=
  match fuel with
  | O => (rev acc, false, s)
  | S f =>
    match read_cont_line s with
    | None => (rev acc, false, s)
    | Some ([], r) => (rev acc, true, r)
    | Some (kv, r) => read_lines f r (kv :: acc)
    end
  end.

(* head of one request: request line, whether the first header line starts with SP/HT, the joined header lines *)
Record head := { h_reqline : bytes; h_leadws : bool; h_lines : list bytes; h_complete : bool; h_rest : bytes }.
Definition read_head (s : bytes) : option head :=
  match read_line s with
  | None => None
  | Some (rl, r) =>
    let '(ls, c, rest) := read_lines (length r) r [] in
    Some {| h_reqline := rl; h_leadws := match r with x :: _ => is_space x | [] => false end;
            h_lines := ls; h_complete := c; h_rest := rest |}
  end.

(* ---------- request line ---------- *)
Definition parse_request_line (l : bytes) : option (bytes * bytes * bytes) :=
  match index_byte 32 l with
  | None => None
  | Some i =>
    let rest := skipn (S i) l in
    match index_byte 32 rest with
    | None => None
    | Some j => Some (firstn i l, firstn j rest, skipn (S j) rest)
    end
  end.

(* strconv.Atoi succeeds with a value in [0, 1000000] *)
Definition atoi_ok (d : bytes) : bool :=
  match d with
  | 45 :: r => match parse_dec r with Some n => n =? 0 | None => false end
  | 43 :: r => match parse_dec r with Some n => n <=? 1000000 | None => false end
  | _ => match parse_dec d with Some n => n <=? 1000000 | None => false end
  end.
Definition bfe_version_ok (p : bytes) : bool :=
  bytes_eqb p s_http11 || bytes_eqb p s_http10 ||
  (is_prefix s_httpslash p &&
   match index_byte 46 p with
   | None => false
   | Some dot => atoi_ok (skipn 5 (firstn dot p)) && atoi_ok (skipn (S dot) p)
   end).
Definition ref_version_ok (p : bytes) : bool :=
  match p with
  | [72;84;84;80;47;a;46;b] => is_digit a && is_digit b
  | _ => false
  end.

(* request-target: the classes whose net/url treatment is modelled.
   0 = not modelled (parse stops with code 98), 1 = accepted, no authority, 2 = accepted absolute-form
   (authority = bytes between "http://" and the next '/'), 3 = rejected (empty). *)
Definition safe_path_byte (b : Z) : bool := (33 <=? b) && (b <=? 126) && negb (b =? 37) && negb (b =? 35).
Definition host_byte (b : Z) : bool := ((97 <=? b) && (b <=? 122)) || is_digit b || (b =? 46) || (b =? 45).
Definition hostport_ok (h : bytes) : bool :=
  match index_byte 58 h with
  | None => match h with [] => false | _ => forallb host_byte h end
  | Some i => let hn := firstn i h in let pt := skipn (S i) h in
              match hn, pt with
              | _ :: _, _ :: _ => forallb host_byte hn && forallb is_digit pt
              | _, _ => false
              end
  end.
(* net/url ParseRequestURI on an origin-form target ("/..."): no control byte anywhere, and every '%' in the
   path part (before the first '?') is followed by two hex digits; the query is kept raw.  "//x" is a path. *)
Definition is_ctl (b : Z) : bool := (b <? 32) || (b =? 127).
Definition is_hexdig (b : Z) : bool := is_digit b || ((97 <=? b) && (b <=? 102)) || ((65 <=? b) && (b <=? 70)).
Fixpoint escapes_ok (l : bytes) : bool :=
  match l with
  | [] => true
  | x :: r =>
    if x =? 37 then match r with a :: b :: r' => is_hexdig a && is_hexdig b && escapes_ok r' | _ => false end
    else escapes_ok r
  end.
Definition path_part (t : bytes) : bytes := match index_byte 63 t with Some i => firstn i t | None => t end.
Definition is_origin (t : bytes) : bool := match t with x :: _ => x =? 47 | [] => false end.
Definition origin_class (t : bytes) : Z :=
  if existsb is_ctl t then 3 else if escapes_ok (path_part t) then 1 else 3.
(* CONNECT with a target that does not start with '/' is parsed as "http://" + target (authority-form) *)
Definition target_class (m t : bytes) : Z :=
  if is_origin t then origin_class t
  else if bytes_eqb m s_connect then (if hostport_ok t then 2 else 0)
  else match t with
  | [] => 3
  | [42] => 1
  | _ =>
    if is_prefix s_httpcss t then
      let r := skipn 7 t in
      let (h, p) := match index_byte 47 r with Some i => (firstn i r, skipn i r) | None => (r, []) end in
      if hostport_ok h && forallb safe_path_byte p then 2 else 0
    else if existsb (Z.eqb 58) t then 0 else 3
  end.
Definition target_host (m t : bytes) : bytes :=
  if is_origin t then []
  else if bytes_eqb m s_connect then t
  else if is_prefix s_httpcss t then
    let r := skipn 7 t in match index_byte 47 r with Some i => firstn i r | None => r end
  else [].
(* maxUriBytes as passed by the harness *)
Definition max_uri : Z := 60.

(* ---------- header fields ---------- *)
Definition fields := list (bytes * bytes).
Definition key_is (k : bytes) (kv : bytes * bytes) : bool := bytes_eqb (fst kv) k.
Definition get_all (k : bytes) (h : fields) : list bytes := map snd (filter (key_is k) h).
Definition get_first (k : bytes) (h : fields) : bytes := match get_all k h with v :: _ => v | [] => [] end.
Definition has_key (k : bytes) (h : fields) : bool := existsb (key_is k) h.
Definition del_key (k : bytes) (h : fields) : fields := filter (fun kv => negb (key_is k kv)) h.

(* canonicalMIMEHeaderKey: unchanged unless every byte is a tchar *)
Fixpoint canon_go (upper : bool) (a : bytes) : bytes :=
  match a with
  | [] => []
  | c :: r =>
    let c' := if upper && (97 <=? c) && (c <=? 122) then c - 32
              else if negb upper && (65 <=? c) && (c <=? 90) then c + 32 else c in
    c' :: canon_go (c' =? 45) r
  end.
Definition canon_key (a : bytes) : bytes := if forallb is_tchar a then canon_go true a else a.

Inductive fline := FField (k v : bytes) | FSkip | FBad.
(* ReadMIMEHeaderAndKeys: key = bytes before the first ':' (no token check); empty key: line skipped *)
Definition line_key (kv : bytes) : option bytes :=
  match index_byte 58 kv with Some i => Some (firstn i kv) | None => None end.
Definition line_value (kv : bytes) : bytes :=
  match index_byte 58 kv with Some i => trim_left is_space (skipn (S i) kv) | None => [] end.
Definition bfe_field (kv : bytes) : fline :=
  match line_key kv with
  | None => FBad
  | Some k => match canon_key k with [] => FSkip | k' => FField k' (line_value kv) end
  end.
(* RFC 7230 3.2: field-name = token, no whitespace before the colon *)
Definition ref_field (kv : bytes) : fline :=
  match line_key kv with
  | None => FBad
  | Some k => if is_token k then FField (canon_key k) (line_value kv) else FBad
  end.

Fixpoint collect_fields (vf : bytes -> fline) (ls : list bytes) : option fields :=
  match ls with
  | [] => Some []
  | l :: r =>
    match vf l with
    | FBad => None
    | FSkip => collect_fields vf r
    | FField k v => match collect_fields vf r with Some fs => Some ((k, v) :: fs) | None => None end
    end
  end.

(* ---------- framing decision ---------- *)
Inductive framing := FrLen (n : Z) | FrChunked.

(* fixTransferEncoding (after fix a604fb2): exactly one Transfer-Encoding field and its value, trimmed
   (textproto.TrimString) and ASCII-lower-cased, is "chunked".  This is also what RFC 7230 3.3.3 leaves to a
   recipient that implements only the chunked coding (anything else is 400 / 501).
   None = rejected; Some true = chunked; Some false = no Transfer-Encoding *)
Definition te_decision (h : fields) : option bool :=
  match get_all s_te h with
  | [] => Some false
  | [v] => if bytes_eqb (to_lower (trim4 v)) s_chunked then Some true else None
  | _ => None
  end.
(* Content-Length = 1*DIGIT below 2^63 (ParseUint(cl, 10, 63)) *)
Definition parse_cl (cl : bytes) : option Z :=
  match parse_dec cl with Some n => if n <? 2^63 then Some n else None | None => None end.
(* fixLength (after fix 17390c5): all Content-Length values must be equal (TrimString); first one decides *)
Definition cl_consistent (cls : list bytes) : bool :=
  match cls with
  | [] => true
  | f :: r => forallb (fun c => bytes_eqb (trim4 f) (trim4 c)) r
  end.
Definition cl_first (cls : list bytes) : bytes :=
  match cls with
  | [] => []
  | [f] => trim4 f
  | f :: _ => trim4 (trim4 f)
  end.
Definition bfe_trailer_ok (h : fields) : bool :=
  let raw := get_first s_trailer h in
  forallb (fun k => let k' := canon_key (trim4 k) in
                    negb (bytes_eqb k' s_te || bytes_eqb k' s_trailer || bytes_eqb k' s_cl))
          (match raw with [] => [] | _ => split_byte 44 raw end).
(* inl code = rejected: 7 transfer coding, 8 content length (conflicting, empty (fix e9e83bf), not 1*DIGIT,
   >= 2^63), 9 trailer *)
Definition bfe_frame (h : fields) : Z + framing :=
  match te_decision h with
  | None => inl 7
  | Some true => if bfe_trailer_ok h then inr FrChunked else inl 9
  | Some false =>
    let cls := get_all s_cl h in
    match cls with
    | [] => if bfe_trailer_ok h then inr (FrLen 0) else inl 9
    | _ =>
      if cl_consistent cls then
        match parse_cl (cl_first cls) with
        | Some n => if bfe_trailer_ok h then inr (FrLen n) else inl 9
        | None => inl 8
        end
      else inl 8
    end
  end.

(* RFC 7230 3.3.3: Transfer-Encoding must be exactly "chunked" (the only coding this recipient implements);
   otherwise every Content-Length value must be the same 1*DIGIT; no field: no body. *)
Definition ref_frame (h : fields) : Z + framing :=
  match te_decision h with
  | None => inl 7
  | Some true => inr FrChunked
  | Some false =>
    let cls := get_all s_cl h in
    match cls with
    | [] => inr (FrLen 0)
    | _ =>
      if cl_consistent cls then
        match parse_dec (cl_first cls) with Some n => inr (FrLen n) | None => inl 8 end
      else inl 8
    end
  end.

(* ---------- validators ---------- *)
Record validators := {
  v_method : bytes -> bool;
  v_version : bytes -> bool;
  v_field : bytes -> fline;            (* one (joined) header line, while the block is read *)
  v_names : fields -> bool;            (* check applied to the complete block afterwards *)
  v_frame : fields -> Z + framing }.
Definition names_ok (fs : fields) : bool := forallb (fun kv => is_token (fst kv)) fs.
(* BFE as coded: method must be a token (fix a2f18b3), version as ParseHTTPVersion, textproto collects the
   lines leniently (any name, empty name skipped), then ReadRequest rejects non-token names (fix 9b4c453) *)
Definition V_bfe : validators :=
  {| v_method := is_token; v_version := bfe_version_ok;
     v_field := bfe_field; v_names := names_ok; v_frame := bfe_frame |}.
Definition V_ref : validators :=
  {| v_method := is_token; v_version := ref_version_ok;
     v_field := ref_field; v_names := fun _ => true; v_frame := ref_frame |}.

Record reqmeta := { r_method : bytes; r_target : bytes; r_proto : bytes; r_fields : fields; r_framing : framing }.

(* error codes: 1 unexpected EOF, 2 request line / method, 4 version, 5 target, 6 header block (line without
   colon, or first line starts with SP/HTAB: fix fe4368d), 12 field name, 7 8 9 framing, 3 target longer than maxUriBytes, 98 target not modelled *)
Definition validate (V : validators) (hd : head) : Z + reqmeta :=
  match parse_request_line (h_reqline hd) with
  | None => inl 2
  | Some (m, t, p) =>
    if negb (v_method V m) then inl 2
    else if max_uri <? blen t then inl 3
    else if negb (v_version V p) then inl 4
    else if target_class m t =? 0 then inl 98
    else if target_class m t =? 3 then inl 5
    else if h_leadws hd then inl 6
    else match collect_fields (v_field V) (h_lines hd) with
    | None => inl 6
    | Some fs =>
      if negb (h_complete hd) then inl 1
      else if negb (v_names V fs) then inl 12
      else match v_frame V fs with
      | inl c => inl c
      | inr fr => inr {| r_method := m; r_target := t; r_proto := p; r_fields := fs; r_framing := fr |}
      end
    end
  end.

(* ---------- body ---------- *)
Definition hex_val (b : Z) : option Z :=
  if is_digit b then Some (b - 48)
  else if (97 <=? b) && (b <=? 102) then Some (b - 87)
  else if (65 <=? b) && (b <=? 70) then Some (b - 55) else None.
Fixpoint parse_hex (l : bytes) (acc : Z) : option Z :=
  match l with
  | [] => Some acc
  | b :: r => match hex_val b with Some d => parse_hex r (acc * 16 + d) | None => None end
  end.
(* parseHexUint: 1..16 hex digits *)
Definition parse_hex_line (l : bytes) : option Z :=
  match l with
  | [] => None
  | _ => if (length l <=? 16)%nat then parse_hex l 0 else None
  end.
(* body.readTrailer after the last chunk *)
Definition read_trailer (r : bytes) : option bytes :=
  match r with
  | 13 :: 10 :: r' => Some r'
  | x :: _ :: _ =>
    if is_space x then None                      (* ReadMIMEHeader: first line starts with SP/HTAB *)
    else if contains s_crlfcrlf r then
      let '(ls, c, rest) := read_lines (length r) r [] in
      match collect_fields bfe_field ls with
      | Some _ => if c then Some rest else None
      | None => None
      end
    else None
  | _ => None
  end.
(* chunkedReader: size line up to LF, trailing SP/HT/CR/LF trimmed, 1..16 hex digits, data, CRLF *)
Fixpoint read_chunks (fuel : nat) (s acc : bytes) {struct fuel} : option (bytes * bytes) :=
  match fuel with
  | O => None
  | S f =>
    match split_lf s with
    | None => None
    | Some (l, r) =>
      match parse_hex_line (trim_right is_ascii_space4 l) with
      | None => None
      | Some n =>
        if n =? 0 then match read_trailer r with Some r' => Some (acc, r') | None => None end
        else if blen r <? n then None
        else match skipn (Z.to_nat n) r with
             | 13 :: 10 :: r2 => read_chunks f r2 (acc ++ firstn (Z.to_nat n) r)
             | _ => None
             end
      end
    end
  end.
Definition read_body (fr : framing) (s : bytes) : option (bytes * bytes) :=
  match fr with
  | FrLen n => if blen s <? n then None else Some (firstn (Z.to_nat n) s, skipn (Z.to_nat n) s)
  | FrChunked => read_chunks (length s) s []
  end.

(* ---------- the stream skeleton ---------- *)
Record request := { q_meta : reqmeta; q_body : bytes; q_rest : bytes }.
(* end codes: 0 clean EOF at a request boundary, 20 body error, 99 fuel, otherwise validate's code *)
Fixpoint parse_stream (V : validators) (fuel : nat) (s : bytes) {struct fuel} : list request * Z :=
  match fuel with
  | O => ([], 99)
  | S f =>
    match read_head s with
    | None => ([], 0)
    | Some hd =>
      match validate V hd with
      | inl c => ([], c)
      | inr m =>
        match read_body (r_framing m) (h_rest hd) with
        | None => ([], 20)
        | Some (b, rest) =>
          let '(qs, e) := parse_stream V f rest in
          ({| q_meta := m; q_body := b; q_rest := rest |} :: qs, e)
        end
      end
    end
  end.
Definition parse_all (V : validators) (s : bytes) : list request * Z := parse_stream V (S (length s)) s.

(* ---------- what BFE leaves in Request.Host / Request.Header (ReadRequest + readTransfer mutations) ---------- *)
Definition bfe_host (m t : bytes) (h : fields) : bytes :=
  match target_host m t with [] => get_first s_host h | a => a end.
Fixpoint dedupe_cl (first : bytes) (seen : bool) (h : fields) : fields :=
  match h with
  | [] => []
  | kv :: r =>
    if key_is s_cl kv then (if seen then dedupe_cl first true r else (s_cl, first) :: dedupe_cl first true r)
    else kv :: dedupe_cl first seen r
  end.
Definition bfe_final_fields (h : fields) (fr : framing) : fields :=
  let h1 := del_key s_host h in
  let h2 := if has_key s_pragma h1 && bytes_eqb (get_first s_pragma h1) s_nocache && negb (has_key s_cc h1)
            then h1 ++ [(s_cc, s_nocache)] else h1 in
  let h3 := del_key s_te h2 in
  let h4 := match fr with
            | FrChunked => del_key s_cl h3
            | FrLen _ =>
              let cls := get_all s_cl h3 in
              match cls with _ :: _ :: _ => dedupe_cl (trim4 (hd [] cls)) false h3 | _ => h3 end
            end in
  match get_first s_trailer h4 with [] => h4 | _ => del_key s_trailer h4 end.

(* ---------- remaining divergence classes (known findings) as predicates on one request head ---------- *)
(* id 2: a header line with an empty field name (": v"): textproto skips it silently *)
Definition emptyname_line (kv : bytes) : bool :=
  match line_key kv with Some [] => true | _ => false end.
(* id 5: version accepted by ParseHTTPVersion that is not HTTP/DIGIT.DIGIT *)
Definition lax_version (p : bytes) : bool := bfe_version_ok p && negb (ref_version_ok p).
Definition head_class (hd : head) : Z :=
  match parse_request_line (h_reqline hd) with
  | None => 0
  | Some (m, t, p) =>
    if lax_version p then 5
    else if existsb emptyname_line (h_lines hd) then 2
    else 0
  end.
(* class of the first request head (in BFE's reading of the stream) that falls in a class *)
Fixpoint stream_class (fuel : nat) (s : bytes) {struct fuel} : Z :=
  match fuel with
  | O => 0
  | S f =>
    match read_head s with
    | None => 0
    | Some hd =>
      let c := head_class hd in
      if negb (c =? 0) then c
      else match validate V_bfe hd with
      | inl _ => 0
      | inr m => match read_body (r_framing m) (h_rest hd) with
                 | None => 0
                 | Some (_, rest) => stream_class f rest
                 end
      end
    end
  end.

(* ---------- the property: BFE's accepted requests are a prefix-wise match of the reference's ---------- *)
Definition framing_key (k : bytes) : bool :=
  bytes_eqb k s_host || bytes_eqb k s_te || bytes_eqb k s_cl || bytes_eqb k s_trailer || bytes_eqb k s_cc.
Definition plain_fields (h : fields) : fields := filter (fun kv => negb (framing_key (fst kv))) h.
Fixpoint fields_eqb (a b : fields) : bool :=
  match a, b with
  | [], [] => true
  | (k, v) :: a', (k', v') :: b' => bytes_eqb k k' && bytes_eqb v v' && fields_eqb a' b'
  | _, _ => false
  end.
(* one observed request: method target proto host fields body offset-after *)
Record obs := { o_method : bytes; o_target : bytes; o_proto : bytes; o_host : bytes;
                o_fields : fields; o_body : bytes; o_off : Z }.
Definition obs_matches (total : Z) (o : obs) (q : request) : bool :=
  bytes_eqb (o_method o) (r_method (q_meta q)) && bytes_eqb (o_target o) (r_target (q_meta q)) &&
  bytes_eqb (o_proto o) (r_proto (q_meta q)) &&
  fields_eqb (plain_fields (o_fields o)) (plain_fields (r_fields (q_meta q))) &&
  bytes_eqb (o_body o) (q_body q) && (o_off o =? total - blen (q_rest q)).
Fixpoint obs_prefix (total : Z) (os : list obs) (qs : list request) : bool :=
  match os, qs with
  | [], _ => true
  | o :: os', q :: qs' => obs_matches total o q && obs_prefix total os' qs'
  | _ :: _, [] => false
  end.
Definition bfe_obs (total : Z) (q : request) : obs :=
  let m := q_meta q in
  {| o_method := r_method m; o_target := r_target m; o_proto := r_proto m;
     o_host := bfe_host (r_method m) (r_target m) (r_fields m);
     o_fields := bfe_final_fields (r_fields m) (r_framing m);
     o_body := q_body q; o_off := total - blen (q_rest q) |}.
