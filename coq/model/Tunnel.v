(* C47: WebSocket / TLS-stream tunnels as a transition system.

   Go code modelled: bfe_websocket/server_conn.go (websocketDataTransfer + the wait loop of serve) and
   bfe_stream/server_conn.go (TLSProxyHandler + the wait loop of serve):

     cbuf := peekBufferedData(cbr.Reader); bconn.Write(cbuf)        LFlushC   bytes the HTTP server's bufio reader had read
                                                                              together with the upgrade request (never re-read:
                                                                              the copy loop below reads sc.cconn, not cbr)
     bbuf := peekBufferedData(sc.bbr);    cconn.Write(bbuf)         LFlushB   bytes read together with the backend's 101 response
     go io.Copy(bconn, cconn)                                       LRead CB n ; LWrite CB      (one 32 KiB-buffer iteration each)
     go io.Copy(cconn, bconn)                                       LRead BC n ; LWrite BC
     io.Copy returns at EOF of its source -> errCh                  LEof d     arms the 250 ms shutdown timer
     <-shutdownTimerCh: return; deferred cconn.Close(), bconn.Close()   LShutdown
   (for bfe_stream there is no buffered data: both buffers start empty and the flush steps move nothing.)

   A direction (client->backend "CB" or backend->client "BC") is a pipeline
       tosend --LSend n--> wire_in --LRead n--> hold --LWrite--> wire_out --LRecv n--> recv
   with `buf` (the peeked bufio contents) spliced in front of everything the copy loop reads.  TCP connections are
   unbounded FIFO byte channels.  A schedule is an arbitrary list of labels; a label whose step is not enabled leaves the
   state unchanged, so every list is a legal schedule.  Outside the model: real sockets (RST on close with unread data),
   goroutine scheduling, timer values, write errors towards a peer that has gone. *)
From Coq Require Import List ZArith Bool.
Import ListNotations.
Open Scope Z_scope.

Record dir := mkDir {
  tosend : list Z;     (* bytes the source endpoint has not written yet *)
  wire_in : list Z;    (* written by the source, not yet read by the proxy *)
  buf : list Z;        (* read by the proxy's bufio reader together with the upgrade request / 101 response *)
  flushed : bool;      (* the peeked buffer has been written to the other side *)
  hold : list Z;       (* read by the copy loop, not yet written *)
  wire_out : list Z;   (* written by the proxy, not yet read by the destination endpoint *)
  recv : list Z;       (* delivered to the destination endpoint *)
  src_closed : bool;   (* the source endpoint closed its connection *)
  copier : bool;       (* the io.Copy goroutine of this direction is running *)
  dst_eof : bool       (* the destination endpoint has read EOF *)
}.

Record state := mkState {
  cb : dir;            (* client -> backend *)
  bc : dir;            (* backend -> client *)
  armed : bool;        (* shutdown timer armed (some io.Copy returned) *)
  pclosed : bool       (* the proxy closed both connections *)
}.

Inductive which := CB | BC.

Inductive label :=
| LSend (d : which) (n : nat)    (* the source endpoint of d writes its next n bytes *)
| LFlushC                        (* proxy: bconn.Write(cbuf) *)
| LFlushB                        (* proxy: cconn.Write(bbuf), after LFlushC *)
| LRead (d : which) (n : nat)    (* copy loop of d: Read returns the next n available bytes *)
| LWrite (d : which)             (* copy loop of d: Write of what it read *)
| LRecv (d : which) (n : nat)    (* destination endpoint of d reads n bytes *)
| LClose (d : which)             (* source endpoint of d closes its connection (CB: the client closes, BC: the backend) *)
| LEof (d : which)               (* copy loop of d reads EOF and returns *)
| LShutdown                      (* timer fired: proxy closes both connections *)
| LRecvEof (d : which).          (* destination endpoint of d reads EOF *)

Definition get (s : state) (d : which) : dir := match d with CB => cb s | BC => bc s end.
Definition put (s : state) (d : which) (x : dir) : state :=
  match d with CB => mkState x (bc s) (armed s) (pclosed s) | BC => mkState (cb s) x (armed s) (pclosed s) end.

Definition init_dir (early payload : list Z) : dir :=
  mkDir payload [] early false [] [] [] false true false.
(* the state at the moment the upgrade (handshake) is established: `early` bytes already sit in the proxy's bufio buffers *)
Definition init (cearly cpayload bearly bpayload : list Z) : state :=
  mkState (init_dir cearly cpayload) (init_dir bearly bpayload) false false.

(* both flushes done: the copy goroutines have been started *)
Definition copying (s : state) : bool := flushed (cb s) && flushed (bc s).

Definition step (s : state) (l : label) : state :=
  match l with
  | LSend d n =>
    let x := get s d in
    if src_closed x then s else
    put s d (mkDir (skipn n (tosend x)) (wire_in x ++ firstn n (tosend x)) (buf x) (flushed x) (hold x) (wire_out x)
                   (recv x) (src_closed x) (copier x) (dst_eof x))
  | LFlushC =>
    let x := cb s in
    if flushed x || pclosed s then s else
    put s CB (mkDir (tosend x) (wire_in x) [] true (hold x) (wire_out x ++ buf x) (recv x) (src_closed x) (copier x) (dst_eof x))
  | LFlushB =>
    let x := bc s in
    if flushed x || negb (flushed (cb s)) || pclosed s then s else
    put s BC (mkDir (tosend x) (wire_in x) [] true (hold x) (wire_out x ++ buf x) (recv x) (src_closed x) (copier x) (dst_eof x))
  | LRead d n =>
    let x := get s d in
    if negb (copying s) || negb (copier x) || pclosed s || negb (match hold x with [] => true | _ => false end) then s else
    put s d (mkDir (tosend x) (skipn n (wire_in x)) (buf x) (flushed x) (firstn n (wire_in x)) (wire_out x)
                   (recv x) (src_closed x) (copier x) (dst_eof x))
  | LWrite d =>
    let x := get s d in
    if negb (copier x) || pclosed s then s else
    put s d (mkDir (tosend x) (wire_in x) (buf x) (flushed x) [] (wire_out x ++ hold x) (recv x) (src_closed x) (copier x) (dst_eof x))
  | LRecv d n =>
    let x := get s d in
    if dst_eof x then s else
    put s d (mkDir (tosend x) (wire_in x) (buf x) (flushed x) (hold x) (skipn n (wire_out x)) (recv x ++ firstn n (wire_out x))
                   (src_closed x) (copier x) (dst_eof x))
  | LClose d =>
    let x := get s d in
    put s d (mkDir (tosend x) (wire_in x) (buf x) (flushed x) (hold x) (wire_out x) (recv x) true (copier x) (dst_eof x))
  | LEof d =>
    let x := get s d in
    if copying s && copier x && src_closed x && negb (pclosed s)
       && (match wire_in x with [] => true | _ => false end) && (match hold x with [] => true | _ => false end)
    then let s' := put s d (mkDir (tosend x) (wire_in x) (buf x) (flushed x) (hold x) (wire_out x) (recv x)
                                  (src_closed x) false (dst_eof x)) in
         mkState (cb s') (bc s') true (pclosed s)
    else s
  | LShutdown =>
    if armed s && negb (pclosed s) then mkState (cb s) (bc s) (armed s) true else s
  | LRecvEof d =>
    let x := get s d in
    if pclosed s && (match wire_out x with [] => true | _ => false end) then
      put s d (mkDir (tosend x) (wire_in x) (buf x) (flushed x) (hold x) (wire_out x) (recv x) (src_closed x) (copier x) true)
    else s
  end.

Definition exec (s : state) (sched : list label) : state := fold_left step sched s.

(* everything the source of a direction has handed to the network so far, in order *)
Definition in_network (x : dir) : list Z := recv x ++ wire_out x ++ hold x ++ buf x ++ wire_in x.

(* canonical schedule used by run_C47: flush, then for every chunk (direction, length): send, read, write, receive;
   then the closer closes, the copy loop notices, the timer fires, both endpoints read EOF *)
Fixpoint chunk_sched (chunks : list (which * nat)) : list label :=
  match chunks with
  | [] => []
  | (d, n) :: r => [LSend d n; LRead d n; LWrite d; LRecv d n] ++ chunk_sched r
  end.

Definition drain (n : nat) : list label := [LRecv CB n; LRecv BC n].

Example tunnel_example :
  let s := exec (init [1;2] [3;4;5] [9] [8;7])
                ([LFlushC; LFlushB] ++ drain 10 ++ chunk_sched [(CB, 2%nat); (BC, 2%nat); (CB, 1%nat)]
                 ++ [LClose CB; LEof CB; LShutdown; LRecvEof CB; LRecvEof BC]) in
  (recv (cb s), recv (bc s), dst_eof (cb s), dst_eof (bc s)) = ([1;2;3;4;5], [9;8;7], true, true).
Proof. reflexivity. Qed.
