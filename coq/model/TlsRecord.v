(* C42: model of the TLS record layer of bfe_tls (conn.go): Conn.Write / writeRecord / halfConn.encrypt on
   the sending side, Conn.Read / readRecord / halfConn.decrypt on the receiving side, after the handshake.

   Cryptography is symbolic.  The authenticated-encryption step of a record (MAC-then-encrypt for the
   stream and CBC suites, AEAD seal for GCM / ChaCha20-Poly1305) is ONE abstract operation
        seal seq typ vers plaintext : B          open seq typ vers body : option plaintext
   over an abstract body type B (both are parameters of the Section below, the theorems in
   proofs/TlsRecordProofs.v state their hypotheses explicitly).  What the model keeps from the code is
   everything around it: which header fields and which sequence number enter the check, record
   framing, the order of the checks in readRecord, error stickiness, what is delivered to Read, and for
   CBC the version-dependent padding rule.  The theorems only need seal/open to bind the sequence
   number and the record type: the SSLv3 MAC (ssl30MAC) does not cover the version bytes of the header,
   it is readRecord's own comparison with c.vers that rejects a changed version.

   A record on the wire is described by its header fields, the number of body bytes actually present
   ("actual") next to the length the header claims ("claim"), and its body: Some b when the bytes are
   exactly one body produced by a seal, None when they are anything else (modified, truncated,
   injected bytes). *)
From Coq Require Import List ZArith Bool.
From Bfe Require Import lib.Val lib.Bytes.
Import ListNotations.
Open Scope Z_scope.

(* ---- suite shape: read off the real cipher objects by the harness ---- *)
Record cfg := mkCfg {
  c_kind : Z;   (* 0 stream (RC4), 1 CBC, 2 AEAD *)
  c_mac  : Z;   (* hc.mac.Size(), 0 for AEAD *)
  c_bs   : Z;   (* CBC block size *)
  c_expl : Z;   (* explicit IV (CBC, >= TLS 1.1) / explicit nonce (GCM: 8, ChaCha20: 0) *)
  c_ovh  : Z;   (* AEAD Overhead() *)
  c_vers : Z;   (* c.vers *)
  c_pad  : Z;   (* CBC padding style of the sending peer: 0 = bfe_tls's own encrypt (minimal, all bytes = length);
                   1 = SSLv3 style (minimal, arbitrary content, last byte = length); 2 = TLS long padding
                   (c_padx extra blocks, all bytes = length); 3 = length byte 255 (malformed) *)
  c_padx : Z }.

Definition maxPlaintext : Z := 16384.
Definition maxCiphertext : Z := 16384 + 2048.
Definition initPlaintext : Z := 1024.     (* choosePlaintextSize() with dynamic record size off *)
Definition typAlert : Z := 21.
Definition typApp : Z := 23.

Definition round_up (a b : Z) : Z := a + (b - a mod b) mod b.      (* conn.go roundUp *)

(* CBC padding bytes (incl. the final length byte) that the sending peer appends to an m-byte plaintext
   plus MAC.  padToBlockSize: bs - len mod bs bytes, each = that count - 1. *)
Fixpoint pad_pattern (n : nat) (i : Z) : list Z :=
  match n with O => [] | S n' => ((37 * i + 11) mod 256) :: pad_pattern n' (i + 1) end.
Definition sender_pad (c : cfg) (m : Z) : list Z :=
  let base := c_bs c - (m + c_mac c) mod c_bs c in
  if c_pad c =? 0 then repeat (base - 1) (Z.to_nat base)
  else if c_pad c =? 1 then pad_pattern (Z.to_nat (base - 1)) 0 ++ [base - 1]
  else if c_pad c =? 2 then let n := base + c_bs c * c_padx c in repeat (n - 1) (Z.to_nat n)
  else pad_pattern (Z.to_nat (base - 1)) 0 ++ [255].

(* length of the record body that encrypt produces for an m-byte plaintext *)
Definition wire_len (c : cfg) (m : Z) : Z :=
  if c_kind c =? 0 then m + c_mac c
  else if c_kind c =? 1 then c_expl c + m + c_mac c + blen (sender_pad c m)
  else c_expl c + m + c_ovh c.

(* halfConn.decrypt, CBC case: hc.version == VersionSSL30 selects removePaddingSSL30 (only the length byte
   is looked at), every other version removePadding (all padding bytes must equal the length byte; C43).
   A padding whose length byte does not match the real padding length moves the MAC window, so the MAC
   comparison fails: the record is accepted only if the length byte is exact and, except for SSLv3, the
   content is uniform. *)
Definition pad_accept (vers : Z) (pad : list Z) : bool :=
  let l := last pad (-1) in
  (l + 1 =? blen pad) && ((vers =? 768) || forallb (Z.eqb l) pad).

(* ---- sending side ---- *)
(* writeRecord: split into pieces of at most initPlaintext bytes; no record for empty data *)
Fixpoint chunks (fuel : nat) (p : list Z) : list (list Z) :=
  match fuel with
  | O => []
  | S f => match p with
           | [] => []
           | _ => firstn (Z.to_nat initPlaintext) p :: chunks f (skipn (Z.to_nat initPlaintext) p)
           end
  end.
(* Conn.Write: 1/n-1 split for block ciphers up to TLS 1.0 *)
Definition write_recs (c : cfg) (p : list Z) : list (list Z) :=
  if (1 <? blen p) && (c_vers c <=? 769) && (c_kind c =? 1)
  then firstn 1 p :: chunks (length p) (skipn 1 p)
  else chunks (length p) p.
(* the plaintext records (type, payload) of a session: the writes, then one alert record with payload fin
   ([1; 0] = the close_notify of Conn.Close; [] = no alert: writeRecord sends nothing for empty data) *)
Definition plain_records (c : cfg) (writes : list (list Z)) (fin : list Z) : list (Z * list Z) :=
  map (fun p => (typApp, p)) (flat_map (write_recs c) writes)
  ++ (match fin with [] => [] | _ => [(typAlert, fin)] end).

Record srec (B : Type) := mkRec {
  r_typ : Z; r_vers : Z; r_claim : Z; r_actual : Z; r_body : option B }.
Arguments mkRec {B}. Arguments r_typ {B}. Arguments r_vers {B}. Arguments r_claim {B}.
Arguments r_actual {B}. Arguments r_body {B}.

Section AE.
  Variable B : Type.
  Variable seal : Z -> Z -> Z -> list Z -> B.
  Variable open : Z -> Z -> Z -> B -> option (list Z).
  Variable c : cfg.
  (* what a bit flip at byte offset off of record r turns its body into: None (bytes that are no sealed
     body any more) unless the primitive leaves some ciphertext bytes unauthenticated *)
  Variable bflip : srec B -> Z -> option B.

  (* writeRecord + encrypt: record k of the connection is sealed under sequence number k *)
  Fixpoint protect_from (k : Z) (l : list (Z * list Z)) : list (srec B) :=
    match l with
    | [] => []
    | (t, p) :: r =>
      mkRec t (c_vers c) (wire_len c (blen p)) (wire_len c (blen p)) (Some (seal k t (c_vers c) p))
      :: protect_from (k + 1) r
    end.
  Definition protect (l : list (Z * list Z)) : list (srec B) := protect_from 0 l.

  (* ---- receiving side ---- *)
  Definition body_seen (r : srec B) : option B :=
    if r_claim r =? r_actual r then r_body r else None.

  (* halfConn.decrypt: length pre-checks per cipher kind, then the authenticated open with hc.seq, the
     record type and version from the header *)
  Definition decrypt (seq : Z) (r : srec B) : option (list Z) :=
    let n := r_claim r in
    if (c_kind c =? 2) && (n <? c_expl c) then None
    else if (c_kind c =? 1) &&
            (negb (n mod c_bs c =? 0) || (n <? round_up (c_expl c + c_mac c + 1) (c_bs c))) then None
    else match body_seen r with
         | None => None
         | Some b =>
           match open seq (r_typ r) (r_vers r) b with
           | None => None
           | Some p =>
             if (c_kind c =? 1) && negb (pad_accept (c_vers c) (sender_pad c (blen p))) then None else Some p
           end
         end.

  (* readRecord carries on after a failed decrypt with b.off = 0: the later checks can replace the
     bad_record_mac error.  status codes: 1 io.EOF, 2 io.ErrUnexpectedEOF, 100+a local alert a,
     300+a alert a received from the peer *)
  Definition fail_code (r : srec B) : Z :=
    if 5 + r_claim r >? maxPlaintext then 122
    else if r_typ r =? 23 then 120
    else if r_typ r =? 22 then 200
    else 110.

  Fixpoint total (l : list (srec B)) : Z :=
    match l with [] => 0 | r :: t => 5 + r_actual r + total t end.

  (* Conn.Read called until it returns an error: (delivered bytes, status, final c.in.seq).
     trail = number of bytes of an incomplete record header at the end of the stream (0..4). *)
  Fixpoint recv (seq : Z) (acc : list Z) (l : list (srec B)) (trail : Z) {struct l} : list Z * Z * Z :=
    match l with
    | [] => (acc, 1, seq)                                        (* readFromUntil(header): io.EOF *)
    | r :: rest =>
      if negb (r_vers r =? c_vers c) then (acc, 170, seq)         (* protocol_version *)
      else if r_claim r >? maxCiphertext then (acc, 122, seq)     (* record_overflow *)
      else if r_actual r + total rest + trail <? r_claim r then (acc, 2, seq)   (* EOF inside the body *)
      else match decrypt seq r with
           | None => (acc, fail_code r, seq)
           | Some p =>
             let seq' := seq + 1 in                               (* incSeq *)
             if blen p >? maxPlaintext then (acc, 122, seq')
             else if r_typ r =? 23 then recv seq' (acc ++ p) rest trail
             else if r_typ r =? 21 then
               match p with
               | [lvl; a] =>
                 if a =? 0 then (acc, 1, seq')                    (* close_notify: io.EOF *)
                 else if lvl =? 1 then recv seq' acc rest trail   (* warning: dropped *)
                 else if lvl =? 2 then (acc, 300 + a, seq')
                 else (acc, 110, seq')
               | _ => (acc, 110, seq')
               end
             else if r_typ r =? 22 then (acc, 200, seq')          (* handshake after handshake: no_renegotiation *)
             else (acc, 110, seq')                                (* CCS or unknown: unexpected_message *)
           end
    end.
  Definition receive (l : list (srec B)) (trail : Z) := recv 0 [] l trail.

  (* ---- the adversary: edits of the byte stream, described on records ---- *)
  Inductive op :=
  | OFlip (i off mask : Z)      (* xor mask into byte off of record i (0..4 = header) *)
  | OSwap (i j : Z)
  | ODup (i j : Z)              (* insert a copy of record i before position j *)
  | ODrop (i : Z)
  | OForge (i t v n : Z)        (* insert a record with header (t, v, n) and n arbitrary body bytes before position i *)
  | OTrunc (i n : Z).           (* shorten the body of record i to n bytes and set the header length to n *)

  Definition flip_rec (r : srec B) (off mask : Z) : srec B :=
    if (mask <=? 0) || (255 <? mask) then r
    else if off =? 0 then mkRec (Z.lxor (r_typ r) mask) (r_vers r) (r_claim r) (r_actual r) (r_body r)
    else if off =? 1 then mkRec (r_typ r) (Z.lxor (r_vers r) (mask * 256)) (r_claim r) (r_actual r) (r_body r)
    else if off =? 2 then mkRec (r_typ r) (Z.lxor (r_vers r) mask) (r_claim r) (r_actual r) (r_body r)
    else if off =? 3 then mkRec (r_typ r) (r_vers r) (Z.lxor (r_claim r) (mask * 256)) (r_actual r) (r_body r)
    else if off =? 4 then mkRec (r_typ r) (r_vers r) (Z.lxor (r_claim r) mask) (r_actual r) (r_body r)
    else if (5 <=? off) && (off <? 5 + r_actual r) then mkRec (r_typ r) (r_vers r) (r_claim r) (r_actual r) (bflip r off)
    else r.

  Definition in_range (i : Z) (l : list (srec B)) : bool := (0 <=? i) && (i <? Z.of_nat (length l)).
  Definition upd (l : list (srec B)) (i : Z) (f : srec B -> srec B) : list (srec B) :=
    if in_range i l then
      firstn (Z.to_nat i) l ++ match skipn (Z.to_nat i) l with [] => [] | r :: t => f r :: t end
    else l.
  Definition insert_at (l : list (srec B)) (j : Z) (r : srec B) : list (srec B) :=
    if (0 <=? j) && (j <=? Z.of_nat (length l)) then firstn (Z.to_nat j) l ++ r :: skipn (Z.to_nat j) l else l.

  Definition apply_op (l : list (srec B)) (o : op) : list (srec B) :=
    match o with
    | OFlip i off mask => upd l i (fun r => flip_rec r off mask)
    | OSwap i j =>
      if in_range i l && in_range j l then
        match nth_error l (Z.to_nat i), nth_error l (Z.to_nat j) with
        | Some a, Some b => upd (upd l i (fun _ => b)) j (fun _ => a)
        | _, _ => l
        end
      else l
    | ODup i j =>
      if in_range i l then
        match nth_error l (Z.to_nat i) with Some a => insert_at l j a | None => l end
      else l
    | ODrop i => if in_range i l then firstn (Z.to_nat i) l ++ skipn (S (Z.to_nat i)) l else l
    | OForge i t v n => if (0 <=? n) && (n <? 65536) then insert_at l i (mkRec t v n n None) else l
    | OTrunc i n =>
      upd l i (fun r => if (0 <=? n) && (n <? r_actual r) then mkRec (r_typ r) (r_vers r) n n None else r)
    end.
  Definition apply_script (l : list (srec B)) (s : list op) : list (srec B) := fold_left apply_op s l.

  (* cutting the byte stream after n bytes (n < 0: no cut): returns the records and the trailing
     partial-header byte count *)
  Fixpoint cut (l : list (srec B)) (n : Z) : list (srec B) * Z :=
    match l with
    | [] => ([], 0)
    | r :: t =>
      if 5 + r_actual r <=? n then let '(t', tr) := cut t (n - (5 + r_actual r)) in (r :: t', tr)
      else if n <? 5 then ([], if n <? 0 then 0 else n)
      else ([mkRec (r_typ r) (r_vers r) (r_claim r) (n - 5) None], 0)
    end.
  Definition apply_cut (l : list (srec B)) (n : Z) : list (srec B) * Z :=
    if n <? 0 then (l, 0) else cut l n.
End AE.

(* ---- after the first error: the sticky error state ----
   readRecord stores every permanent error in c.in.err (setErrorLocked: protocol errors, local and remote
   alerts, io.EOF, io.ErrUnexpectedEOF).  A record whose decrypt failed is even parked in c.input with
   b.off = 0 (readRecord carries on to `c.input = b`), so the rejected bytes sit in the connection; Conn.Read
   tests c.in.err BEFORE it looks at c.input, which is what keeps them from the application.  Hence every
   Read call after the one that returned the error st returns (0 bytes, st), whatever its buffer size, and
   the sequence number does not move.  Conn.Write fails with the same error iff a local alert was sent
   (sendAlertLocked stores it in c.out.err), and succeeds otherwise. *)
Definition read_after (st : Z) (bufsize : Z) : Z * Z := (0, st).
Definition reads_after (st : Z) (bufs : list Z) : list (Z * Z) := map (read_after st) bufs.
Definition write_after (st : Z) : Z := if (100 <=? st) && (st <? 300) then st else 0.
Definition total_delivered (d : list Z) (more : list (Z * Z)) : Z :=
  blen d + fold_right (fun r a => fst r + a) 0 more.

(* ---- the free (Dolev-Yao) instance used for the executable model: a sealed body is the term itself ---- *)
(* pm = true: same sealed record, but some of its (unauthenticated) SSLv3 padding bytes were modified *)
Inductive sbody := Sealed (k t v : Z) (p : list Z) (pm : bool).
Definition sseal (k t v : Z) (p : list Z) : sbody := Sealed k t v p false.
Definition sopen (seq t v : Z) (b : sbody) : option (list Z) :=
  (* the version is covered by the MAC / additional data except by the SSLv3 MAC; modified padding is
     noticed by every version except SSLv3 *)
  match b with
  | Sealed k t' v' p pm =>
    if (k =? seq) && (t' =? t) && ((v' =? v) || (v =? 768)) && (negb pm || (v =? 768)) then Some p else None
  end.
Definition sbody_eqb (a b : sbody) : bool :=
  match a, b with
  | Sealed k t v p pm, Sealed k' t' v' p' pm' =>
    (k =? k') && (t =? t') && (v =? v') && list_Z_eqb p p' && Bool.eqb pm pm'
  end.

(* SSLv3 CBC with a peer that sends more than one block of padding: neither the MAC nor
   removePaddingSSL30 looks at padding bytes other than the last one.  A flipped ciphertext bit garbles
   its own plaintext block and flips one bit of the next block; the record still opens when the garbled
   block lies entirely inside the padding, is not the final block, and the flipped bit of the next block
   is not in the padding length byte. *)
Definition ssl3_longpad (c : cfg) : bool :=
  (c_vers c =? 768) && (c_kind c =? 1) && (c_pad c =? 2) && (1 <=? c_padx c) && (0 <? c_bs c).
Definition sbflip (c : cfg) (r : srec sbody) (off : Z) : option sbody :=
  if negb (ssl3_longpad c) then None
  else match r_body r with
       | Some (Sealed k t v p pm) =>
         let bs := c_bs c in
         let padstart := blen p + c_mac c in
         let T := padstart + blen (sender_pad c (blen p)) in
         let ob := off - 5 in
         let b := ob / bs in
         if (r_claim r =? r_actual r) && (r_actual r =? T) &&
            (padstart <=? b * bs) && ((b + 2) * bs <=? T) && negb ((b + 1) * bs + ob mod bs =? T - 1)
         then Some (Sealed k t v p true) else None
       | None => None
       end.
Definition has_pm (l : list (srec sbody)) : bool :=
  existsb (fun r => match r_body r with Some (Sealed _ _ _ _ pm) => pm | None => false end) l.
Definition srec_eqb (a b : srec sbody) : bool :=
  (r_typ a =? r_typ b) && (r_vers a =? r_vers b) && (r_claim a =? r_claim b) && (r_actual a =? r_actual b) &&
  match r_body a, r_body b with
  | Some x, Some y => sbody_eqb x y
  | None, None => true
  | _, _ => false
  end.
Fixpoint srecs_prefix (a b : list (srec sbody)) : bool :=      (* a is a prefix of b *)
  match a, b with
  | [], _ => true
  | x :: a', y :: b' => srec_eqb x y && srecs_prefix a' b'
  | _ :: _, [] => false
  end.
Definition srecs_eqb (a b : list (srec sbody)) : bool :=
  srecs_prefix a b && (Z.of_nat (length a) =? Z.of_nat (length b)).

(* the bytes the client application wrote *)
Definition sent_bytes (writes : list (list Z)) : list Z := concat writes.

(* well-formed suite shape (what VerifC42Params can return) *)
Definition wf_cfg (c : cfg) : bool :=
  (0 <=? c_kind c) && (c_kind c <=? 2) && (0 <=? c_mac c) && (0 <=? c_expl c) && (0 <=? c_ovh c) &&
  ((negb (c_kind c =? 1)) || (0 <? c_bs c)) && (0 <=? c_pad c) && (0 <=? c_padx c).
