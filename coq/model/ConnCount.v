(* C07 model: the active-connection counter of backends (bfe_balance/backend/bfe_backend.go: connNum,
   IncConnNum / DecConnNum) as driven by bfe_server/reverseproxy.go: clusterInvoke (retry loop) and FinishReq,
   for any number of concurrent requests.  Definitions only.

   BfeBackend.SetAvail / setAvail (availability, failNum), SetRestart and a conf reload that keeps a backend (BalanceRR.Update) do
   not touch connNum: they have no operation here (the harness interleaves them and the counts must not move).

   Per request the code keeps request.Trans.Backend (`trans`).  One loop iteration of clusterInvoke is
       BalanceOk b   : bal.Balance succeeded: DecConnNum(old trans) if set, trans := b
       ForwardFinish : a HandleForward filter returned Finish: trans := nil (since commit "fix: clusterInvoke
                       clears Trans.Backend ..."), return
       ForwardGoOn   : any other verdict: trans.IncConnNum()
       RoundTrip r   : transport.RoundTrip returned: 0 = response, 1 = error and allowRetry, 2 = error, no retry
       BalanceErr    : bal.Balance failed (retry budget exhausted, no backend): loop exits, trans unchanged
   and afterwards
       Finish        : FinishReq: DecConnNum(trans) if set.
   WebSocket and TLS-stream tunnels (findBackend / serve in bfe_websocket and bfe_stream server_conn.go) use the
   Tunnel* operations below on the same per-request record.
   `held` is a ghost field: the backend on which this request has an outstanding IncConnNum. *)
From Coq Require Import List ZArith Bool.
Import ListNotations.
Open Scope Z_scope.

Inductive op :=
| BalanceOk (b : nat)
| BalanceErr
| ForwardFinish
| ForwardGoOn
| RoundTrip (r : Z)
| Finish
(* tunnels: bfe_websocket/server_conn.go and bfe_stream/server_conn.go (findBackend + serve) *)
| TunnelPick (b : nat)     (* balanceHandler returned b: b.IncConnNum(), then net.DialTimeout *)
| TunnelDialFail           (* the dial failed: b.DecConnNum(), continue (at most connectRetryMax picks) *)
| TunnelEnd                (* serve returns (handshake failed, rejected, or the tunnel finished): deferred back.DecConnNum() *)
| TunnelGiveUp.            (* findBackend found no backend: errRetryTooMany, nothing held *)

Inductive phase := PLoop | PChosen | PSent | PDone | PFinished.

Record rstate := mkR { ph : phase; trans : option nat; held : option nat }.
Definition r_init : rstate := mkR PLoop None None.

Record state := mkS { counts : nat -> Z; reqs : nat -> rstate }.
Definition s_init : state := mkS (fun _ => 0) (fun _ => r_init).

Definition upd {A} (f : nat -> A) (k : nat) (v : A) : nat -> A := fun x => if Nat.eqb x k then v else f x.
Definition inc (c : nat -> Z) (b : nat) := upd c b (c b + 1).
Definition dec (c : nat -> Z) (b : nat) := upd c b (c b - 1).
Definition dec_opt (c : nat -> Z) (o : option nat) := match o with Some b => dec c b | None => c end.

(* one operation of request rid; None = the operation cannot occur in this phase of clusterInvoke *)
Definition step (s : state) (rid : nat) (o : op) : option state :=
  let r := reqs s rid in
  let set c r' := Some (mkS c (upd (reqs s) rid r')) in
  match ph r, o with
  | PLoop, BalanceOk b => set (dec_opt (counts s) (trans r)) (mkR PChosen (Some b) None)
  | PLoop, BalanceErr => set (counts s) (mkR PDone (trans r) (held r))
  | PChosen, ForwardFinish => set (counts s) (mkR PDone None (held r))
  | PChosen, ForwardGoOn =>
    match trans r with
    | Some b => set (inc (counts s) b) (mkR PSent (Some b) (Some b))
    | None => None
    end
  | PSent, RoundTrip x =>
    set (counts s) (mkR (if x =? 1 then PLoop else PDone) (trans r) (held r))
  | PDone, Finish => set (dec_opt (counts s) (trans r)) (mkR PFinished (trans r) None)
  | PLoop, TunnelPick b =>
    match trans r with
    | None => set (inc (counts s) b) (mkR PSent (Some b) (Some b))
    | Some _ => None
    end
  | PSent, TunnelDialFail => set (dec_opt (counts s) (trans r)) (mkR PLoop None None)
  | PSent, TunnelEnd => set (dec_opt (counts s) (trans r)) (mkR PFinished (trans r) None)
  | PLoop, TunnelGiveUp =>
    match trans r with
    | None => set (counts s) (mkR PFinished None None)
    | Some _ => None
    end
  | _, _ => None
  end.

(* a new request object takes the place of a finished one (harness bookkeeping: request slots are reused) *)
Definition reset (s : state) (rid : nat) : state := mkS (counts s) (upd (reqs s) rid r_init).

Fixpoint run_ops (s : state) (t : list (nat * op)) : option state :=
  match t with
  | [] => Some s
  | (rid, o) :: t' => match step s rid o with Some s' => run_ops s' t' | None => None end
  end.

(* number of requests (ids below n) that currently hold an increment on backend b *)
Fixpoint inflight (rs : nat -> rstate) (n : nat) (b : nat) : Z :=
  match n with
  | O => 0
  | S n' => inflight rs n' b + match held (rs n') with Some x => if Nat.eqb x b then 1 else 0 | None => 0 end
  end.

(* the pre-fix code did not clear trans at ForwardFinish; kept for the record of the defect *)
Definition step_prefix (s : state) (rid : nat) (o : op) : option state :=
  let r := reqs s rid in
  match ph r, o with
  | PChosen, ForwardFinish => Some (mkS (counts s) (upd (reqs s) rid (mkR PDone (trans r) (held r))))
  | _, _ => step s rid o
  end.
Fixpoint runp_ops (s : state) (t : list (nat * op)) : option state :=
  match t with
  | [] => Some s
  | (rid, o) :: t' => match step_prefix s rid o with Some s' => runp_ops s' t' | None => None end
  end.

(* ---- deriving the operation trace of one request from its script and the balancer's choices ----
   fwd    : verdict of the HandleForward chain per attempt (0 = Finish, anything else continues)
   steps  : outcome of each attempt that reaches a live backend: 0 reply 200, 1 / 2 transport error after connect
            (retriable: GET without body, RetryLevel = RetryGet), 3 hold then reply 200, 4 reply 500
   choice : backends chosen by bal.Balance per attempt (observed); backend `dead` refuses connections
   rm     : RetryMax (CrossRetry = 0): bal.Balance fails once RetryTime > rm
   Result: ops up to the end of the request or up to a held attempt; status for the client (0 while held);
   number of choices consumed; whether the request is now held; None = the choices do not fit the script. *)
Record sim := mkSim { m_ops : list op; m_status : Z; m_used : nat; m_held : bool }.

Fixpoint simulate (fuel : nat) (dead : nat) (rm : Z) (retry : Z) (fwd steps : list Z) (choice : list nat) : option sim :=
  match fuel with
  | O => None
  | S fuel' =>
    if rm <? retry then
      match choice with [] => Some (mkSim [BalanceErr; Finish] 500 0 false) | _ => None end
    else
      match choice with
      | [] => None
      | b :: choice' =>
        let fv := match fwd with v :: _ => v | [] => 1 end in
        let fwd' := tl fwd in
        if fv =? 0 then Some (mkSim [BalanceOk b; ForwardFinish; Finish] 500 1 false)
        else
          let cont (rest : option sim) (pre : list op) :=
              match rest with
              | Some m => Some (mkSim (pre ++ m_ops m) (m_status m) (S (m_used m)) (m_held m))
              | None => None
              end in
          if Nat.eqb b dead then
            cont (simulate fuel' dead rm (retry + 1) fwd' steps choice') [BalanceOk b; ForwardGoOn; RoundTrip 1]
          else
            let st := match steps with x :: _ => x | [] => 0 end in
            let steps' := tl steps in
            if (st =? 1) || (st =? 2) then
              cont (simulate fuel' dead rm (retry + 1) fwd' steps' choice') [BalanceOk b; ForwardGoOn; RoundTrip 1]
            else if st =? 3 then
              match choice' with
              | [] => Some (mkSim [BalanceOk b; ForwardGoOn] 0 1 true)
              | _ => None
              end
            else
              match choice' with
              | [] => Some (mkSim [BalanceOk b; ForwardGoOn; RoundTrip 0; Finish] (if st =? 4 then 500 else 200) 1 false)
              | _ => None
              end
      end
  end.
