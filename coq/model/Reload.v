(* C09: model of the reload path
     bfe_balance/bal_table.go      BalTableReload
     bfe_balance/bal_gslb          BalanceGslb.Reload / BackendReload / Release, SubCluster.update/release
     bfe_balance/bal_slb/bal_rr.go BalanceRR.Update / Release, BackendRR.UpdateWeight
   Names (cluster, sub-cluster, backend name) and addresses are numbers.  Every backend object carries `krel`,
   the number of times its closeChan has been closed; closing a closed channel panics, which is modelled by
   `None`.  Objects that leave the table are collected in `orphans`. *)
From Coq Require Import List ZArith Bool.
Import ListNotations.
Open Scope Z_scope.

Record bk := mkBk { kaddr : Z; kname : Z; kw : Z; kav : bool; kcn : Z; kfn : Z; krel : Z }.
Record sub := mkSub { sname : Z; sweight : Z; sbks : list bk }.
(* cmeta = (bal.totalWeight, bal.single, bal.avail): the selection short-cuts BalanceGslb.Reload recomputes *)
Definition meta := (Z * bool * Z)%type.
Definition meta0 : meta := (0, false, 0).
Record clu := mkClu { cname : Z; csubs : list sub; cmeta : meta }.
Record tbl := mkT { clus : list clu; orphans : list bk }.
Definition tbl0 : tbl := mkT [] [].

Definition bconf := list (Z * Z * Z).          (* addr, name, conf weight *)
Definition gconf := list (Z * Z).              (* sub-cluster name, weight *)

Definition memZ (x : Z) (l : list Z) : bool := existsb (Z.eqb x) l.

(* BfeBackend.Release: close(closeChan) *)
Definition release_bk (b : bk) : option bk :=
  if krel b >=? 1 then None else Some (mkBk (kaddr b) (kname b) (kw b) (kav b) (kcn b) (kfn b) (krel b + 1)).
(* BalanceRR.Release *)
Fixpoint release_all (l : list bk) : option (list bk) :=
  match l with
  | [] => Some []
  | b :: r => match release_bk b, release_all r with
              | Some b', Some r' => Some (b' :: r')
              | _, _ => None
              end
  end.

(* confMapMake: the last entry of an address wins *)
Fixpoint conf_last (a : Z) (c : bconf) (acc : option (Z * Z)) : option (Z * Z) :=
  match c with
  | [] => acc
  | (a', n, w) :: r => conf_last a r (if a' =? a then Some (n, w) else acc)
  end.
Definition set_weight (b : bk) (w : Z) : bk := mkBk (kaddr b) (kname b) (w * 100) (kav b) (kcn b) (kfn b) (krel b).

(* BalanceRR.Update, old backends: kept (weight updated, entry deleted from the map) or released *)
Fixpoint upd_old (c : bconf) (l : list bk) (used : list Z) : option (list bk * list bk * list Z) :=
  match l with
  | [] => Some ([], [], used)
  | b :: r =>
    match (if memZ (kaddr b) used then None else conf_last (kaddr b) c None) with
    | Some (_, w) =>
      match upd_old c r (kaddr b :: used) with
      | Some (k, rel, u) => Some (set_weight b w :: k, rel, u)
      | None => None
      end
    | None =>
      match release_bk b, upd_old c r used with
      | Some b', Some (k, rel, u) => Some (k, b' :: rel, u)
      | _, _ => None
      end
    end
  end.
Fixpoint insZ (x : Z) (l : list Z) : list Z :=
  match l with
  | [] => [x]
  | y :: r => if x <? y then x :: l else if x =? y then l else y :: insZ x r
  end.
Definition sort_dedup (l : list Z) : list Z := fold_right insZ [] l.
(* new backends (map iteration order in Go; canonical order here, the dump is sorted anyway) *)
Definition upd_new (c : bconf) (used : list Z) : list bk :=
  flat_map (fun a => if memZ a used then [] else
                     match conf_last a c None with
                     | Some (n, w) => [mkBk a n (w * 100) true 0 0 0]
                     | None => []
                     end)
           (sort_dedup (map (fun e => fst (fst e)) c)).
Definition update_rr (c : bconf) (l : list bk) : option (list bk * list bk) :=
  match upd_old c l [] with
  | Some (k, rel, u) => Some (k ++ upd_new c u, rel)
  | None => None
  end.

(* BalanceGslb.Reload *)
Fixpoint gfind (n : Z) (g : gconf) : option Z :=
  match g with
  | [] => None
  | (n', w) :: r => if n' =? n then Some w else gfind n r
  end.
(* old sub-clusters: (kept, old list as mutated in place (weights of kept ones), sub-clusters to release).
   After /repo commit "fix: BalanceGslb.Reload releases vanished sub clusters only after the total weight check"
   nothing is released before the total-weight check. *)
Fixpoint reload_old (g : gconf) (l : list sub) : list sub * list sub * list sub :=
  match l with
  | [] => ([], [], [])
  | s :: r =>
    let '(k, m, gone) := reload_old g r in
    match gfind (sname s) g with
    | Some w => let s' := mkSub (sname s) w (sbks s) in (s' :: k, s' :: m, gone)
    | None => (k, s :: m, s :: gone)
    end
  end.
Fixpoint release_subs (l : list sub) : option (list bk) :=
  match l with
  | [] => Some []
  | s :: r => match release_all (sbks s), release_subs r with
              | Some a, Some b => Some (a ++ b)
              | _, _ => None
              end
  end.
Fixpoint ins_sub (s : sub) (l : list sub) : list sub :=
  match l with
  | [] => [s]
  | x :: r => if sname s <? sname x then s :: l else x :: ins_sub s r
  end.
Definition sort_subs (l : list sub) : list sub := fold_right ins_sub [] l.
Definition pos_total (l : list sub) : Z :=
  fold_right (fun s acc => if sweight s >? 0 then sweight s + acc else acc) 0 l.
(* index of the last sub-cluster with weight > 0 (lastAvailIndex), 0 when there is none *)
Fixpoint last_pos (l : list sub) (i acc : Z) : Z :=
  match l with
  | [] => acc
  | s :: r => last_pos r (i + 1) (if sweight s >? 0 then i else acc)
  end.
Definition count_pos (l : list sub) : Z := Z.of_nat (length (filter (fun s => sweight s >? 0) l)).
(* totalWeight / single / avail as computed on the SORTED new list; bal.avail is only written when single *)
Definition new_meta (nl : list sub) (m : meta) : meta :=
  let single := count_pos nl =? 1 in
  (pos_total nl, single, if single then last_pos nl 0 0 else snd m).
(* result: sub list afterwards, released backends that left the list, error?, selection short-cuts *)
Definition reload_gslb (g : gconf) (l : list sub) (m : meta) : option (list sub * list bk * bool * meta) :=
  let '(kept, mutated, gone) := reload_old g l in
  let fresh := flat_map (fun e => if memZ (fst e) (map sname l) then [] else [mkSub (fst e) (snd e) []]) g in
  let nl := sort_subs (kept ++ fresh) in
  if pos_total nl =? 0 then Some (mutated, [], true, m)   (* error return: list and short-cuts kept, nothing released *)
  else match release_subs gone with
       | Some rel => Some (nl, rel, false, new_meta nl m)
       | None => None
       end.

(* BalanceGslb.BackendReload *)
Fixpoint bfind {A} (n : Z) (l : list (Z * A)) : option A :=
  match l with
  | [] => None
  | (n', x) :: r => if n' =? n then Some x else bfind n r
  end.
Fixpoint backend_reload (cb : list (Z * bconf)) (l : list sub) : option (list sub * list bk) :=
  match l with
  | [] => Some ([], [])
  | s :: r =>
    match bfind (sname s) cb with
    | Some c =>
      match update_rr c (sbks s), backend_reload cb r with
      | Some (bs, rel), Some (r', rel') => Some (mkSub (sname s) (sweight s) bs :: r', rel ++ rel')
      | _, _ => None
      end
    | None =>
      match backend_reload cb r with
      | Some (r', rel') => Some (s :: r', rel')
      | None => None
      end
    end
  end.

(* BalTableReload *)
Fixpoint cfind (n : Z) (l : list clu) : option clu :=
  match l with
  | [] => None
  | c :: r => if cname c =? n then Some c else cfind n r
  end.
Fixpoint ins_clu (c : clu) (l : list clu) : list clu :=
  match l with
  | [] => [c]
  | x :: r => if cname c <? cname x then c :: l else x :: ins_clu c r
  end.
(* phase 1: gslb reload of every configured cluster: (new clusters, released, some Reload returned an error) *)
Fixpoint phase1 (gs : list (Z * gconf)) (old : list clu) : option (list clu * list bk * bool) :=
  match gs with
  | [] => Some ([], [], false)
  | (n, g) :: r =>
    let subs := match cfind n old with Some c => csubs c | None => [] end in
    let m := match cfind n old with Some c => cmeta c | None => meta0 end in
    match reload_gslb g subs m, phase1 r old with
    | Some (subs', rel, e, m'), Some (cs, rel', e') => Some (ins_clu (mkClu n subs' m') cs, rel ++ rel', e || e')
    | _, _ => None
    end
  end.
(* clusters not configured any more: BalanceGslb.Release *)
Fixpoint release_clusters (l : list clu) : option (list bk) :=
  match l with
  | [] => Some []
  | c :: r =>
    match release_all (flat_map sbks (csubs c)), release_clusters r with
    | Some a, Some b => Some (a ++ b)
    | _, _ => None
    end
  end.
Fixpoint phase3 (bc : list (Z * list (Z * bconf))) (l : list clu) : option (list clu * list bk * bool) :=
  match l with
  | [] => Some ([], [], false)
  | c :: r =>
    match bfind (cname c) bc with
    | None => match phase3 bc r with
              | Some (r', rel, e) => Some (c :: r', rel, true)        (* "no backend conf": fails, cluster untouched *)
              | None => None
              end
    | Some cb =>
      match backend_reload cb (csubs c), phase3 bc r with
      | Some (subs, rel), Some (r', rel', e) => Some (mkClu (cname c) subs (cmeta c) :: r', rel ++ rel', e)
      | _, _ => None
      end
    end
  end.
(* result: table, (gslb error path taken, error returned) ; None = panic *)
Definition table_reload (gs : list (Z * gconf)) (bc : list (Z * list (Z * bconf))) (t : tbl) : option (tbl * bool * bool) :=
  match phase1 gs (clus t) with
  | None => None
  | Some (cs, rel1, gerr) =>
    let gone := filter (fun c => negb (memZ (cname c) (map fst gs))) (clus t) in
    match release_clusters gone with
    | None => None
    | Some rel2 =>
      match phase3 bc cs with
      | None => None
      | Some (cs', rel3, berr) => Some (mkT cs' (orphans t ++ rel1 ++ rel2 ++ rel3), gerr, gerr || berr)
      end
    end
  end.

(* does some BalanceGslb.Reload of this table reload take the "total weight = 0" error path? *)
Definition gslb_err_path (gs : list (Z * gconf)) (t : tbl) : bool :=
  match phase1 gs (clus t) with Some (_, _, e) => e | None => false end.

(* harness operation between reloads: change the dynamic state of one backend in the table *)
Definition poke_bk (kind v : Z) (b : bk) : bk :=
  if kind =? 0 then mkBk (kaddr b) (kname b) (kw b) (negb (v =? 0)) (kcn b) (if v =? 0 then kfn b else 0) (krel b)
  else if kind =? 1 then mkBk (kaddr b) (kname b) (kw b) (kav b) (kcn b + v) (kfn b) (krel b)
  else mkBk (kaddr b) (kname b) (kw b) (kav b) (kcn b) (kfn b + v) (krel b).
Definition poke (c s a kind v : Z) (t : tbl) : tbl :=
  mkT (map (fun cl => if cname cl =? c
                      then mkClu (cname cl) (map (fun sb => if sname sb =? s
                             then mkSub (sname sb) (sweight sb)
                                        (map (fun b => if kaddr b =? a then poke_bk kind v b else b) (sbks sb))
                             else sb) (csubs cl)) (cmeta cl)
                      else cl) (clus t)) (orphans t).

Definition all_bks (t : tbl) : list bk := flat_map (fun c => flat_map sbks (csubs c)) (clus t).

(* ---- selection: BalanceGslb.subClusterBalance for hash residue r, then SubCluster.balance (WrrSmooth) ----
   (retryTime 0, cross retry disabled; every residue and enough picks are tried, so the observable is the SET of
   selected (sub-cluster, backend) pairs and of error codes: 1 ErrBkNoSubCluster, 2 ErrBkNoBackend, 9 panic) *)
Fixpoint walk (l : list sub) (w : Z) (cur : option sub) : option sub :=
  match l with
  | [] => cur
  | s :: r => if sweight s <=? 0 then walk r w (Some s)
              else let w' := w - sweight s in if w' <? 0 then Some s else walk r w' (Some s)
  end.
Definition choose_sub (c : clu) (r : Z) : option sub :=
  let '(total, single, av) := cmeta c in
  if single then (if av <? 0 then None else nth_error (csubs c) (Z.to_nat av)) else walk (csubs c) r None.
Definition bk_eligible (b : bk) : bool := kav b && (kw b >? 0).
Definition sel_code (s : sub) (b : bk) : Z := sname s * 100 + kaddr b.
(* (picks, errors) for one residue *)
Definition select_r (c : clu) (r : Z) : list Z * list Z :=
  match choose_sub c r with
  | None => ([], [9])
  | Some s => match filter bk_eligible (sbks s) with
              | [] => ([], [2])
              | el => (map (sel_code s) el, [])
              end
  end.
Definition selected (c : clu) : list Z * list Z :=
  let total := fst (fst (cmeta c)) in
  if total <=? 0 then ([], [1])
  else let rs := map (fun k => select_r c (Z.of_nat k)) (seq 0 (Z.to_nat total)) in
       (sort_dedup (flat_map fst rs), sort_dedup (flat_map snd rs)).
