(* C40: model of the bfe_spdy serve-loop state machine (server_process_frame.go, server_flow_control.go,
   flow.go, the parts of server_conn.go and server_write_sched.go that decide which frames go out).
   One event = one call on the serve goroutine; the writer goroutine is modelled as "every frame the
   scheduler releases is written at once" (the harness drains sendChan/wroteFrame synchronously).
   Windows are Go int32 values: wrap-around is written explicitly where the code can reach it.
   Every panic("internal error ...") is the output Bug. *)
From Coq Require Import List ZArith Bool.
From Bfe Require Import lib.Val.
Import ListNotations.
Open Scope Z_scope.

Definition wrap32 (z : Z) : Z := (z + 2^31) mod 2^32 - 2^31.      (* int32(...) *)
Definition zmin (a b : Z) : Z := if a <? b then a else b.
Definition INITWIN : Z := 65536.
Definition MAXFRAME : Z := 16384.

(* flow.add: remain := (1<<31 - 1) - f.n  is int32 arithmetic and wraps when f.n < 0 *)
Definition flow_add (cur n : Z) : option Z :=
  let remain := wrap32 (2^31 - 1 - cur) in
  if remain <? n then None else Some (wrap32 (cur + n)).

Record stream := {
  sid : Z; sstate : Z;               (* 1 open, 3 half-closed (remote) *)
  sinflow : Z; soflow : Z;           (* st.inflow.n, st.flow.n *)
  decl : Z; bodyb : Z;               (* declBodyBytes, bodyBytes *)
  buf : Z;                           (* unread bytes in the body pipe *)
  hasbody : bool; bclosed : bool;    (* st.body != nil ; pipe closed by the handler *)
  replied : bool;
  outq : list (Z * Z * bool)         (* the stream's write queue: (kind, n, FIN); kind 0 DATA of n bytes,
                                        9 WINDOW_UPDATE(stream, n), 2 SYN_REPLY *)
}.
Record conn := {
  strs : list stream; maxid : Z; cur : Z;
  cinflow : Z; cflow : Z; initwin : Z;
  goaway : Z;                        (* -1 none, else the GOAWAY status sent *)
  dead : bool;                       (* serve loop returned *)
  maxstreams : Z
}.
Definition init_conn (maxs : Z) : conn :=
  {| strs := []; maxid := 0; cur := 0; cinflow := INITWIN; cflow := INITWIN; initwin := INITWIN;
     goaway := -1; dead := false; maxstreams := maxs |}.

(* frames sent to the client *)
Definition f_rst (id code : Z) : val := VL [VZ 3; VZ id; VZ code].
Definition f_goaway (last code : Z) : val := VL [VZ 7; VZ last; VZ code].
Definition f_wu (id d : Z) : val := VL [VZ 9; VZ id; VZ d].
Definition f_reply (id : Z) : val := VL [VZ 2; VZ id].
Definition f_data (id n : Z) (fin : bool) : val := VL [VZ 0; VZ id; VZ n; vbool fin].
Definition f_ping (id : Z) : val := VL [VZ 6; VZ id].
Definition Bug : val := VL [VZ (-2)].

Fixpoint find_s (id : Z) (l : list stream) : option stream :=
  match l with [] => None | s :: r => if sid s =? id then Some s else find_s id r end.
Fixpoint remove_s (id : Z) (l : list stream) : list stream :=
  match l with [] => [] | s :: r => if sid s =? id then r else s :: remove_s id r end.
Fixpoint update_s (s' : stream) (l : list stream) : list stream :=
  match l with [] => [] | s :: r => if sid s =? sid s' then s' :: r else s :: update_s s' r end.

Definition set_strs (c : conn) (l : list stream) (cu : Z) : conn :=
  {| strs := l; maxid := maxid c; cur := cu; cinflow := cinflow c; cflow := cflow c; initwin := initwin c;
     goaway := goaway c; dead := dead c; maxstreams := maxstreams c |}.
Definition set_cin (c : conn) (n : Z) : conn :=
  {| strs := strs c; maxid := maxid c; cur := cur c; cinflow := n; cflow := cflow c; initwin := initwin c;
     goaway := goaway c; dead := dead c; maxstreams := maxstreams c |}.
Definition set_cflow (c : conn) (n : Z) : conn :=
  {| strs := strs c; maxid := maxid c; cur := cur c; cinflow := cinflow c; cflow := n; initwin := initwin c;
     goaway := goaway c; dead := dead c; maxstreams := maxstreams c |}.
Definition set_dead (c : conn) : conn :=
  {| strs := strs c; maxid := maxid c; cur := cur c; cinflow := cinflow c; cflow := cflow c; initwin := initwin c;
     goaway := goaway c; dead := true; maxstreams := maxstreams c |}.
Definition upd (c : conn) (s : stream) : conn := set_strs c (update_s s (strs c)) (cur c).
(* closeStream *)
Definition close_s (c : conn) (id : Z) : conn := set_strs c (remove_s id (strs c)) (cur c - 1).

Definition s_with_in (s : stream) (inf b bb : Z) (stt : Z) : stream :=
  {| sid := sid s; sstate := stt; sinflow := inf; soflow := soflow s; decl := decl s; bodyb := bb; buf := b;
     hasbody := hasbody s; bclosed := bclosed s; replied := replied s; outq := outq s |}.
Definition s_with_out (s : stream) (ofl : Z) (rep : bool) (q : list (Z * Z * bool)) : stream :=
  {| sid := sid s; sstate := sstate s; sinflow := sinflow s; soflow := ofl; decl := decl s; bodyb := bodyb s;
     buf := buf s; hasbody := hasbody s; bclosed := bclosed s; replied := rep; outq := q |}.
Definition s_bclose (s : stream) : stream :=
  {| sid := sid s; sstate := sstate s; sinflow := sinflow s; soflow := soflow s; decl := decl s; bodyb := bodyb s;
     buf := buf s; hasbody := hasbody s; bclosed := true; replied := replied s; outq := outq s |}.

(* after a GOAWAY with a status other than OK the scheduler releases nothing any more *)
Definition muted (c : conn) : bool := 0 <? goaway c.
Definition emit (c : conn) (fs : list val) : list val := if muted c then [] else fs.

(* goAway(code): first call only; the GOAWAY frame itself is written *)
Definition go_away (c : conn) (code : Z) : conn * list val :=
  if 0 <=? goaway c then (c, [])
  else ({| strs := strs c; maxid := maxid c; cur := cur c; cinflow := cinflow c; cflow := cflow c;
           initwin := initwin c; goaway := code; dead := dead c; maxstreams := maxstreams c |},
        [f_goaway (maxid c) code]).
(* resetStream(StreamError{id, code}) *)
Definition reset_stream (c : conn) (id code : Z) : conn * list val :=
  let fs := emit c [f_rst id code] in
  match find_s id (strs c) with
  | Some _ => (close_s c id, fs)
  | None => (c, fs)
  end.

(* ---- the write scheduler (writeScheduler.take + wroteFrame), frames released one at a time ----
   take(): first a stream queue whose head costs nothing (a control frame or empty DATA), otherwise a stream
   whose head DATA can be (partly) sent within min(stream window, session window, 16384). *)
Definition head_nocost (s : stream) : bool :=
  match outq s with (k, n, _) :: _ => negb (k =? 0) || (n =? 0) | [] => false end.
Definition head_sendable (c : conn) (s : stream) : bool :=
  match outq s with (k, n, _) :: _ => (k =? 0) && (0 <? n) && (0 <? zmin (soflow s) (cflow c)) | [] => false end.
(* write the head of stream id's queue (whole, or the part that fits) *)
Definition take_head (c : conn) (id : Z) : conn * list val :=
  match find_s id (strs c) with
  | None => (c, [])
  | Some s =>
    match outq s with
    | [] => (c, [])
    | (k, n, fin) :: q =>
      if negb (k =? 0) then
        (upd c (s_with_out s (soflow s) (replied s) q), [if k =? 9 then f_wu id n else f_reply id])
      else
        let allowed := zmin (zmin (soflow s) (cflow c)) MAXFRAME in
        if (n =? 0) || (n <=? allowed) then
          let s' := s_with_out s (soflow s - n) (replied s) q in
          let c1 := set_cflow (upd c s') (cflow c - n) in
          if fin then
            (* wroteFrame: endsStream -> open: RST_STREAM(CANCEL) + close ; half-closed remote: close *)
            (close_s c1 id, f_data id n true :: (if sstate s =? 1 then [f_rst id 5] else []))
          else (c1, [f_data id n false])
        else
          let s' := s_with_out s (soflow s - allowed) (replied s) ((0, n - allowed, fin) :: q) in
          (set_cflow (upd c s') (cflow c - allowed), [f_data id allowed false])
    end
  end.
Fixpoint sched (fuel : nat) (c : conn) : conn * list val :=
  match fuel with
  | O => (c, [])
  | S f =>
    if muted c then (c, []) else
    match find head_nocost (strs c) with
    | Some s => let '(c1, f1) := take_head c (sid s) in let '(c2, f2) := sched f c1 in (c2, f1 ++ f2)
    | None =>
      match find (head_sendable c) (strs c) with
      | Some s => let '(c1, f1) := take_head c (sid s) in let '(c2, f2) := sched f c1 in (c2, f1 ++ f2)
      | None => (c, [])
      end
    end
  end.
Definition tickle (c : conn) : conn * list val := sched 400 c.
Definition then_tickle (r : conn * list val) : conn * list val :=
  let '(c, fs) := r in let '(c', fs') := tickle c in (c', fs ++ fs').

(* ---- client frames ---- *)
(* processSynStream; bad = request headers incomplete; cl = Content-Length or -1 *)
Definition process_syn (c : conn) (id : Z) (fin : bool) (cl : Z) (bad : bool) : conn * list val :=
  if 0 <=? goaway c then (c, [])
  else if negb (id mod 2 =? 1) || (id <? maxid c) then go_away c 1
  else if id =? maxid c then then_tickle (reset_stream c id 1)
  else
    let s := {| sid := id; sstate := if fin then 3 else 1; sinflow := INITWIN; soflow := wrap32 (initwin c);
                decl := if fin then 0 else cl; bodyb := 0; buf := 0; hasbody := negb fin; bclosed := false;
                replied := false; outq := [] |} in
    let c1 := {| strs := strs c ++ [s]; maxid := id; cur := cur c + 1; cinflow := cinflow c; cflow := cflow c;
                 initwin := initwin c; goaway := goaway c; dead := dead c; maxstreams := maxstreams c |} in
    if maxstreams c <? cur c1 then (set_dead c1, [])
    else if bad then then_tickle (reset_stream c1 id 1)
    else (c1, []).

(* refundDiscardedData + the stream error that follows: a dropped DATA frame of n bytes is charged to the
   session window and returned at once (WINDOW_UPDATE(0, n) first, then the RST_STREAM); if it does not
   fit the session window the stream error is FLOW_CONTROL_ERROR and nothing is returned.
   (take n then add n leaves sc.inflow unchanged.) *)
Definition drop_data (c : conn) (id n code : Z) : conn * list val :=
  if n =? 0 then then_tickle (reset_stream c id code)
  else if cinflow c <? n then then_tickle (reset_stream c id 7)
  else let '(c', fs) := then_tickle (reset_stream c id code) in (c', emit c [f_wu 0 n] ++ fs).

(* processData *)
Definition process_data (c : conn) (id n : Z) (fin : bool) : conn * list val :=
  match find_s id (strs c) with
  | None => drop_data c id n 2                                                   (* INVALID_STREAM *)
  | Some s =>
    if negb (sstate s =? 1) then drop_data c id n 9                              (* STREAM_ALREADY_CLOSED *)
    else if negb (hasbody s) then (c, [Bug])
    else if negb (decl s =? -1) && (decl s <? bodyb s + n) then drop_data c id n 1   (* Content-Length overrun *)
    else
      let step2 (c : conn) (s : stream) : conn * list val :=
        if fin then
          if negb (decl s =? -1) && negb (decl s =? bodyb s) then then_tickle (reset_stream c id 1)
          else (upd c (s_with_in s (sinflow s) (buf s) (bodyb s) 3), [])
        else (c, []) in
      if 0 <? n then
        if zmin (sinflow s) (cinflow c) <? n then then_tickle (reset_stream c id 7)   (* FLOW_CONTROL_ERROR *)
        else
          (* inflow.take(n) on stream and connection, then body.Write; a failed write hands the
             session window back (sendWindowUpdate(nil, n)) before the stream is reset *)
          if bclosed s || (INITWIN <? buf s + n) then
            let '(c', fs) := then_tickle (reset_stream (upd c (s_with_in s (sinflow s - n) (buf s) (bodyb s) 1)) id 9) in
            (c', emit c [f_wu 0 n] ++ fs)
          else
            let c1 := set_cin c (cinflow c - n) in
            let s1 := s_with_in s (sinflow s - n) (buf s + n) (bodyb s + n) 1 in
            step2 (upd c1 s1) s1
      else step2 c s
  end.

(* processWindowUpdate: delta is the 32-bit field, converted with int32() *)
Definition process_wu (c : conn) (id delta : Z) : conn * list val :=
  let d := wrap32 delta in
  if id =? 0 then
    match flow_add (cflow c) d with
    | Some n => tickle (set_cflow c n)
    | None => go_away c 7
    end
  else
    match find_s id (strs c) with
    | None => (c, [])
    | Some s =>
      match flow_add (soflow s) d with
      | Some n => tickle (upd c (s_with_out s n (replied s) (outq s)))
      | None => then_tickle (reset_stream c id 7)
      end
    end.

(* processResetStream *)
Definition process_rst (c : conn) (id : Z) : conn * list val :=
  match find_s id (strs c) with
  | Some _ => (close_s c id, [])
  | None => if id <=? maxid c then (c, []) else go_away c 1
  end.

(* processSettingInitialWindowSize *)
Definition process_settings (c : conn) (v : Z) : conn * list val :=
  let nw := wrap32 v in
  let growth := wrap32 (nw - initwin c) in
  let res := map (fun s => match flow_add (soflow s) growth with
                           | Some n => (s_with_out s n (replied s) (outq s), true)
                           | None => (s, false) end) (strs c) in
  let c1 := {| strs := map fst res; maxid := maxid c; cur := cur c; cinflow := cinflow c; cflow := cflow c;
               initwin := nw; goaway := goaway c; dead := dead c; maxstreams := maxstreams c |} in
  if forallb snd res then (c1, []) else go_away c1 7.

Definition process_ping (c : conn) (id : Z) : conn * list val :=
  if id mod 2 =? 0 then (c, []) else then_tickle (c, emit c [f_ping id]).

(* ---- handler side ---- *)
(* the handler reads up to k bytes of the body: noteBodyRead(st, n) *)
Definition handler_read (c : conn) (id k : Z) : conn * list val * Z :=
  match find_s id (strs c) with
  | None => (c, [], 0)
  | Some s =>
    let n := zmin k (buf s) in
    if n <=? 0 then (c, [], 0)
    else
      match flow_add (cinflow c) n with
      | None => (c, [Bug], n)
      | Some ci =>
        let c1 := set_cin c ci in
        if sstate s =? 3 then
          let '(c2, fs) := then_tickle (upd c1 (s_with_in s (sinflow s) (buf s - n) (bodyb s) 3), emit c1 [f_wu 0 n]) in (c2, fs, n)
        else
          match flow_add (sinflow s) n with
          | None => (c1, [Bug], n)
          | Some si =>
            let s1 := s_with_in s si (buf s - n) (bodyb s) (sstate s) in
            let s2 := s_with_out s1 (soflow s1) (replied s1) (outq s1 ++ [(9, n, false)]) in
            let '(c2, fs) := then_tickle (upd c1 s2, emit c1 [f_wu 0 n]) in (c2, fs, n)
          end
      end
  end.
(* the handler writes n response bytes (SYN_REPLY first if not sent yet) *)
Definition handler_write (c : conn) (id n : Z) (fin : bool) : conn * list val :=
  match find_s id (strs c) with
  | None => (c, [])
  | Some s =>
    let hdr := if replied s then [] else [(2, 0, false)] in
    let s' := s_with_out s (soflow s) true (outq s ++ hdr ++ [(0, n, fin)]) in
    tickle (upd c s')
  end.
Definition handler_close_body (c : conn) (id : Z) : conn * list val :=
  match find_s id (strs c) with
  | None => (c, [])
  | Some s => if hasbody s then (upd c (s_bclose s), []) else (c, [])
  end.

(* ---- one event ----  result: new state, frames, extra observation *)
Definition step (c : conn) (ev : val) : option (conn * list val * Z) :=
  if dead c then Some (c, [], 0) else
  match ev with
  | VL [VZ 1; VZ id; VZ fin; VZ cl; VZ bad] =>
    (* newWriterAndRequest refuses: 1 a pseudo header is missing, 3 scheme is neither http nor https,
       2 HEAD with an open body, cl < -1 an unparsable / negative Content-Length on an open body *)
    let f := negb (fin =? 0) in
    let refused := (bad =? 1) || (bad =? 3) || ((bad =? 2) && negb f) || ((cl <? -1) && negb f) in
    let '(c', fs) := process_syn c id f cl refused in Some (c', fs, 0)
  | VL [VZ 2; VZ id; VZ n; VZ fin] => let '(c', fs) := process_data c id n (negb (fin =? 0)) in Some (c', fs, 0)
  | VL [VZ 3; VZ id; VZ d] => let '(c', fs) := process_wu c id d in Some (c', fs, 0)
  | VL [VZ 4; VZ id; VZ _] => let '(c', fs) := process_rst c id in Some (c', fs, 0)
  | VL [VZ 5; VZ id; VZ k] => Some (handler_read c id k)
  | VL [VZ 6; VZ v] => let '(c', fs) := process_settings c v in Some (c', fs, 0)
  | VL [VZ 7; VZ id; VZ n; VZ fin] => let '(c', fs) := handler_write c id n (negb (fin =? 0)) in Some (c', fs, 0)
  | VL [VZ 8; VZ id] => let '(c', fs) := handler_close_body c id in Some (c', fs, 0)
  | VL [VZ 9; VZ id] => let '(c', fs) := process_ping c id in Some (c', fs, 0)
  | _ => None
  end.
Definition has_bug (fs : list val) : bool := existsb (val_eqb Bug) fs.
Definition obs (c : conn) (fs : list val) (x : Z) : val := VL [vbool (negb (dead c)); VL fs; VZ x].
Fixpoint run_events (c : conn) (evs : list val) : option (list val * conn) :=
  match evs with
  | [] => Some ([], c)
  | ev :: r =>
    match step c ev with
    | None => None
    | Some (c', fs, x) =>
      if has_bug fs then Some ([Bug], c')
      else match run_events c' r with
           | Some (os, cf) => Some (obs c' fs x :: os, cf)
           | None => None
           end
    end
  end.
Definition total_buf (c : conn) : Z := fold_left (fun a s => a + buf s) (strs c) 0.
