(* H2Flow: bfe_http2/flow.go (flow.available / take / add with int32 bounds) and the
   window-update primitive of bfe_http2/server.go (sendWindowUpdate / sendWindowUpdate32).
   Definitions only.  Used by model/H2Stream.v (serve-loop model, C33 + C35). *)
From Coq Require Import List ZArith Bool.
Import ListNotations.
Open Scope Z_scope.

Definition max_i31 : Z := 2147483647.          (* 1<<31 - 1 *)
Definition init_window : Z := 65535.           (* initialWindowSize, RFC 7540 6.9.2 *)

(* flow.available(): a stream flow is capped by the connection flow it links to *)
Definition flow_available (stream_n conn_n : Z) : Z := Z.min stream_n conn_n.

(* flow.add(n): None when the sum would exceed 2^31-1 (the Go function returns false) *)
Definition flow_add (f n : Z) : option Z :=
  if n >? max_i31 - f then None else Some (f + n).

(* flow.take(n) on a connection-level flow: None = panic("internal error: took too much") *)
Definition flow_take_conn (conn_n n : Z) : option Z :=
  if n >? conn_n then None else Some (conn_n - n).

(* flow.take(n) on a stream flow: decrements both; None = panic *)
Definition flow_take_stream (stream_n conn_n n : Z) : option (Z * Z) :=
  if n >? flow_available stream_n conn_n then None else Some (stream_n - n, conn_n - n).

(* sendWindowUpdate(st, n) for 0 <= n < 2^31-1 : returns the new inflow and the increment
   written (0 = no frame).  None = panic ("negative update" / "sent too many window updates").
   (The Go loop splitting n >= 2^31-1 is not reachable: n is bounded by a frame length / a Read size.) *)
Definition send_wu (inflow n : Z) : option (Z * Z) :=
  if n =? 0 then Some (inflow, 0)
  else if n <? 0 then None
  else match flow_add inflow n with
       | Some f => Some (f, n)
       | None => None
       end.

Example flow_add_overflow : flow_add max_i31 1 = None.
Proof. reflexivity. Qed.
Example flow_take_stream_capped : flow_take_stream 100 50 60 = None.
Proof. reflexivity. Qed.
Example send_wu_zero : send_wu 7 0 = Some (7, 0).
Proof. reflexivity. Qed.
