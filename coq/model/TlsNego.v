(* C41: model of the negotiation decisions of bfe_tls serverHandshakeState.readClientHello
   (handshake_server.go) with Config.mutualVersion / checkVersionGrade / checkCipherGrade (common.go),
   Conn.tryCipherSuite, negotiateEquivalentCipherSuites, checkEllipticMayOk, checkForResumption's policy,
   mutualProtocol, checkAndRemoveH2 and validateHttp2Accepted.  Definitions only.
   The cipher-suite table, flag bits and version constants come from coq/gen/TlsSuites.v, regenerated
   from the Go source on every run.  Ticket cryptography is abstracted: the ClientHello either carries
   no ticket, a ticket that fails decryptTicket, or a ticket this server issued for a given
   (version, suite, number of client certificates). The session-ID cache is not configured (nil).
   The model is of the code after the /repo fixes recorded in known_findings/C41.txt. *)
From Coq Require Import List ZArith Bool.
From Bfe Require Import lib.Val lib.Bytes gen.TlsSuites.
Import ListNotations.
Open Scope Z_scope.

Record rule := { r_grade : bytes; r_protos : list bytes; r_chacha : bool; r_client_auth : bool }.
Record config := {
  c_min : Z; c_max : Z;                 (* Config.MinVersion / MaxVersion, 0 = unset *)
  c_prefer_server : bool;               (* PreferServerCipherSuites *)
  c_suites : option (list Z);           (* CipherSuites, None = nil = default list *)
  c_priority : list Z;                  (* CipherSuitesPriority *)
  c_protos : list bytes;                (* NextProtos *)
  c_curves : list Z;                    (* CurvePreferences, [] = default *)
  c_poodle : bool;                      (* Ssl3PoodleProofed *)
  c_tickets_disabled : bool;            (* SessionTicketsDisabled *)
  c_client_auth : Z;                    (* ClientAuth 0..4 *)
  c_ecdsa : bool;                       (* Certificates[0] has an ECDSA key *)
  c_rule : option rule;                 (* ServerRule.Get(conn) for a connection without a listed SNI *)
  c_rules : list (bytes * rule);        (* ServerRule.Get(conn) by conn.serverName (exact match) *)
  c_certs : list (bytes * bool);        (* NameToCertificate: name -> certificate key is ECDSA *)
  c_cache : Z;
  c_reloads : Z }.                      (* number of session-ticket-key reloads (Config.Clone + UpdateListener) before the connection *)                        (* 0: ServerSessionCache = nil; 1: configured; 2: configured, SessionCacheDisabled *)

Inductive ticket := NoTicket | BadTicket | GoodTicket (svers ssuite ncerts : Z).
Record hello := {
  h_vers : Z; h_suites : list Z; h_comp : bytes; h_curves : list Z; h_points : bytes;
  h_alpn : list bytes; h_npn : bool; h_sni : bytes; h_sid : bytes; h_ticket : ticket;
  h_cache : ticket (* what ServerSessionCache.Get(hex(sessionId)) holds: nothing / undecodable / a session *) }.

Inductive outcome :=
| Alert (code : Z)
| Done (resume : bool) (vers suite : Z) (alpn : bytes) (npn : bool) (protos : list bytes).

Definition alert_handshake_failure : Z := 40.
Definition alert_protocol_version : Z := 70.
Definition alert_inappropriate_fallback : Z := 86.

Definition mem (x : Z) (l : list Z) : bool := existsb (Z.eqb x) l.
Definition memb (x : bytes) (l : list bytes) : bool := existsb (bytes_eqb x) l.

(* ---- versions ---- *)
Definition min_version (c : config) : Z := if c_min c =? 0 then default_min_version else c_min c.
Definition max_version (c : config) : Z := if c_max c =? 0 then default_max_version else c_max c.
Definition mutual_version (c : config) (v : Z) : option Z :=
  if v <? min_version c then None
  else Some (if max_version c <? v then max_version c else v).

Definition grade_of (c : config) : bytes :=
  match c_rule c with Some r => r_grade r | None => grade_c end.
Definition check_version_grade (v : Z) (g : bytes) : option Z :=
  if bytes_eqb g grade_a && (v <? version_tls10) then None
  else if bytes_eqb g grade_aplus && (v <? version_tls12) then None
  else Some v.
Definition check_cipher_grade (c : config) (g : bytes) (v : Z) : Z :=
  if bytes_eqb g grade_aplus || bytes_eqb g grade_a then rc4_disable
  else if bytes_eqb g grade_b then (if version_tls10 <=? v then rc4_disable else rc4_only)
  else if bytes_eqb g grade_c then
    (if c_poodle c && (v =? version_ssl30) then rc4_only else rc4_enable)
  else rc4_enable.

(* ---- cipher suites ---- *)
Fixpoint suite_flags_in (t : list (Z * Z)) (id : Z) : option Z :=
  match t with
  | [] => None
  | (i, f) :: r => if i =? id then Some f else suite_flags_in r id
  end.
Definition suite_flags : Z -> option Z := suite_flags_in suite_table.
Definition has (flags bit : Z) : bool := negb (Z.land flags bit =? 0).

(* the per-candidate checks of tryCipherSuite *)
Definition suite_usable (fl vers : Z) (ellipticOk ecdsaOk chachaOk : bool) (useRC4 : Z) : bool :=
  negb (has fl fl_ecdhe && negb ellipticOk) &&
  Bool.eqb (has fl fl_ecdsa) ecdsaOk &&
  negb ((vers <? version_tls12) && has fl fl_tls12) &&
  negb (has fl fl_chacha20 && negb chachaOk) &&
  negb (has fl fl_rc4 && (useRC4 =? rc4_disable)) &&
  negb (negb (has fl fl_rc4) && (useRC4 =? rc4_only)).

(* tryCipherSuite: scans `supported` for id; returns the index of the occurrence that passes *)
Fixpoint try_suite_from (i : Z) (id : Z) (supported : list Z) (vers : Z)
         (ellipticOk ecdsaOk chachaOk : bool) (useRC4 : Z) : option Z :=
  match supported with
  | [] => None
  | s :: r =>
    if id =? s then
      match suite_flags id with
      | Some fl =>
        if suite_usable fl vers ellipticOk ecdsaOk chachaOk useRC4 then Some i
        else try_suite_from (i + 1) id r vers ellipticOk ecdsaOk chachaOk useRC4
      | None => try_suite_from (i + 1) id r vers ellipticOk ecdsaOk chachaOk useRC4
      end
    else try_suite_from (i + 1) id r vers ellipticOk ecdsaOk chachaOk useRC4
  end.
Definition try_suite := try_suite_from 0.

(* normal negotiation: first id of the preference list that passes *)
Fixpoint pick_normal (prefs supported : list Z) (vers : Z) (el ec ch : bool) (rc4 : Z) : option Z :=
  match prefs with
  | [] => None
  | id :: r =>
    match try_suite id supported vers el ec ch rc4 with
    | Some _ => Some id
    | None => pick_normal r supported vers el ec ch rc4
    end
  end.

(* negotiateEquivalentCipherSuites: sel = (suite, serverOrder, clientOrder) *)
Fixpoint pick_equiv (ps : list (Z * Z)) (sel : option (Z * Z * Z)) (client : list Z) (vers : Z)
         (el ec ch : bool) (rc4 : Z) : option Z :=
  match ps with
  | [] => option_map (fun t => fst (fst t)) sel
  | (serverOrder, id) :: r =>
    let sel' :=
      match try_suite id client vers el ec ch rc4 with
      | Some clientOrder =>
        match sel with
        | None => Some (id, serverOrder, clientOrder)
        | Some (_, so, co) =>
          if (serverOrder =? so) && (clientOrder <? co) then Some (id, serverOrder, clientOrder) else sel
        end
      | None => sel
      end in
    match sel' with
    | Some (s, so, _) => if so <? serverOrder then Some s else pick_equiv r sel' client vers el ec ch rc4
    | None => pick_equiv r sel' client vers el ec ch rc4
    end
  end.

Definition cfg_suites (c : config) : list Z :=
  match c_suites c with Some l => l | None => map fst suite_table end.
Definition curve_prefs (c : config) : list Z :=
  match c_curves c with [] => [curve_p256; curve_p384; curve_p521] | l => l end.

Definition elliptic_may_ok (vers : Z) (supportedCurve supportedPoint : bool) (h : hello) : bool :=
  if vers <=? version_ssl30 then false
  else (supportedCurve && (blen (h_points h) =? 0)) ||
       (supportedPoint && (blen (h_curves h) =? 0)) ||
       ((blen (h_curves h) =? 0) && (blen (h_points h) =? 0)).

(* ---- application protocol ---- *)
Fixpoint mutual_protocol (client server : list bytes) : option bytes :=
  match server with
  | [] => None
  | s :: r => if memb s client then Some s else mutual_protocol client r
  end.
Definition proto_h2 : bytes := [104; 50].
Definition proto_http11 : bytes := [104; 116; 116; 112; 47; 49; 46; 49].
Definition remove_h2 (l : list bytes) : list bytes := filter (fun p => negb (bytes_eqb p proto_h2)) l.
(* validateHttp2Accepted *)
Definition h2_fix (alpn : bytes) (suite vers : Z) : bytes :=
  if bytes_eqb alpn proto_h2 && (negb (mem suite h2_accepted_ids) || (vers <? version_tls12))
  then proto_http11 else alpn.

Definition server_protos (c : config) : list bytes :=
  match c_rule c with Some r => r_protos r | None => c_protos c end.
Definition client_auth (c : config) : Z :=
  match c_rule c with
  | Some r => if r_client_auth r then 4 else c_client_auth c
  | None => c_client_auth c
  end.
Definition chacha_ok (c : config) : bool :=
  match c_rule c with Some r => r_chacha r | None => false end.

(* ---- checkForResumption ---- *)
(* the candidate session: ticket path when tickets are enabled and a ticket is present (a ticket that
   does not decrypt ends the attempt -- no fall-back to the cache), else the session-ID cache path *)
Definition session_of (c : config) (h : hello) : option (Z * Z * Z) :=
  let ticket_path := negb (c_tickets_disabled c) &&
                     match h_ticket h with NoTicket => false | _ => true end in
  if ticket_path then
    match h_ticket h with GoodTicket sv ss nc => Some (sv, ss, nc) | _ => None end
  else if blen (h_sid h) =? 0 then None
  else if c_cache c =? 1 then
    match h_cache h with GoodTicket sv ss nc => Some (sv, ss, nc) | _ => None end
  else None.

Definition resume_suite (c : config) (h : hello) (el : bool) (rc4 : Z) : option Z :=
  match session_of c h with
  | Some (sv, ss, nc) =>
    if h_vers h <? sv then None else
    match mutual_version c sv with
    | None => None
    | Some v' =>
      if negb (v' =? sv) then None else
      if negb (mem ss (h_suites h)) then None else
      match try_suite ss (cfg_suites c) sv el (c_ecdsa c) (chacha_ok c) rc4 with
      | None => None
      | Some _ =>
        let ca := client_auth c in
        let has_certs := negb (nc =? 0) in
        if ((ca =? 2) || (ca =? 4)) && negb has_certs then None
        else if has_certs && (ca =? 0) then None
        else Some ss
      end
    end
  | None => None
  end.

(* ---- readClientHello ---- *)
(* ALPN / NPN answer before validateHttp2Accepted: (alpn, nextProtoNeg, nextProtos) *)
Definition app_proto (c : config) (h : hello) : bytes * bool * list bytes :=
  let protos := server_protos c in
  match h_alpn h with
  | _ :: _ => (match mutual_protocol (h_alpn h) protos with Some s => s | None => [] end, false, [])
  | [] =>
    let ps := remove_h2 protos in
    if h_npn h && (match ps with [] => false | _ => true end) then ([], true, ps) else ([], false, [])
  end.

(* full-handshake suite choice: preference loops, equivalent-priority variant, ECDHE-without-extensions retry *)
Definition select_suite (c : config) (h : hello) (vers : Z) (supportedCurve supportedPoint : bool)
           (rc4 : Z) : option Z :=
  let el := supportedCurve && supportedPoint in
  let prefs := if c_prefer_server c then cfg_suites c else h_suites h in
  let supported := if c_prefer_server c then h_suites h else cfg_suites c in
  let ec := c_ecdsa c in
  let ch := chacha_ok c in
  let first :=
    if c_prefer_server c && (Z.of_nat (length (c_priority c)) =? Z.of_nat (length prefs))
    then pick_equiv (combine (c_priority c) prefs) None supported vers el ec ch rc4
    else pick_normal prefs supported vers el ec ch rc4 in
  match first with
  | Some s => Some s
  | None =>
    if elliptic_may_ok vers supportedCurve supportedPoint h
    then pick_normal (filter (fun id => mem id ecdhe_ids) prefs) supported vers true ec ch rc4
    else None
  end.

(* RFC 7507: fallback SCSV offered below the server's highest enabled version *)
Definition scsv_fallback (c : config) (h : hello) : bool :=
  mem tls_fallback_scsv (h_suites h) && (h_vers h <? max_version c).

(* the decisions for a connection whose rule and certificate are already selected (c_rule, c_ecdsa) *)
Definition negotiate1 (c : config) (h : hello) : outcome :=
  match mutual_version c (h_vers h) with
  | None => Alert alert_protocol_version
  | Some v0 =>
    match check_version_grade v0 (grade_of c) with
    | None => Alert alert_protocol_version
    | Some vers =>
      let rc4 := check_cipher_grade c (grade_of c) vers in
      let supportedCurve := existsb (fun cv => mem cv (curve_prefs c)) (h_curves h) in
      let supportedPoint := mem point_format_uncompressed (h_points h) in
      if negb (mem compression_none (h_comp h)) then Alert alert_handshake_failure else
      let ap := app_proto c h in
      (* checked with the effective maximum version and before resumption (after the /repo fix) *)
      if scsv_fallback c h then Alert alert_inappropriate_fallback else
      match resume_suite c h (supportedCurve && supportedPoint) rc4 with
      | Some s => Done true vers s (h2_fix (fst (fst ap)) s vers) (snd (fst ap)) (snd ap)
      | None =>
        match select_suite c h vers supportedCurve supportedPoint rc4 with
        | None => Alert alert_handshake_failure
        | Some s => Done false vers s (h2_fix (fst (fst ap)) s vers) (snd (fst ap)) (snd ap)
        end
      end
    end
  end.

(* ---- per-connection selection by server name ---- *)
Fixpoint lookup_rule (k : bytes) (l : list (bytes * rule)) : option rule :=
  match l with
  | [] => None
  | (n, r) :: t => if bytes_eqb n k then Some r else lookup_rule k t
  end.
Definition select_rule (c : config) (sni : bytes) : option rule :=
  match lookup_rule sni (c_rules c) with Some r => Some r | None => c_rule c end.

Fixpoint lookup_cert (k : bytes) (l : list (bytes * bool)) : option bool :=
  match l with
  | [] => None
  | (n, e) :: t => if bytes_eqb n k then Some e else lookup_cert k t
  end.
Fixpoint strip_dots (l : bytes) : bytes :=        (* on the reversed name *)
  match l with 46 :: r => strip_dots r | _ => l end.
(* labels[i] = "*" for i = 0, 1, ...: "*.b.c", "*.*.c", "*.*.*" *)
Fixpoint wild_loop (stars rest : list bytes) (certs : list (bytes * bool)) : option bool :=
  match rest with
  | [] => None
  | _ :: rest' =>
    let stars' := stars ++ [[42]] in
    match lookup_cert (join_byte 46 (stars' ++ rest')) certs with
    | Some e => Some e
    | None => wild_loop stars' rest' certs
    end
  end.
(* Config.getCertificateForName (ASCII names) *)
Definition cert_for_name (c : config) (name : bytes) : bool :=
  match c_certs c with
  | [] => c_ecdsa c
  | certs =>
    let n := rev (strip_dots (rev (to_lower name))) in
    match lookup_cert n certs with
    | Some e => e
    | None =>
      match wild_loop [] (split_byte 46 n) certs with
      | Some e => e
      | None => c_ecdsa c
      end
    end
  end.
Definition select_cert (c : config) (sni : bytes) : bool :=
  match sni with [] => c_ecdsa c | _ => cert_for_name c sni end.

(* the configuration as seen by one connection *)
Definition eff (c : config) (h : hello) : config :=
  {| c_min := c_min c; c_max := c_max c; c_prefer_server := c_prefer_server c; c_suites := c_suites c;
     c_priority := c_priority c; c_protos := c_protos c; c_curves := c_curves c; c_poodle := c_poodle c;
     c_tickets_disabled := c_tickets_disabled c; c_client_auth := c_client_auth c;
     c_ecdsa := select_cert c (h_sni h); c_rule := select_rule c (h_sni h);
     c_rules := []; c_certs := []; c_cache := c_cache c; c_reloads := c_reloads c |}.

Definition negotiate (c : config) (h : hello) : outcome := negotiate1 (eff c h) h.

(* ---- reload path: HttpsListener.UpdateSessionTicketKey = Config.Clone, new ticket key, UpdateListener.
   Clone copies the configuration field by field; the ticket key itself is not part of this model
   (tickets are abstracted to 'issued under the live key'). ---- *)
Definition clone (c : config) : config :=
  {| c_min := c_min c; c_max := c_max c; c_prefer_server := c_prefer_server c; c_suites := c_suites c;
     c_priority := c_priority c; c_protos := c_protos c; c_curves := c_curves c; c_poodle := c_poodle c;
     c_tickets_disabled := c_tickets_disabled c; c_client_auth := c_client_auth c; c_ecdsa := c_ecdsa c;
     c_rule := c_rule c; c_rules := c_rules c; c_certs := c_certs c; c_cache := c_cache c;
     c_reloads := c_reloads c |}.
Fixpoint reload_n (n : nat) (c : config) : config :=
  match n with O => c | S k => reload_n k (clone c) end.
(* the configuration live on the listener when the connection arrives *)
Definition live (c : config) : config := reload_n (Z.to_nat (Z.min (Z.max 0 (c_reloads c)) 16)) c.
(* observation of the harness: negotiation outcome on the live config, and the list of Config fields
   (other than the ticket key) that differ between the configured and the live Config: none *)
Definition serve (c : config) (h : hello) : outcome * list bytes := (negotiate (live c) h, []).
