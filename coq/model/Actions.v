(* Model of the rewrite / header / redirect actions:
     bfe_basic/action (ActionFileCheck, Action.Do and the Req* functions, after /repo fixes ba1d58d, ddd9210, ccf0ec4),
     mod_rewrite rule loading (allowActions), mod_header (ActionFileCheck, actionConvert, HEADER_SET/ADD/DEL on
     literal values), mod_redirect (ActionFileCheck, URL_SET / URL_FROM_QUERY / URL_PREFIX_ADD / SCHEME_SET).
   Command tables come from gen/Actions.v (translator tools/xlate/actions).  Strings are byte lists.
   Definitions only. *)
From Coq Require Import List ZArith Bool String Ascii.
From Bfe Require Import lib.Val lib.Bytes gen.Actions.
Import ListNotations.
Open Scope Z_scope.

Definition bs (s : string) : bytes := map (fun a => Z.of_N (N_of_ascii a)) (list_ascii_of_string s).
Definition mem (x : bytes) (l : list bytes) : bool := existsb (bytes_eqb x) l.
Fixpoint assoc {A} (k : bytes) (l : list (bytes * A)) : option A :=
  match l with [] => None | (k', v) :: r => if bytes_eqb k k' then Some v else assoc k r end.
Definition nonempty {A} (l : list A) : bool := match l with [] => false | _ => true end.
Definition llen {A} (l : list A) : Z := Z.of_nat (List.length l).

(* ---------- net/url: QueryUnescape, ParseQuery (Go >= 1.17: pairs containing ';' are dropped) ---------- *)
Definition hexval (c : Z) : option Z :=
  if (48 <=? c) && (c <=? 57) then Some (c - 48)
  else if (97 <=? c) && (c <=? 102) then Some (c - 87)
  else if (65 <=? c) && (c <=? 70) then Some (c - 55)
  else None.
Fixpoint unescape (s : bytes) : option bytes :=
  match s with
  | [] => Some []
  | c :: r =>
    if c =? 37 then
      match r with
      | h1 :: h2 :: r' =>
        match hexval h1, hexval h2, unescape r' with
        | Some a, Some b, Some t => Some ((a * 16 + b) :: t)
        | _, _, _ => None
        end
      | _ => None
      end
    else match unescape r with
         | Some t => Some ((if c =? 43 then 32 else c) :: t)
         | None => None
         end
  end.
(* strings.Cut(s, "=") *)
Fixpoint cut_eq (s : bytes) : bytes * bytes :=
  match s with
  | [] => ([], [])
  | c :: r => if c =? 61 then ([], r) else let '(a, b) := cut_eq r in (c :: a, b)
  end.
Definition raw_key (seg : bytes) : bytes := fst (cut_eq seg).
(* one '&'-separated parameter -> zero or one decoded (key, value) pair *)
Definition parse_seg (seg : bytes) : list (bytes * bytes) :=
  if existsb (Z.eqb 59) seg then []
  else match seg with
       | [] => []
       | _ => let '(k, v) := cut_eq seg in
              match unescape k, unescape v with
              | Some k', Some v' => [(k', v')]
              | _, _ => []
              end
       end.
Definition parse_query (raw : bytes) : list (bytes * bytes) := flat_map parse_seg (split_byte 38 raw).
Definition query_get (k : bytes) (q : list (bytes * bytes)) : bytes :=
  match assoc k q with Some v => v | None => [] end.      (* url.Values.Get: first value or "" *)

(* ---------- bfe_basic/action ---------- *)
Record url := mkUrl { u_host : bytes; u_path : bytes; u_query : bytes }.   (* Request.Host, URL.Path, URL.RawQuery *)

Definition trim_prefix (p s : bytes) : bytes := if is_prefix p s then skipn (List.length p) s else s.
Definition has_suffix (suf s : bytes) : bool := is_suffix suf s.
Definition trim_suffix (suf s : bytes) : bytes :=
  if is_suffix suf s then firstn (List.length s - List.length suf) s else s.
Definition ensure_slash (p : bytes) : bytes := if is_prefix [47] p then p else 47 :: p.

(* strings.SplitN(path, "/", 3) with at least 3 parts -> (parts[1], parts[2]) *)
Fixpoint cut_slash (s : bytes) : option (bytes * bytes) :=
  match s with
  | [] => None
  | c :: r => if c =? 47 then Some ([], r)
              else match cut_slash r with Some (a, b) => Some (c :: a, b) | None => None end
  end.
Definition host_from_path (u : url) : url :=
  match cut_slash (u_path u) with
  | Some (_, rest) =>
    match cut_slash rest with
    | Some (seg1, seg2) => mkUrl seg1 (47 :: seg2) (u_query u)
    | None => u
    end
  | None => u
  end.
Definition host_suffix_replace (u : url) (old new : bytes) : url :=
  if has_suffix old (u_host u) then mkUrl (trim_suffix old (u_host u) ++ new) (u_path u) (u_query u) else u.
Definition path_prefix_add (u : url) (p : bytes) : url :=
  mkUrl (u_host u) (ensure_slash (p ++ trim_prefix [47] (u_path u))) (u_query u).
Definition path_prefix_trim (u : url) (p : bytes) : url :=
  mkUrl (u_host u) (ensure_slash (trim_prefix p (u_path u))) (u_query u).

(* ReqQueryAdd with one (key, value) pair: raw text appended, nothing escaped *)
Definition query_add (raw k v : bytes) : bytes :=
  match raw with [] => k ++ 61 :: v | _ => raw ++ 38 :: k ++ 61 :: v end.
(* the part of a parameter after its raw key: "" or "=" ++ value text *)
Definition raw_rest (seg : bytes) : bytes := skipn (List.length (raw_key seg)) seg.
(* ReqQueryRename (fix 3ed95ca): only if the decoded key exists; per parameter, decoded key compared, raw key text
   replaced by the new name (inserted as is) *)
Definition rename_seg (old new seg : bytes) : bytes :=
  match unescape (raw_key seg) with
  | Some k => if bytes_eqb k old then new ++ raw_rest seg else seg
  | None => seg
  end.
Definition rename_raw (raw old new : bytes) : bytes := join_byte 38 (map (rename_seg old new) (split_byte 38 raw)).
Definition query_rename (raw old new : bytes) : bytes :=
  if mem old (map fst (parse_query raw)) then rename_raw raw old new else raw.
(* queryFilter (fix ccf0ec4): per parameter, decoded key *)
Definition query_filter (del : option bytes -> bool) (raw : bytes) : bytes :=
  match raw with
  | [] => []
  | _ => join_byte 38 (filter (fun seg => negb (del (unescape (raw_key seg)))) (split_byte 38 raw))
  end.
Definition del_pred (keys : list bytes) (k : option bytes) : bool :=
  match k with Some k' => mem k' keys | None => false end.
Definition query_del (raw : bytes) (keys : list bytes) : bytes := query_filter (del_pred keys) raw.
Definition query_del_all_except (raw : bytes) (keys : list bytes) : bytes :=
  query_filter (fun k => negb (del_pred keys k)) raw.

Definition s_HOST_SET := Eval compute in bs "HOST_SET".
Definition s_HOST_SET_FROM_PATH_PREFIX := Eval compute in bs "HOST_SET_FROM_PATH_PREFIX".
Definition s_HOST_SUFFIX_REPLACE := Eval compute in bs "HOST_SUFFIX_REPLACE".
Definition s_PATH_SET := Eval compute in bs "PATH_SET".
Definition s_PATH_PREFIX_ADD := Eval compute in bs "PATH_PREFIX_ADD".
Definition s_PATH_PREFIX_TRIM := Eval compute in bs "PATH_PREFIX_TRIM".
Definition s_QUERY_ADD := Eval compute in bs "QUERY_ADD".
Definition s_QUERY_DEL := Eval compute in bs "QUERY_DEL".
Definition s_QUERY_RENAME := Eval compute in bs "QUERY_RENAME".
Definition s_QUERY_DEL_ALL_EXCEPT := Eval compute in bs "QUERY_DEL_ALL_EXCEPT".
Definition s_REQ_HEADER_SET := Eval compute in bs "REQ_HEADER_SET".
Definition s_REQ_HEADER_ADD := Eval compute in bs "REQ_HEADER_ADD".
Definition s_REQ_HEADER_DEL := Eval compute in bs "REQ_HEADER_DEL".
Definition s_RSP_HEADER_SET := Eval compute in bs "RSP_HEADER_SET".
Definition s_RSP_HEADER_ADD := Eval compute in bs "RSP_HEADER_ADD".
Definition s_RSP_HEADER_DEL := Eval compute in bs "RSP_HEADER_DEL".
Definition s_URL_SET := Eval compute in bs "URL_SET".
Definition s_URL_FROM_QUERY := Eval compute in bs "URL_FROM_QUERY".
Definition s_URL_PREFIX_ADD := Eval compute in bs "URL_PREFIX_ADD".
Definition s_SCHEME_SET := Eval compute in bs "SCHEME_SET".
Definition s_http := Eval compute in bs "http".
Definition s_https := Eval compute in bs "https".
Definition s_css := Eval compute in bs "://".

(* generic part of the three ActionFileCheck functions: known command, parameter count, no empty parameter *)
Definition table_accepts (t : list (bytes * Z)) (cmd : bytes) (params : list bytes) : bool :=
  match assoc cmd t with
  | None => false
  | Some ar => ((ar =? -1) || (llen params =? ar))
  end.
(* bfe_basic/action.ActionFileCheck: command upper-cased first; add/set header names must start with X-BFE- *)
Definition action_file_check (cmd : bytes) (params : list bytes) : bool :=
  let c := to_upper cmd in
  table_accepts action_check_table c params
  && forallb nonempty params
  && (negb (bytes_eqb c s_REQ_HEADER_SET || bytes_eqb c s_REQ_HEADER_ADD)
      || is_prefix action_header_prefix (to_upper (hd [] params))).
(* a mod_rewrite rule with this single action loads *)
Definition rewrite_accepts (cmd : bytes) (params : list bytes) : bool :=
  action_file_check cmd params && mem (to_upper cmd) rewrite_allowed.

(* string-keyed multimaps kept sorted by key: http headers and url.Values *)
Definition header := list (bytes * list bytes).     (* canonical key -> value lines, keys unique *)
(* byte-wise string order (Go's <), used to keep the key-sorted presentation of the header map *)
Fixpoint bytes_ltb (a b : bytes) : bool :=
  match a, b with
  | _, [] => false
  | [], _ :: _ => true
  | x :: a', y :: b' => (x <? y) || ((x =? y) && bytes_ltb a' b')
  end.
Fixpoint hdr_set (k : bytes) (vs : list bytes) (h : header) : header :=
  match h with
  | [] => [(k, vs)]
  | (k', v') :: r =>
    if bytes_eqb k k' then (k, vs) :: r
    else if bytes_ltb k k' then (k, vs) :: (k', v') :: r
    else (k', v') :: hdr_set k vs r
  end.
Definition hdr_get (k : bytes) (h : header) : list bytes := match assoc k h with Some v => v | None => [] end.
Definition hdr_del (k : bytes) (h : header) : header := filter (fun kv => negb (bytes_eqb k (fst kv))) h.
Definition hdr_add (k v : bytes) (h : header) : header := hdr_set k (hdr_get k h ++ [v]) h.


(* ---- Request.Query: the parsed query cached on the request (url.Values), updated by the query actions next to
   the raw query string ---- *)
Definition has_key (k : bytes) (m : header) : bool := existsb (fun kv => bytes_eqb k (fst kv)) m.
Definition qmap_of (pairs : list (bytes * bytes)) : header :=
  fold_left (fun m kv => hdr_add (fst kv) (snd kv) m) pairs [].
Record rstate := mkSt { s_url : url; s_cache : option header }.
(* queryParse: re-use req.Query, else parse URL.RawQuery *)
Definition cache_of (st : rstate) : header :=
  match s_cache st with Some m => m | None => qmap_of (parse_query (u_query (s_url st))) end.

(* Action.Do for the commands mod_rewrite allows *)
Inductive rwcmd := HostSet | HostFromPath | HostSuffixReplace | PathSet | PathPrefixAdd | PathPrefixTrim
                 | QueryAdd | QueryRename | QueryDel | QueryDelAllExcept.
Definition rw_cmd_of (cmd : bytes) : option rwcmd :=
  if bytes_eqb cmd s_HOST_SET then Some HostSet
  else if bytes_eqb cmd s_HOST_SET_FROM_PATH_PREFIX then Some HostFromPath
  else if bytes_eqb cmd s_HOST_SUFFIX_REPLACE then Some HostSuffixReplace
  else if bytes_eqb cmd s_PATH_SET then Some PathSet
  else if bytes_eqb cmd s_PATH_PREFIX_ADD then Some PathPrefixAdd
  else if bytes_eqb cmd s_PATH_PREFIX_TRIM then Some PathPrefixTrim
  else if bytes_eqb cmd s_QUERY_ADD then Some QueryAdd
  else if bytes_eqb cmd s_QUERY_RENAME then Some QueryRename
  else if bytes_eqb cmd s_QUERY_DEL then Some QueryDel
  else if bytes_eqb cmd s_QUERY_DEL_ALL_EXCEPT then Some QueryDelAllExcept
  else None.
Definition rw_step (c : rwcmd) (params : list bytes) (st : rstate) : rstate :=
  let u := s_url st in
  let p0 := nth 0 params [] in
  let p1 := nth 1 params [] in
  let qurl := fun q => mkUrl (u_host u) (u_path u) q in
  match c with
  | HostSet => mkSt (mkUrl p0 (u_path u) (u_query u)) (s_cache st)
  | HostFromPath => mkSt (host_from_path u) (s_cache st)
  | HostSuffixReplace => mkSt (host_suffix_replace u p0 p1) (s_cache st)
  | PathSet => mkSt (mkUrl (u_host u) p0 (u_query u)) (s_cache st)
  | PathPrefixAdd => mkSt (path_prefix_add u p0) (s_cache st)
  | PathPrefixTrim => mkSt (path_prefix_trim u p0) (s_cache st)
  | QueryAdd =>
    let m := cache_of st in
    (* queries.Get(key) == "" ? Set : Add *)
    let m' := if nonempty (hd [] (hdr_get p0 m)) then hdr_add p0 p1 m else hdr_set p0 [p1] m in
    mkSt (qurl (query_add (u_query u) p0 p1)) (Some m')
  | QueryRename =>
    let m := cache_of st in
    if has_key p0 m
    then mkSt (qurl (rename_raw (u_query u) p0 p1)) (Some (hdr_set p1 (hdr_get p0 m) (hdr_del p0 m)))
    else mkSt u (Some m)
  | QueryDel =>
    mkSt (qurl (query_del (u_query u) params)) (Some (fold_left (fun m k => hdr_del k m) params (cache_of st)))
  | QueryDelAllExcept =>
    mkSt (qurl (query_del_all_except (u_query u) params))
         (Some (filter (fun kv => mem (fst kv) params) (cache_of st)))
  end.
(* one action on a fresh request (no cached query): the URL afterwards *)
Definition rw_do (c : rwcmd) (params : list bytes) (u : url) : url := s_url (rw_step c params (mkSt u None)).
Definition action_step (cmd : bytes) (params : list bytes) (st : rstate) : rstate :=
  match rw_cmd_of cmd with Some c => rw_step c params st | None => st end.
Definition action_do (cmd : bytes) (params : list bytes) (u : url) : url := s_url (action_step cmd params (mkSt u None)).
(* load a one-action rule and run it: None = the configuration is rejected *)
Definition rewrite_run (cmd : bytes) (params : list bytes) (u : url) : option rstate :=
  if rewrite_accepts cmd params then Some (action_step (to_upper cmd) params (mkSt u None)) else None.

(* a rule file: rules = (condition matches, Last flag, actions); every action must load; the rules are tried in
   order, a matching rule runs its actions in order, Last stops the scan *)
Definition rw_rule := (bool * bool * list (bytes * list bytes))%type.
Definition rules_accept (rs : list rw_rule) : bool :=
  forallb (fun r => forallb (fun a => rewrite_accepts (fst a) (snd a)) (snd r)) rs.
Definition run_actions (acts : list (bytes * list bytes)) (st : rstate) : rstate :=
  fold_left (fun st a => action_step (to_upper (fst a)) (snd a) st) acts st.
Fixpoint run_rules (rs : list rw_rule) (st : rstate) : rstate :=
  match rs with
  | [] => st
  | (m, last, acts) :: rest =>
    if m then let st' := run_actions acts st in if last then st' else run_rules rest st'
    else run_rules rest st
  end.
Definition rewrite_rules_run (rs : list rw_rule) (u : url) : option rstate :=
  if rules_accept rs then Some (run_rules rs (mkSt u None)) else None.

(* ---- the rewrite rule table and its reload path (loadConfData -> ReWriteConfLoad -> ReWriteTable.Update) ---- *)
Definition rw_conf := list (bytes * list rw_rule).          (* product -> rule list; product names distinct *)
Definition rw_conf_ok (c : rw_conf) : bool := forallb (fun pr => rules_accept (snd pr)) c.
Fixpoint rw_lookup (product : bytes) (t : rw_conf) : option (list rw_rule) :=
  match t with
  | [] => None
  | (p, rs) :: rest => if bytes_eqb product p then Some rs else rw_lookup product rest
  end.
(* Update REPLACES the product map; a rejected file leaves the table as it was *)
Definition rw_table_load (t c : rw_conf) : rw_conf := if rw_conf_ok c then c else t.
(* rewriteHandler: the product's rules of the current table, nothing for an unknown product *)
Definition rw_request (t : rw_conf) (product : bytes) (u : url) : rstate :=
  match rw_lookup product t with
  | Some rs => run_rules rs (mkSt u None)
  | None => mkSt u None
  end.

(* ---------- mod_header ---------- *)
(* isTokenTable *)
Definition is_tchar (c : Z) : bool :=
  ((48 <=? c) && (c <=? 57)) || ((65 <=? c) && (c <=? 90)) || ((97 <=? c) && (c <=? 122))
  || existsb (Z.eqb c) [33; 35; 36; 37; 38; 39; 42; 43; 45; 46; 94; 95; 96; 124; 126].
Fixpoint canon_go (upper : bool) (s : bytes) : bytes :=
  match s with
  | [] => []
  | c :: r =>
    let c' := if upper then upper_byte c else lower_byte c in
    c' :: canon_go (c' =? 45) r
  end.
(* textproto.CanonicalMIMEHeaderKey *)
Definition canonical_key (s : bytes) : bytes := if forallb is_tchar s then canon_go true s else s.

Definition s_REQ_HEADER_RENAME := Eval compute in bs "REQ_HEADER_RENAME".
Definition s_RSP_HEADER_RENAME := Eval compute in bs "RSP_HEADER_RENAME".
Definition s_REQ_HEADER_MOD := Eval compute in bs "REQ_HEADER_MOD".
Definition s_RSP_HEADER_MOD := Eval compute in bs "RSP_HEADER_MOD".
Definition s_Referer := Eval compute in bs "Referer".
Definition s_Location := Eval compute in bs "Location".
Definition s_http_css := Eval compute in bs "http://".
Definition s_https_css := Eval compute in bs "https://".

(* ---- header value templates: splitParam / preProcessParams / getHeaderValue (ASCII values) ---- *)
Fixpoint span (f : Z -> bool) (s : bytes) : bytes * bytes :=
  match s with
  | [] => ([], [])
  | c :: r => if f c then let '(a, b) := span f r in (c :: a, b) else ([], s)
  end.
Definition not_pct (c : Z) : bool := negb (c =? 37).
Definition is_varchar (c : Z) : bool := ((97 <=? c) && (c <=? 122)) || ((48 <=? c) && (c <=? 57)) || (c =? 95).
(* splitParam: literal runs, "%%" + literal run, "%" + [a-z0-9_]*  (a lone trailing "%" is a piece of its own) *)
Fixpoint split_param (fuel : nat) (s : bytes) : list bytes :=
  match fuel with
  | O => []
  | S f =>
    match s with
    | [] => []
    | c :: r =>
      if not_pct c then let '(lit, rest) := span not_pct r in (c :: lit) :: split_param f rest
      else match r with
           | [] => [[37]]
           | d :: r' =>
             if d =? 37 then let '(lit, rest) := span not_pct r' in (37 :: 37 :: lit) :: split_param f rest
             else let '(v, rest) := span is_varchar r in (37 :: v) :: split_param f rest
           end
    end
  end.
Definition pieces (v : bytes) : list bytes := split_param (S (List.length v)) v.
Definition is_var_piece (p : bytes) : bool := is_prefix [37] p && negb (is_prefix [37; 37] p).
(* preProcessParams: every %name piece must name a known variable (looked up lower-cased) *)
Definition value_ok (v : bytes) : bool :=
  forallb (fun p => negb (is_var_piece p) || mem (to_lower (tl p)) header_variables) (pieces v).
(* getHeaderValue: vars = the values of the variable handlers for this request (external, supplied per case) *)
Definition eval_piece (vars : list (bytes * bytes)) (p : bytes) : bytes :=
  if is_prefix [37] p then match assoc (tl p) vars with Some x => x | None => tl p end else p.
Definition eval_value (vars : list (bytes * bytes)) (v : bytes) : bytes := flat_map (eval_piece vars) (pieces v).
(* every variable a value uses has a value in vars *)
Definition vars_cover (vars : list (bytes * bytes)) (v : bytes) : bool :=
  forallb (fun p => negb (is_var_piece p) || match assoc (tl p) vars with Some _ => true | None => false end) (pieces v).

Inductive hcmd := HSet | HAdd | HDel | HRename | HModScheme.
Definition header_cmd (cmd : bytes) : option (bool * hcmd) :=       (* true = request header *)
  if bytes_eqb cmd s_REQ_HEADER_SET then Some (true, HSet)
  else if bytes_eqb cmd s_REQ_HEADER_ADD then Some (true, HAdd)
  else if bytes_eqb cmd s_REQ_HEADER_DEL then Some (true, HDel)
  else if bytes_eqb cmd s_RSP_HEADER_SET then Some (false, HSet)
  else if bytes_eqb cmd s_RSP_HEADER_ADD then Some (false, HAdd)
  else if bytes_eqb cmd s_RSP_HEADER_DEL then Some (false, HDel)
  else if bytes_eqb cmd s_REQ_HEADER_RENAME then Some (true, HRename)
  else if bytes_eqb cmd s_RSP_HEADER_RENAME then Some (false, HRename)
  else if bytes_eqb cmd s_REQ_HEADER_MOD then Some (true, HModScheme)
  else if bytes_eqb cmd s_RSP_HEADER_MOD then Some (false, HModScheme)
  else None.
(* checkHeaderModParams restricted to the SCHEME_SET sub-command (QUERY_ADD uses url.Parse: outside the model) *)
Definition mod_scheme_params_ok (params : list bytes) : bool :=
  (llen params =? 3)
  && bytes_eqb (to_upper (nth 0 params [])) s_SCHEME_SET
  && (bytes_eqb (canonical_key (nth 1 params [])) s_Referer || bytes_eqb (canonical_key (nth 1 params [])) s_Location)
  && (bytes_eqb (nth 2 params []) s_http || bytes_eqb (nth 2 params []) s_https).
Definition header_accepts (cmd : bytes) (params : list bytes) : bool :=
  table_accepts header_check_table cmd params && forallb nonempty params
  && match header_cmd cmd with
     | Some (_, HModScheme) => mod_scheme_params_ok params
     | Some (_, HSet) | Some (_, HAdd) => value_ok (nth 1 params [])          (* actionConvert *)
     | _ => true
     end.
Definition hdr_first (k : bytes) (h : header) : bytes := hd [] (hdr_get k h).          (* Header.Get *)
(* setScheme *)
Definition set_scheme (uri scheme : bytes) : bytes :=
  if is_prefix s_http_css uri then scheme ++ skipn 4 uri
  else if is_prefix s_https_css uri then scheme ++ skipn 5 uri
  else uri.
Definition header_apply (c : hcmd) (params : list bytes) (h : header) : header :=
  let k := canonical_key (nth 0 params []) in
  match c with
  | HSet => hdr_set k [nth 1 params []] h
  | HAdd => hdr_add k (nth 1 params []) h
  | HDel => hdr_del k h
  | HRename =>
    (* only if the old field has a non-empty first value and the new one has none; first value only *)
    let k2 := canonical_key (nth 1 params []) in
    if nonempty (hdr_first k h) && negb (nonempty (hdr_first k2 h))
    then hdr_del k (hdr_set k2 [hdr_first k h] h) else h
  | HModScheme =>
    let k1 := canonical_key (nth 1 params []) in
    if nonempty (hdr_first k1 h) then hdr_set k1 [set_scheme (hdr_first k1 h) (nth 2 params [])] h else h
  end.
(* the action as stored after actionConvert, with the value template evaluated for this request *)
Definition header_params (vars : list (bytes * bytes)) (c : hcmd) (params : list bytes) : list bytes :=
  match c with
  | HSet | HAdd => [nth 0 params []; eval_value vars (nth 1 params [])]
  | _ => params
  end.
(* one header action: (request header, response header) afterwards *)
Definition header_run (vars : list (bytes * bytes)) (cmd : bytes) (params : list bytes) (req rsp : header)
  : option (header * header) :=
  if header_accepts cmd params then
    match header_cmd cmd with
    | Some (true, c) => Some (header_apply c (header_params vars c params) req, rsp)
    | Some (false, c) => Some (req, header_apply c (header_params vars c params) rsp)
    | None => None                     (* accepted but outside this model (cookie commands) *)
    end
  else None.

(* ---- the header rule table and its reload path (loadConfData -> HeaderConfLoad -> HeaderTable.Update) ---- *)
(* rule = (condition matches, Last, actions); every rule needs at least one action and every action must load.
   classifyRuleByAction splits a rule's actions by side (REQ_ / RSP_), keeping condition and Last for both;
   a rule without actions of a side does not exist for that side (its Last does not stop that side's scan). *)
Definition hd_rule := (bool * bool * list (bytes * list bytes))%type.
Definition hd_action_ok (a : bytes * list bytes) : bool :=
  header_accepts (fst a) (snd a) && match header_cmd (fst a) with Some _ => true | None => false end.
Definition hd_rule_ok (r : hd_rule) : bool := nonempty (snd r) && forallb hd_action_ok (snd r).
Definition hd_conf := list (bytes * list hd_rule).
Definition hd_conf_ok (c : hd_conf) : bool := forallb (fun pr => forallb hd_rule_ok (snd pr)) c.
Fixpoint hd_lookup (product : bytes) (t : hd_conf) : option (list hd_rule) :=
  match t with
  | [] => None
  | (p, rs) :: rest => if bytes_eqb product p then Some rs else hd_lookup product rest
  end.
Definition hd_table_load (t c : hd_conf) : hd_conf := if hd_conf_ok c then c else t.
(* HeaderActionsDo for the actions of one side *)
Definition hd_apply_actions (side : bool) (vars : list (bytes * bytes)) (acts : list (bytes * list bytes)) (h : header) : header :=
  fold_left (fun h a =>
    match header_cmd (fst a) with
    | Some (is_req, c) => if Bool.eqb is_req side then header_apply c (header_params vars c (snd a)) h else h
    | None => h
    end) acts h.
(* classifyRules: for each side a rule takes part only if it has an action of that side *)
Definition hd_has_side (side : bool) (acts : list (bytes * list bytes)) : bool :=
  existsb (fun a => match header_cmd (fst a) with Some (is_req, _) => Bool.eqb is_req side | None => false end) acts.
(* DoHeader *)
Fixpoint hd_run_rules (side : bool) (vars : list (bytes * bytes)) (rs : list hd_rule) (h : header) : header :=
  match rs with
  | [] => h
  | (m, last, acts) :: rest =>
    if m && hd_has_side side acts
    then let h' := hd_apply_actions side vars acts h in if last then h' else hd_run_rules side vars rest h'
    else hd_run_rules side vars rest h
  end.
Definition s_global := Eval compute in bs "global".
(* reqHeaderHandler / rspHeaderHandler (default headers disabled): the rules of product "global" first, then the
   request's product *)
Definition hd_side (t : hd_conf) (side : bool) (vars : list (bytes * bytes)) (product : bytes) (h : header) : header :=
  let h1 := match hd_lookup s_global t with Some rs => hd_run_rules side vars rs h | None => h end in
  match hd_lookup product t with Some rs => hd_run_rules side vars rs h1 | None => h1 end.
Definition hd_request (t : hd_conf) (vars : list (bytes * bytes)) (product : bytes) (req rsp : header) : header * header :=
  (hd_side t true vars product req, hd_side t false vars product rsp).

(* ---------- bfe_basic/action used directly (Action.UnmarshalJSON + Action.Do, no allow-list) ---------- *)
Definition direct_run (cmd : bytes) (params : list bytes) (u : url) (h : header) : option (rstate * header) :=
  if action_file_check cmd params then
    let c := to_upper cmd in
    match header_cmd c with
    | Some (true, HSet) => Some (mkSt u None, header_apply HSet params h)
    | Some (true, HAdd) => Some (mkSt u None, header_apply HAdd params h)
    | Some (true, HDel) => Some (mkSt u None, header_apply HDel params h)
    | _ => Some (action_step c params (mkSt u None), h)                (* CLOSE / PASS / FINISH: nothing *)
    end
  else None.

(* ---------- mod_redirect ---------- *)
(* net/url escape(path, encodePath): letters, digits and -_.~$&+,/:;=@ are kept, every other byte becomes %XX *)
Definition path_keep (c : Z) : bool :=
  ((48 <=? c) && (c <=? 57)) || ((65 <=? c) && (c <=? 90)) || ((97 <=? c) && (c <=? 122))
  || existsb (Z.eqb c) [45; 95; 46; 126; 36; 38; 43; 44; 47; 58; 59; 61; 64].
Definition hexdigit (n : Z) : Z := if n <? 10 then 48 + n else 55 + n.
Definition escape_path (p : bytes) : bytes :=
  flat_map (fun c => if path_keep c then [c] else [37; hexdigit (c / 16); hexdigit (c mod 16)]) p.
(* URL.EscapedPath() with RawPath unset *)
Definition escaped_path (p : bytes) : bytes := if bytes_eqb p [42] then [42] else escape_path p.
(* URL.RequestURI() with Opaque unset *)
Definition request_uri (u : url) : bytes :=
  (match escaped_path (u_path u) with [] => [47] | p => p end) ++ (match u_query u with [] => [] | q => 63 :: q end).
Definition redirect_accepts (cmd : bytes) (params : list bytes) : bool :=
  table_accepts redirect_check_table cmd params
  && (negb (bytes_eqb cmd s_SCHEME_SET)
      || bytes_eqb (to_lower (nth 0 params [])) s_http || bytes_eqb (to_lower (nth 0 params [])) s_https).
Inductive rdcmd := UrlSet | UrlFromQuery | UrlPrefixAdd | SchemeSet.
Definition rd_cmd_of (cmd : bytes) : option rdcmd :=
  if bytes_eqb cmd s_URL_SET then Some UrlSet
  else if bytes_eqb cmd s_URL_FROM_QUERY then Some UrlFromQuery
  else if bytes_eqb cmd s_URL_PREFIX_ADD then Some UrlPrefixAdd
  else if bytes_eqb cmd s_SCHEME_SET then Some SchemeSet
  else None.
Definition rd_do (c : rdcmd) (params : list bytes) (u : url) : bytes :=
  let p0 := nth 0 params [] in
  match c with
  | UrlSet => p0
  | UrlFromQuery => query_get p0 (parse_query (u_query u))
  | UrlPrefixAdd => p0 ++ request_uri u
  | SchemeSet => to_lower p0 ++ s_css ++ u_host u ++ request_uri u
  end.
Definition redirect_run (cmd : bytes) (params : list bytes) (u : url) : option bytes :=
  if redirect_accepts cmd params then
    match rd_cmd_of cmd with Some c => Some (rd_do c params u) | None => None end
  else None.

(* ---- the redirect rule table and its reload path (loadConfData -> redirectConfLoad -> RedirectTable.Update) ---- *)
(* a rule: (condition matches, the single action, status); redirectRuleCheck: exactly one acceptable action, status <> 0 *)
Definition rd_rule := (bool * list (bytes * list bytes) * Z)%type.
Definition rd_rule_ok (r : rd_rule) : bool :=
  match snd (fst r) with
  | [(c, p)] => redirect_accepts c p && negb (snd r =? 0)
  | _ => false
  end.
Definition rd_conf := list (bytes * list rd_rule).
Definition rd_conf_ok (c : rd_conf) : bool := forallb (fun pr => forallb rd_rule_ok (snd pr)) c.
Fixpoint rd_lookup (product : bytes) (t : rd_conf) : option (list rd_rule) :=
  match t with
  | [] => None
  | (p, rs) :: rest => if bytes_eqb product p then Some rs else rd_lookup product rest
  end.
Definition rd_table_load (t c : rd_conf) : rd_conf := if rd_conf_ok c then c else t.
Fixpoint rd_first_match (rs : list rd_rule) : option rd_rule :=
  match rs with
  | [] => None
  | r :: rest => if fst (fst r) then Some r else rd_first_match rest
  end.
(* redirectHandler: Some (Location, status) = BfeHandlerRedirect *)
Definition rd_request (t : rd_conf) (product : bytes) (u : url) : option (bytes * Z) :=
  match rd_lookup product t with
  | None => None
  | Some rs =>
    match rd_first_match rs with
    | Some (_, [(c, p)], status) =>
      match rd_cmd_of c with Some rc => Some (rd_do rc p u, status) | None => Some ([], status) end
    | Some (_, _, status) => Some ([], status)
    | None => None
    end
  end.

(* ================= specification side ================= *)
(* every documented command is accepted by its loader (with the documented number of parameters for mod_header) *)
Definition documented_accepted : bool :=
  forallb (fun c => match assoc c action_check_table with Some _ => mem c rewrite_allowed | None => false end) doc_rewrite
  && forallb (fun ca => match assoc (fst ca) header_check_table with Some ar => ar =? snd ca | None => false end) doc_header
  && forallb (fun c => match assoc c redirect_check_table with Some _ => true | None => false end) doc_redirect.

Definition keys_of (raw : bytes) : list bytes := map fst (parse_query raw).
(* a name that reads the same raw and decoded, and cannot break the parameter syntax *)
Definition plain_name (s : bytes) : bool :=
  nonempty s && negb (existsb (fun c => existsb (Z.eqb c) [37; 43; 38; 61; 59]) s).
Definition rename_pair (old new : bytes) (kv : bytes * bytes) : bytes * bytes :=
  if bytes_eqb (fst kv) old then (new, snd kv) else kv.
Definition pairs_eqb (a b : list (bytes * bytes)) : bool :=
  val_eqb (VL (map (fun kv => VL [VB (fst kv); VB (snd kv)]) a)) (VL (map (fun kv => VL [VB (fst kv); VB (snd kv)]) b)).
