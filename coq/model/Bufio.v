(* Model of bfe_bufio/bufio.go (Reader and Writer, after the counter / lastByte fix commit).
   The Reader runs over a scripted source: a list of chunks (data, err); a source Read with room for `room`
   bytes hands out the head chunk (split when it does not fit; the chunk's error comes with its last part);
   after the script the source returns (0, io.EOF) forever.  The Writer runs over a scripted sink: the k-th
   underlying Write accepts at most `limit` bytes and returns `err`; afterwards it accepts everything.
   Error codes: 0 nil, 1 io.EOF, 2 source error, 3 ErrBufferFull, 4 ErrNegativeCount, 5 ErrInvalidUnreadByte,
   7 io.ErrShortWrite, 8 sink error, 99 model fuel exhausted.
   Not modelled: ReadRune/UnreadRune/WriteRune (and the lastRuneSize field), ReadString (= ReadBytes), Reset. *)
From Coq Require Import List ZArith Bool.
From Bfe Require Import lib.Val lib.Bytes.
Import ListNotations.
Open Scope Z_scope.

Definition sub (l : bytes) (a b : Z) : bytes := firstn (Z.to_nat (b - a)) (skipn (Z.to_nat a) l).
(* copy(dst[off:], src) with len src <= len dst - off *)
Definition blit (dst : bytes) (off : Z) (src : bytes) : bytes :=
  firstn (Z.to_nat off) dst ++ src ++ skipn (Z.to_nat off + length src) dst.

Definition script : Type := list (bytes * Z).
Definition src_read (room : Z) (s : script) : bytes * Z * script :=
  match s with
  | [] => ([], 1, [])
  | (d, e) :: rest =>
    if blen d <=? room then (d, e, rest)
    else (firstn (Z.to_nat room) d, 0, (skipn (Z.to_nat room) d, e) :: rest)
  end.
Definition script_bytes (s : script) : Z := fold_right (fun c a => blen (fst c) + a) 0 s.

(* ------------------------------------------------------------------ Reader *)
Record reader := mkR {
  rbuf : bytes;      (* b.buf, fixed length *)
  rr : Z; rw : Z;    (* b.r, b.w *)
  rerr : Z;          (* b.err *)
  rlast : Z;         (* b.lastByte, -1 = none *)
  rtotal : Z;        (* b.TotalRead *)
  rsrc : script;     (* what the underlying reader will still deliver *)
  rpulled : Z        (* bytes obtained from the underlying reader so far *)
}.
Definition new_reader (size : Z) (src : script) : reader :=
  mkR (repeat 0 (Z.to_nat (if size <? 16 then 16 else size))) 0 0 0 (-1) 0 src 0.
Definition rcap (s : reader) : Z := blen (rbuf s).
Definition buffered (s : reader) : Z := rw s - rr s.
Definition window (s : reader) : bytes := sub (rbuf s) (rr s) (rw s).
Definition set_err (s : reader) (e : Z) : reader :=
  mkR (rbuf s) (rr s) (rw s) e (rlast s) (rtotal s) (rsrc s) (rpulled s).
(* consume: b.r = r'; lastByte; TotalRead += k *)
Definition advance (s : reader) (r' last' k : Z) : reader :=
  mkR (rbuf s) r' (rw s) (rerr s) last' (rtotal s + k) (rsrc s) (rpulled s).
Definition rfuel (s : reader) : nat :=
  (length (rsrc s) + 2 + Z.to_nat (script_bytes (rsrc s)) + length (rbuf s))%nat.

Definition fill (s : reader) : reader :=
  let slide := 0 <? rr s in
  let buf1 := if slide then blit (rbuf s) 0 (window s) else rbuf s in
  let w1 := if slide then rw s - rr s else rw s in
  let '(d, e, src') := src_read (rcap s - w1) (rsrc s) in
  mkR (blit buf1 w1 d) 0 (w1 + blen d) (if e =? 0 then rerr s else e) (rlast s) (rtotal s) src' (rpulled s + blen d).

Definition note_last (line : bytes) (old : Z) : Z := match line with [] => old | _ => last line 0 end.

(* --- Read *)
Definition rd_copy (n : Z) (s : reader) : bytes * Z * reader :=
  let m := Z.min n (buffered s) in
  let d := sub (rbuf s) (rr s) (rr s + m) in
  (d, 0, advance s (rr s + m) (last d (-1)) m).
Definition rd_read (n : Z) (s : reader) : bytes * Z * reader :=
  if n =? 0 then ([], rerr s, set_err s 0)
  else if rw s =? rr s then
    if negb (rerr s =? 0) then ([], rerr s, set_err s 0)
    else if rcap s <=? n then
      (* large read, empty buffer: read directly into p *)
      let '(d, e, src') := src_read n (rsrc s) in
      (d, e, mkR (rbuf s) (rr s) (rw s) 0 (note_last d (rlast s)) (rtotal s + blen d) src' (rpulled s + blen d))
    else
      let s1 := fill s in
      if rw s1 =? rr s1 then ([], rerr s1, set_err s1 0) else rd_copy n s1
  else rd_copy n s.

(* --- ReadByte *)
Fixpoint rd_byte_loop (fuel : nat) (s : reader) {struct fuel} : Z * Z * reader :=
  if rw s =? rr s then
    if negb (rerr s =? 0) then (0, rerr s, set_err s 0)
    else match fuel with O => (0, 99, s) | S f => rd_byte_loop f (fill s) end
  else let c := nth (Z.to_nat (rr s)) (rbuf s) 0 in (c, 0, advance s (rr s + 1) c 1).
Definition rd_byte (s : reader) : Z * Z * reader := rd_byte_loop (rfuel s) s.

(* --- UnreadByte *)
Definition dec_total (t : Z) : Z := if 0 <? t then t - 1 else t.
Definition rd_unread (s : reader) : Z * reader :=
  if (rr s =? rw s) && (0 <=? rlast s) then
    (0, mkR (blit (rbuf s) 0 [rlast s]) 0 1 (rerr s) (-1) (dec_total (rtotal s)) (rsrc s) (rpulled s))
  else if rr s <=? 0 then (5, s)
  else (0, mkR (rbuf s) (rr s - 1) (rw s) (rerr s) (-1) (dec_total (rtotal s)) (rsrc s) (rpulled s)).

(* --- ReadSlice *)
Fixpoint rd_slice_loop (fuel : nat) (delim : Z) (s : reader) {struct fuel} : bytes * Z * reader :=
  match fuel with
  | O => ([], 99, s)
  | S f =>
    if negb (rerr s =? 0) then
      let line := window s in
      (line, rerr s, set_err (advance s (rw s) (note_last line (rlast s)) (buffered s)) 0)
    else
      let n := buffered s in
      let s1 := fill s in
      match index_byte delim (sub (rbuf s1) n (rw s1)) with
      | Some i =>
        let e := n + Z.of_nat i + 1 in
        let line := sub (rbuf s1) 0 e in
        (line, 0, advance s1 e (note_last line (rlast s1)) e)
      | None =>
        if rcap s1 <=? buffered s1 then
          (rbuf s1, 3, advance s1 (rw s1) (note_last (rbuf s1) (rlast s1)) (rcap s1))
        else rd_slice_loop f delim s1
      end
  end.
Definition rd_slice (delim : Z) (s : reader) : bytes * Z * reader :=
  match index_byte delim (window s) with
  | Some i =>
    let e := rr s + Z.of_nat i + 1 in
    let line := sub (rbuf s) (rr s) e in
    (line, 0, advance s e (note_last line (rlast s)) (Z.of_nat i + 1))
  | None => rd_slice_loop (rfuel s) delim s
  end.

(* --- ReadLine: (line, isPrefix, err).  The "rewind past start of buffer" panic is unreachable (r = w = cap). *)
Definition rd_line (s : reader) : bytes * bool * Z * reader :=
  let '(line, err, s1) := rd_slice 10 s in
  if err =? 3 then
    match rev line with
    | 13 :: rl =>
      (rev rl, true, 0, mkR (rbuf s1) (rr s1 - 1) (rw s1) (rerr s1) (rlast s1) (rtotal s1 - 1) (rsrc s1) (rpulled s1))
    | _ => (line, true, 0, s1)
    end
  else
    match rev line with
    | [] => ([], false, err, s1)
    | 10 :: 13 :: rl => (rev rl, false, 0, s1)
    | 10 :: rl => (rev rl, false, 0, s1)
    | _ => (line, false, 0, s1)
    end.

(* --- Peek *)
Fixpoint rd_peek_loop (fuel : nat) (n : Z) (s : reader) {struct fuel} : reader :=
  match fuel with
  | O => s
  | S f => if (buffered s <? n) && (rerr s =? 0) then rd_peek_loop f n (fill s) else s
  end.
Definition rd_peek (n : Z) (s : reader) : bytes * Z * reader :=
  if n <? 0 then ([], 4, s)
  else if rcap s <? n then ([], 3, s)
  else
    let s1 := rd_peek_loop (rfuel s) n s in
    let m := Z.min (buffered s1) n in
    let d := sub (rbuf s1) (rr s1) (rr s1 + m) in
    if m <? n then (d, (if rerr s1 =? 0 then 3 else rerr s1), set_err s1 0) else (d, 0, s1).

(* --- ReadBytes *)
Fixpoint rd_bytes_loop (fuel : nat) (delim : Z) (s : reader) {struct fuel} : bytes * Z * reader :=
  match fuel with
  | O => ([], 99, s)
  | S f =>
    let '(frag, e, s1) := rd_slice delim s in
    if e =? 0 then (frag, 0, s1)
    else if negb (e =? 3) then (frag, e, s1)
    else let '(rest, e2, s2) := rd_bytes_loop f delim s1 in (frag ++ rest, e2, s2)
  end.
Definition rd_bytes (delim : Z) (s : reader) : bytes * Z * reader := rd_bytes_loop (rfuel s) delim s.

(* --- WriteTo into a sink that never fails (bytes.Buffer); the source is not an io.WriterTo *)
Definition write_buf (out : bytes) (s : reader) : bytes * reader :=
  (out ++ window s, advance s (rw s) (rlast s) (buffered s)).
Fixpoint rd_wt_loop (fuel : nat) (out : bytes) (s : reader) {struct fuel} : bytes * reader :=
  match fuel with
  | O => (out, set_err s 99)
  | S f =>
    let s1 := fill s in
    if rr s1 <? rw s1 then let '(out', s2) := write_buf out s1 in rd_wt_loop f out' s2 else (out, s1)
  end.
Definition rd_writeto (s : reader) : bytes * Z * reader :=
  let s0 := mkR (rbuf s) (rr s) (rw s) (rerr s) (-1) (rtotal s) (rsrc s) (rpulled s) in
  let '(out, s1) := write_buf [] s0 in
  let '(out2, s2) := rd_wt_loop (rfuel s) out s1 in
  let s3 := if rerr s2 =? 1 then set_err s2 0 else s2 in
  (out2, rerr s3, set_err s3 0).

(* ------------------------------------------------------------------ Writer *)
Record writer := mkW {
  wbuf : bytes;            (* the b.n buffered bytes *)
  wcap : Z;                (* len(b.buf) *)
  werr : Z;
  wtotal : Z;              (* b.TotalWrite *)
  wsink : list (Z * Z);    (* script of the underlying writer *)
  wout : bytes             (* what the underlying writer has received *)
}.
Definition new_writer (size : Z) (sink : list (Z * Z)) : writer :=
  mkW [] (if size <=? 0 then 4096 else size) 0 0 sink [].
Definition avail (s : writer) : Z := wcap s - blen (wbuf s).
(* underlying Write(p): accepts k bytes; a short write without error is made an error when nothing was accepted
   (io.Writer contract: progress or error) *)
Definition sink_write (p : bytes) (s : writer) : Z * Z * writer :=
  match wsink s with
  | [] => (blen p, 0, mkW (wbuf s) (wcap s) (werr s) (wtotal s) [] (wout s ++ p))
  | (lim, e) :: rest =>
    let k := Z.min (blen p) (Z.max 0 lim) in
    let e' := if (k =? 0) && (0 <? blen p) && (e =? 0) then 8 else e in
    (k, e', mkW (wbuf s) (wcap s) (werr s) (wtotal s) rest (wout s ++ firstn (Z.to_nat k) p))
  end.
Definition w_set (s : writer) (buf : bytes) (e : Z) : writer :=
  mkW buf (wcap s) e (wtotal s) (wsink s) (wout s).
Definition w_add_total (s : writer) (k : Z) : writer :=
  mkW (wbuf s) (wcap s) (werr s) (wtotal s + k) (wsink s) (wout s).

Definition w_flush (s : writer) : Z * writer :=
  if negb (werr s =? 0) then (werr s, s)
  else match wbuf s with
  | [] => (0, s)
  | _ =>
    let '(k, e, s1) := sink_write (wbuf s) s in
    let e' := if (k <? blen (wbuf s)) && (e =? 0) then 7 else e in
    if negb (e' =? 0) then (e', w_set s1 (skipn (Z.to_nat k) (wbuf s)) e')
    else (0, w_set s1 [] 0)
  end.

(* the loop of Write (direct = true) and of WriteString (direct = false): (rest of p, nn, state) *)
Fixpoint w_write_loop (fuel : nat) (direct : bool) (p : bytes) (nn : Z) (s : writer) {struct fuel}
  : bytes * Z * writer :=
  match fuel with
  | O => (p, nn, w_set s (wbuf s) 99)
  | S f =>
    if (avail s <? blen p) && (werr s =? 0) then
      match direct, wbuf s with
      | true, [] =>
        let '(k, e, s1) := sink_write p s in
        w_write_loop f direct (skipn (Z.to_nat k) p) (nn + k) (w_set s1 (wbuf s1) e)
      | _, _ =>
        let n := avail s in
        let s1 := w_set s (wbuf s ++ firstn (Z.to_nat n) p) (werr s) in
        let '(_, s2) := w_flush s1 in
        w_write_loop f direct (skipn (Z.to_nat n) p) (nn + n) s2
      end
    else (p, nn, s)
  end.
Definition w_write_gen (direct : bool) (p : bytes) (s : writer) : Z * Z * writer :=
  let '(p', nn, s1) := w_write_loop (length p + length (wsink s) + 3) direct p 0 s in
  if negb (werr s1 =? 0) then (nn, werr s1, w_add_total s1 nn)
  else (nn + blen p', 0, w_add_total (w_set s1 (wbuf s1 ++ p') 0) (nn + blen p')).
Definition w_write := w_write_gen true.
Definition w_write_string := w_write_gen false.

Definition w_write_byte (c : Z) (s : writer) : Z * writer :=
  if negb (werr s =? 0) then (werr s, s)
  else
    let '(fe, s1) := if avail s <=? 0 then w_flush s else (0, s) in
    if negb (fe =? 0) then (werr s1, s1)
    else (0, w_add_total (w_set s1 (wbuf s1 ++ [c]) (werr s1)) 1).

(* ReadFrom(r) with r a scripted reader; the sink is not an io.ReaderFrom.  (n, err) *)
Fixpoint w_readfrom_loop (fuel : nat) (src : script) (n : Z) (s : writer) {struct fuel}
  : option (Z * Z * writer) (* early return *) * (Z * Z * writer) (* n, err at break, state *) :=
  match fuel with
  | O => (None, (n, 99, s))
  | S f =>
    let '(fe, s1) := if avail s =? 0 then w_flush s else (0, s) in
    if negb (fe =? 0) then (Some (n, fe, w_add_total s1 n), (n, fe, s1))
    else
      let '(d, e, src') := src_read (avail s1) src in
      if blen d =? 0 then (None, (n, e, s1))
      else
        let s2 := w_set s1 (wbuf s1 ++ d) (werr s1) in
        if negb (e =? 0) then (None, (n + blen d, e, s2))
        else w_readfrom_loop f src' (n + blen d) s2
  end.
Definition w_readfrom (src : script) (s : writer) : Z * Z * writer :=
  match w_readfrom_loop (length src + 3 + Z.to_nat (script_bytes src) + Z.to_nat (script_bytes src))%nat src 0 s with
  | (Some r, _) => r
  | (None, (n, e, s1)) =>
    let '(e', s2) :=
      if e =? 1 then (if avail s1 =? 0 then w_flush s1 else (0, s1)) else (e, s1) in
    (n, e', w_add_total s2 n)
  end.

(* ------------------------------------------------------------------ runes (UTF-8, as unicode/utf8 of Go) *)
Definition is_cont (b : Z) : bool := (128 <=? b) && (b <=? 191).
(* accept range of the second byte, by first byte *)
Definition second_ok (b0 b1 : Z) : bool :=
  if b0 =? 224 then (160 <=? b1) && (b1 <=? 191)
  else if b0 =? 237 then (128 <=? b1) && (b1 <=? 159)
  else if b0 =? 240 then (144 <=? b1) && (b1 <=? 191)
  else if b0 =? 244 then (128 <=? b1) && (b1 <=? 143)
  else is_cont b1.
(* bytes needed by the first byte: 1 for ASCII and for invalid first bytes *)
Definition rune_need (b0 : Z) : Z :=
  if (194 <=? b0) && (b0 <=? 223) then 2
  else if (224 <=? b0) && (b0 <=? 239) then 3
  else if (240 <=? b0) && (b0 <=? 244) then 4
  else 1.
Definition rune_error : Z := 65533.
(* utf8.DecodeRune on a non-empty window: (rune, size) *)
Definition decode_rune (w : bytes) : Z * Z :=
  match w with
  | [] => (rune_error, 1)
  | b0 :: t =>
    if b0 <? 128 then (b0, 1)
    else if rune_need b0 =? 2 then
      match t with
      | b1 :: _ => if is_cont b1 then ((b0 - 192) * 64 + (b1 - 128), 2) else (rune_error, 1)
      | _ => (rune_error, 1)
      end
    else if rune_need b0 =? 3 then
      match t with
      | b1 :: b2 :: _ =>
        if second_ok b0 b1 && is_cont b2 then ((b0 - 224) * 4096 + (b1 - 128) * 64 + (b2 - 128), 3) else (rune_error, 1)
      | _ => (rune_error, 1)
      end
    else if rune_need b0 =? 4 then
      match t with
      | b1 :: b2 :: b3 :: _ =>
        if second_ok b0 b1 && is_cont b2 && is_cont b3
        then ((b0 - 240) * 262144 + (b1 - 128) * 4096 + (b2 - 128) * 64 + (b3 - 128), 4) else (rune_error, 1)
      | _ => (rune_error, 1)
      end
    else (rune_error, 1)
  end.
(* utf8.FullRune *)
Definition full_rune (w : bytes) : bool :=
  match w with
  | [] => false
  | b0 :: t =>
    if rune_need b0 <=? blen w then true
    else match t with
         | [] => false
         | b1 :: t2 =>
           if negb (second_ok b0 b1) then true
           else match t2 with [] => false | b2 :: _ => negb (is_cont b2) end
         end
  end.
(* utf8.EncodeRune / string(rune) *)
Definition encode_rune (r : Z) : bytes :=
  if (0 <=? r) && (r <? 128) then [r]
  else if (0 <=? r) && (r <? 2048) then [192 + r / 64; 128 + r mod 64]
  else if (r <? 0) || (1114111 <? r) || ((55296 <=? r) && (r <=? 57343)) then [239; 191; 189]
  else if r <? 65536 then [224 + r / 4096; 128 + (r / 64) mod 64; 128 + r mod 64]
  else [240 + r / 262144; 128 + (r / 4096) mod 64; 128 + (r / 64) mod 64; 128 + r mod 64].

(* ReadRune: the reader state is extended by b.lastRuneSize (lrs), kept beside the record.
   result (rune, size, err, state, lastRuneSize) *)
Fixpoint rd_rune_fill (fuel : nat) (s : reader) {struct fuel} : reader :=
  match fuel with
  | O => set_err s 99
  | S f =>
    if (rw s <? rr s + 4) && negb (full_rune (window s)) && (rerr s =? 0) then rd_rune_fill f (fill s) else s
  end.
Definition rd_rune (s : reader) : Z * Z * Z * reader * Z :=
  let s1 := rd_rune_fill (rfuel s) s in
  if rr s1 =? rw s1 then (0, 0, rerr s1, set_err s1 0, -1)
  else
    let c := nth (Z.to_nat (rr s1)) (rbuf s1) 0 in
    let '(r, size) := if c <? 128 then (c, 1) else decode_rune (window s1) in
    let d := sub (rbuf s1) (rr s1) (rr s1 + size) in
    (r, size, 0, advance s1 (rr s1 + size) (last d 0) size, size).
(* UnreadRune *)
Definition rd_unread_rune (s : reader) (lrs : Z) : Z * reader * Z :=
  if (lrs <? 0) || (rr s =? 0) then (6, s, lrs)
  else (0, mkR (rbuf s) (rr s - lrs) (rw s) (rerr s) (-1)
              (if lrs <=? rtotal s then rtotal s - lrs else rtotal s) (rsrc s) (rpulled s), -1).

(* WriteTo when the underlying reader is an io.WriterTo: after the buffered bytes, the source writes everything it
   still has (its whole remaining script; its error is that of the first failing chunk) *)
Fixpoint src_drain (s : script) : bytes * Z * script :=
  match s with
  | [] => ([], 0, [])
  | (d, e) :: rest =>
    if e =? 0 then let '(d2, e2, r2) := src_drain rest in (d ++ d2, e2, r2)
    else (d, (if e =? 1 then 0 else e), rest)
  end.
Definition rd_writeto_wt (s : reader) : bytes * Z * reader :=
  let s0 := mkR (rbuf s) (rr s) (rw s) (rerr s) (-1) (rtotal s) (rsrc s) (rpulled s) in
  let '(out, s1) := write_buf [] s0 in
  let '(d, e, rest) := src_drain (rsrc s1) in
  (* since the fix: after writeBuf, if b.r == b.w { b.r, b.w = 0, 0 }  (write_buf into bytes.Buffer always leaves
     r = w; in the non-WriterTo path rd_writeto the first fill has the same effect) *)
  let z := rr s1 =? rw s1 in
  (out ++ d, e, mkR (rbuf s1) (if z then 0 else rr s1) (if z then 0 else rw s1) (rerr s1) (rlast s1)
                    (rtotal s1 + blen d) rest (rpulled s1 + blen d)).

(* WriteRune *)
Definition w_write_rune (r : Z) (s : writer) : Z * Z * writer :=
  if r <? 128 then   (* also negative runes: byte(r) *)
    let '(e, s1) := w_write_byte (r mod 256) s in if negb (e =? 0) then (0, e, s1) else (1, 0, s1)
  else if negb (werr s =? 0) then (0, werr s, s)
  else
    let enc := encode_rune r in
    if avail s <? 4 then
      let '(_, s1) := w_flush s in
      if negb (werr s1 =? 0) then (0, werr s1, s1)
      else if avail s1 <? 4 then w_write_string enc s1
      else (blen enc, 0, w_add_total (w_set s1 (wbuf s1 ++ enc) (werr s1)) (blen enc))
    else (blen enc, 0, w_add_total (w_set s (wbuf s ++ enc) (werr s)) (blen enc)).

(* ReadFrom when the underlying writer is an io.ReaderFrom and nothing is buffered: the sink reads everything *)
Definition w_readfrom_rf (src : script) (s : writer) : Z * Z * writer :=
  match wbuf s with
  | [] => let '(d, e, _) := src_drain src in
          (blen d, e, mkW [] (wcap s) (werr s) (wtotal s + blen d) (wsink s) (wout s ++ d))
  | _ => w_readfrom src s
  end.

(* Reset(r) / Reset(w): forget everything, start counting from zero.  Reader: the harness passes the same source and
   restarts its pulled counter; the result is the number of bytes pulled before.  Writer: the harness passes a fresh
   sink that continues the sink script; the result is what the old sink had received. *)
Definition rd_reset (s : reader) : Z * reader := (rpulled s, mkR (rbuf s) 0 0 0 (-1) 0 (rsrc s) 0).
Definition w_reset (s : writer) : bytes * writer := (wout s, mkW [] (wcap s) 0 0 (wsink s) []).
