(* Model of the lexical layer of bfe_basic/condition/parser on ASCII input: scanner.go (Scan, scanIdentifier,
   scanString + scanEscape, scanRawString, scanComment, keyword lookup), the token filter condLex.Lex (cond.y) and the
   callExpr / paramlist productions of the grammar.  The model answers only what Build needs: the token sequence when
   NO lexical error is recorded, None otherwise (every recorded error makes Parse, hence Build, return an error).
   Facts used (read off the Go code):
   - next() records an error for every NUL byte it reads; bytes >= 0x80 are outside this model (wf excludes them);
   - a token that starts with a digit is INT/FLOAT/IMAG: FLOAT/IMAG are rejected by Lex, INT can only be a call argument
     and no prototype has an INT parameter, so Build fails whenever a number is reached;
   - SEMICOLON is passed to the parser but occurs in no production: syntax error;
   - keywords (len > 1) are ILLEGAL; true / false are BOOL; '-' and '_' count as letters.
   Definitions only. *)
From Coq Require Import List ZArith Bool.
From Bfe Require Import lib.Val lib.Bytes model.CondParse model.CondPrim.
Import ListNotations.
Open Scope Z_scope.

Inductive rtok :=
| RIdent (name : bytes) | RStr (value : bytes) | RBool (lit : bytes)
| RLp | RRp | RAnd | ROr | RNot | RComma.

Definition is_ws (c : Z) : bool := (c =? 32) || (c =? 9) || (c =? 13) || (c =? 10).
Definition is_letter (c : Z) : bool :=
  ((97 <=? c) && (c <=? 122)) || ((65 <=? c) && (c <=? 90)) || (c =? 95) || (c =? 45).
Definition is_dec (c : Z) : bool := (48 <=? c) && (c <=? 57).
Definition is_oct (c : Z) : bool := (48 <=? c) && (c <=? 55).
Definition is_hex (c : Z) : bool :=
  is_dec c || ((97 <=? c) && (c <=? 102)) || ((65 <=? c) && (c <=? 70)).
Definition hex_val (c : Z) : Z :=
  if is_dec c then c - 48 else if (97 <=? c) && (c <=? 102) then c - 87 else c - 55.

Definition keywords : list bytes := [
  (* break *) [98;114;101;97;107]; (* case *) [99;97;115;101]; (* chan *) [99;104;97;110];
  (* const *) [99;111;110;115;116]; (* continue *) [99;111;110;116;105;110;117;101];
  (* default *) [100;101;102;97;117;108;116]; (* defer *) [100;101;102;101;114]; (* else *) [101;108;115;101];
  (* fallthrough *) [102;97;108;108;116;104;114;111;117;103;104]; (* for *) [102;111;114];
  (* func *) [102;117;110;99]; (* go *) [103;111]; (* goto *) [103;111;116;111]; (* if *) [105;102];
  (* import *) [105;109;112;111;114;116]; (* interface *) [105;110;116;101;114;102;97;99;101]; (* map *) [109;97;112];
  (* package *) [112;97;99;107;97;103;101]; (* range *) [114;97;110;103;101]; (* return *) [114;101;116;117;114;110];
  (* select *) [115;101;108;101;99;116]; (* struct *) [115;116;114;117;99;116]; (* switch *) [115;119;105;116;99;104];
  (* type *) [116;121;112;101]; (* var *) [118;97;114]].
Definition b_true : bytes := [116;114;117;101].
Definition b_false : bytes := [102;97;108;115;101].

(* scanIdentifier: longest run of letters / digits *)
Fixpoint take_ident (s : bytes) : bytes * bytes :=
  match s with
  | c :: r => if is_letter c || is_dec c then let '(a, b) := take_ident r in (c :: a, b) else ([], s)
  | [] => ([], [])
  end.

(* n digits of the given class, value accumulated in base b; None = error *)
Fixpoint take_digits (n : nat) (ok : Z -> bool) (b : Z) (acc : Z) (s : bytes) : option (Z * bytes) :=
  match n with
  | O => Some (acc, s)
  | S n' => match s with
            | c :: r => if ok c then take_digits n' ok b (acc * b + hex_val c) r else None
            | [] => None
            end
  end.
(* scanEscape (quote = double quote) after the backslash: Some rest when the escape is well formed *)
Definition scan_escape (s : bytes) : option bytes :=
  match s with
  | [] => None
  | c :: r =>
    if existsb (Z.eqb c) [97; 98; 102; 110; 114; 116; 118; 92; 34] then Some r      (* a b f n r t v backslash dquote *)
    else if is_oct c then
      match take_digits 3 is_oct 8 0 s with Some (v, r') => if v <=? 255 then Some r' else None | None => None end
    else if c =? 120 then                                                            (* x: 2 hex digits *)
      match take_digits 2 is_hex 16 0 r with Some (_, r') => Some r' | None => None end
    else if (c =? 117) || (c =? 85) then                                             (* u: 4, U: 8 hex digits *)
      match take_digits (if c =? 117 then 4 else 8) is_hex 16 0 r with
      | Some (v, r') => if (1114111 <? v) || ((55296 <=? v) && (v <? 57344)) then None else Some r'
      | None => None
      end
    else None
  end.

(* scanString after the opening quote: (content between the quotes, rest) ; None on newline / EOF / bad escape.
   The content is the raw source text: escapes are validated, not interpreted. *)
Fixpoint scan_string (fuel : nat) (s : bytes) (acc : bytes) : option (bytes * bytes) :=
  match fuel with
  | O => None
  | S f =>
    match s with
    | [] => None
    | c :: r =>
      if c =? 10 then None
      else if c =? 34 then Some (rev acc, r)
      else if c =? 92 then
        match scan_escape r with
        | Some r' =>
          (* the consumed escape text is part of the literal *)
          let used := firstn (length r - length r') r in
          scan_string f r' (rev used ++ c :: acc)
        | None => None
        end
      else scan_string f r (c :: acc)
    end
  end.

(* scanRawString after the opening backquote; carriage returns are stripped from the value *)
Fixpoint scan_raw (s : bytes) (acc : bytes) : option (bytes * bytes) :=
  match s with
  | [] => None
  | c :: r => if c =? 96 then Some (rev acc, r)
              else scan_raw r (if c =? 13 then acc else c :: acc)
  end.

Fixpoint skip_line (s : bytes) : bytes :=
  match s with
  | c :: r => if c =? 10 then s else skip_line r
  | [] => []
  end.

(* Scan + Lex until EOF *)
Fixpoint scan (fuel : nat) (s : bytes) : option (list rtok) :=
  match fuel with
  | O => None
  | S f =>
    match s with
    | [] => Some []
    | c :: r =>
      let cons (t : rtok) (rest : bytes) := match scan f rest with Some l => Some (t :: l) | None => None end in
      if is_ws c then scan f r
      else if is_letter c then
        let '(id, rest) := take_ident s in
        if (Nat.ltb 1 (length id)) && existsb (bytes_eqb id) keywords then None
        else if bytes_eqb id b_true || bytes_eqb id b_false then cons (RBool id) rest
        else cons (RIdent id) rest
      else if is_dec c then None
      else if c =? 34 then match scan_string (S (length r)) r [] with Some (v, rest) => cons (RStr v) rest | None => None end
      else if c =? 96 then match scan_raw r [] with Some (v, rest) => cons (RStr v) rest | None => None end
      else if c =? 40 then cons RLp r
      else if c =? 41 then cons RRp r
      else if c =? 33 then cons RNot r
      else if c =? 44 then cons RComma r
      else if c =? 38 then match r with 38 :: r' => cons RAnd r' | _ => None end
      else if c =? 124 then match r with 124 :: r' => cons ROr r' | _ => None end
      else if c =? 47 then match r with 47 :: r' => scan f (skip_line r') | _ => None end
      else None
    end
  end.

Definition ascii_text (s : bytes) : bool := forallb (fun c => (0 <=? c) && (c <? 128)) s.
Definition has_nul (s : bytes) : bool := existsb (Z.eqb 0) s.

Definition lex (s : bytes) : option (list rtok) :=
  if has_nul s then None else scan (S (length s)) s.

(* ------------------------------------------------------------------ callExpr / paramlist *)
Definition call := (bytes * option (list arg))%type.        (* name, Some args = call, None = bare identifier *)

(* paramlist after IDENT LPAREN : BASICLIT (COMMA BASICLIT)* RPAREN  or  RPAREN *)
Definition lit_of (t : rtok) : option arg :=
  match t with RStr v => Some (1, v) | RBool l => Some (2, l) | _ => None end.
Fixpoint params_more (ts : list rtok) (acc : list arg) : option (list arg * list rtok) :=
  match ts with
  | RRp :: r => Some (rev acc, r)
  | RComma :: t :: r => match lit_of t with Some a => params_more r (a :: acc) | None => None end
  | _ => None
  end.
Definition params (ts : list rtok) : option (list arg * list rtok) :=
  match ts with
  | RRp :: r => Some ([], r)
  | t :: r => match lit_of t with Some a => params_more r [a] | None => None end
  | [] => None
  end.

(* group the raw tokens into operator tokens over atoms (atom n = n-th call / identifier, in order) *)
Fixpoint group (fuel : nat) (ts : list rtok) (n : nat) : option (list tok * list call) :=
  match fuel with
  | O => None
  | S f =>
    let cons (k : tok) (rest : list rtok) (n' : nat) (cs : list call) :=
      match group f rest n' with Some (ks, cs') => Some (k :: ks, cs ++ cs') | None => None end in
    match ts with
    | [] => Some ([], [])
    | RIdent name :: RLp :: r =>
      match params r with
      | Some (a, rest) => cons (TAtom n) rest (S n) [(name, Some a)]
      | None => None
      end
    | RIdent name :: r => cons (TAtom n) r (S n) [(name, None)]
    | RLp :: r => cons TL r n []
    | RRp :: r => cons TR r n []
    | RAnd :: r => cons TAnd r n []
    | ROr :: r => cons TOr r n []
    | RNot :: r => cons TNot r n []
    | _ => None                                              (* a literal or comma outside a call *)
    end
  end.

(* Build on ASCII text: 0 = condition, 1 = error *)
Definition build_text (bc : list tok -> list call -> Z) (s : bytes) : Z :=
  match lex s with
  | None => 1
  | Some rts =>
    match group (S (length rts)) rts 0 with
    | None => 1
    | Some (ks, cs) => bc ks cs
    end
  end.

(* ------------------------------------------------------------------ bfe_util.ParseTime / ParseTimeOfDay on plain text *)
(* plain = printable ASCII without blanks: fmt.Sscanf("%14s%s") / ("%6s%s") then split at a fixed offset, and
   time.Parse with the layouts 20060102150405 / 15:04:05 accepts exactly two-digit (four-digit year) fields in range. *)
Definition plain_text (s : bytes) : bool := forallb (fun c => (33 <=? c) && (c <=? 126)) s.
Definition num_of (ds : bytes) : option Z := if forallb is_dec ds then parse_dec ds else None.
Definition leap_year (y : Z) : bool := (y mod 4 =? 0) && (negb (y mod 100 =? 0) || (y mod 400 =? 0)).
Definition days_in (m y : Z) : Z :=
  if m =? 2 then (if leap_year y then 29 else 28)
  else if (m =? 4) || (m =? 6) || (m =? 9) || (m =? 11) then 30 else 31.
(* days since 1970-01-01 of a proleptic Gregorian date *)
Definition days_from_civil (y m d : Z) : Z :=
  let y' := if m <=? 2 then y - 1 else y in
  let era := y' / 400 in
  let yoe := y' - era * 400 in
  let doy := (153 * (if 2 <? m then m - 3 else m + 9) + 2) / 5 + d - 1 in
  let doe := yoe * 365 + yoe / 4 - yoe / 100 + doy in
  era * 146097 + doe - 719468.
(* TimeZoneMap[strings.ToUpper(zone)]: military letters, J excluded *)
Definition zone_offset (z : bytes) : option Z :=
  match z with
  | [c] =>
    let u := upper_byte c in
    if u =? 90 then Some 0                                               (* Z *)
    else if (65 <=? u) && (u <=? 73) then Some ((u - 64) * 3600)          (* A..I = +1..+9 *)
    else if (75 <=? u) && (u <=? 77) then Some ((u - 65) * 3600)          (* K L M = +10..+12 *)
    else if (78 <=? u) && (u <=? 89) then Some (- (u - 77) * 3600)        (* N..Y = -1..-12 *)
    else None
  | _ => None
  end.
Definition hms (h mi s : bytes) : option Z :=
  match num_of h, num_of mi, num_of s with
  | Some hh, Some mm, Some ss => if (hh <? 24) && (mm <? 60) && (ss <? 60) then Some (hh * 3600 + mm * 60 + ss) else None
  | _, _, _ => None
  end.
(* ParseTime: unix seconds *)
Definition parse_time_plain (s : bytes) : option Z :=
  if Nat.ltb (length s) 15 then None else
  let p := firstn 14 s in
  let zone := skipn 14 s in
  match num_of (firstn 4 p), num_of (firstn 2 (skipn 4 p)), num_of (firstn 2 (skipn 6 p)),
        hms (firstn 2 (skipn 8 p)) (firstn 2 (skipn 10 p)) (firstn 2 (skipn 12 p)), zone_offset zone with
  | Some y, Some m, Some d, Some sod, Some off =>
    if (1 <=? m) && (m <=? 12) && (1 <=? d) && (d <=? days_in m y)
    then Some (days_from_civil y m d * 86400 + sod - off) else None
  | _, _, _, _, _ => None
  end.
(* ParseTimeOfDay: (seconds of the day, zone offset) *)
Definition parse_tod_plain (s : bytes) : option (Z * Z) :=
  if Nat.ltb (length s) 7 then None else
  match hms (firstn 2 s) (firstn 2 (skipn 2 s)) (firstn 2 (skipn 4 s)), zone_offset (skipn 6 s) with
  | Some sod, Some off => Some (sod, off)
  | _, _ => None
  end.

(* the oracle rows produced by the real ParseTime / ParseTimeOfDay must equal the model on plain texts *)
Definition time_row_ok (row : val) : bool :=
  match row with
  | VL [VB t; VZ ok; VZ u] =>
    if plain_text t then
      match parse_time_plain t with Some m => negb (ok =? 0) && (u =? m) | None => ok =? 0 end
    else true
  | _ => false
  end.
Definition tod_row_ok (row : val) : bool :=
  match row with
  | VL [VB t; VZ ok; VZ sc; VZ off] =>
    if plain_text t then
      match parse_tod_plain t with Some (m, o) => negb (ok =? 0) && (sc =? m) && (off =? o) | None => ok =? 0 end
    else true
  | _ => false
  end.
Definition time_rows_ok (orc : val) : bool :=
  match orc with
  | VL (_ :: _ :: _ :: VL tit :: VL tot :: _) => forallb time_row_ok tit && forallb tod_row_ok tot
  | _ => true
  end.

Example parse_time_ex : parse_time_plain (* 20190204203000H *) [50;48;49;57;48;50;48;52;50;48;51;48;48;48;72] = Some 1549283400.
Proof. reflexivity. Qed.
Example parse_time_leap : parse_time_plain (* 19000229000000Z *) [49;57;48;48;48;50;50;57;48;48;48;48;48;48;90] = None
  /\ parse_time_plain (* 20000229000000z *) [50;48;48;48;48;50;50;57;48;48;48;48;48;48;122] = Some 951782400.
Proof. split; reflexivity. Qed.
Example parse_tod_ex : parse_tod_plain (* 235959n *) [50;51;53;57;53;57;110] = Some (86399, -3600).
Proof. reflexivity. Qed.
