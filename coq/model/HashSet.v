(* Model of bfe_util/hash_set (hash_set.go, node_pool.go) over bfe_util/byte_pool (BytePool / FixedBytePool).
   Three levels:
     (A) array model: ha (bucket heads), next, freeNode, length, slot contents -- exactly the Go fields;
     (B) bucket-list model: every bucket is the list of keys of its chain (head first);
     (S) specification: a bounded mathematical set.
   The hash function is not part of the executable model: every operation carries the 64-bit hash of its
   key (hash key mod haSize is computed here). *)
From Coq Require Import List ZArith Bool.
From Bfe Require Import lib.Val.
Import ListNotations.
Open Scope Z_scope.

Definition key := list Z.
Definition key_eqb : key -> key -> bool := list_Z_eqb.
Definition klen (k : key) : Z := Z.of_nat (length k).

Inductive op :=
| OAdd (k : key) (h : Z)
| ORemove (k : key) (h : Z)
| OExist (k : key) (h : Z)
| OLen.

(* observation codes.  Add: 0 ok, 1 set full, 2 key longer than elemSize, 3 pool.Set refused the key
   (fixed-length pool, wrong length), 4 no free node.  Remove: 0 / 2.  Exist: 0 / 1.  Len: n.
   -9: walk fuel exhausted (a cyclic chain; excluded by the invariant) *)

(* nb = haSize, the number of buckets (elemNum * LOAD_FACTOR in NewHashSet; the harness reads it off the real set,
   so the model does not depend on the load factor) *)
Record cfg := { cap : Z; ksz : Z; fixed : bool; nb : Z }.
Definition hsz (c : cfg) : Z := nb c.
Definition bucket (c : cfg) (h : Z) : Z := h mod hsz c.      (* hashFunc(key) % uint64(haSize) *)
Definition validate (c : cfg) (k : key) : bool := klen k <=? ksz c.     (* nodePool.validateKey *)
(* IBytePool.Set succeeds? (index is always in range here) *)
Definition pool_accepts (c : cfg) (k : key) : bool :=
  if fixed c then klen k =? ksz c else klen k <=? ksz c.

(* ================= (A) array model ================= *)
Record st := { ha : list Z; nxt : list Z; free : Z; len : Z; slots : list key }.

Definition getZ (l : list Z) (i : Z) : Z := nth (Z.to_nat i) l (-1).
Definition getK (l : list key) (i : Z) : key := nth (Z.to_nat i) l [].
Fixpoint upd_nat {A} (l : list A) (i : nat) (v : A) : list A :=
  match l, i with
  | [], _ => []
  | _ :: r, O => v :: r
  | x :: r, S i' => x :: upd_nat r i' v
  end.
Definition upd {A} (l : list A) (i : Z) (v : A) : list A := upd_nat l (Z.to_nat i) v.

Fixpoint zseq (start : Z) (n : nat) : list Z :=
  match n with O => [] | S n' => start :: zseq (start + 1) n' end.

(* newHashArray + newNodePool *)
Definition init (c : cfg) : st :=
  let n := Z.to_nat (cap c) in
  {| ha := repeat (-1) (Z.to_nat (hsz c));
     nxt := zseq 1 (n - 1) ++ [-1];
     free := 0; len := 0;
     slots := repeat (if fixed c then repeat 0 (Z.to_nat (ksz c)) else []) n |}.

(* nodePool.exist: for index := head; index != -1; index = array[index].next *)
Fixpoint np_exist (fuel : nat) (s : st) (idx : Z) (k : key) : option bool :=
  match fuel with
  | O => None
  | S f => if idx =? -1 then Some false
           else if key_eqb k (getK (slots s) idx) then Some true
           else np_exist f s (getZ (nxt s) idx) k
  end.

(* nodePool.recyleNode *)
Definition recycle (s : st) (node : Z) : st :=
  {| ha := ha s; nxt := upd (nxt s) node (free s); free := node; len := len s - 1; slots := slots s |}.

(* the "check at the list" loop of nodePool.del *)
Fixpoint del_loop (fuel : nat) (s : st) (pindex : Z) (k : key) : option st :=
  match fuel with
  | O => None
  | S f =>
    let index := getZ (nxt s) pindex in
    if index =? -1 then Some s
    else if key_eqb k (getK (slots s) index) then
      let s1 := {| ha := ha s; nxt := upd (nxt s) pindex (getZ (nxt s) index); free := free s; len := len s;
                   slots := slots s |} in
      Some (recycle s1 index)
    else del_loop f s index k
  end.
(* nodePool.del: returns the state and the new head *)
Definition np_del (fuel : nat) (s : st) (head : Z) (k : key) : option (st * Z) :=
  if key_eqb k (getK (slots s) head) then Some (recycle s head, getZ (nxt s) head)
  else match del_loop fuel s head k with Some s' => Some (s', head) | None => None end.

(* nodePool.add (after the fix: the pool's refusal is propagated and the node goes back to the free list).
   inl code = error *)
Definition np_add (c : cfg) (s : st) (head : Z) (k : key) : (Z + st * Z) :=
  if free s =? -1 then inl 4
  else
    let node := free s in
    (* getFreeNode: freeNode = array[node].next; array[node].next = -1 *)
    let s1 := {| ha := ha s; nxt := upd (nxt s) node (-1); free := getZ (nxt s) node; len := len s;
                 slots := slots s |} in
    if pool_accepts c k then
      inr ({| ha := ha s1; nxt := upd (nxt s1) node head; free := free s1; len := len s1 + 1;
              slots := upd (slots s1) node k |}, node)
    else
      (* array[node].next = freeNode; freeNode = node *)
      inl 3.
(* state after the refused Set: the node is pushed back; equal to the state before (see proofs) *)
Definition np_add_refused_state (s : st) : st :=
  let node := free s in
  let s1 := {| ha := ha s; nxt := upd (nxt s) node (-1); free := getZ (nxt s) node; len := len s;
               slots := slots s |} in
  {| ha := ha s1; nxt := upd (nxt s1) node (free s1); free := node; len := len s1; slots := slots s1 |}.

Definition set_ha (s : st) (b v : Z) : st :=
  {| ha := upd (ha s) b v; nxt := nxt s; free := free s; len := len s; slots := slots s |}.

Definition fuel_of (c : cfg) : nat := S (Z.to_nat (cap c)).

(* one HashSet operation: new state and observation *)
Definition step (c : cfg) (s : st) (o : op) : st * Z :=
  match o with
  | OAdd k h =>
    if cap c <=? len s then (s, 1)                       (* set.Full() *)
    else if negb (validate c k) then (s, 2)
    else
      let b := bucket c h in
      match np_exist (fuel_of c) s (getZ (ha s) b) k with
      | None => (s, -9)
      | Some true => (s, 0)
      | Some false =>
        match np_add c s (getZ (ha s) b) k with
        | inl 3 => (np_add_refused_state s, 3)
        | inl e => (s, e)
        | inr (s', node) => (set_ha s' b node, 0)
        end
      end
  | ORemove k h =>
    if negb (validate c k) then (s, 2)
    else
      let b := bucket c h in
      let head := getZ (ha s) b in
      if head =? -1 then (s, 0)
      else match np_del (fuel_of c) s head k with
           | None => (s, -9)
           | Some (s', nh) => (set_ha s' b nh, 0)
           end
  | OExist k h =>
    if negb (validate c k) then (s, 0)
    else match np_exist (fuel_of c) s (getZ (ha s) (bucket c h)) k with
         | None => (s, -9)
         | Some r => (s, if r then 1 else 0)
         end
  | OLen => (s, len s)
  end.

Fixpoint run_ops (c : cfg) (s : st) (ops : list op) : st * list Z :=
  match ops with
  | [] => (s, [])
  | o :: r => let '(s1, x) := step c s o in let '(s2, xs) := run_ops c s1 r in (s2, x :: xs)
  end.

(* ================= (B) bucket-list model ================= *)
Definition kmem (k : key) (l : list key) : bool := existsb (key_eqb k) l.
Fixpoint kremove (k : key) (l : list key) : list key :=            (* first occurrence *)
  match l with [] => [] | x :: r => if key_eqb k x then r else x :: kremove k r end.

Record bl := { bk : Z -> list key; bn : Z }.
Definition bl_init : bl := {| bk := fun _ => []; bn := 0 |}.
Definition bk_set (f : Z -> list key) (b : Z) (l : list key) : Z -> list key :=
  fun b' => if b' =? b then l else f b'.

Definition bl_step (c : cfg) (s : bl) (o : op) : bl * Z :=
  match o with
  | OAdd k h =>
    if cap c <=? bn s then (s, 1)
    else if negb (validate c k) then (s, 2)
    else let b := bucket c h in
         if kmem k (bk s b) then (s, 0)
         else if pool_accepts c k then ({| bk := bk_set (bk s) b (k :: bk s b); bn := bn s + 1 |}, 0)
         else (s, 3)
  | ORemove k h =>
    if negb (validate c k) then (s, 2)
    else let b := bucket c h in
         if kmem k (bk s b) then ({| bk := bk_set (bk s) b (kremove k (bk s b)); bn := bn s - 1 |}, 0)
         else (s, 0)
  | OExist k h =>
    if negb (validate c k) then (s, 0) else (s, if kmem k (bk s (bucket c h)) then 1 else 0)
  | OLen => (s, bn s)
  end.
Fixpoint bl_run (c : cfg) (s : bl) (ops : list op) : list Z :=
  match ops with
  | [] => []
  | o :: r => let '(s1, x) := bl_step c s o in x :: bl_run c s1 r
  end.

(* ================= (S) specification: bounded set ================= *)
(* Add to a full set fails (even for a member: the code tests Full() first); keys longer than elemSize are
   rejected by every operation; a fixed-length set also refuses to add shorter keys. *)
Definition sp_step (c : cfg) (s : list key) (o : op) : list key * Z :=
  match o with
  | OAdd k _ =>
    if cap c <=? Z.of_nat (length s) then (s, 1)
    else if negb (validate c k) then (s, 2)
    else if kmem k s then (s, 0)
    else if pool_accepts c k then (k :: s, 0)
    else (s, 3)
  | ORemove k _ => if negb (validate c k) then (s, 2) else (kremove k s, 0)
  | OExist k _ => if negb (validate c k) then (s, 0) else (s, if kmem k s then 1 else 0)
  | OLen => (s, Z.of_nat (length s))
  end.
Fixpoint sp_run (c : cfg) (s : list key) (ops : list op) : list Z :=
  match ops with
  | [] => []
  | o :: r => let '(s1, x) := sp_step c s o in x :: sp_run c s1 r
  end.

(* ================= abstraction (A) -> (B), executable ================= *)
(* nodes of the chain starting at idx; None if it does not end within fuel steps or leaves the array *)
Fixpoint walk (fuel : nat) (c : cfg) (s : st) (idx : Z) : option (list Z) :=
  match fuel with
  | O => None
  | S f => if idx =? -1 then Some []
           else if (0 <=? idx) && (idx <? cap c) then
             match walk f c s (getZ (nxt s) idx) with Some r => Some (idx :: r) | None => None end
           else None
  end.
Definition chain_keys (c : cfg) (s : st) (b : Z) : option (list key) :=
  match walk (fuel_of c) c s (getZ (ha s) b) with
  | Some ns => Some (map (getK (slots s)) ns)
  | None => None
  end.

Fixpoint lk_eqb (a b : list key) : bool :=
  match a, b with
  | [], [] => true
  | x :: a', y :: b' => key_eqb x y && lk_eqb a' b'
  | _, _ => false
  end.
Fixpoint sortedZ_insert (x : Z) (l : list Z) : list Z :=
  match l with [] => [x] | y :: r => if x <=? y then x :: l else y :: sortedZ_insert x r end.
Definition sortZ (l : list Z) : list Z := fold_right sortedZ_insert [] l.

(* representation invariant of (A), executable: sizes, every chain and the free list end, together they
   contain every node exactly once, length = number of chained nodes *)
Definition rep_ok (c : cfg) (s : st) : bool :=
  let bs := zseq 0 (Z.to_nat (hsz c)) in
  match all_some (map (fun b => walk (fuel_of c) c s (getZ (ha s) b)) bs), walk (fuel_of c) c s (free s) with
  | Some chains, Some fl =>
    let used := concat chains in
    (Z.of_nat (length (ha s)) =? hsz c) && (Z.of_nat (length (nxt s)) =? cap c)
    && (Z.of_nat (length (slots s)) =? cap c)
    && list_Z_eqb (sortZ (used ++ fl)) (zseq 0 (Z.to_nat (cap c)))
    && (len s =? Z.of_nat (length used))
  | _, _ => false
  end.
(* abs s = b on all buckets *)
Definition abs_eqb (c : cfg) (s : st) (b : bl) : bool :=
  (len s =? bn b) &&
  forallb (fun i => match chain_keys c s i with Some ks => lk_eqb ks (bk b i) | None => false end)
          (zseq 0 (Z.to_nat (hsz c))).

(* run (A) and (B) in lock step; true iff after every operation the observations coincide, (A) satisfies
   its representation invariant and abstracts to (B) *)
Fixpoint sim_check (c : cfg) (s : st) (b : bl) (ops : list op) : bool :=
  match ops with
  | [] => true
  | o :: r =>
    let '(s1, x) := step c s o in
    let '(b1, y) := bl_step c b o in
    (x =? y) && rep_ok c s1 && abs_eqb c s1 b1 && sim_check c s1 b1 r
  end.

(* ================= byte pools used directly (byte_pool.go, fixed_byte_pool.go) =================
   cfg reused: cap = elemNum, ksz = (max) element size, fixed = FixedBytePool.  The pool content is the slot
   list of the array model: Get(i) returns the key of the last successful Set(i, .), initially "" (BytePool,
   length 0) or elemSize zero bytes (FixedBytePool). *)
Inductive pop :=
| PSet (idx : Z) (k : key)
| PGet (idx : Z)
| PMax.
Definition pool_init (c : cfg) : list key := slots (init c).
(* observation: Set -> 0 ok / 1 index out of range / 2 wrong length; Get -> the bytes, or [-2] (Go panics on an
   index >= elemNum: slice bounds out of range); MaxElemSize -> size *)
Definition pool_step (c : cfg) (sl : list key) (o : pop) : list key * val :=
  match o with
  | PSet idx k =>
    if cap c <=? idx then (sl, VZ 1)
    else if pool_accepts c k then (upd sl idx k, VZ 0) else (sl, VZ 2)
  | PGet idx => (sl, if cap c <=? idx then VL [VZ (-2)] else VB (getK sl idx))
  | PMax => (sl, VZ (ksz c))
  end.
Fixpoint pool_run (c : cfg) (sl : list key) (ops : list pop) : list val :=
  match ops with
  | [] => []
  | o :: r => let '(s1, x) := pool_step c sl o in x :: pool_run c s1 r
  end.
(* specification: last successful write wins, per index (association list, newest first) *)
Fixpoint alookup (i : Z) (m : list (Z * key)) (d : key) : key :=
  match m with [] => d | (j, k) :: r => if i =? j then k else alookup i r d end.
Definition pool_default (c : cfg) : key := if fixed c then repeat 0 (Z.to_nat (ksz c)) else [].
Definition psp_step (c : cfg) (m : list (Z * key)) (o : pop) : list (Z * key) * val :=
  match o with
  | PSet idx k =>
    if cap c <=? idx then (m, VZ 1)
    else if pool_accepts c k then ((idx, k) :: m, VZ 0) else (m, VZ 2)
  | PGet idx => (m, if cap c <=? idx then VL [VZ (-2)] else VB (alookup idx m (pool_default c)))
  | PMax => (m, VZ (ksz c))
  end.
Fixpoint psp_run (c : cfg) (m : list (Z * key)) (ops : list pop) : list val :=
  match ops with
  | [] => []
  | o :: r => let '(m1, x) := psp_step c m o in x :: psp_run c m1 r
  end.
Definition pop_ok (o : pop) : bool :=
  match o with PSet idx _ | PGet idx => 0 <=? idx | PMax => true end.
