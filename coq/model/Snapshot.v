(* C15: hot reload of the server data configuration, as a transition system of atomic steps.

   Go code modelled (bfe_server/bfe_confdata_load.go, bfe_server.go, http_conn.go, reverseproxy.go,
   bfe_balance/bal_table.go):

   serverDataConfReload            newServerConf, err := LoadServerDataConf(...)      RLoad    (failure: return, nothing installed)
                                   srv.confLock.Lock()                               RLock
                                   srv.ServerConf = newServerConf                    RSwap
                                   srv.confLock.Unlock()                             RUnlock
                                   setTransports(newServerConf.ClusterTable...)      RSetTransports   (its OWN new conf; before the fix 75a3f5a it
                                                                                                       re-read srv.ServerConf without the lock: a data race)
                                   balTable.SetGslbBasic(newServerConf.ClusterTable) RSetGslbBasic    (uses its OWN new conf)
                                   balTable.SetSlowStart(newServerConf.ClusterTable) RSetSlowStart
   gslbDataConfReload              BalTableConfLoad                                  GLoad
                                   BalTableReload: t.lock.Lock()                     GLockW
                                     delete old entries / build bmNew                GBuild   (t.balTable is half-emptied here)
                                     t.balTable = bmNew ; BackendReload              GAssign
                                     t.lock.Unlock()                                 GUnlockW
                                   confLock.Lock(); serverConf := srv.ServerConf; Unlock   GReadConf
                                   SetGslbBasic(serverConf.ClusterTable)             GSetGslbBasic
                                   SetSlowStart(serverConf.ClusterTable)             GSetSlowStart
   request (conn.readRequest + ReverseProxy.ServeHTTP)
                                   sf := GetServerConf() (RLock; read; RUnlock) ; NewRequest(..., sf)   QSnap
                                   findProduct:  req.SvrDataConf.HostTable.LookupHostTagAndProduct      QLookup (1st)
                                   findCluster:  req.SvrDataConf.HostTable.LookupCluster                QLookup (2nd)
                                   req.SvrDataConf.ClusterTable.Lookup(clusterName)                     QLookup (3rd)
                                   srv.balTable.Lookup(cluster.Name)  (RLock; read; RUnlock)            QBalLookup  (shared table, NOT the snapshot)
                                   proxying ... response                                                QFinish

   A configuration is identified by its version number (Z); "looking something up in configuration v" yields v.
   Every thread is a sequential program; a schedule is a list of thread indices, each entry lets that thread take
   its next atomic step.  A step that is not enabled (Lock while the mutex is held, RLock while a writer holds it)
   leaves the state unchanged (the thread stays blocked), so EVERY list of thread indices is a legal schedule.
   Outside the model (named in props/C15.json): Go memory-model data races, the scheduler, real sockets. *)
From Coq Require Import List ZArith Bool.
Import ListNotations.
Open Scope Z_scope.

(* ---- threads ---- *)
Record reload := mkReload { rl_ver : Z; rl_ok : bool; rl_pc : nat }.          (* pc 0..7 ; 7 = finished *)
Record greload := mkGReload { gl_gen : Z; gl_pc : nat; gl_conf : Z }.        (* pc 0..8 ; 8 = finished; gl_conf = conf read at GReadConf *)
Record request := mkRequest {
  rq_pc : nat;                 (* 0 = before snapshot, 1..3 = lookups done so far + 1, 4 = bal lookup next, 5 = finish next, 6 = done *)
  rq_snap : option Z;          (* the *ServerDataConf stored in the request by NewRequest *)
  rq_seen : list Z;            (* versions observed by the lookups so far, oldest first *)
  rq_bal : option Z;           (* generation of the balancer table in which cluster.Name was looked up *)
  rq_mid : bool                (* true iff that lookup ran on the half-built table inside BalTableReload *)
}.
Inductive thread := TReload (r : reload) | TGslb (g : greload) | TReq (q : request).

Definition new_reload (v : Z) (ok : bool) : thread := TReload (mkReload v ok 0).
Definition new_greload (g : Z) : thread := TGslb (mkGReload g 0 0).
Definition new_request : thread := TReq (mkRequest 0 None [] None false).

(* ---- shared memory ---- *)
Record shared := mkShared {
  conf : Z;            (* srv.ServerConf (version of the object the pointer refers to) *)
  conf_w : bool;       (* srv.confLock held for writing *)
  bal : Z;             (* generation of t.balTable *)
  bal_mid : bool;      (* t.balTable is in the half-built intermediate state of BalTableReload *)
  bal_w : bool;        (* t.lock held for writing *)
  transports : Z;      (* version of the cluster map last given to setTransports *)
  gslb_basic : Z;      (* version whose GslbBasic was last pushed into the balancers *)
  slow_start : Z
}.
Definition init_shared (v g : Z) : shared := mkShared v false g false false v v v.

Record state := mkState { sh : shared; threads : list thread }.

Fixpoint upd_nth {A} (l : list A) (n : nat) (x : A) {struct l} : list A :=
  match l, n with
  | [], _ => []
  | _ :: r, O => x :: r
  | y :: r, S n' => y :: upd_nth r n' x
  end.

Definition set_conf (s : shared) (v : Z) := mkShared v (conf_w s) (bal s) (bal_mid s) (bal_w s) (transports s) (gslb_basic s) (slow_start s).
Definition set_conf_w (s : shared) (b : bool) := mkShared (conf s) b (bal s) (bal_mid s) (bal_w s) (transports s) (gslb_basic s) (slow_start s).
Definition set_bal (s : shared) (g : Z) (mid : bool) := mkShared (conf s) (conf_w s) g mid (bal_w s) (transports s) (gslb_basic s) (slow_start s).
Definition set_bal_w (s : shared) (b : bool) := mkShared (conf s) (conf_w s) (bal s) (bal_mid s) b (transports s) (gslb_basic s) (slow_start s).
Definition set_transports (s : shared) (v : Z) := mkShared (conf s) (conf_w s) (bal s) (bal_mid s) (bal_w s) v (gslb_basic s) (slow_start s).
Definition set_gslb_basic (s : shared) (v : Z) := mkShared (conf s) (conf_w s) (bal s) (bal_mid s) (bal_w s) (transports s) v (slow_start s).
Definition set_slow_start (s : shared) (v : Z) := mkShared (conf s) (conf_w s) (bal s) (bal_mid s) (bal_w s) (transports s) (gslb_basic s) v.

(* ---- one atomic step of each kind of thread ---- *)
Definition step_reload (s : shared) (r : reload) : shared * reload :=
  let next := mkReload (rl_ver r) (rl_ok r) (S (rl_pc r)) in
  match rl_pc r with
  | 0%nat => (* LoadServerDataConf *) if rl_ok r then (s, next) else (s, mkReload (rl_ver r) false 7)
  | 1%nat => (* confLock.Lock *) if conf_w s then (s, r) else (set_conf_w s true, next)
  | 2%nat => (* srv.ServerConf = newServerConf *) (set_conf s (rl_ver r), next)
  | 3%nat => (* confLock.Unlock *) (set_conf_w s false, next)
  | 4%nat => (* setTransports(newServerConf.ClusterTable.ClusterMap()) *) (set_transports s (rl_ver r), next)
  | 5%nat => (* SetGslbBasic(newServerConf.ClusterTable) *) if bal_w s then (s, r) else (set_gslb_basic s (rl_ver r), next)
  | 6%nat => (* SetSlowStart(newServerConf.ClusterTable) : RLock *) if bal_w s then (s, r) else (set_slow_start s (rl_ver r), next)
  | _ => (s, r)
  end.

Definition step_greload (s : shared) (g : greload) : shared * greload :=
  let next := mkGReload (gl_gen g) (S (gl_pc g)) (gl_conf g) in
  match gl_pc g with
  | 0%nat => (s, next)
  | 1%nat => if bal_w s then (s, g) else (set_bal_w s true, next)
  | 2%nat => (set_bal s (bal s) true, next)
  | 3%nat => (set_bal s (gl_gen g) false, next)
  | 4%nat => (set_bal_w s false, next)
  | 5%nat => if conf_w s then (s, g) else (s, mkGReload (gl_gen g) 6 (conf s))
  | 6%nat => if bal_w s then (s, g) else (set_gslb_basic s (gl_conf g), next)
  | 7%nat => if bal_w s then (s, g) else (set_slow_start s (gl_conf g), next)
  | _ => (s, g)
  end.

Definition lookup_in (snap : option Z) : Z := match snap with Some v => v | None => 0 end.

Definition step_request (s : shared) (q : request) : request :=
  match rq_pc q with
  | 0%nat => (* GetServerConf: RLock; read; RUnlock *)
    if conf_w s then q else mkRequest 1 (Some (conf s)) (rq_seen q) (rq_bal q) (rq_mid q)
  | 1%nat | 2%nat | 3%nat => (* lookups go through req.SvrDataConf, never through srv.ServerConf *)
    mkRequest (S (rq_pc q)) (rq_snap q) (rq_seen q ++ [lookup_in (rq_snap q)]) (rq_bal q) (rq_mid q)
  | 4%nat => (* balTable.Lookup: RLock; read; RUnlock *)
    if bal_w s then q else mkRequest 5 (rq_snap q) (rq_seen q) (Some (bal s)) (bal_mid s)
  | 5%nat => mkRequest 6 (rq_snap q) (rq_seen q) (rq_bal q) (rq_mid q)
  | _ => q
  end.

Definition step_thread (s : shared) (t : thread) : shared * thread :=
  match t with
  | TReload r => let '(s', r') := step_reload s r in (s', TReload r')
  | TGslb g => let '(s', g') := step_greload s g in (s', TGslb g')
  | TReq q => (s, TReq (step_request s q))
  end.

Definition step (st : state) (i : nat) : state :=
  match nth_error (threads st) i with
  | Some t => let '(s', t') := step_thread (sh st) t in mkState s' (upd_nth (threads st) i t')
  | None => st
  end.

Definition exec (st : state) (sched : list nat) : state := fold_left step sched st.

(* ---- the property, per request ---- *)
Definition req_consistent (q : request) : bool :=
  match rq_snap q with
  | Some v => forallb (fun x => x =? v) (rq_seen q)
  | None => match rq_seen q with [] => true | _ => false end
  end.
Definition thread_consistent (t : thread) : bool :=
  match t with TReq q => req_consistent q && negb (rq_mid q) | _ => true end.
Definition all_consistent (st : state) : bool := forallb thread_consistent (threads st).

(* ---- a deliberately wrong request (reads srv.ServerConf afresh at every lookup): used only to show that the
        theorems are not vacuous, i.e. that the snapshot discipline is what makes them true ---- *)
Definition step_request_bad (s : shared) (q : request) : request :=
  match rq_pc q with
  | 1%nat | 2%nat | 3%nat => mkRequest (S (rq_pc q)) (rq_snap q) (rq_seen q ++ [conf s]) (rq_bal q) (rq_mid q)
  | _ => step_request s q
  end.

Example snapshot_example :
  let st := mkState (init_shared 1 1) [new_request; new_reload 2 true; new_request] in
  (* request 0 snapshots, the reload runs completely, request 0 finishes, request 2 runs *)
  let st' := exec st [0;1;1;1;1;1;1;1;0;0;0;0;0;2;2;2;2;2;2]%nat in
  map (fun t => match t with TReq q => rq_seen q | _ => [] end) (threads st') = [[1;1;1]; []; [2;2;2]].
Proof. reflexivity. Qed.
