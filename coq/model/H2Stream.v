(* H2Stream: one serve-loop iteration of bfe_http2/server.go as a state machine
   (processHeaders / processTrailerHeaders / newWriterAndRequest decisions / processData /
    processResetStream / closeStream / resetStream / noteBodyRead / wroteFrame for the final
    response frame / RequestBody.Read + Close / pipe.Pipe error state).
   The serve loop is a single goroutine (serveG.Check()), so each client frame and each
   handler message is one atomic step.  Definitions only.  C33 and C35 share this model.

   Every panic site ("internal error ...", "invariant; can't close stream", "negative update",
   nil *pipe.Pipe dereference in endStream) is the outcome [bugout]: event (5,0,1), c_bug = true. *)
From Coq Require Import List ZArith Bool.
From Bfe Require Import lib.Val model.H2Flow.
Import ListNotations.
Open Scope Z_scope.

(* stream states: 1 open, 2 half-closed(remote), 3 closed (= deleted from sc.streams).
   pipe error s_perr: 0 none, 1 io.EOF, 2 any other error. *)
Record stream := mkS {
  s_id : Z; s_state : Z; s_inflow : Z;
  s_body : bool;        (* st.body != nil (request body pipe exists) *)
  s_buf : Z;            (* unread octets in the pipe's FixedBuffer *)
  s_perr : Z;           (* pipe.err *)
  s_rel : bool;         (* pipe.b == nil after Release (default window size only) *)
  s_decl : Z;           (* declBodyBytes (-1 = undeclared) *)
  s_bytes : Z;          (* bodyBytes *)
  s_trailer : bool;     (* gotTrailerHeader *)
  s_run : bool          (* handler goroutine started and not yet returned *)
}.

Record conn := mkC {
  c_max : Z;                 (* maxStreamID *)
  c_streams : list stream;   (* every stream object ever created; in sc.streams iff s_state <> 3 *)
  c_cur : Z;                 (* curOpenStreams *)
  c_adv : Z;                 (* advMaxStreams *)
  c_inflow : Z;              (* sc.inflow.n *)
  c_isw : Z;                 (* initialStreamRecvWindowSize = size of each body buffer *)
  c_dead : bool;             (* GOAWAY sent / connection closed: script stops *)
  c_bug : bool;              (* a panic site was reached *)
  c_p3 : bool                (* ghost: a stream was closed while its pipe still held unread octets (never refunded) *)
}.

Definition evt := (Z * Z * Z)%type.   (* (kind, stream id, value) as printed by the harness *)

Definition set_streams c l := mkC (c_max c) l (c_cur c) (c_adv c) (c_inflow c) (c_isw c) (c_dead c) (c_bug c) (c_p3 c).
Definition set_cinflow c f := mkC (c_max c) (c_streams c) (c_cur c) (c_adv c) f (c_isw c) (c_dead c) (c_bug c) (c_p3 c).
Definition die c := mkC (c_max c) (c_streams c) (c_cur c) (c_adv c) (c_inflow c) (c_isw c) true (c_bug c) (c_p3 c).
Definition bugout (c : conn) : conn * list evt :=
  (mkC (c_max c) (c_streams c) (c_cur c) (c_adv c) (c_inflow c) (c_isw c) true true (c_p3 c), [(5, 0, 1)]).
Definition goaway (c : conn) (code : Z) : conn * list evt := (die c, [(4, c_max c, code)]).
Definition closeconn (c : conn) : conn * list evt := (die c, [(5, 0, 0)]).

Definition set_sinflow st f := mkS (s_id st) (s_state st) f (s_body st) (s_buf st) (s_perr st) (s_rel st) (s_decl st) (s_bytes st) (s_trailer st) (s_run st).
Definition set_buf st b := mkS (s_id st) (s_state st) (s_inflow st) (s_body st) b (s_perr st) (s_rel st) (s_decl st) (s_bytes st) (s_trailer st) (s_run st).
Definition set_perr st e := mkS (s_id st) (s_state st) (s_inflow st) (s_body st) (s_buf st) e (s_rel st) (s_decl st) (s_bytes st) (s_trailer st) (s_run st).
Definition set_trailer st := mkS (s_id st) (s_state st) (s_inflow st) (s_body st) (s_buf st) (s_perr st) (s_rel st) (s_decl st) (s_bytes st) true (s_run st).
Definition set_run st r := mkS (s_id st) (s_state st) (s_inflow st) (s_body st) (s_buf st) (s_perr st) (s_rel st) (s_decl st) (s_bytes st) (s_trailer st) r.
Definition add_body st n := mkS (s_id st) (s_state st) (s_inflow st) (s_body st) (s_buf st + n) (s_perr st) (s_rel st) (s_decl st) (s_bytes st + n) (s_trailer st) (s_run st).

Fixpoint find_stream (id : Z) (l : list stream) : option stream :=
  match l with
  | [] => None
  | st :: r => if s_id st =? id then Some st else find_stream id r
  end.
(* sc.streams[id] : only streams that were not closed are in the Go map *)
Definition find_live (id : Z) (l : list stream) : option stream :=
  match find_stream id l with
  | Some st => if s_state st =? 3 then None else Some st
  | None => None
  end.
Fixpoint upd_stream (st : stream) (l : list stream) : list stream :=
  match l with
  | [] => []
  | x :: r => if s_id x =? s_id st then st :: r else x :: upd_stream st r
  end.
Definition upd (c : conn) (st : stream) : conn := set_streams c (upd_stream st (c_streams c)).

Definition wu_evt (sid n : Z) : list evt := if n =? 0 then [] else [(1, sid, n)].

(* closeStream: None = panic("invariant; can't close stream in state ...") *)
Definition close_stream (c : conn) (st : stream) : option conn :=
  if s_state st =? 3 then None else
  let rel := s_body st && (c_isw c =? init_window) in       (* defaultStreamWindow(): pipe.Release resets the buffer *)
  let st' := mkS (s_id st) 3 (s_inflow st) (s_body st) (if rel then 0 else s_buf st)
                 (if s_body st then 2 else s_perr st) (s_rel st || rel)
                 (s_decl st) (s_bytes st) (s_trailer st) (s_run st) in
  Some (mkC (c_max c) (upd_stream st' (c_streams c)) (c_cur c - 1) (c_adv c) (c_inflow c) (c_isw c)
            (c_dead c) (c_bug c) (c_p3 c || (s_body st && (0 <? s_buf st)))).

(* resetStream(StreamError{id, code}): RST_STREAM is written; the stream is closed if still in the map *)
Definition do_reset (c : conn) (id code : Z) (pre : list evt) : conn * list evt :=
  match find_live id (c_streams c) with
  | Some st => match close_stream c st with
               | Some c' => (c', pre ++ [(2, id, code)])
               | None => bugout c
               end
  | None => (c, pre ++ [(2, id, code)])
  end.

(* stream.endStream(): None = nil pipe dereference *)
Definition end_stream (st : stream) : option stream :=
  if negb (s_body st) then None else
  let mismatch := negb (s_decl st =? -1) && negb (s_decl st =? s_bytes st) in
  let perr := if s_perr st =? 2 then 2 else if mismatch then 2 else 1 in
  Some (mkS (s_id st) 2 (s_inflow st) (s_body st) (s_buf st) perr (s_rel st) (s_decl st) (s_bytes st) (s_trailer st) (s_run st)).

Definition frame_len (dlen pad : Z) : Z := dlen + (if pad <? 0 then 0 else pad + 1).

Definition finish_data (c : conn) (st : stream) (es : bool) (evs : list evt) : conn * list evt :=
  if es then match end_stream st with
             | Some st' => (upd c st', evs)
             | None => bugout c
             end
  else (upd c st, evs).

(* processData, stream not open (or unknown, or trailers seen): connection window enforced and refunded *)
Definition data_closed (c : conn) (id L : Z) : conn * list evt :=
  if c_inflow c <? L then do_reset c id 3 []
  else match flow_take_conn (c_inflow c) L with
       | None => bugout c
       | Some f1 =>
         match send_wu f1 L with
         | None => bugout c
         | Some (f2, inc) => do_reset (set_cinflow c f2) id 5 (wu_evt 0 inc)
         end
       end.

Definition data_open (c : conn) (st : stream) (dlen L : Z) (es : bool) : conn * list evt :=
  let id := s_id st in
  if negb (s_body st) then bugout c                 (* panic("internal error: should have a body in this state") *)
  else if negb (s_decl st =? -1) && (s_decl st <? s_bytes st + dlen) then
    (* more than the declared Content-Length: the connection window is enforced and returned at once,
       body closed, PROTOCOL_ERROR *)
    if c_inflow c <? L then do_reset c id 3 []
    else match flow_take_conn (c_inflow c) L with
         | None => bugout c
         | Some f1 =>
           match send_wu f1 L with
           | None => bugout c
           | Some (f2, inc) => do_reset (upd (set_cinflow c f2) (set_perr st 2)) id 1 (wu_evt 0 inc)
           end
         end
  else if 0 <? L then
    if flow_available (s_inflow st) (c_inflow c) <? L then do_reset c id 3 []
    else match flow_take_stream (s_inflow st) (c_inflow c) L with
         | None => bugout c
         | Some (sf, cf) =>
           let st1 := set_sinflow st sf in
           let c1 := set_cinflow c cf in
           if (0 <? dlen) && (negb (s_perr st =? 0) || s_rel st) then
             (* errClosedPipeWrite: connection-level octets returned, STREAM_CLOSED *)
             match send_wu cf L with
             | None => bugout c
             | Some (cf2, inc) => do_reset (upd (set_cinflow c cf2) st1) id 5 (wu_evt 0 inc)
             end
           else if (0 <? dlen) && (c_isw c <? s_buf st + dlen) then
             (* errWriteFull after a partial copy: same error path *)
             match send_wu cf L with
             | None => bugout c
             | Some (cf2, inc) => do_reset (upd (set_cinflow c cf2) (set_buf st1 (c_isw c))) id 5 (wu_evt 0 inc)
             end
           else
             let st2 := if 0 <? dlen then add_body st1 dlen else st1 in
             let pad := L - dlen in
             match send_wu (c_inflow c1) pad, send_wu (s_inflow st2) pad with
             | Some (cf2, i1), Some (sf2, i2) =>
               finish_data (set_cinflow c1 cf2) (set_sinflow st2 sf2) es (wu_evt 0 i1 ++ wu_evt id i2)
             | _, _ => bugout c
             end
         end
  else finish_data c st es [].

Definition step_data (c : conn) (id dlen pad : Z) (es : bool) : conn * list evt :=
  let L := frame_len dlen pad in
  if id =? 0 then goaway c 1 else
  match find_live id (c_streams c) with
  | Some st => if (s_state st =? 1) && negb (s_trailer st) then data_open c st dlen L es
               else data_closed c id L
  | None => data_closed c id L
  end.

(* kind: 0 = complete POST request pseudo-headers, 1 = no pseudo-headers, 2 = HEAD request,
   3 = CONNECT with :authority only, 4 = CONNECT with :path, 5 = :scheme ftp, 6 = :path missing,
   7 = header block with an upper-case field name (rejected by Framer.readMetaFrame before processHeaders).
   Whether the block arrives as HEADERS or HEADERS+CONTINUATION makes no difference (dec_op). *)
Definition malformed (kind : Z) (es : bool) : bool :=          (* newWriterAndRequest returns a StreamError *)
  (kind =? 1) || ((kind =? 2) && negb es) || ((4 <=? kind) && (kind <=? 6)).
Definition step_headers (c : conn) (id : Z) (es : bool) (kind clen : Z) : conn * list evt :=
  if id =? 0 then goaway c 1 else                             (* Framer: HEADERS on stream 0 *)
  if kind =? 7 then do_reset c id 1 [] else                    (* Framer: StreamError PROTOCOL_ERROR, stream reset if it exists *)
  if negb (id mod 2 =? 1) then goaway c 1 else
  match find_live id (c_streams c) with
  | Some st =>
    if s_state st =? 2 then do_reset c id 5 []                 (* HEADERS on half-closed(remote): STREAM_CLOSED *)
    else if s_trailer st then goaway c 1                       (* "duplicated Trailer" *)
    else
      let st1 := set_trailer st in
      let c1 := upd c st1 in
      if negb es then do_reset c1 id 1 []
      else if negb (kind =? 1) then do_reset c1 id 1 []
      else match end_stream st1 with
           | Some st2 => (upd c st2, [])
           | None => bugout c
           end
  | None =>
    if id <=? c_max c then goaway c 1 else
    let st := mkS id (if es then 2 else 1) (c_isw c) false 0 0 false 0 0 false false in
    let c1 := mkC id (st :: c_streams c) (c_cur c + 1) (c_adv c) (c_inflow c) (c_isw c) (c_dead c) (c_bug c) (c_p3 c) in
    if c_adv c <? c_cur c1 then closeconn c1                   (* maxStreamsError: connection closed without GOAWAY *)
    else if malformed kind es then do_reset c1 id 1 []          (* newWriterAndRequest: malformed *)
    else
      let st2 := mkS id (if es then 2 else 1) (c_isw c) (negb es) 0 0 false
                     (if es then 0 else if 0 <=? clen then clen else -1) 0 false true in
      (upd c1 st2, [])
  end.

Definition step_rst (c : conn) (id : Z) : conn * list evt :=
  if id =? 0 then goaway c 1 else
  match find_live id (c_streams c) with
  | Some st => match close_stream c st with
               | Some c' => (c', [])
               | None => bugout c
               end
  | None => if c_max c <? id then goaway c 1 else (c, [])
  end.

(* handler: one Request.Body.Read with a buffer of k >= 1 octets (not issued when it would block: result -1) *)
Definition step_read (c : conn) (id k : Z) : conn * list evt :=
  match find_stream id (c_streams c) with
  | Some st =>
    if negb (s_run st) then (c, [(6, id, -3)])
    else if negb (s_body st) then (c, [(6, id, 0)])
    else if negb (s_rel st) && (0 <? s_buf st) then
      let n := Z.min k (s_buf st) in
      match send_wu (c_inflow c) n with
      | None => bugout c
      | Some (cf, i1) =>
        if s_state st =? 1 then
          match send_wu (s_inflow st) n with
          | None => bugout c
          | Some (sf, i2) => (upd (set_cinflow c cf) (set_sinflow (set_buf st (s_buf st - n)) sf),
                              wu_evt 0 i1 ++ wu_evt id i2 ++ [(6, id, n)])
          end
        else (upd (set_cinflow c cf) (set_buf st (s_buf st - n)), wu_evt 0 i1 ++ [(6, id, n)])
      end
    else (c, [(6, id, if s_perr st =? 0 then -1 else if s_perr st =? 1 then 0 else -2)])
  | None => (c, [(6, id, -3)])
  end.

Definition step_closebody (c : conn) (id : Z) : conn * list evt :=
  match find_stream id (c_streams c) with
  | Some st =>
    if negb (s_run st) then (c, [(6, id, -3)])
    else if s_body st then (upd c (set_perr st 2), [(6, id, 0)])
    else (c, [(6, id, 0)])
  | None => (c, [(6, id, -3)])
  end.

(* handler returns: final response HEADERS(200, END_STREAM) unless the stream is already closed;
   wroteFrame then closes the stream (RST_STREAM NO_ERROR first when the request side is still open) *)
Definition step_finish (c : conn) (id : Z) : conn * list evt :=
  match find_stream id (c_streams c) with
  | Some st =>
    if negb (s_run st) then (c, [(6, id, -3)])
    else
      let st1 := set_run st false in
      let c1 := upd c st1 in
      if s_state st =? 3 then (c1, [(6, id, 0)])
      else match close_stream c1 st1 with
           | None => bugout c
           | Some c2 => (c2, (if s_state st =? 1 then [(2, id, 0)] else []) ++ [(3, id, 401); (6, id, 0)])
           end
  | None => (c, [(6, id, -3)])
  end.

Inductive op :=
| OHeaders (id : Z) (es : bool) (kind clen : Z)
| OData (id dlen pad : Z) (es : bool)
| ORst (id code : Z)
| OWinUpd (id inc : Z)
| OSettings (v : Z)
| ORead (id k : Z)
| OCloseBody (id : Z)
| OFinish (id : Z)
| OPush (id : Z)
| ORace (id ik a b : Z).      (* handler of [id] returns; while its final frame is in flight in the writer goroutine
                                 the serve loop processes one client frame (ik 3: RST_STREAM(id, code a),
                                 4: WINDOW_UPDATE(a, b), 5: SETTINGS initial window a); then wroteFrame *)

(* startFrameWrite and wroteFrame as two serve-loop steps with a client frame in between.
   wroteFrame (after a frame with END_STREAM): stream still open -> RST_STREAM(NO_ERROR) + closeStream;
   half-closed(remote) -> closeStream; ALREADY CLOSED (reset while the frame was in flight) -> nothing.
   If the stream is closed before the handler returns, its final frame is skipped (nothing in flight). *)
(* the client frame processed while the final frame is in flight: RST_STREAM on the same stream
   (processResetStream: the stream object exists, so its id is not idle; closed already -> ignored);
   WINDOW_UPDATE / SETTINGS touch outbound windows only *)
Definition race_inner (c1 : conn) (id ik : Z) : option conn :=
  if ik =? 3 then
    match find_live id (c_streams c1) with
    | Some s => close_stream c1 s
    | None => Some c1
    end
  else Some c1.

Definition step_race (c : conn) (id ik : Z) : conn * list evt :=
  match find_stream id (c_streams c) with
  | Some st =>
    if negb (s_run st) then (c, [(6, id, -3)])
    else
      let c1 := upd c (set_run st false) in
      match race_inner c1 id ik with
      | None => bugout c
      | Some c2 =>
        if s_state st =? 3 then (c2, [(6, id, 0)])          (* final frame skipped: nothing in flight *)
        else
          match find_stream id (c_streams c2) with
          | Some st2 =>
            if s_state st2 =? 3 then (c2, [(3, id, 401); (6, id, 0)])
            else match close_stream c2 st2 with
                 | None => bugout c
                 | Some c3 => (c3, (if s_state st2 =? 1 then [(2, id, 0)] else []) ++ [(3, id, 401); (6, id, 0)])
                 end
          | None => bugout c
          end
      end
  | None => (c, [(6, id, -3)])
  end.

Definition step (c : conn) (o : op) : conn * list evt :=
  match o with
  | OHeaders id es kind clen => step_headers c id es kind clen
  | OData id dlen pad es => step_data c id dlen pad es
  | ORst id _ => step_rst c id
  | OWinUpd _ _ => (c, [])          (* outbound windows only *)
  | OSettings _ => (c, [])          (* SETTINGS_INITIAL_WINDOW_SIZE of the client: outbound windows only *)
  | ORead id k => step_read c id k
  | OCloseBody id => step_closebody c id
  | OFinish id => step_finish c id
  | OPush _ => goaway c 1
  | ORace id ik _ _ => step_race c id ik
  end.

Definition init_conn (isw maxs : Z) : conn :=
  mkC 0 [] 0 (if maxs =? 0 then 200 else maxs) init_window (if isw =? 0 then init_window else isw)
      false false false.

(* the whole script: after GOAWAY / close the remaining steps are not executed *)
Fixpoint run_ops (c : conn) (ops : list op) {struct ops} : conn * list (list evt) :=
  match ops with
  | [] => (c, [])
  | o :: r =>
    if c_dead c then let '(c', out) := run_ops c r in (c', [] :: out)
    else let '(c1, evs) := step c o in
         let '(c', out) := run_ops c1 r in (c', evs :: out)
  end.

(* well-formed script values (what the generators produce; the theorems assume it) *)
Definition wf_op (o : op) : bool :=
  match o with
  | OHeaders id _ kind clen => (0 <=? id) && (id <? 2147483648) && (0 <=? kind) && (kind <=? 7) && (-1 <=? clen) && (clen <? 1000000000)
  | OData id dlen pad _ => (0 <=? id) && (id <? 2147483648) && (0 <=? dlen) && (-1 <=? pad) && (pad <=? 255) && (frame_len dlen pad <=? 1000000)
  | ORst id code => (0 <=? id) && (id <? 2147483648) && (0 <=? code) && (code <? 256)
  | OWinUpd id inc => (0 <=? id) && (id <? 2147483648) && (1 <=? inc) && (inc <=? 1000)
  | OSettings v => (0 <=? v) && (v <=? 1048576)
  | ORead id k => (0 <=? id) && (1 <=? k) && (k <=? 131072)
  | OCloseBody id => 0 <=? id
  | OFinish id => 0 <=? id
  | OPush id => (1 <=? id) && (id <? 2147483648)
  | ORace id ik a b =>
    (1 <=? id) && (id <? 2147483648) &&
    ((ik =? 3) && (0 <=? a) && (a <? 256)
     || (ik =? 4) && (0 <=? a) && (a <? 2147483648) && (1 <=? b) && (b <=? 1000)
     || (ik =? 5) && (0 <=? a) && (a <=? 1048576))
  end.
Definition wf_cfg (isw maxs : Z) : bool := (0 <=? isw) && (isw <=? 1000000) && (0 <=? maxs) && (maxs <=? 1000).

Example ex_trailer_on_half_closed :
  snd (run_ops (init_conn 0 0) [OHeaders 1 true 0 (-1); OHeaders 1 true 1 (-1)]) = [[]; [(2, 1, 5)]].
Proof. reflexivity. Qed.
Example ex_padding_refund :
  snd (run_ops (init_conn 0 0) [OHeaders 1 false 0 (-1); OData 1 10 5 true; ORead 1 100]) =
  [[]; [(1, 0, 6); (1, 1, 6)]; [(1, 0, 10); (6, 1, 10)]].
Proof. reflexivity. Qed.

(* ---- wire encoding shared by run/RunC33.v and run/RunC35.v (see harness/h2c33/engine.go) ---- *)
Definition dec_op (v : val) : option op :=
  match as_LZ v with
  | Some [o; a; b; c; d] =>
    if o =? 1 then (if (0 <=? c) && (c <? 18) then Some (OHeaders a (negb (b =? 0)) (c mod 10) d) else None)
    else if o =? 2 then Some (OData a b c (negb (d =? 0)))
    else if o =? 3 then Some (ORst a b)
    else if o =? 4 then Some (OWinUpd a b)
    else if o =? 5 then Some (OSettings a)
    else if o =? 6 then Some (ORead a b)
    else if o =? 7 then Some (OCloseBody a)
    else if o =? 8 then Some (OFinish a)
    else if o =? 9 then Some (OPush a)
    else if o =? 10 then Some (ORace a b c d)
    else None
  | _ => None
  end.
Definition dec_script (v : val) : option (Z * Z * list op) :=
  match v with
  | VL [cfg; VL steps] =>
    match as_LZ cfg, all_some (map dec_op steps) with
    | Some [isw; maxs], Some ops =>
      if wf_cfg isw maxs && forallb wf_op ops then Some (isw, maxs, ops) else None
    | _, _ => None
    end
  | _ => None
  end.
Definition enc_evt (e : evt) : val := let '(k, s, x) := e in VL [VZ k; VZ s; VZ x].
Definition enc_out (c : conn) (out : list (list evt)) : val :=
  VL (map (fun l => VL (map enc_evt l)) out ++ [VL [VZ (if c_bug c then 1 else 0)]]).
Definition run_script (v : val) : val :=
  match dec_script v with
  | Some (isw, maxs, ops) => let '(c, out) := run_ops (init_conn isw maxs) ops in enc_out c out
  | None => VErr 0
  end.

(* decoding of an observation (implementation or model) back into events *)
Definition dec_evt (v : val) : option evt :=
  match as_LZ v with Some [k; s; x] => Some (k, s, x) | _ => None end.
Definition dec_obs (v : val) : option (list evt) :=
  match v with VL l => all_some (map dec_evt l) | _ => None end.
Fixpoint split_last {A} (l : list A) : option (list A * A) :=
  match l with
  | [] => None
  | [x] => Some ([], x)
  | x :: r => match split_last r with Some (i, z) => Some (x :: i, z) | None => None end
  end.
Definition dec_out (v : val) : option (list (list evt) * Z) :=
  match v with
  | VL l => match split_last l with
            | Some (obs, VL [VZ p]) =>
              match all_some (map dec_obs obs) with Some o => Some (o, p) | None => None end
            | _ => None
            end
  | _ => None
  end.
