(* C03 — model of bfe_balance/bal_gslb/bal_gslb.go: BalanceGslb.Balance (retry phases, sub-cluster choice by
   hash, blackhole rejection, in-cluster balance, cross-cluster retry through randomSelectExclude) and
   SubCluster.balance, on top of the per-algorithm models Swrr.v (smoothBalance), Wlc.v (leastConns...) and
   the sort/walk of Sticky.v (stickyBalance, subClusterBalance).
   The clock-seeded random index of randomSelectExclude is the explicit argument `n`. *)
From Coq Require Import List ZArith Bool.
From Bfe Require Import model.Swrr model.Wlc model.Sticky.
Import ListNotations.
Open Scope Z_scope.

Definition gsub := (key * Z * list wb)%type.          (* name, gslb weight, backends (id, w x100, current, avail, conn) *)
Definition s_name (s : gsub) : key := fst (fst s).
Definition s_w (s : gsub) : Z := snd (fst s).
Definition s_bs (s : gsub) : list wb := snd s.
Definition is_bh (name : key) : bool := key_eqb name blackhole_name.

Inductive mode := MWrr | MWlc | MSticky.            (* WrrSmooth | WlcSmooth | WrrSticky (SessionSticky) *)
Definition params := (mode * Z * Z)%type.            (* mode, retryMax, crossRetry *)

(* stickyBalance over backends whose AddrInfo order is the numeric order of the ids (harness: same host,
   port 1000+id), weights already scaled *)
Definition gsticky (bs : list wb) (h : Z) : option Z :=
  let ts := map (fun b => ([wb_id b], wb_w b, b_av (fst b))) bs in
  match map (fun t => (t_key t, t_w t)) (filter (fun t => t_av t && (0 <? t_w t)) (sort_targets ts)) with
  | [] => None
  | cs => match walk cs (h mod Sticky.sumw cs) with Some [i] => Some i | _ => None end
  end.

(* SubCluster.balance: error on an empty backend list, else BalanceRR.Balance(algor, key) *)
Definition sub_balance (m : mode) (bs : list wb) (h : Z) : option (Z * list wb) :=
  match bs with
  | [] => None
  | _ =>
    match m with
    | MWrr => match smooth (map fst bs) with
              | Some (p, upd) => Some (p, combine upd (map snd bs))
              | None => None
              end
    | MWlc => wlc_smooth bs
    | MSticky => match gsticky bs h with Some p => Some (p, bs) | None => None end
    end
  end.

Fixpoint find_bs (name : key) (subs : list gsub) : list wb :=
  match subs with
  | [] => []
  | s :: r => if key_eqb (s_name s) name then s_bs s else find_bs name r
  end.
Definition set_bs (subs : list gsub) (name : key) (bs : list wb) : list gsub :=
  map (fun s => if key_eqb (s_name s) name then (s_name s, s_w s, bs) else s) subs.

(* observation of one Balance call:
   code: 0 backend returned, 1 ErrBkNoSubCluster, 2 ErrGslbBlackhole, 3 ErrBkNoBackend, 4 ErrBkNoSubClusterCross,
         5 ErrBkCrossRetryBalance, 6 ErrBkRetryTooMany
   sub = req.Backend.SubclusterName, bid = backend id or -1, retry = req.RetryTime after the call,
   cross = req.Stat.IsCrossCluster, ecode = req.ErrCode (same numbering, 0 = not set) *)
Record obs := mkObs { o_code : Z; o_sub : key; o_bid : Z; o_retry : Z; o_cross : Z; o_ecode : Z }.

(* randomSelectExclude candidates: not the current one, weight >= 0, not the blackhole *)
Definition cross_cands (subs : list gsub) (cur : key) : list gsub :=
  filter (fun s => negb (key_eqb (s_name s) cur) && (0 <=? s_w s) && negb (is_bh (s_name s))) subs.
Definition first_choice (subs : list gsub) (h : Z) : option key :=
  sub_pick (map (fun s => (s_name s, s_w s, true)) subs) h.

Definition balance (p : params) (subs : list gsub) (retry h : Z) (n : nat) : obs * list gsub :=
  let '(m, rmax, cross) := p in
  if retry >? rmax + cross then (mkObs 6 [] (-1) retry 0 0, subs)
  else match first_choice subs h with
  | None => (mkObs 1 [] (-1) retry 0 1, subs)
  | Some name =>
    if is_bh name then (mkObs 2 name (-1) retry 0 2, subs)
    else
      match (if retry <=? rmax then sub_balance m (find_bs name subs) h else None) with
      | Some (b, bs') => (mkObs 0 name b retry 0 0, set_bs subs name bs')
      | None =>
        let retry' := if retry <=? rmax then rmax else retry in
        if cross <=? 0 then (mkObs 3 name (-1) retry' 0 3, subs)
        else
          let xs := cross_cands subs name in
          match nth_error xs (n mod length xs)%nat with
          | None => (mkObs 4 name (-1) retry' 1 4, subs)
          | Some x =>
            match sub_balance m (s_bs x) h with
            | Some (b, bs') => (mkObs 0 (s_name x) b retry' 1 0, set_bs subs (s_name x) bs')
            | None => (mkObs 5 (s_name x) (-1) retry' 1 3, subs)
            end
          end
      end
  end.

(* operations *)
Inductive gop :=
| GBalance (retry h : Z)
| GAvail (sub : key) (id : Z) (a : bool)
| GConn (sub : key) (id n : Z)
| GReload (conf : list (key * Z))                 (* BalanceGslb.Reload(gslb conf) *)
| GBackends (sub : key) (conf : list (Z * Z)).    (* BalanceGslb.BackendReload for one sub-cluster (BalanceRR.Update) *)
(* BalanceRR.Update on backends with connection counts: kept backends keep object state, new ones are appended *)
Definition wupdate (bs : list wb) (conf : list (Z * Z)) : list wb :=
  flat_map (fun b => match lookup (wb_id b) conf with Some w => [(update_weight (fst b) w, snd b)] | None => [] end) bs
  ++ map (fun e => (init_backend e, 0)) (filter (fun e => negb (existsb (Z.eqb (fst e)) (map wb_id bs))) conf).
Definition pos_total (conf : list (key * Z)) : Z := fold_right (fun e a => (if 0 <? snd e then snd e else 0) + a) 0 conf.
(* Reload: kept sub-clusters (new weight, same backends), vanished ones dropped, new ones appended without backends;
   the list is then sorted by name and totalWeight / single / avail are recomputed — the model selects by name and
   weight only, so the order is immaterial.  A conf without positive weight is rejected (never generated: the
   configuration check refuses it before Reload is called) and modelled as no change. *)
Definition g_reload (subs : list gsub) (conf : list (key * Z)) : list gsub :=
  if pos_total conf =? 0 then subs
  else flat_map (fun s => match klookup (s_name s) conf with Some w => [(s_name s, w, s_bs s)] | None => [] end) subs
       ++ map (fun e => (fst e, snd e, [])) (filter (fun e => negb (existsb (key_eqb (fst e)) (map s_name subs))) conf).
Definition g_backends (subs : list gsub) (sub : key) (conf : list (Z * Z)) : list gsub :=
  map (fun s => if key_eqb (s_name s) sub then (s_name s, s_w s, wupdate (s_bs s) conf) else s) subs.
Definition g_set_avail (subs : list gsub) (sub : key) (id : Z) (a : bool) : list gsub :=
  map (fun s => if key_eqb (s_name s) sub then (s_name s, s_w s, set_av (s_bs s) id a) else s) subs.
Definition g_set_conn (subs : list gsub) (sub : key) (id n : Z) : list gsub :=
  map (fun s => if key_eqb (s_name s) sub then (s_name s, s_w s, set_conn (s_bs s) id n) else s) subs.

Definition obs_eqb (a b : obs) : bool :=
  (o_code a =? o_code b) && key_eqb (o_sub a) (o_sub b) && (o_bid a =? o_bid b) &&
  (o_retry a =? o_retry b) && (o_cross a =? o_cross b) && (o_ecode a =? o_ecode b).

(* model run: the random index is 0 *)
Fixpoint grun (p : params) (subs : list gsub) (ops : list gop) : list (option obs) :=
  match ops with
  | [] => []
  | GBalance retry h :: r => let '(o, subs') := balance p subs retry h 0 in Some o :: grun p subs' r
  | GAvail s id a :: r => None :: grun p (g_set_avail subs s id a) r
  | GConn s id n :: r => None :: grun p (g_set_conn subs s id n) r
  | GReload conf :: r => None :: grun p (g_reload subs conf) r
  | GBackends s conf :: r => None :: grun p (g_backends subs s conf) r
  end.
(* trace validation: some random index explains the observation; continue from the state it leads to *)
Fixpoint first_match (p : params) (subs : list gsub) (retry h : Z) (o : obs) (ns : list nat) : option (list gsub) :=
  match ns with
  | [] => None
  | n :: r => let '(o', subs') := balance p subs retry h n in
              if obs_eqb o' o then Some subs' else first_match p subs retry h o r
  end.
Fixpoint gcheck (p : params) (subs : list gsub) (ops : list gop) (os : list (option obs)) : bool :=
  match ops, os with
  | [], [] => true
  | GBalance retry h :: r, Some o :: os' =>
    match first_match p subs retry h o (seq 0 (S (length subs))) with
    | Some subs' => gcheck p subs' r os'
    | None => false
    end
  | GAvail s id a :: r, None :: os' => gcheck p (g_set_avail subs s id a) r os'
  | GConn s id n :: r, None :: os' => gcheck p (g_set_conn subs s id n) r os'
  | GReload conf :: r, None :: os' => gcheck p (g_reload subs conf) r os'
  | GBackends s conf :: r, None :: os' => gcheck p (g_backends subs s conf) r os'
  | _, _ => false
  end.

(* ---------------------------------------------------------------- specification (no credits, no connection counts) *)
Definition pb := (Z * Z * bool)%type.                       (* backend: id, weight, avail *)
Definition psub := (key * Z * list pb)%type.                (* sub-cluster: name, gslb weight, backends *)
Definition pb_elig (b : pb) : bool := snd b && (0 <? snd (fst b)).           (* avail && weight > 0 *)
Definition has_elig (bs : list pb) : bool := existsb pb_elig bs.
Definition elig_in (bs : list pb) (id : Z) : bool := existsb (fun b => pb_elig b && (fst (fst b) =? id)) bs.
Fixpoint pfind (name : key) (subs : list psub) : list pb :=
  match subs with
  | [] => []
  | s :: r => if key_eqb (fst (fst s)) name then snd s else pfind name r
  end.
(* first choice by the C02 specification: owner of the residue among the positive-weight sub-clusters *)
Definition spec_first (subs : list psub) (h : Z) : option key :=
  spec_pick 1 false (map (fun s : psub => (fst (fst s), snd (fst s), true)) subs) h.
(* sub-clusters usable for a cross-cluster retry: not the first choice, weight >= 0, not the blackhole *)
Definition pcross (subs : list psub) (cur : key) : list psub :=
  filter (fun s : psub => negb (key_eqb (fst (fst s)) cur) && (0 <=? snd (fst s)) && negb (is_bh (fst (fst s)))) subs.

(* what a Balance call may return, given the configuration, retry count and hash *)
Definition spec_balance (p : params) (subs : list psub) (retry h : Z) (o : obs) : bool :=
  let '(m, rmax, cross) := p in
  if retry >? rmax + cross then obs_eqb o (mkObs 6 [] (-1) retry 0 0)
  else match spec_first subs h with
  | None => obs_eqb o (mkObs 1 [] (-1) retry 0 1)                      (* no sub-cluster with positive weight *)
  | Some fc =>
    if is_bh fc then obs_eqb o (mkObs 2 fc (-1) retry 0 2)              (* blackhole: always rejected *)
    else
      let fbs := pfind fc subs in
      if (retry <=? rmax) && has_elig fbs
      then (* first choice has an eligible backend: it must be used *)
        (o_code o =? 0) && key_eqb (o_sub o) fc && elig_in fbs (o_bid o) &&
        (o_retry o =? retry) && (o_cross o =? 0) && (o_ecode o =? 0)
      else
        let retry' := if retry <=? rmax then rmax else retry in
        if cross <=? 0 then obs_eqb o (mkObs 3 fc (-1) retry' 0 3)
        else match pcross subs fc with
             | [] => obs_eqb o (mkObs 4 fc (-1) retry' 1 4)
             | xs =>
               (* some other non-negative, non-blackhole sub-cluster; a backend iff that one has an eligible one *)
               existsb (fun x : psub => key_eqb (fst (fst x)) (o_sub o) &&
                                 (if has_elig (snd x)
                                  then (o_code o =? 0) && elig_in (snd x) (o_bid o) && (o_ecode o =? 0)
                                  else (o_code o =? 5) && (o_bid o =? -1) && (o_ecode o =? 3))) xs &&
               (o_retry o =? retry') && (o_cross o =? 1)
             end
  end.
Definition p_set_avail (subs : list psub) (sub : key) (id : Z) (a : bool) : list psub :=
  map (fun s : psub => if key_eqb (fst (fst s)) sub
                then (fst (fst s), snd (fst s), map (fun b : pb => if fst (fst b) =? id then (fst (fst b), snd (fst b), a) else b) (snd s))
                else s) subs.
Definition pupdate (bs : list pb) (conf : list (Z * Z)) : list pb :=
  flat_map (fun b : pb => match lookup (fst (fst b)) conf with Some w => [(fst (fst b), 100 * w, snd b)] | None => [] end) bs
  ++ map (fun e : Z * Z => (fst e, 100 * snd e, true))
         (filter (fun e => negb (existsb (Z.eqb (fst e)) (map (fun b : pb => fst (fst b)) bs))) conf).
Definition p_reload (subs : list psub) (conf : list (key * Z)) : list psub :=
  if pos_total conf =? 0 then subs
  else flat_map (fun s : psub => match klookup (fst (fst s)) conf with Some w => [(fst (fst s), w, snd s)] | None => [] end) subs
       ++ map (fun e : key * Z => (fst e, snd e, []))
              (filter (fun e => negb (existsb (key_eqb (fst e)) (map (fun s : psub => fst (fst s)) subs))) conf).
Definition p_backends (subs : list psub) (sub : key) (conf : list (Z * Z)) : list psub :=
  map (fun s : psub => if key_eqb (fst (fst s)) sub then (fst (fst s), snd (fst s), pupdate (snd s) conf) else s) subs.
Fixpoint gspec (p : params) (subs : list psub) (ops : list gop) (os : list (option obs)) : bool :=
  match ops, os with
  | [], [] => true
  | GBalance retry h :: r, Some o :: os' => spec_balance p subs retry h o && gspec p subs r os'
  | GAvail s id a :: r, None :: os' => gspec p (p_set_avail subs s id a) r os'
  | GConn _ _ _ :: r, None :: os' => gspec p subs r os'
  | GReload conf :: r, None :: os' => gspec p (p_reload subs conf) r os'
  | GBackends s conf :: r, None :: os' => gspec p (p_backends subs s conf) r os'
  | _, _ => false
  end.

Definition g_init (conf : list (key * Z * list (Z * Z))) : list gsub :=
  map (fun s => (fst (fst s), snd (fst s), winit (snd s))) conf.
(* backend weights as BackendRR.Init stores them (configured x100) *)
Definition p_init (conf : list (key * Z * list (Z * Z))) : list psub :=
  map (fun s => (fst (fst s), snd (fst s), map (fun e : Z * Z => (fst e, 100 * snd e, true)) (snd s))) conf.

(* ---------------------------------------------------------------- slow start on one BalanceRR (input kind 9):
   Balance(WrrSmooth / WlcSmooth) with SetSlowStart, Update, SetAvail, SetRestart and the clock seam, built on the
   slow-start layer of Swrr.v; all connection counts are 0 (every eligible backend is a least-connection candidate) *)
Definition wlc_bal (bs : list backend) : option (Z * list backend) :=
  match wlc_smooth (map (fun b => (b, 0)) bs) with Some (p, l) => Some (p, map fst l) | None => None end.
Definition wlc_fol (bs : list backend) (p : Z) : option (list backend) :=
  match wlc_smooth_follow (map (fun b => (b, 0)) bs) p with Some l => Some (map fst l) | None => None end.
Definition bal_of (wlc : bool) := if wlc then wlc_bal else smooth.
Definition fol_of (wlc : bool) := if wlc then wlc_fol else smooth_follow.

(* ---------------------------------------------------------------- C04 / C02 through BalanceGslb (C04 input kind 8):
   the backend returned by BalanceGslb.Balance — from the first-choice OR the cross-cluster sub-cluster — must, in
   WLC mode, minimise connections/weight among the eligible backends of the reported sub-cluster; in sticky mode it
   must be the hash owner among them; in WRR mode it must be eligible.  Credits are never used here. *)
Definition wcfg_of (bs : list wb) : wcfg := map (fun b => (wb_id b, wb_w b, b_av (fst b), wb_conn b)) bs.
Definition c04_ok (m : mode) (subs : list gsub) (h : Z) (o : obs) : bool :=
  if o_code o =? 0 then
    let bs := find_bs (o_sub o) subs in
    match m with
    | MWlc => minimal_pick (wcfg_of bs) (o_bid o)
    | MSticky => match gsticky bs h with Some p => p =? o_bid o | None => false end
    | MWrr => existsb (fun b => wb_elig b && (wb_id b =? o_bid o)) bs
    end
  else true.
Fixpoint gspec8 (p : params) (subs : list gsub) (ops : list gop) (os : list (option obs)) : bool :=
  match ops, os with
  | [], [] => true
  | GBalance retry h :: r, Some o :: os' => c04_ok (fst (fst p)) subs h o && gspec8 p subs r os'
  | GAvail s id a :: r, None :: os' => gspec8 p (g_set_avail subs s id a) r os'
  | GConn s id n :: r, None :: os' => gspec8 p (g_set_conn subs s id n) r os'
  | GReload conf :: r, None :: os' => gspec8 p (g_reload subs conf) r os'
  | GBackends s conf :: r, None :: os' => gspec8 p (g_backends subs s conf) r os'
  | _, _ => false
  end.
