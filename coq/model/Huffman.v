(* Model of bfe_http2/hpack/huffman.go (C30, C31).
   - code table: gen/HpackTables.v (regenerated from tables.go on every run)
   - encoder: AppendHuffmanString / HuffmanEncodeLength as "concatenate code bits, pad with ones, pack"
   - SPECIFICATION decoder (RFC 7541 section 5.2): bit_decode, a greedy walk over the code table
   - IMPLEMENTATION decoder: the 256-ary trie built by the transcription of addDecoderNode, walked by
     the transcription of huffmanDecode (cur / cbits / sbits), as in the code after the fix
     "fix: hpack huffmanDecode rejects EOS ..." (port of the x/net tail).
   Bytes are Z in [0,256); bits are bool, most significant first. *)
From Coq Require Import List ZArith Bool Lia.
From Bfe Require Import lib.Val lib.Bytes gen.HpackTables.
Import ListNotations.
Open Scope Z_scope.

Definition code_of (c : Z) : Z := nth (Z.to_nat c) huffman_codes 0.
Definition len_of (c : Z) : Z := nth (Z.to_nat c) huffman_code_len 0.

(* the low n bits of v, most significant first *)
Fixpoint bits_msb (n : nat) (v : Z) : list bool :=
  match n with O => [] | S k => Z.testbit v (Z.of_nat k) :: bits_msb k v end.
Definition code_bits (c : Z) : list bool := bits_msb (Z.to_nat (len_of c)) (code_of c).
Definition eos_bits : list bool := repeat true 30.
Definition byte_bits (b : Z) : list bool := bits_msb 8 b.
Definition bytes_bits (l : bytes) : list bool := flat_map byte_bits l.

Definition b2z (b : bool) : Z := if b then 1 else 0.
Fixpoint bits_val (l : list bool) (acc : Z) : Z :=
  match l with [] => acc | b :: r => bits_val r (2 * acc + b2z b) end.
Fixpoint pack_bits (l : list bool) : bytes :=
  match l with
  | b7 :: b6 :: b5 :: b4 :: b3 :: b2 :: b1 :: b0 :: r => bits_val [b7; b6; b5; b4; b3; b2; b1; b0] 0 :: pack_bits r
  | _ => []
  end.

Definition symbols : list Z := map Z.of_nat (seq 0 256).

(* ---------------- encoder ---------------- *)
Definition huff_bits (s : bytes) : list bool := flat_map code_bits s.
Definition pad_len (n : nat) : nat := ((8 - n mod 8) mod 8)%nat.
(* AppendHuffmanString(nil, s): codes back to back, last byte filled with the high bits of EOS (ones) *)
Definition huff_encode (s : bytes) : bytes :=
  let bits := huff_bits s in pack_bits (bits ++ repeat true (pad_len (length bits))).
(* HuffmanEncodeLength *)
Definition huff_enc_len (s : bytes) : Z := (fold_left (fun a c => a + len_of c) s 0 + 7) / 8.

(* ---------------- specification decoder (RFC 7541, 5.2) ---------------- *)
Fixpoint is_prefix_b (p l : list bool) : bool :=
  match p, l with
  | [], _ => true
  | x :: p', y :: l' => Bool.eqb x y && is_prefix_b p' l'
  | _ :: _, [] => false
  end.
(* the symbol whose code is a prefix of the remaining bits (unique: the code is prefix-free) *)
Definition code_table : list (Z * list bool) := map (fun c => (c, code_bits c)) symbols.
Definition sym_match (bits : list bool) : option Z :=
  option_map fst (find (fun cb => is_prefix_b (snd cb) bits) code_table).
Definition is_padding (bits : list bool) : bool :=
  (length (firstn 8 bits) <? 8)%nat && forallb (fun b => b) bits.
(* decode symbols greedily; what remains must be fewer than 8 one-bits (a proper prefix of EOS).
   A complete EOS, an incomplete symbol, over-long padding and zero bits in the padding all end in None. *)
Fixpoint bit_decode (fuel : nat) (bits : list bool) : option bytes :=
  if is_padding bits then Some []
  else match fuel with
       | O => None
       | S f => match sym_match bits with
                | Some c => option_map (cons c) (bit_decode f (skipn (Z.to_nat (len_of c)) bits))
                | None => None
                end
       end.
Definition rfc_huff_decode (v : bytes) : option bytes := bit_decode (S (length v * 8)) (bytes_bits v).

(* ---------------- implementation decoder: trie ---------------- *)
Inductive child := CNil | CLeaf (sym len : Z) | CNode (idx : nat).
Definition tnode := list child.          (* always 256 children: newInternalNode *)
Definition trie := list tnode.           (* node 0 is rootHuffmanNode; CNode k points to the k-th node *)
Definition empty_node : tnode := repeat CNil 256.

Definition get_child (t : trie) (n : nat) (i : Z) : option child :=
  match nth_error t n with
  | Some nd => nth_error nd (Z.to_nat i)
  | None => None
  end.
Fixpoint set_nth {A} (l : list A) (k : nat) (x : A) : list A :=
  match l, k with
  | [], _ => []
  | _ :: r, O => x :: r
  | y :: r, S k' => y :: set_nth r k' x
  end.
Definition set_child (t : trie) (n : nat) (i : Z) (c : child) : trie :=
  match nth_error t n with
  | Some nd => set_nth t n (set_nth nd (Z.to_nat i) c)
  | None => t
  end.

(* for codeLen > 8 { codeLen -= 8; i := uint8(code >> codeLen); if children[i]==nil {new}; cur = children[i] } *)
Fixpoint add_walk (fuel : nat) (t : trie) (cur : nat) (code codeLen : Z) : trie * nat * Z :=
  match fuel with
  | O => (t, cur, codeLen)
  | S f =>
    if codeLen >? 8 then
      let codeLen' := codeLen - 8 in
      let i := (code / 2 ^ codeLen') mod 256 in
      match get_child t cur i with
      | Some (CNode m) => add_walk f t m code codeLen'
      | _ => let m := length t in
             add_walk f (set_child t cur i (CNode m) ++ [empty_node]) m code codeLen'
      end
    else (t, cur, codeLen)
  end.
(* shift := 8-codeLen; start := uint8(code<<shift); for i in [start, start+1<<shift) children[i] = leaf *)
Definition fill_leaves (nd : tnode) (start cnt : nat) (c : child) : tnode :=
  firstn start nd ++ repeat c cnt ++ skipn (start + cnt) nd.
Definition add_decoder_node (t : trie) (sym : Z) : trie :=
  let '(t1, cur, codeLen) := add_walk 4 t O (code_of sym) (len_of sym) in
  let shift := 8 - codeLen in
  let start := (code_of sym * 2 ^ shift) mod 256 in
  match nth_error t1 cur with
  | Some nd => set_nth t1 cur (fill_leaves nd (Z.to_nat start) (Z.to_nat (2 ^ shift)) (CLeaf sym codeLen))
  | None => t1
  end.
Definition huff_trie : trie := fold_left add_decoder_node symbols [empty_node].

Inductive hres := HOk (s : bytes) | HErr | HPanic | HFuel.

(* state between input bytes: node, cur, cbits, sbits, output (reversed) *)
Inductive hstep := HGo (n : nat) (cbits sbits : Z) (out : bytes) | HStop (r : hres).

(* for cbits >= 8 { ... } ; cbits <= 15 on entry and drops by >= 1 each round *)
Fixpoint hd_inner (fuel : nat) (t : trie) (n : nat) (cur cbits sbits : Z) (out : bytes) : hstep :=
  match fuel with
  | O => HStop HFuel
  | S f =>
    if cbits >=? 8 then
      let idx := Z.land (Z.shiftr cur (cbits - 8)) 255 in     (* byte(cur >> (cbits - 8)) *)
      match get_child t n idx with
      | None => HStop HPanic                     (* n.children[idx] on a leaf / out of range: cannot happen *)
      | Some CNil => HStop HErr                  (* n == nil => ErrInvalidHuffman *)
      | Some (CLeaf sym len) => hd_inner f t O cur (cbits - len) (cbits - len) (sym :: out)
      | Some (CNode m) => hd_inner f t m cur (cbits - 8) sbits out
      end
    else HGo n cbits sbits out
  end.

(* for _, b := range v { cur = cur<<8 | b; cbits += 8; sbits += 8; inner }.
   Go's cur is a 64-bit uint that silently drops high bits (only the low cbits < 16 bits are ever read). *)
Fixpoint hd_bytes (t : trie) (v : bytes) (n : nat) (cur cbits sbits : Z) (out : bytes) : hstep * Z :=
  match v with
  | [] => (HGo n cbits sbits out, cur)
  | b :: r =>
    let cur' := Z.land (Z.lor (Z.shiftl cur 8) b) (Z.ones 64) in
    match hd_inner 16 t n cur' (cbits + 8) (sbits + 8) out with
    | HGo n' cb sb out' => hd_bytes t r n' cur' cb sb out'
    | HStop x => (HStop x, cur')
    end
  end.

(* for cbits > 0 { n = n.children[byte(cur<<(8-cbits))]; nil => err; internal or codeLen > cbits => break; emit } *)
Fixpoint hd_tail (fuel : nat) (t : trie) (n : nat) (cur cbits sbits : Z) (out : bytes) : hstep :=
  match fuel with
  | O => HStop HFuel
  | S f =>
    if cbits >? 0 then
      match get_child t n (Z.land (Z.shiftl cur (8 - cbits)) 255) with
      | None => HStop HPanic
      | Some CNil => HStop HErr
      | Some (CNode _) => HGo n cbits sbits out
      | Some (CLeaf sym len) =>
        if len >? cbits then HGo n cbits sbits out
        else hd_tail f t O cur (cbits - len) (cbits - len) (sym :: out)
      end
    else HGo n cbits sbits out
  end.

Definition huff_decode_with (t : trie) (v : bytes) : hres :=
  match hd_bytes t v O 0 0 0 [] with
  | (HStop x, _) => x
  | (HGo n cbits sbits out, cur) =>
    match hd_tail 9 t n cur cbits sbits out with
    | HStop x => x
    | HGo _ cbits' sbits' out' =>
      if sbits' >? 7 then HErr                                   (* incomplete symbol or over-long padding *)
      else if Z.land cur (Z.ones cbits') =? Z.ones cbits'         (* padding must be a prefix of EOS *)
           then HOk (rev out') else HErr
    end
  end.
(* huffmanDecode(buf, 0, v) *)
Definition huff_decode (v : bytes) : hres := huff_decode_with huff_trie v.

(* the specification decoder in the result type of the implementation decoder *)
Definition huff_decode_spec (v : bytes) : hres :=
  match rfc_huff_decode v with Some s => HOk s | None => HErr end.

(* ---------------- executable finite facts about the table (used by proofs via vm_compute) ------------- *)
Definition table_wf : bool :=
  (length huffman_codes =? 256)%nat && (length huffman_code_len =? 256)%nat &&
  forallb (fun c => (5 <=? len_of c) && (len_of c <=? 30) && (0 <=? code_of c) && (code_of c <? 2 ^ len_of c)) symbols.
Definition prefix_free : bool :=
  forallb (fun c => forallb (fun d => (c =? d) || negb (is_prefix_b (code_bits c) (code_bits d))) symbols
                    && negb (is_prefix_b (code_bits c) eos_bits) && negb (is_prefix_b eos_bits (code_bits c))) symbols.
(* Kraft sum with EOS, scaled by 2^30: the 256 codes and EOS form a complete prefix code *)
Definition kraft_complete : bool :=
  fold_left (fun a c => a + 2 ^ (30 - len_of c)) symbols 1 =? 2 ^ 30.

Example huff_encode_ex : huff_encode [119;119;119;46;101;120;97;109;112;108;101;46;99;111;109]
  = [241;227;194;229;242;58;107;160;171;144;244;255].      (* RFC 7541 C.4.1 www.example.com *)
Proof. reflexivity. Qed.
