(* C37.  Model of the control-frame accounting of bfe_http2.serverConn:
     server.go     writeFrame (queuedControlFrames++ for frames without a stream), scheduleFrameWrite
                   (needToSendSettingsAck first, then writeSched.take with queuedControlFrames-- for control frames,
                   then the flush pseudo frame), startFrameWrite, wroteFrame, the limit check at the end of every
                   serve-loop iteration, processPing / processSettings / processWindowUpdate (stream window overflow) / processData (unknown stream: connection
                   WINDOW_UPDATE refund + RST_STREAM) / resetStream / processResetStream -> closeStream
     writesched.go add, take (zero queue first), forgetStream
   A frame waiting in the scheduler is a tag (Z): PING ack = its payload id (> 0), connection WINDOW_UPDATE = 0,
   RST_STREAM = - stream id; frames of a stream (HEADERS/DATA from a handler) carry the stream id.
   Outside the model: which stream queue `take` prefers and DATA flow control (C34), GOAWAY with an error code (take()
   disabled, 250 ms shutdown timer), the expiry of the graceful shutdown timer, the skip of frames of reset
   streams in startFrameWrite, and the memory of handler goroutines blocked on their writes. *)
From Coq Require Import List ZArith Bool.
Import ListNotations.
Open Scope Z_scope.

Record conn := mkC {
  zero : list Z;                 (* writeSched.zero, NEWEST FIRST (push = cons, shift = remove last) *)
  sq : list (Z * list Z);        (* writeSched.sq: stream id -> queued frame tags, newest first *)
  queued : Z;                    (* sc.queuedControlFrames *)
  writing : bool;                (* sc.writingFrame *)
  needs_flush : bool;            (* sc.needsFrameFlush *)
  need_ack : bool;               (* sc.needToSendSettingsAck *)
  closed : bool;                 (* serve() has returned: connection closed *)
  started : list Z;              (* ghost: tags of the control frames handed to the writer, newest first
                                    (settings ack = -1000000000, GOAWAY = -2000000000, flush = not logged) *)
  in_goaway : bool;              (* sc.inGoAway, graceful only: goAway(ErrCodeNo) from closeNotifyCh *)
  need_goaway : bool;            (* sc.needToSendGoAway *)
  max_sid : Z                    (* sc.maxStreamID *)
}.

Definition TAG_ACK : Z := -1000000000.
Definition TAG_GOAWAY : Z := -2000000000.

Definition upd_sched (c : conn) (z : list Z) (s : list (Z * list Z)) (q : Z) : conn :=
  mkC z s q (writing c) (needs_flush c) (need_ack c) (closed c) (started c) (in_goaway c) (need_goaway c) (max_sid c).

(* writeSched.add *)
Fixpoint sq_push (s : list (Z * list Z)) (id tag : Z) : list (Z * list Z) :=
  match s with
  | [] => [(id, [tag])]
  | (i, q) :: r => if i =? id then (i, tag :: q) :: r else (i, q) :: sq_push r id tag
  end.
(* writeSched.forgetStream *)
Definition sq_forget (s : list (Z * list Z)) (id : Z) : list (Z * list Z) :=
  filter (fun e => negb (fst e =? id)) s.
Definition sq_total (s : list (Z * list Z)) : Z :=
  fold_right (fun e a => Z.of_nat (length (snd e)) + a) 0 s.

(* startFrameWrite *)
Definition start_write (c : conn) (log : list Z) : conn :=
  mkC (zero c) (sq c) (queued c) true true (need_ack c) (closed c) (log ++ started c) (in_goaway c) (need_goaway c) (max_sid c).

(* scheduleFrameWrite *)
Definition schedule (c : conn) : conn :=
  if writing c then c
  else if need_goaway c then                        (* the GOAWAY frame goes first; it is not taken from the queue *)
    start_write (mkC (zero c) (sq c) (queued c) (writing c) (needs_flush c) (need_ack c) (closed c) (started c)
                     (in_goaway c) false (max_sid c)) [TAG_GOAWAY]
  else if need_ack c then
    start_write (mkC (zero c) (sq c) (queued c) (writing c) (needs_flush c) false (closed c) (started c) (in_goaway c) (need_goaway c) (max_sid c)) [TAG_ACK]
  else match zero c with
       | _ :: _ =>                                   (* take(): the zero queue first; isControl -> counter-- *)
         start_write (upd_sched c (removelast (zero c)) (sq c) (queued c - 1)) [last (zero c) 0]
       | [] =>
         match sq c with
         | (i, q) :: r =>                            (* some stream frame (choice not modelled) *)
           start_write (upd_sched c [] (match removelast q with [] => r | q' => (i, q') :: r end) (queued c)) []
         | [] =>
           if needs_flush c then                     (* flushFrameWriter *)
             mkC (zero c) (sq c) (queued c) true false (need_ack c) (closed c) (started c) (in_goaway c) (need_goaway c) (max_sid c)
           else c
         end
       end.

(* writeFrame: stream 0 = no stream = control frame *)
Definition write_frame (c : conn) (stream tag : Z) : conn :=
  schedule (if stream =? 0 then upd_sched c (tag :: zero c) (sq c) (queued c + 1)
            else upd_sched c (zero c) (sq_push (sq c) stream tag) (queued c)).

(* wroteFrame *)
Definition wrote_frame (c : conn) : conn :=
  schedule (mkC (zero c) (sq c) (queued c) false (needs_flush c) (need_ack c) (closed c) (started c) (in_goaway c) (need_goaway c) (max_sid c)).

(* events = what one iteration of the serve loop's select receives *)
Inductive event :=
| EPing (id : Z)            (* PING without ACK: processPing queues the ack *)
| EPingAck                  (* PING with ACK: ignored *)
| ESettings                 (* SETTINGS without ACK *)
| EDataUnknown (sid : Z)    (* DATA (length > 0) for a stream that is not open: WINDOW_UPDATE refund + RST_STREAM;
                               after a graceful GOAWAY, DATA for streams above maxStreamID is discarded *)
| EHeaders (sid : Z)        (* HEADERS opening stream sid (sid > maxStreamID): ignored once inGoAway *)
| EHandlerFrame (sid tag : Z) (* a handler's frame arriving on wantWriteFrameCh *)
| EHandlerCtl (tag : Z)     (* a handler-originated frame without stream (e.g. after the stream is gone) *)
| ERstStream (sid : Z)      (* RST_STREAM from the client for an open stream: closeStream -> forgetStream *)
| EWindowOverflow (sid : Z) (* WINDOW_UPDATE overflowing the send window of stream sid: for an open stream a stream error
                               FLOW_CONTROL -> resetStream (RST_STREAM queued, then closeStream -> forgetStream);
                               for a stream that is not open: ignored *)
| EGoAway                   (* closeNotifyCh: graceful shutdown, goAway(ErrCodeNo).  The connection stays open for
                               GracefulShutdownTimeout, take() keeps running (goAwayCode == ErrCodeNo), new HEADERS are ignored *)
| EWrote                    (* wroteFrameCh: the writer goroutine finished a frame *)
| ENop.                     (* anything without effect on the scheduler (HEADERS opening a stream, testHookCh, ...) *)

Definition handle (c : conn) (e : event) : conn :=
  match e with
  | EPing id => write_frame c 0 id
  | EPingAck => c
  | ESettings => schedule (mkC (zero c) (sq c) (queued c) (writing c) (needs_flush c) true (closed c) (started c) (in_goaway c) (need_goaway c) (max_sid c))
  | EDataUnknown sid =>
    if in_goaway c && (max_sid c <? sid) then c else write_frame (write_frame c 0 0) 0 (- sid)
  | EHeaders sid =>
    if in_goaway c then c
    else mkC (zero c) (sq c) (queued c) (writing c) (needs_flush c) (need_ack c) (closed c) (started c)
             (in_goaway c) (need_goaway c) sid
  | EHandlerFrame sid tag => write_frame c sid tag
  | EHandlerCtl tag => write_frame c 0 tag
  | ERstStream sid => upd_sched c (zero c) (sq_forget (sq c) sid) (queued c)
  | EWindowOverflow sid =>
    if existsb (fun e => fst e =? sid) (sq c) then
      let c1 := write_frame c 0 (- sid) in upd_sched c1 (zero c1) (sq_forget (sq c1) sid) (queued c1)
    else c
  | EGoAway =>
    if in_goaway c then c
    else schedule (mkC (zero c) (sq c) (queued c) (writing c) (needs_flush c) (need_ack c) (closed c) (started c) true true (max_sid c))
  | EWrote => wrote_frame c
  | ENop => c
  end.

(* one iteration of the serve loop: handle the event, then the limit check *)
Definition iteration (limit : Z) (c : conn) (e : event) : conn :=
  if closed c then c
  else let c' := handle c e in
       if limit <? queued c' then
         mkC (zero c') (sq c') (queued c') (writing c') (needs_flush c') (need_ack c') true (started c') (in_goaway c') (need_goaway c') (max_sid c')
       else c'.

Definition run_events (limit : Z) (c : conn) (evs : list event) : conn := fold_left (iteration limit) evs c.

(* largest number of control frames one event can add *)
Definition per_iteration_max : Z := 2.

(* fresh connection (nothing queued, writer idle) *)
Definition conn0 : conn := mkC [] [] 0 false false false false [] false false 0.
(* the state the flood starts from: the writer goroutine is blocked in the flush of the server's first frames
   because the client does not read (writingFrame = true, needsFrameFlush = false, nothing queued) *)
Definition conn_blocked : conn := mkC [] [] 0 true false false false [] false false 0.
