(* C15, TLS part: hot reload of the TLS tables, as a transition system of atomic steps (companion of model/Snapshot.v).

   Go code modelled (bfe_server/bfe_confdata_load.go tlsConfLoad, bfe_server/tls_multi_cert.go, tls_server_rule.go):

   tlsConfLoad   ServerCertConfLoad; ServerCertParse; TlsRuleConfLoad; ClientCALoad; ClientCRLLoad; CheckTlsConf    pc 0   (any failure: return)
                 srv.MultiCert.Update(certMap, rules):
                    vipCertMap := ... (a rule naming an unknown certificate: return error)                       pc 1
                    nameCertMap := NewNameCertMap(); nameCertMap.Update(certConf)   (a FRESH object, not shared)  pc 2
                    defaultCert := certConf[DefaultCert]  (nil: return error)                                      pc 3
                    m.lock.Lock()                                                                                  pc 4
                    m.vipCertMap = ...; m.nameCertMap = ...; m.defaultCert = ...   (all three inside the lock)     pc 5
                    m.lock.Unlock()                                                                                pc 6
                 srv.TLSServerRule.Update(...): build vip / sni rule maps and defaults                             pc 7
                    m.lock.Lock(); swap all fields; m.lock.Unlock()                                                pc 8, 9, 10
   A thread with tl_direct = true is a bare MultiCertMap.Update call (it starts at pc 1 and ends after pc 6).
   handshake     MultiCertMap.Get: RLock; vip table, then SNI table, then default cert; RUnlock  (one atomic step)  pc 0
                 TLSServerRuleMap.Get (RLock; ...; RUnlock)                                                        pc 1

   A table is identified by the version of the configuration it was built from.  Schedules are arbitrary lists of thread
   indices; a blocked step leaves the state unchanged.  Outside the model: data races, the scheduler, the TLS handshake
   itself. *)
From Coq Require Import List ZArith Bool.
Import ListNotations.
Open Scope Z_scope.

Record tshared := mkTS {
  mc_vip : Z; mc_name : Z; mc_def : Z;   (* MultiCertMap: vip -> cert table, SNI name -> cert table, default cert *)
  mc_w : bool;                           (* MultiCertMap.lock held for writing *)
  tr_rule : Z;                           (* TLSServerRuleMap (vip rules, sni rules, default next protos ...) *)
  tr_w : bool
}.
Definition tl_init (c r : Z) : tshared := mkTS c c c false r false.

(* tl_fail: 0 = nothing fails, 1 = loading / CheckTlsConf fails, 2 = Update rejects a rule naming an unknown certificate,
   3 = Update rejects the conf because the default certificate is missing *)
Record tl_reload := mkTR { tl_ver : Z; tl_fail : Z; tl_direct : bool; tl_pc : nat }.   (* pc 11 = finished *)
Record tl_shake := mkTH { th_pc : nat; th_who : Z; th_vip : Z; th_name : Z; th_def : Z; th_rule : Z }.
Inductive tl_thread := TTReload (r : tl_reload) | TTShake (h : tl_shake).

Definition new_tl_reload (v fail : Z) (direct : bool) : tl_thread := TTReload (mkTR v fail direct (if direct then 1 else 0)).
Definition new_tl_shake (who : Z) : tl_thread := TTShake (mkTH 0 who 0 0 0 0).

Record tl_state := mkTSt { tsh : tshared; tthreads : list tl_thread }.

Fixpoint tl_upd_nth {A} (l : list A) (n : nat) (x : A) {struct l} : list A :=
  match l, n with
  | [], _ => []
  | _ :: r, O => x :: r
  | y :: r, S n' => y :: tl_upd_nth r n' x
  end.

Definition tl_done : nat := 11.

Definition tl_step_reload (s : tshared) (r : tl_reload) : tshared * tl_reload :=
  let goto (k : nat) := mkTR (tl_ver r) (tl_fail r) (tl_direct r) k in
  let next := goto (S (tl_pc r)) in
  match tl_pc r with
  | 0%nat => if tl_fail r =? 1 then (s, goto tl_done) else (s, next)
  | 1%nat => if tl_fail r =? 2 then (s, goto tl_done) else (s, next)
  | 2%nat => (* the new name table is a fresh object: nothing shared changes *) (s, next)
  | 3%nat => if tl_fail r =? 3 then (s, goto tl_done) else (s, next)
  | 4%nat => if mc_w s then (s, r) else (mkTS (mc_vip s) (mc_name s) (mc_def s) true (tr_rule s) (tr_w s), next)
  | 5%nat => (mkTS (tl_ver r) (tl_ver r) (tl_ver r) (mc_w s) (tr_rule s) (tr_w s), next)
  | 6%nat => (mkTS (mc_vip s) (mc_name s) (mc_def s) false (tr_rule s) (tr_w s), if tl_direct r then goto tl_done else next)
  | 7%nat => (s, next)
  | 8%nat => if tr_w s then (s, r) else (mkTS (mc_vip s) (mc_name s) (mc_def s) (mc_w s) (tr_rule s) true, next)
  | 9%nat => (mkTS (mc_vip s) (mc_name s) (mc_def s) (mc_w s) (tl_ver r) (tr_w s), next)
  | 10%nat => (mkTS (mc_vip s) (mc_name s) (mc_def s) (mc_w s) (tr_rule s) false, next)
  | _ => (s, r)
  end.

Definition tl_step_shake (s : tshared) (h : tl_shake) : tl_shake :=
  match th_pc h with
  | 0%nat => if mc_w s then h else mkTH 1 (th_who h) (mc_vip s) (mc_name s) (mc_def s) (th_rule h)
  | 1%nat => if tr_w s then h else mkTH 2 (th_who h) (th_vip h) (th_name h) (th_def h) (tr_rule s)
  | _ => h
  end.

Definition tl_step_thread (s : tshared) (t : tl_thread) : tshared * tl_thread :=
  match t with
  | TTReload r => let '(s', r') := tl_step_reload s r in (s', TTReload r')
  | TTShake h => (s, TTShake (tl_step_shake s h))
  end.

Definition tl_step (st : tl_state) (i : nat) : tl_state :=
  match nth_error (tthreads st) i with
  | Some t => let '(s', t') := tl_step_thread (tsh st) t in mkTSt s' (tl_upd_nth (tthreads st) i t')
  | None => st
  end.

Definition tl_exec (st : tl_state) (sched : list nat) : tl_state := fold_left tl_step sched st.

(* which certificate a connection gets (MultiCertMap.Get), given the versions of the three tables it read.
   Test configurations: versions 1 and 3 have a vip rule for the probe vip, version 2 has none; every version knows the
   probe's SNI name.  who: 0 = no vip, known SNI; 1 = probe vip + known SNI; 2 = no vip, no SNI; 3 = no vip, unknown SNI.
   result (kind, version): kind 1 = the vip rule's certificate, 2 = the SNI certificate, 3 = the default certificate *)
Definition has_vip_rule (v : Z) : bool := negb (v =? 2).
Definition choose_cert (who vipv namev defv : Z) : Z * Z :=
  match who with
  | 0 => (2, namev)
  | 1 => if has_vip_rule vipv then (1, vipv) else (2, namev)
  | _ => (3, defv)
  end.

(* the seeded defect, for non-vacuity only: the shared name table is updated in place at pc 2 *)
Definition tl_step_reload_bad (s : tshared) (r : tl_reload) : tshared * tl_reload :=
  match tl_pc r with
  | 2%nat => (mkTS (mc_vip s) (tl_ver r) (mc_def s) (mc_w s) (tr_rule s) (tr_w s), mkTR (tl_ver r) (tl_fail r) (tl_direct r) 3)
  | _ => tl_step_reload s r
  end.
