(* Model of the HTTP/2 priority tree of bfe_http2/server.go (C36).
   Nodes are stream objects, identified by their stream id (an id is used for at most one object:
   processHeaders requires id > maxStreamID).  `opn` is the key set of the map sc.streams
   (closeStream deletes the key but the object stays reachable through parent pointers of others),
   `par x` is the field (stream x).parent (None = nil), `wt x` the weight field.
   adjustStreamPriority is modelled statement by statement; the unbounded ancestor walk
   `for piter := parent; piter != nil; piter = piter.parent` gets fuel and reports exhaustion. *)
From Coq Require Import List ZArith Bool.
Import ListNotations.
Open Scope Z_scope.

Definition oeqb (a b : option Z) : bool :=
  match a, b with
  | None, None => true
  | Some x, Some y => x =? y
  | _, _ => false
  end.

Definition memZ (x : Z) (l : list Z) : bool := existsb (Z.eqb x) l.

Definition upd {A} (f : Z -> A) (k : Z) (v : A) : Z -> A := fun x => if x =? k then v else f x.

(* for piter := parent; piter != nil; piter = piter.parent { if piter == st { found } }
   Some true = st met, Some false = reached nil, None = fuel exhausted (the Go loop would still be running) *)
Fixpoint walk (par : Z -> option Z) (fuel : nat) (p : option Z) (st : Z) {struct fuel} : option bool :=
  match p with
  | None => Some false
  | Some x =>
    if x =? st then Some true
    else match fuel with
         | O => None
         | S f => walk par f (par x) st
         end
  end.

(* for _, openStream := range streams { if openStream != st && openStream.parent == st.parent { openStream.parent = st } }
   st.parent is not changed by the loop and every stream is visited once, so the result does not depend on
   Go's map iteration order. *)
Definition excl_step (isopen : Z -> bool) (par : Z -> option Z) (st : Z) : Z -> option Z :=
  let P := par st in
  fun x => if isopen x && negb (x =? st) && oeqb (par x) P then Some st else par x.

(* the pointer part of adjustStreamPriority, for an open stream sid; None = walk did not terminate within fuel *)
Definition adjust_par (isopen : Z -> bool) (par : Z -> option Z) (fuel : nat)
           (sid dep : Z) (excl : bool) : option (Z -> option Z) :=
  let parent := if isopen dep then Some dep else None in          (* parent := streams[priority.StreamDep] *)
  if oeqb parent (Some sid) then Some par                          (* if parent == st { return } *)
  else
    match walk par fuel parent sid with
    | None => None
    | Some found =>
      let par1 := match found, parent with
                  | true, Some p => upd par p (par sid)            (* parent.parent = st.parent *)
                  | _, _ => par
                  end in
      let par2 := upd par1 sid parent in                           (* st.parent = parent *)
      Some (if excl && (match parent with Some _ => true | None => dep =? 0 end)
            then excl_step isopen par2 sid else par2)
    end.

Record pst := mkpst { nodes : list Z; opn : list Z; par : Z -> option Z; wt : Z -> Z }.

Definition pst0 : pst := mkpst [] [] (fun _ => None) (fun _ => 0).

Inductive pop :=
| PNew (id : Z)                                  (* processHeaders creates the stream object and inserts it *)
| PClose (id : Z)                                (* closeStream: delete(sc.streams, id) *)
| PAdj (id dep w : Z) (excl : bool).             (* adjustStreamPriority(streams, id, {dep, excl, w}) *)

Definition is_open (s : pst) (x : Z) : bool := memZ x (opn s).

Definition fuel_of (s : pst) : nat := length (nodes s).

Definition pstep (s : pst) (o : pop) : option pst :=
  match o with
  | PNew id =>
    if (id <=? 0) || memZ id (nodes s) then Some s
    else Some (mkpst (id :: nodes s) (id :: opn s) (upd (par s) id None) (upd (wt s) id 0))
  | PClose id =>
    Some (mkpst (nodes s) (filter (fun x => negb (x =? id)) (opn s)) (par s) (wt s))
  | PAdj id dep w excl =>
    if negb (is_open s id) then Some s                               (* st, ok := streams[streamID]; if !ok { return } *)
    else
      let wt' := upd (wt s) id w in                                  (* st.weight = priority.Weight *)
      match adjust_par (is_open s) (par s) (fuel_of s) id dep excl with
      | None => None
      | Some par' => Some (mkpst (nodes s) (opn s) par' wt')
      end
  end.

(* the observable table: one row (id, parent id or 0, weight, open?) per stream object ever created *)
Definition oZ (o : option Z) : Z := match o with Some x => x | None => 0 end.
Definition row (s : pst) (x : Z) : Z * Z * Z * Z :=
  (x, oZ (par s x), wt s x, if is_open s x then 1 else 0).
Definition table (s : pst) : list (Z * Z * Z * Z) := map (row s) (nodes s).

(* run a history; output the table after every step; None = some walk ran out of fuel *)
Fixpoint prun (s : pst) (ops : list pop) {struct ops} : option (list (list (Z * Z * Z * Z))) :=
  match ops with
  | [] => Some []
  | o :: r =>
    match pstep s o with
    | None => None
    | Some s' => match prun s' r with
                 | None => None
                 | Some ts => Some (table s' :: ts)
                 end
    end
  end.

(* ---- executable acyclicity check of an observed table (used by prop_C36) ---- *)
Fixpoint tlookup (t : list (Z * Z)) (x : Z) : option Z :=
  match t with
  | [] => None
  | (k, p) :: r => if k =? x then Some p else tlookup r x
  end.
(* follow parent ids from x; true iff nil (0) or an id without row is reached within fuel steps *)
Fixpoint chain_ends (t : list (Z * Z)) (fuel : nat) (x : Z) {struct fuel} : bool :=
  match tlookup t x with
  | None => true
  | Some p =>
    if p =? 0 then true
    else match fuel with
         | O => false
         | S f => chain_ends t f p
         end
  end.
Definition table_acyclic (t : list (Z * Z)) : bool :=
  forallb (fun r => chain_ends t (length t) (fst r)) t.

Example walk_ex : walk (fun x => if x =? 2 then Some 1 else None) 5 (Some 2) 1 = Some true.
Proof. reflexivity. Qed.

(* ---- specification vocabulary ---- *)
(* x is a proper descendant of z: z is reached from x by following >= 1 parent pointers *)
Inductive reach (par : Z -> option Z) : Z -> Z -> Prop :=
| reach1 x y : par x = Some y -> reach par x y
| reachS x y z : par x = Some y -> reach par y z -> reach par x z.

Definition acyclic (par : Z -> option Z) : Prop := forall x, ~ reach par x x.

(* every parent edge stays inside the set of created stream objects *)
Definition closed_in (nodes : list Z) (par : Z -> option Z) : Prop :=
  forall x y, par x = Some y -> In x nodes /\ In y nodes.

(* state invariant: edges closed in nodes, open streams are nodes, no stream is its own ancestor *)
Definition wfp (s : pst) : Prop :=
  closed_in (nodes s) (par s) /\ incl (opn s) (nodes s) /\ acyclic (par s).

(* states reachable from the empty connection by any history of operations *)
Inductive preach : pst -> Prop :=
| preach0 : preach pst0
| preachS s o s' : preach s -> pstep s o = Some s' -> preach s'.

(* ---- serve-loop entry points (live connection) ----
   processHeaders on a new stream = create the stream object, insert it, and if the HEADERS frame carries the
   PRIORITY flag call adjustStreamPriority(sc.streams, id, f.Priority); processPriority = adjustStreamPriority;
   RST_STREAM from the client = closeStream = delete from sc.streams. *)
Inductive lop :=
| LHeaders (id : Z) (prio : bool) (dep w : Z) (excl : bool)
| LPrio (id dep w : Z) (excl : bool)
| LReset (id : Z).
Definition lexpand (o : lop) : list pop :=
  match o with
  | LHeaders id prio dep w excl => PNew id :: (if prio then [PAdj id dep w excl] else [])
  | LPrio id dep w excl => [PAdj id dep w excl]
  | LReset id => [PClose id]
  end.
Fixpoint psteps (s : pst) (ops : list pop) {struct ops} : option pst :=
  match ops with
  | [] => Some s
  | o :: r => match pstep s o with Some s' => psteps s' r | None => None end
  end.
(* the table after every frame of the script *)
Fixpoint lrun (s : pst) (ops : list lop) {struct ops} : option (list (list (Z * Z * Z * Z))) :=
  match ops with
  | [] => Some []
  | o :: r =>
    match psteps s (lexpand o) with
    | None => None
    | Some s' => match lrun s' r with
                 | None => None
                 | Some ts => Some (table s' :: ts)
                 end
    end
  end.
