(* Model of bfe_tls/conn.go:removePadding (constant-time CBC padding check).
   Bytes are Z in [0,256).  Go's uint is 64 bit; byte(int32(^t) >> 31) is 255 iff bit 31 of t is clear. *)
From Coq Require Import List ZArith Bool.
Import ListNotations.
Open Scope Z_scope.

Definition u64 (z : Z) : Z := z mod 2^64.
Definition msb_mask (t : Z) : Z := if Z.testbit (u64 t) 31 then 0 else 255.

(* good &^= mask&paddingLen ^ mask&b      (byte arithmetic) *)
Definition step_good (good mask p b : Z) : Z :=
  Z.land good (Z.lxor (Z.lxor (Z.land mask p) (Z.land mask b)) 255).

Definition shl8 (g k : Z) : Z := (g * 2^k) mod 256.
(* good &= good<<4; good &= good<<2; good &= good<<1; good = uint8(int8(good) >> 7) *)
Definition fold8 (g : Z) : Z :=
  let g1 := Z.land g (shl8 g 4) in
  let g2 := Z.land g1 (shl8 g1 2) in
  let g3 := Z.land g2 (shl8 g2 1) in
  if Z.testbit g3 7 then 255 else 0.

(* for i := 0; i < toCheck; i++ { b := payload[len-1-i] ... }  : rp is the payload reversed *)
Fixpoint loop (rp : list Z) (p : Z) (i : Z) (n : nat) (good : Z) {struct n} : Z :=
  match n, rp with
  | S n', b :: r => loop r p (i + 1) n' (step_good good (msb_mask (p - i)) p b)
  | _, _ => good
  end.

Definition remove_padding (pl : list Z) : list Z * Z :=
  match pl with
  | [] => (pl, 0)
  | _ =>
    let len := Z.of_nat (length pl) in
    let rp := rev pl in
    let p := hd 0 rp in
    let good0 := msb_mask ((len - 1) - p) in
    let toCheck := if 256 >? len then len else 256 in
    let good1 := loop rp p 0 (Z.to_nat toCheck) good0 in
    let good := fold8 good1 in
    let toRemove := Z.land good p + 1 in
    (firstn (Z.to_nat (len - toRemove)) pl, good)
  end.

(* specification, executable *)
Definition wf_bytes (l : list Z) : bool := forallb (fun b => (0 <=? b) && (b <? 256)) l.
Definition valid_padding (pl : list Z) : bool :=
  match rev pl with
  | [] => false
  | p :: _ => (p + 1 <=? Z.of_nat (length pl)) && forallb (Z.eqb p) (firstn (Z.to_nat (p + 1)) (rev pl))
  end.
Definition spec_remove (pl : list Z) : list Z * Z :=
  match rev pl with
  | [] => (pl, 0)
  | p :: _ => if valid_padding pl then (firstn (length pl - Z.to_nat (p + 1)) pl, 255)
              else (firstn (length pl - 1) pl, 0)
  end.

(* removePaddingSSL30: contents of the padding are not checked *)
Definition remove_padding_ssl30 (pl : list Z) : list Z * Z :=
  match rev pl with
  | [] => (pl, 0)
  | p :: _ => if p + 1 >? Z.of_nat (length pl) then (pl, 0)
              else (firstn (Z.to_nat (Z.of_nat (length pl) - (p + 1))) pl, 255)
  end.

(* halfConn.decrypt, CBC branch, for a record whose MAC over the first clen bytes is valid:
   the remover is chosen by protocol version (SSLv3 = 0x0300 only), and the record is accepted iff the
   remover reports good padding and what remains is exactly content ‖ MAC (macSize bytes). *)
Definition cbc_record_ok (vers clen macSize : Z) (full : list Z) : bool :=
  let '(out, good) := if vers =? 768 then remove_padding_ssl30 full else remove_padding full in
  (good =? 255) && (Z.of_nat (length out) =? clen + macSize).

(* specification of the same verdict *)
Definition spec_record_ok (vers clen macSize : Z) (full : list Z) : bool :=
  match rev full with
  | [] => false
  | p :: _ =>
    let padlen := Z.of_nat (length full) - clen - macSize in
    if vers =? 768 then (p + 1 <=? Z.of_nat (length full)) && (p + 1 =? padlen)
    else valid_padding full && (p + 1 =? padlen)
  end.

(* specification of removePaddingSSL30: accept iff p+1 <= length (contents unchecked), remove p+1; else report bad
   and remove nothing *)
Definition spec_remove_ssl30 (pl : list Z) : list Z * Z :=
  match rev pl with
  | [] => (pl, 0)
  | p :: _ => if p + 1 <=? Z.of_nat (length pl) then (firstn (length pl - Z.to_nat (p + 1)) pl, 255) else (pl, 0)
  end.
