(* C29 model: which client address BFE uses and sends upstream.
   Go code modelled (definitions only, proofs in proofs/ClientAddrProofs.v):
     bfe_modules/mod_trust_clientip  acceptHandler: session.TrustSource := trustTable.Search(peer ip)
                                     (the table search itself is C19's subject; here: membership in the union of the
                                      configured [begin, end] ranges, compared as 16-byte addresses)
     bfe_server/set_client_addr.go   setClientAddr, getFirstSplitFromHeader, parseClientAddr
     bfe_modules/mod_header          setDefaultHeader: modHeaderForwardedAddr (X-Forwarded-For / -Port), setHeaderRealAddr
   External components (Go's net.ParseIP, net.IP.String, of the address texts found in the headers) are a function
   parameter [parse : bytes -> option (ip16 * canonical text)]; the executable run_C29 gets it as a table in the input. *)
From Coq Require Import List ZArith Bool.
From Bfe Require Import lib.Val lib.Bytes model.HopByHop.
Import ListNotations.
Open Scope Z_scope.

Definition ip16 := bytes.

(* bytes.Compare(a, b) <= 0 *)
Definition ip_leb (a b : ip16) : bool := negb (bytes_ltb b a).

Definition range := (ip16 * ip16)%type.
Definition in_range (ip : ip16) (r : range) : bool := ip_leb (fst r) ip && ip_leb ip (snd r).
Definition trusted (table : list range) (ip : ip16) : bool := existsb (in_range ip) table.

Definition s_xff : bytes := [88;45;70;111;114;119;97;114;100;101;100;45;70;111;114].            (* X-Forwarded-For *)
Definition s_xfp : bytes := [88;45;70;111;114;119;97;114;100;101;100;45;80;111;114;116].        (* X-Forwarded-Port *)
Definition s_xrip : bytes := [88;45;82;101;97;108;45;73;112].                                  (* X-Real-Ip *)
Definition s_xfh : bytes := [88;45;70;111;114;119;97;114;100;101;100;45;72;111;115;116].        (* X-Forwarded-Host *)
Definition s_xbfeip : bytes := [88;45;66;102;101;45;73;112].                                    (* X-Bfe-Ip *)
Definition s_xrport : bytes := [88;45;82;101;97;108;45;80;111;114;116].                        (* X-Real-Port *)

(* strconv.Atoi on short inputs: optional sign, then one or more digits *)
Definition atoi (s : bytes) : option Z :=
  match s with
  | 43 :: r => parse_dec r
  | 45 :: r => option_map Z.opp (parse_dec r)
  | _ => parse_dec s
  end.

(* getFirstSplitFromHeader(req, header, ","): "" when the field is absent/empty, else the trimmed first element *)
Definition first_split (k : bytes) (m : hmap) : bytes :=
  match hfirst k m with
  | [] => []
  | s => match split_byte 44 s with e :: _ => trim_sp e | [] => [] end
  end.

(* address as BFE holds it: 16-byte ip, its text (IP.String()), port *)
Record addr := mk_addr { a_ip : ip16; a_text : bytes; a_port : Z }.

Section WithParse.
Variable parse : bytes -> option (ip16 * bytes).      (* net.ParseIP + IP.String() *)

(* setClientAddr *)
Definition set_client_addr (is_trusted : bool) (peer : addr) (m : hmap) : option addr :=
  if negb is_trusted then Some peer
  else
    let ip0 := hfirst s_xrip m in
    let port0 := hfirst s_xrport m in
    let '(cip, cport) := match ip0 with
                         | [] => (first_split s_xff m, first_split s_xfp m)
                         | _ => (ip0, port0)
                         end in
    match cip with
    | [] => None
    | _ => match parse cip with
           | Some (ip, text) => Some (mk_addr ip text (match atoi cport with Some p => p | None => 0 end))
           | None => None
           end
    end.

(* strings.Join(prior, ", ") *)
Definition comma_sp : bytes := [44; 32].
Fixpoint join_cs (l : list bytes) : bytes :=
  match l with
  | [] => []
  | [x] => x
  | x :: r => x ++ comma_sp ++ join_cs r
  end.
Definition append_elem (k v : bytes) (m : hmap) : hmap :=
  match hfind k m with
  | Some prior => hset k (join_cs prior ++ comma_sp ++ v) m
  | None => hset k v m
  end.

(* mod_header setDefaultHeader: modHeaderForwardedAddr (X-Forwarded-Host when the request has a Host, X-Forwarded-For,
   X-Forwarded-Port), setHeaderRealAddr when ClientAddr is set, setHeaderBfeIP (local address of the connection) *)
Definition set_default_header (host local : bytes) (peer : addr) (ca : option addr) (m : hmap) : hmap :=
  let m0 := match host with [] => m | _ => append_elem s_xfh host m end in
  let m1 := append_elem s_xff (a_text peer) m0 in
  let m2 := append_elem s_xfp (dec_of_Z (a_port peer)) m1 in
  let m3 := match ca with
            | Some a => hset s_xrport (dec_of_Z (a_port a)) (hset s_xrip (a_text a) m2)
            | None => m2
            end in
  hset s_xbfeip local m3.

Record result := mk_result { r_trusted : bool; r_caddr : option addr; r_headers : hmap }.

(* the whole path for one request of a connection from [peer] *)
Definition process (host local : bytes) (table : list range) (peer : addr) (pairs : list (bytes * bytes)) : result :=
  let m := hdel s_host (parse_headers pairs) in
  let t := trusted table (a_ip peer) in
  let ca := set_client_addr t peer m in
  mk_result t ca (set_default_header host local peer ca m).

End WithParse.

Definition values_of (k : bytes) (m : hmap) : list bytes :=
  match hfind k m with Some vs => vs | None => [] end.

(* last element of a comma separated list, trimmed *)
Definition last_elem (s : bytes) : bytes := trim_sp (last (split_byte 44 s) []).
