(* C27: model of how BFE frames an HTTP/1 response to a client.
     bfe_server/response.go      response.WriteHeader / write / bodyAllowed / finishRequest
     bfe_server/chunk_writer.go  chunkWriter.writeHeader / Write / close, extraHeader.Write, statusLine
     bfe_server/reverseproxy.go  sendResponse (CopyHeader, WriteHeader, copyResponse -> io.Copy of the body reader)
     bfe_bufio.Writer (512-byte buffer between response and chunkWriter): Write / Flush
     bfe_http/header.go          Header.WriteSubset (sorted keys, value sanitising), HasToken
     bfe_http/transfer.go        response side of readTransfer (what the proxy sees of a backend reply)
   (the request-body related steps of writeHeader are parameters here; they are exercised by C28, KeepAlive.v)
   after the /repo fixes "response.bodyAllowed is status based (1xx, 204, 304), writeHeader never chunks such a response"
   and "a handler-set Transfer-Encoding is replaced, not duplicated, when writeHeader switches to chunking, and no
   Content-Length is computed next to it".
   and a strict reference response parser.  Bytes are Z in [0,256).  Definitions only. *)
From Coq Require Import String Ascii.
From Coq Require Import List ZArith Bool.
From Bfe Require Import lib.Val lib.Bytes.
Import ListNotations.
Open Scope Z_scope.

Definition bs (s : string) : bytes := map (fun a => Z.of_N (N_of_ascii a)) (list_ascii_of_string s).
Definition fields : Type := list (bytes * bytes).

Definition s_cl : bytes := Eval compute in bs "Content-Length".
Definition s_te : bytes := Eval compute in bs "Transfer-Encoding".
Definition s_ct : bytes := Eval compute in bs "Content-Type".
Definition s_conn : bytes := Eval compute in bs "Connection".
Definition s_date : bytes := Eval compute in bs "Date".
Definition s_close : bytes := Eval compute in bs "close".
Definition s_keepalive : bytes := Eval compute in bs "keep-alive".
Definition s_chunked : bytes := Eval compute in bs "chunked".
Definition s_identity : bytes := Eval compute in bs "identity".
Definition s_text_plain_utf8 : bytes := Eval compute in bs "text/plain; charset=utf-8".
Definition s_text_plain : bytes := Eval compute in bs "text/plain".
Definition s_probe : bytes := Eval compute in bs "probe".
Definition crlf : bytes := [13; 10].
Definition colon_sp : bytes := [58; 32].

(* ---------- bfe_http.Header as an association list: keys canonical, values of one key in arrival order ---------- *)
Definition key_is (k : bytes) (kv : bytes * bytes) : bool := bytes_eqb k (fst kv).
Definition get_all (k : bytes) (h : fields) : list bytes := map snd (filter (key_is k) h).
Definition get_first (k : bytes) (h : fields) : bytes := match get_all k h with v :: _ => v | [] => [] end.   (* GetDirect *)
Definition has_key (k : bytes) (h : fields) : bool := existsb (key_is k) h.
Definition del_key (k : bytes) (h : fields) : fields := filter (fun kv => negb (key_is k kv)) h.
Definition is_empty (l : bytes) : bool := match l with [] => true | _ => false end.

Fixpoint bytes_ltb (a b : bytes) : bool :=
  match a, b with
  | [], [] => false
  | [], _ :: _ => true
  | _ :: _, [] => false
  | x :: a', y :: b' => if x <? y then true else if y <? x then false else bytes_ltb a' b'
  end.
Fixpoint insert_field (kv : bytes * bytes) (l : fields) : fields :=
  match l with
  | [] => [kv]
  | x :: r => if bytes_ltb (fst x) (fst kv) then x :: insert_field kv r else kv :: l
  end.
(* stable: keys ascending, values of one key in arrival order (fold from the right, insert before equal keys) *)
Definition sort_fields (l : fields) : fields := fold_right insert_field [] l.
Definition is_trim_byte (b : Z) : bool := (b =? 32) || (b =? 9) || (b =? 10) || (b =? 13).
Definition sanitize_value (v : bytes) : bytes :=
  trim is_trim_byte (map (fun b => if (b =? 10) || (b =? 13) then 32 else b) v).
Definition write_field (kv : bytes * bytes) : bytes := fst kv ++ colon_sp ++ sanitize_value (snd kv) ++ crlf.
Definition write_subset (h : fields) : bytes := concat (map write_field (sort_fields h)).

(* ---------- HasToken ---------- *)
Definition is_token_boundary (b : Z) : bool := (b =? 32) || (b =? 44) || (b =? 9).
(* scan positions; prev = byte before the current position (None at the start) *)
Fixpoint has_token_from (prev : option Z) (v token : bytes) {struct v} : bool :=
  let here :=
    (Z.of_nat (length token) <=? Z.of_nat (length v)) &&
    match prev with None => true | Some p => is_token_boundary p end &&
    match skipn (length token) v with [] => true | e :: _ => is_token_boundary e end &&
    eq_fold (firstn (length token) v) token in
  match v with
  | [] => false
  | x :: r => here || has_token_from (Some x) r token
  end.
Definition has_token (v token : bytes) : bool :=
  match token with
  | [] => false
  | _ => if Z.of_nat (length v) <? Z.of_nat (length token) then false
         else bytes_eqb v token || has_token_from None v token
  end.

(* ---------- strconv.ParseInt(s, 10, 64) restricted to what WriteHeader needs: Some v for a valid value ---------- *)
Definition parse_int (s : bytes) : option Z :=
  let '(neg, d) := match s with
                   | c :: r => if c =? 43 then (false, r) else if c =? 45 then (true, r) else (false, s)
                   | [] => (false, s)
                   end in
  match parse_dec d with
  | None => None
  | Some n => if neg then (if n <=? 2^63 then Some (- n) else None)
              else (if n <? 2^63 then Some n else None)
  end.

(* ---------- statusLine ---------- *)
Definition status_text : list (Z * bytes) := Eval compute in
  map (fun p => (fst p, bs (snd p)))
  [(100, "Continue"); (101, "Switching Protocols");
   (200, "OK"); (201, "Created"); (202, "Accepted"); (203, "Non-Authoritative Information"); (204, "No Content");
   (205, "Reset Content"); (206, "Partial Content");
   (300, "Multiple Choices"); (301, "Moved Permanently"); (302, "Found"); (303, "See Other"); (304, "Not Modified");
   (305, "Use Proxy"); (307, "Temporary Redirect");
   (400, "Bad Request"); (401, "Unauthorized"); (402, "Payment Required"); (403, "Forbidden"); (404, "Not Found");
   (405, "Method Not Allowed"); (406, "Not Acceptable"); (407, "Proxy Authentication Required"); (408, "Request Timeout");
   (409, "Conflict"); (410, "Gone"); (411, "Length Required"); (412, "Precondition Failed");
   (413, "Request Entity Too Large"); (414, "Request URI Too Long"); (415, "Unsupported Media Type");
   (416, "Requested Range Not Satisfiable"); (417, "Expectation Failed"); (418, "I'm a teapot");
   (428, "Precondition Required"); (429, "Too Many Requests"); (431, "Request Header Fields Too Large");
   (500, "Internal Server Error"); (501, "Not Implemented"); (502, "Bad Gateway"); (503, "Service Unavailable");
   (504, "Gateway Timeout"); (505, "HTTP Version Not Supported"); (511, "Network Authentication Required")]%string.
Definition s_status_code : bytes := Eval compute in bs "status code ".
Definition s_http1 : bytes := Eval compute in bs "HTTP/1.".
Fixpoint lookup_text (c : Z) (t : list (Z * bytes)) : option bytes :=
  match t with [] => None | (k, v) :: r => if k =? c then Some v else lookup_text c r end.
Definition reason (code : Z) : bytes :=
  match lookup_text code status_text with Some t => t | None => s_status_code ++ dec_of_Z code end.
(* minor: 0 or 1 (ProtoAtLeast(1,1)) *)
Definition status_line (minor code : Z) : bytes :=
  s_http1 ++ [48 + minor] ++ [32] ++ dec_of_Z code ++ [32] ++ reason code ++ crlf.

(* ---------- the request as far as the response writer looks at it ---------- *)
Record rq := { q_minor : Z;        (* 0 = HTTP/1.0, 1 = HTTP/1.1 *)
               q_head : bool;      (* Method == "HEAD" *)
               q_conn : bytes }.   (* first Connection header value, [] if none *)
Definition wants10ka (q : rq) : bool := (q_minor q =? 0) && has_token (q_conn q) s_keepalive.
Definition wants_close (q : rq) : bool := has_token (q_conn q) s_close.
Definition at_least_11 (q : rq) : bool := 1 <=? q_minor q.

(* bodyAllowedForStatus (after the fix also used by response.bodyAllowed) *)
Definition body_allowed_status (st : Z) : bool :=
  negb (((100 <=? st) && (st <=? 199)) || (st =? 204) || (st =? 304)).
(* response.bodyAllowed before the fix *)
Definition body_allowed_old (st : Z) : bool := negb (st =? 304).

(* ---------- chunkWriter.writeHeader ---------- *)
Definition fixed_date : bytes := Eval compute in bs "Thu, 01 Jan 1970 00:00:00 GMT".
Record hdec := { d_fields : fields;    (* cw.header as written by WriteSubset (after the deletions) *)
                 d_extra : fields;     (* extraHeader: Date, Content-Length, Content-Type, Connection, Transfer-Encoding *)
                 d_head : bytes;       (* status line, header lines, blank line *)
                 d_chunking : bool;    (* cw.chunking *)
                 d_close : bool;       (* w.closeAfterReply after writeHeader *)
                 d_clen : Z;           (* w.contentLength after writeHeader *)
                 d_drain : bool }.     (* the post-handler drain of the request body was attempted *)
Definition write_raw_field (kv : bytes * bytes) : bytes := fst kv ++ colon_sp ++ snd kv ++ crlf.

(* the keep-alive / close decision before the framing decision: (setHeader.connection, closeAfterReply) *)
Definition wh_conn (q : rq) (h : fields) (has_cl0 close0 : bool) : bytes * bool :=
  let close1 := if wants10ka q && negb (is_empty (get_first s_cl h)) && bytes_eqb (get_first s_conn h) s_keepalive
                then false else close0 in
  let '(conn1, close2) :=
      if wants10ka q && (q_head q || has_cl0) then ((if has_key s_conn h then [] else s_keepalive), close1)
      else if negb (at_least_11 q) || wants_close q then ([], true) else ([], close1) in
  (conn1, close2 || bytes_eqb (get_first s_conn h) s_close).
(* the framing decision: (header after deletions, chunking, closeAfterReply, setHeader.transferEncoding) *)
Definition wh_frame (is_head : bool) (status : Z) (no_body_status has_cl at11 : bool) (h2 : fields) (close3 : bool)
  : fields * bool * bool * bytes :=
  if is_head || (status =? 304) then (h2, false, close3, [])
  else if no_body_status then (del_key s_te h2, false, close3, [])
  else if has_cl then (del_key s_te h2, false, close3, [])
  else if at11 then (del_key s_te h2, true, close3, s_chunked)
  else (del_key s_te h2, false, true, []).

Section Writer.
(* DetectContentType on the first body bytes; external (see RunC27: the generators keep to text bodies) *)
Variable sniff : bytes -> bytes.
(* time.Now() rendered by appendTime; the harness rewrites a generated Date value to this constant *)
Variable now : bytes.
(* the /repo fixes for C28 are in force (false = the code before them): a response to a request whose
   "Expect: 100-continue" was never answered with "100 Continue" closes the connection, and so does a response
   to a request whose body could not be drained without error *)
Variable fix_expect : bool.

(* req_body: (req.ContentLength <> 0, Body is an expectContinueReader, WroteContinue,
              draining the rest of the request body fails: corrupt chunked framing or the stream ends inside it) *)
Definition write_header (allowed : Z -> bool) (q : rq) (req_body : bool * bool * bool * bool) (status : Z) (h : fields) (clen : Z)
           (close0 hdone : bool) (p : bytes) : hdec :=
  let is_head := q_head q in
  let set_cl := hdone && negb (status =? 304) && is_empty (get_first s_cl h) && is_empty (get_first s_te h) &&
                (negb is_head || negb (is_empty p)) in
  let clen1 := if set_cl then blen p else clen in
  let has_cl0 := negb (clen1 =? -1) in
  let conn1 := fst (wh_conn q h has_cl0 close0) in
  let close3a := snd (wh_conn q h has_cl0 close0) in
  let rb_nonzero := fst (fst (fst req_body)) in
  let is_expecter := snd (fst (fst req_body)) in
  let wrote_continue := snd (fst req_body) in
  let body_err := snd req_body in
  let drain := rb_nonzero && negb close3a && (negb is_expecter || wrote_continue) in
  let close3 := close3a || (fix_expect && rb_nonzero && is_expecter && negb wrote_continue)
                        || (fix_expect && drain && body_err) in
  let h1 := if status =? 304 then del_key s_te (del_key s_cl (del_key s_ct h)) else h in
  let ctype := if status =? 304 then [] else if has_key s_ct h then [] else sniff p in
  let te := get_first s_te h1 in
  let conflict := has_cl0 && negb (is_empty te) && negb (bytes_eqb te s_identity) in
  let h2 := if conflict then del_key s_cl h1 else h1 in
  let has_cl := has_cl0 && negb conflict in
  let fr := wh_frame is_head status ((status =? 204) || negb (allowed status)) has_cl (at_least_11 q) h2 close3 in
  let h3 := fst (fst (fst fr)) in
  let chunking := snd (fst (fst fr)) in
  let close4 := snd (fst fr) in
  let te_extra := snd fr in
  let h4 := if chunking then del_key s_cl h3 else h3 in
  let fix_conn := close4 && negb (has_token (get_first s_conn h4) s_close) in
  let h5 := if fix_conn then del_key s_conn h4 else h4 in
  let conn2 := if fix_conn && at_least_11 q then s_close else conn1 in
  let extra :=
      (if has_key s_date h1 then [] else [(s_date, now)]) ++
      (if set_cl then [(s_cl, dec_of_Z (blen p))] else []) ++
      (if is_empty ctype then [] else [(s_ct, ctype)]) ++
      (if is_empty conn2 then [] else [(s_conn, conn2)]) ++
      (if is_empty te_extra then [] else [(s_te, te_extra)]) in
  {| d_fields := h5; d_extra := extra;
     d_head := status_line (q_minor q) status ++ write_subset h5 ++ concat (map write_raw_field extra) ++ crlf;
     d_chunking := chunking; d_close := close4; d_clen := clen1; d_drain := drain |}.

(* ---------- response.write: which of the handler's writes are accepted ---------- *)
(* returns (accepted pieces, w.written, a write failed) *)
Fixpoint accept_writes (allowed : bool) (clen written : Z) (ps : list bytes) : list bytes * Z * bool :=
  match ps with
  | [] => ([], written, false)
  | p :: r =>
    if is_empty p then accept_writes allowed clen written r
    else if negb allowed then ([], written, true)
    else let w' := written + blen p in
         if negb (clen =? -1) && (clen <? w') then ([], w', true)
         else let '(acc, w2, e) := accept_writes allowed clen w' r in (p :: acc, w2, e)
  end.

(* ---------- bfe_bufio.Writer of size 512 in front of the chunkWriter ---------- *)
Definition bufsz : Z := 512.
(* one Write(p) with `buffered` pending: returns (writes passed down, new pending); fuel bounds the loop *)
Fixpoint bufio_write (fuel : nat) (buffered p : bytes) : list bytes * bytes :=
  match fuel with
  | O => ([], buffered ++ p)
  | S f =>
    let avail := bufsz - blen buffered in
    if blen p <=? avail then ([], buffered ++ p)
    else if is_empty buffered then ([p], [])
    else let n := Z.to_nat avail in
         let '(ws, b') := bufio_write f [] (skipn n p) in
         ((buffered ++ firstn n p) :: ws, b')
  end.
Fixpoint bufio_writes (buffered : bytes) (ps : list bytes) : list bytes * bytes :=
  match ps with
  | [] => ([], buffered)
  | p :: r => let '(w1, b1) := bufio_write 3 buffered p in
              let '(w2, b2) := bufio_writes b1 r in (w1 ++ w2, b2)
  end.

(* ---------- chunkWriter.Write / close ---------- *)
Definition hex_digit (d : Z) : Z := if d <? 10 then 48 + d else 87 + d.
Fixpoint hex_digits (fuel : nat) (n : Z) (acc : bytes) : bytes :=
  match fuel with
  | O => acc
  | S f => let acc' := hex_digit (n mod 16) :: acc in if n / 16 =? 0 then acc' else hex_digits f (n / 16) acc'
  end.
Definition hex_of_Z (n : Z) : bytes := hex_digits 20 n [].
Definition write_chunk (d : bytes) : bytes := hex_of_Z (blen d) ++ crlf ++ d ++ crlf.
Definition last_chunk : bytes := [48; 13; 10; 13; 10].
Definition body_bytes (is_head chunking : bool) (ws : list bytes) : bytes :=
  if is_head then []
  else if chunking then concat (map write_chunk ws) ++ last_chunk
  else concat ws.

(* ---------- the whole exchange for one response: sendResponse + finishRequest ---------- *)
(* allowed: response.bodyAllowed() for this status (parameter so that the pre-fix code can be stated too).
   flush_first: copyResponse runs with a negative flush interval (the cluster default ResFlushInterval = -1, in force
     once the cluster has been looked up): Flush() before the copy, then Write + Flush per piece
     (bfe_util.CopyWithoutBuffer); otherwise io.CopyBuffer through the 512-byte bufio.
   err: the body reader (or the backend connection) failed after delivering the pieces.
   Result: bytes written to the client, connection closed after the reply, drain attempted. *)
Definition respond_gen (allowed : Z -> bool) (q : rq) (req_body : bool * bool * bool * bool) (flush_first : bool)
           (status : Z) (h : fields) (pieces : list bytes) (err : bool) : bytes * bool * bool :=
  (* h: the header after WriteHeader's cleanup (eff_hdrs) *)
  let clen := match get_first s_cl h with
              | [] => -1
              | cl => match parse_int cl with Some v => if 0 <=? v then v else -1 | None => -1 end
              end in
  let '(acc, written, werr) := accept_writes (allowed status) clen 0 pieces in
  let '(flushed, pending) := if flush_first then (acc, []) else bufio_writes [] acc in
  (* writes reaching the chunkWriter: the flushes during the copy, then finishRequest's Flush of the rest *)
  let ws := flushed ++ (if is_empty pending then [] else [pending]) in
  let hdone := if flush_first then false else match flushed with [] => true | _ => false end in
  let p := if flush_first then [] else match ws with [] => [] | x :: _ => x end in
  let d := write_header allowed q req_body status h clen false hdone p in
  let out := d_head d ++ body_bytes (q_head q) (d_chunking d) ws in
  let short := negb (q_head q) && negb (d_clen d =? -1) && allowed status && negb (d_clen d =? written) in
  (out, d_close d || short || err || werr, d_drain d).
End Writer.

(* response.WriteHeader: an invalid Content-Length (not ParseInt-able, or negative) is dropped from the header that
   will be written (after the /repo fix also from the snapshot cw.header); respond_gen takes the cleaned header *)
Definition eff_hdrs (h : fields) : fields :=
  match get_first s_cl h with
  | [] => h
  | cl => match parse_int cl with
          | Some v => if 0 <=? v then h else del_key s_cl h
          | None => del_key s_cl h
          end
  end.

(* ---------- what the proxy sees of a backend reply (Transport.RoundTrip -> ReadResponse/readTransfer) ---------- *)
(* framing of the reply on the backend connection: 0 Content-Length (declared value given separately),
   1 chunked (the chunks), 2 delimited by connection close.  Reply version is HTTP/1.1. *)
Definition backend_view (is_head : bool) (status : Z) (h : fields) (framing declared : Z) (chunks : list bytes)
           (truncated : bool) : fields * list bytes * bool :=
  let h1 := if bytes_eqb (to_lower (get_first s_conn h)) s_close then del_key s_conn h else h in
  let nobody := is_head || negb (body_allowed_status status) in
  let h2 := if framing =? 0 then h1 ++ [(s_cl, dec_of_Z declared)] else h1 in
  if nobody then (h2, [], false)
  else (h2, filter (fun c => negb (is_empty c)) chunks, truncated).

(* ---------- strict reference response parser (what a careful client does) ---------- *)
Fixpoint split_crlf (s : bytes) : option (bytes * bytes) :=
  match s with
  | [] => None
  | x :: r =>
    if x =? 13 then
      match r with
      | y :: r' => if y =? 10 then Some ([], r') else None
      | [] => None
      end
    else if x =? 10 then None
    else match split_crlf r with Some (l, t) => Some (x :: l, t) | None => None end
  end.
Definition is_tchar (b : Z) : bool :=
  is_digit b || ((65 <=? b) && (b <=? 90)) || ((97 <=? b) && (b <=? 122)) ||
  existsb (Z.eqb b) [33;35;36;37;38;39;42;43;45;46;94;95;96;124;126].
Definition is_token (k : bytes) : bool := match k with [] => false | _ => forallb is_tchar k end.
Definition strict_field (l : bytes) : option (bytes * bytes) :=
  match index_byte 58 l with
  | None => None
  | Some i => let k := firstn i l in
              if is_token k then Some (k, trim is_space (skipn (S i) l)) else None
  end.
Fixpoint strict_fields (fuel : nat) (s : bytes) (acc : fields) {struct fuel} : option (fields * bytes) :=
  match fuel with
  | O => None
  | S f =>
    match split_crlf s with
    | None => None
    | Some ([], r) => Some (rev acc, r)
    | Some (l, r) => match strict_field l with Some kv => strict_fields f r (kv :: acc) | None => None end
    end
  end.
Definition hexv (b : Z) : Z := if b <=? 57 then b - 48 else if b <=? 70 then b - 55 else b - 87.
Definition ishex (b : Z) : bool := is_digit b || ((65 <=? b) && (b <=? 70)) || ((97 <=? b) && (b <=? 102)).
Definition parse_hex_line (l : bytes) : option Z :=
  match l with
  | [] => None
  | _ => if forallb ishex l && (Z.of_nat (length l) <=? 16) then Some (fold_left (fun a b => a * 16 + hexv b) l 0) else None
  end.
(* result: Some (body, rest, complete); complete = false: the stream ended inside the chunked body *)
Fixpoint strict_chunks (fuel : nat) (s acc : bytes) {struct fuel} : option (bytes * bytes * bool) :=
  match fuel with
  | O => None
  | S f =>
    match s with
    | [] => Some (acc, [], false)
    | _ =>
    match split_crlf s with
    | None => None
    | Some (l, r) =>
      match parse_hex_line l with
      | None => None
      | Some n =>
        if n =? 0 then match r with 13 :: 10 :: r' => Some (acc, r', true) | [] => Some (acc, [], false) | _ => None end
        else if blen r <=? n then Some (acc ++ r, [], false)
        else match skipn (Z.to_nat n) r with
             | 13 :: 10 :: r2 => strict_chunks f r2 (acc ++ firstn (Z.to_nat n) r)
             | [13] => Some (acc ++ firstn (Z.to_nat n) r, [], false)
             | _ => None
             end
      end
    end
    end
  end.

(* framing found: 0 none (HEAD / 1xx / 204 / 304), 1 Content-Length, 2 chunked, 3 until close *)
Record presp := { p_minor : Z; p_status : Z; p_fields : fields; p_framing : Z; p_body : bytes;
                  p_complete : bool;   (* false: the stream ended before the announced end of the body *)
                  p_rest : bytes }.
Definition parse_status_line (l : bytes) : option (Z * Z) :=
  if is_prefix s_http1 l then
    match skipn 7 l with
    | m :: 32 :: a :: b :: c :: 32 :: _ =>
      if ((m =? 48) || (m =? 49)) && is_digit a && is_digit b && is_digit c
      then Some (m - 48, (a - 48) * 100 + (b - 48) * 10 + (c - 48)) else None
    | _ => None
    end
  else None.
Definition canon_lower_eq (k name : bytes) : bool := eq_fold k name.
Definition get_all_ci (name : bytes) (h : fields) : list bytes :=
  map snd (filter (fun kv => canon_lower_eq (fst kv) name) h).
(* the body part, once status line and header fields are known *)
Definition ref_parse_body (is_head : bool) (minor status : Z) (fs : fields) (rest : bytes) : option presp :=
  let mk fr b c t := Some {| p_minor := minor; p_status := status; p_fields := fs; p_framing := fr;
                             p_body := b; p_complete := c; p_rest := t |} in
  if is_head || negb (body_allowed_status status) then mk 0 [] true rest
  else
    match get_all_ci s_te fs, get_all_ci s_cl fs with
    | [te], [] =>
      if eq_fold te s_chunked && (minor =? 1) then
        match strict_chunks (S (length rest)) rest [] with
        | Some (b, t, c) => mk 2 b c t
        | None => None
        end
      else None
    | [], [cl] =>
      match parse_dec cl with
      | Some n => if n <=? blen rest then mk 1 (firstn (Z.to_nat n) rest) true (skipn (Z.to_nat n) rest)
                  else mk 1 rest false []
      | None => None
      end
    | [], [] => mk 3 rest true []
    | _, _ => None
    end.
Definition ref_parse (is_head : bool) (s : bytes) : option presp :=
  match split_crlf s with
  | None => None
  | Some (sl, r) =>
    match parse_status_line sl with
    | None => None
    | Some (minor, status) =>
      match strict_fields (S (length r)) r [] with
      | None => None
      | Some (fs, rest) => ref_parse_body is_head minor status fs rest
      end
    end
  end.
